"""Script generator for C11 (TransformedParameter.h, ReparametrizationFunctionWrapper)."""
import random, struct, math


def hx(x):
    return "%016x" % struct.unpack("<Q", struct.pack("<d", float(x)))[0]


def unhx(s):
    if s == "nan":
        return float("nan")
    return struct.unpack("<d", struct.pack("<Q", int(s, 16)))[0]


SHAPES = ["none", "cc", "oo", "co", "oc", "gt", "ge", "lt", "le"]


def rnd_bound(rng):
    r = rng.random()
    if r < 0.25:
        return float(rng.randint(-10, 10))
    if r < 0.5:
        return rng.choice([-1e3, 1e3, 0.0, -1.0, 1.0, 0.5, -0.25, 100.0, -100.0])
    if r < 0.75:
        return rng.uniform(-1e3, 1e3)
    return rng.uniform(-5, 5)


def rnd_interval(rng):
    while True:
        lo = rnd_bound(rng)
        r = rng.random()
        if r < 0.3:
            w = rng.choice([1.0, 2.0, 0.5, 10.0, 1e-3, 2e3, 8.0])
        elif r < 0.7:
            w = 10 ** rng.uniform(-3, 3.3)
        else:
            w = rng.uniform(0.1, 100)
        hi = lo + w
        if -1e3 <= lo < hi <= 1e3 and hi - lo >= 1e-3:
            return lo, hi


def rnd_scale(rng):
    r = rng.random()
    if r < 0.4:
        return 1.0
    if r < 0.7:
        return rng.choice([0.1, 0.125, 0.25, 0.5, 2.0, 4.0, 10.0])
    return 10 ** rng.uniform(-1, 1)


def near(rng):
    """distance from a bound: log-uniform in [1e-9, 1], sometimes down to 1e-18 (representable next
    to a bound close to 0 only; the callers fall back to an interior value otherwise)"""
    if rng.random() < 0.15:
        return 10 ** rng.uniform(-18, -9)
    return 10 ** rng.uniform(-9, 0)


def value_in(rng, lo, hi, stats=None):
    """a value strictly inside ]lo,hi[ (None = infinite); often close to a bound"""
    r = rng.random()
    if lo is not None and hi is not None:
        w = hi - lo
        if r < 0.3:
            v = lo + min(near(rng), w / 2) * (1 if w >= 1 else w)
            kind = "near_lo"
        elif r < 0.6:
            v = hi - min(near(rng), w / 2) * (1 if w >= 1 else w)
            kind = "near_hi"
        elif r < 0.65:
            v = lo + w / 2
            kind = "mid"
        else:
            v = rng.uniform(lo, hi)
            kind = "inside"
        if not (lo < v < hi):
            v = lo + w / 2
    elif lo is not None:
        if r < 0.4:
            v = lo + near(rng); kind = "near_lo"
        elif r < 0.5:
            v = lo + 1.0; kind = "kink"
        elif r < 0.75:
            v = lo + rng.uniform(0, 3); kind = "inside"
        else:
            v = lo + 10 ** rng.uniform(0, 3); kind = "far"
        if not v > lo:
            v = lo + 1.0
    elif hi is not None:
        if r < 0.4:
            v = hi - near(rng); kind = "near_hi"
        elif r < 0.5:
            v = hi - 1.0; kind = "kink"
        elif r < 0.75:
            v = hi - rng.uniform(0, 3); kind = "inside"
        else:
            v = hi - 10 ** rng.uniform(0, 3); kind = "far"
        if not v < hi:
            v = hi - 1.0
    else:
        v = rng.uniform(-1e3, 1e3); kind = "free"
    if stats is not None:
        stats[kind] = stats.get(kind, 0) + 1
    return v


def coord(rng):
    """a transformed coordinate in [-30,30]"""
    r = rng.random()
    if r < 0.08:
        return 0.0
    if r < 0.2:
        return rng.choice([-1, 1]) * 10 ** rng.uniform(-9, -1)
    if r < 0.3:
        return float(rng.randint(-30, 30))
    if r < 0.4:
        return rng.choice([-30.0, 30.0, -1.0, 1.0, 0.5, -0.5])
    if r < 0.7:
        return rng.uniform(-3, 3)
    return rng.uniform(-30, 30)


def step_h(scale):
    return abs(scale) * 2.0 ** -12


def transform_case(rng, idx):
    """one transformed parameter in register k and a history of operations on it"""
    k = rng.randint(0, 3)
    kind = rng.choice(["rp", "rn", "ih", "it", "ih", "it", "pl"])
    ops = []
    lo = hi = None
    scale = 1.0
    if kind in ("rp", "rn"):
        b = rnd_bound(rng)
        scale = 1.0 if rng.random() < 0.85 else rnd_scale(rng)
        lo, hi = (b, None) if kind == "rp" else (None, b)
        v = value_in(rng, lo, hi)
        ops.append("r.new %d %s %s %d %s" % (k, hx(v), hx(b), 1 if kind == "rp" else 0, hx(scale)))
    elif kind in ("ih", "it"):
        lo, hi = rnd_interval(rng)
        scale = rnd_scale(rng)
        v = value_in(rng, lo, hi)
        ops.append("i.new %d %s %s %s %s %d" % (k, hx(v), hx(lo), hx(hi), hx(scale), 1 if kind == "ih" else 0))
    else:
        v = value_in(rng, None, None)
        ops.append("p.new %d %s" % (k, hx(v)))
    for _ in range(rng.randint(4, 14)):
        r = rng.random()
        if r < 0.35:
            if rng.random() < 0.08:
                # the exception stream: a value on or outside a bound
                cands = [x for x in (lo, hi) if x is not None]
                if cands:
                    b = rng.choice(cands)
                    v = b if rng.random() < 0.5 else (b - near(rng) if b == lo else b + near(rng))
                else:
                    v = rng.uniform(-10, 10)
            else:
                v = value_in(rng, lo, hi)
            ops.append("t.setorig %d %s" % (k, hx(v)))
        elif r < 0.6:
            ops.append("t.setx %d %s" % (k, hx(coord(rng))))
        elif r < 0.8:
            ops.append("t.fd %d %s %s" % (k, hx(coord(rng)), hx(step_h(scale))))
        else:
            x1 = coord(rng)
            x2 = x1 + rng.choice([-1, 1]) * 10 ** rng.uniform(-6, 1) if rng.random() < 0.6 else coord(rng)
            x2 = max(-30.0, min(30.0, x2))
            ops.append("t.mono %d %s %s" % (k, hx(x1), hx(x2)))
    return ["case tr%d %s" % (idx, kind)] + ops


def dyadic(rng, zero_p=0.25):
    if rng.random() < zero_p:
        return 0.0
    return rng.randint(-32, 32) / 8.0


def shape_bounds(rng, shape):
    """(lo, hi) as floats (unused side = 0) and the open interval of legal interior values"""
    if shape == "none":
        return 0.0, 0.0, None, None
    if shape in ("cc", "oo", "co", "oc"):
        lo, hi = rnd_interval(rng)
        return lo, hi, lo, hi
    b = rnd_bound(rng)
    if shape in ("gt", "ge"):
        return b, 0.0, b, None
    return 0.0, b, None, b


TINY = 1e-12

# distances from a bound for the "edge" stream: 0, the smallest representable one, 1e-18 .. 1e-9,
# and the thresholds of init_ (TINY and 2 TINY, from both sides)
EDGE_DIST = ([0.0, "ulp"] + [10.0 ** -k for k in range(18, 8, -1)]
             + [0.5e-12, 0.999e-12, 1e-12, 1.001e-12, 1.5e-12, 1.999e-12, 2e-12, 2.001e-12, 3e-12, 2.0 ** -42])


def edge_param(rng, shape, stats):
    """a constraint of the given shape and a value at a chosen small distance from one of its finite
    bounds (inside the interval, on the bound, or -- for an open bound at distance 0 -- rejected)"""
    finite = shape in ("cc", "oo", "co", "oc")
    side = rng.choice(["lo", "hi"]) if finite else ("lo" if shape in ("gt", "ge") else "hi")
    while True:
        # the bound next to the value: often 0 so that distances down to 1e-18 are representable
        r = rng.random()
        if r < 0.45:
            b = 0.0
        elif r < 0.6:
            b = rng.choice([1.0, -1.0, 0.5, -0.25, 2.0 ** -10])
        else:
            b = rnd_bound(rng)
        if finite:
            rr = rng.random()
            w = rng.choice([1.0, 0.5, 1e-3, 8.0, 0.487]) if rr < 0.5 else 10 ** rng.uniform(-3, 3.3)
            lo, hi = (b, b + w) if side == "lo" else (b - w, b)
            if -1e3 <= lo < hi <= 1e3 and hi - lo >= 1e-3:
                break
        elif side == "lo":
            lo, hi = b, 0.0
            break
        else:
            lo, hi = 0.0, b
            break
    d = rng.choice(EDGE_DIST)
    sgn = 1.0 if side == "lo" else -1.0
    if d == "ulp":
        v = math.nextafter(b, sgn * math.inf)
        dname = "ulp"
    else:
        v = b + sgn * d
        dname = "0" if d == 0.0 else ("1e%d" % round(math.log10(d)) if d in [10.0 ** -k for k in range(18, 8, -1)] else "tiny-ish")
        if v == b and d != 0.0:
            # not representable next to this bound: the nearest representable value inside
            v = math.nextafter(b, sgn * math.inf)
            dname = "ulp"
    closed = (shape in ("cc", "co", "ge") and side == "lo") or (shape in ("cc", "oc", "le") and side == "hi")
    for key in ("edge_%s_%s_%s" % (shape, side, "closed" if closed else "open"),
                "edge_dist_%s_%s" % ("closed" if closed else "open", dname)):
        stats[key] = stats.get(key, 0) + 1
    return lo, hi, v


def wrapper_case(rng, idx, stats):
    n = rng.randint(1, 5)
    toks = []
    shapes = []
    for i in range(n):
        shape = rng.choice(SHAPES)
        if shape != "none" and rng.random() < 0.3:
            # values at distance 0, 1 ulp, 1e-18 .. 1e-9, ~TINY, ~2 TINY from a closed or an open
            # bound, all eight configurations (at distance 0 from an open bound the function's own
            # Parameter constructor raises: the exception stream)
            lo, hi, v = edge_param(rng, shape, stats)
            shapes.append(shape)
            toks += [shape, hx(lo), hx(hi), hx(v), hx(dyadic(rng)), hx(dyadic(rng)), hx(dyadic(rng, 0.4))]
            continue
        lo, hi, ilo, ihi = shape_bounds(rng, shape)
        v = value_in(rng, ilo, ihi, stats)
        if shape in ("cc", "oo", "co", "oc") and not (lo <= v <= hi):
            v = (lo + hi) / 2
        shapes.append(shape)
        toks += [shape, hx(lo), hx(hi), hx(v), hx(dyadic(rng)), hx(dyadic(rng)), hx(dyadic(rng, 0.4))]
    stats["n%d" % n] = stats.get("n%d" % n, 0) + 1
    for sh in shapes:
        stats["shape_" + sh] = stats.get("shape_" + sh, 0) + 1
    # which of the function's parameters the wrapper reparametrises: all of them (first constructor)
    # or a sub-list in any order, possibly with a foreign parameter (second constructor)
    if rng.random() < 0.2:
        k = rng.randint(1, n)
        sel = rng.sample(range(n), k)
        seltoks = [str(i) for i in sel]
        if rng.random() < 0.3:
            seltoks.insert(rng.randint(0, len(seltoks)), "f")
        ops = ["w.newsub %d %s %s" % (n, ",".join(seltoks), " ".join(toks))]
        stats["ctor_sublist"] = stats.get("ctor_sublist", 0) + 1
    else:
        sel = list(range(n))
        ops = ["w.new %d %s" % (n, " ".join(toks))]
        stats["ctor_all"] = stats.get("ctor_all", 0) + 1
    m = len(sel)
    h = 2.0 ** -12
    for _ in range(rng.randint(3, 12)):
        r = rng.random()
        if r < 0.4:
            k = rng.randint(1, m)
            idxs = sorted(rng.sample(sel, k))
            ops.append("w.set %d %s" % (k, " ".join("%d %s" % (i, hx(coord(rng))) for i in idxs)))
        elif r < 0.47:
            # f() on current values: nothing changes, only the named coordinates are pushed
            k = rng.randint(1, m)
            idxs = sorted(rng.sample(sel, k))
            ops.append("w.touch %d %s" % (k, " ".join("%d" % i for i in idxs)))
        elif r < 0.58:
            ops.append("w.d1 %d" % rng.choice(sel))
        elif r < 0.7:
            ops.append("w.d2 %d %d" % (rng.choice(sel), rng.choice(sel)))
        elif r < 0.88 or m == 1:
            ops.append("w.fd %d %s" % (rng.choice(sel), hx(h)))
        else:
            i = rng.choice(sel)
            j = rng.choice([x for x in sel if x != i])
            if rng.random() < 0.7 and (i + 1 in sel or i - 1 in sel):
                j = i + 1 if i + 1 in sel else i - 1
            ops.append("w.fdx %d %d %s" % (i, j, hx(h)))
    rest = [i for i in range(n) if i not in sel]
    if rest and rng.random() < 0.25:
        # a parameter the wrapper was not given: ParameterNotFoundException (last op: the harness
        # drops the wrapper after an exception)
        i = rng.choice(rest)
        ops.append(rng.choice(["w.set 1 %d %s" % (i, hx(coord(rng))), "w.d1 %d" % i, "w.touch 1 %d" % i,
                               "w.d2 %d %d" % (i, rng.choice(sel)), "w.fd %d %s" % (i, hx(h))]))
    return ["case wr%d n%d" % (idx, n)] + ops


STATS = {}


def generate(seed, tier):
    rng = random.Random(seed)
    cases = []
    n_tr = 40000 if tier == "thorough" else 1500
    for i in range(n_tr):
        cases.append(transform_case(rng, i))
    n_wr = 40000 if tier == "thorough" else 1500
    stats = {}
    for i in range(n_wr):
        cases.append(wrapper_case(rng, i, stats))
    STATS.clear(); STATS.update(stats)
    return cases


def coverage_extra(cases, answers):
    kinds = {}
    for c in cases:
        t = c[0].split()
        if len(t) > 2:
            kinds[t[2]] = kinds.get(t[2], 0) + 1
    return {"case_kinds": kinds, "wrapper_generator_distribution": dict(sorted(STATS.items()))}
