"""Script generator for C11 (TransformedParameter.h, ReparametrizationFunctionWrapper)."""
import random, struct, math


def hx(x):
    return "%016x" % struct.unpack("<Q", struct.pack("<d", float(x)))[0]


def unhx(s):
    if s == "nan":
        return float("nan")
    return struct.unpack("<d", struct.pack("<Q", int(s, 16)))[0]


SHAPES = ["none", "cc", "oo", "co", "oc", "gt", "ge", "lt", "le"]


def rnd_bound(rng):
    r = rng.random()
    if r < 0.25:
        return float(rng.randint(-10, 10))
    if r < 0.5:
        return rng.choice([-1e3, 1e3, 0.0, -1.0, 1.0, 0.5, -0.25, 100.0, -100.0])
    if r < 0.75:
        return rng.uniform(-1e3, 1e3)
    return rng.uniform(-5, 5)


def rnd_interval(rng):
    while True:
        lo = rnd_bound(rng)
        r = rng.random()
        if r < 0.3:
            w = rng.choice([1.0, 2.0, 0.5, 10.0, 1e-3, 2e3, 8.0])
        elif r < 0.7:
            w = 10 ** rng.uniform(-3, 3.3)
        else:
            w = rng.uniform(0.1, 100)
        hi = lo + w
        if -1e3 <= lo < hi <= 1e3 and hi - lo >= 1e-3:
            return lo, hi


def rnd_scale(rng):
    r = rng.random()
    if r < 0.4:
        return 1.0
    if r < 0.7:
        return rng.choice([0.1, 0.125, 0.25, 0.5, 2.0, 4.0, 10.0])
    return 10 ** rng.uniform(-1, 1)


def near(rng):
    """distance from a bound: log-uniform in [1e-9, 1], sometimes down to 1e-18 (representable next
    to a bound close to 0 only; the callers fall back to an interior value otherwise)"""
    if rng.random() < 0.15:
        return 10 ** rng.uniform(-18, -9)
    return 10 ** rng.uniform(-9, 0)


def value_in(rng, lo, hi, stats=None):
    """a value strictly inside ]lo,hi[ (None = infinite); often close to a bound"""
    r = rng.random()
    if lo is not None and hi is not None:
        w = hi - lo
        if r < 0.3:
            v = lo + min(near(rng), w / 2) * (1 if w >= 1 else w)
            kind = "near_lo"
        elif r < 0.6:
            v = hi - min(near(rng), w / 2) * (1 if w >= 1 else w)
            kind = "near_hi"
        elif r < 0.65:
            v = lo + w / 2
            kind = "mid"
        else:
            v = rng.uniform(lo, hi)
            kind = "inside"
        if not (lo < v < hi):
            v = lo + w / 2
    elif lo is not None:
        if r < 0.4:
            v = lo + near(rng); kind = "near_lo"
        elif r < 0.5:
            v = lo + 1.0; kind = "kink"
        elif r < 0.75:
            v = lo + rng.uniform(0, 3); kind = "inside"
        else:
            v = lo + 10 ** rng.uniform(0, 3); kind = "far"
        if not v > lo:
            v = lo + 1.0
    elif hi is not None:
        if r < 0.4:
            v = hi - near(rng); kind = "near_hi"
        elif r < 0.5:
            v = hi - 1.0; kind = "kink"
        elif r < 0.75:
            v = hi - rng.uniform(0, 3); kind = "inside"
        else:
            v = hi - 10 ** rng.uniform(0, 3); kind = "far"
        if not v < hi:
            v = hi - 1.0
    else:
        v = rng.uniform(-1e3, 1e3); kind = "free"
    if stats is not None:
        stats[kind] = stats.get(kind, 0) + 1
    return v


def coord(rng):
    """a transformed coordinate in [-30,30]"""
    r = rng.random()
    if r < 0.08:
        return 0.0
    if r < 0.2:
        return rng.choice([-1, 1]) * 10 ** rng.uniform(-9, -1)
    if r < 0.3:
        return float(rng.randint(-30, 30))
    if r < 0.4:
        return rng.choice([-30.0, 30.0, -1.0, 1.0, 0.5, -0.5])
    if r < 0.7:
        return rng.uniform(-3, 3)
    return rng.uniform(-30, 30)


def step_h(scale):
    return abs(scale) * 2.0 ** -12


def transform_case(rng, idx):
    """one transformed parameter in register k and a history of operations on it"""
    k = rng.randint(0, 3)
    kind = rng.choice(["rp", "rn", "ih", "it", "ih", "it", "pl"])
    ops = []
    lo = hi = None
    scale = 1.0
    if kind in ("rp", "rn"):
        b = rnd_bound(rng)
        scale = 1.0 if rng.random() < 0.85 else rnd_scale(rng)
        lo, hi = (b, None) if kind == "rp" else (None, b)
        v = value_in(rng, lo, hi)
        ops.append("r.new %d %s %s %d %s" % (k, hx(v), hx(b), 1 if kind == "rp" else 0, hx(scale)))
    elif kind in ("ih", "it"):
        lo, hi = rnd_interval(rng)
        scale = rnd_scale(rng)
        v = value_in(rng, lo, hi)
        ops.append("i.new %d %s %s %s %s %d" % (k, hx(v), hx(lo), hx(hi), hx(scale), 1 if kind == "ih" else 0))
    else:
        v = value_in(rng, None, None)
        ops.append("p.new %d %s" % (k, hx(v)))
    for _ in range(rng.randint(4, 14)):
        r = rng.random()
        if rng.random() < 0.06:
            # clone() of the transformed parameter: the history continues on the clone
            k2 = rng.randint(0, 3)
            ops.append("t.clone %d %d" % (k2, k))
            k = k2
        if r < 0.35:
            if rng.random() < 0.08:
                # the exception stream: a value on or outside a bound
                cands = [x for x in (lo, hi) if x is not None]
                if cands:
                    b = rng.choice(cands)
                    v = b if rng.random() < 0.5 else (b - near(rng) if b == lo else b + near(rng))
                else:
                    v = rng.uniform(-10, 10)
            else:
                v = value_in(rng, lo, hi)
            ops.append("t.setorig %d %s" % (k, hx(v)))
        elif r < 0.6:
            ops.append("t.setx %d %s" % (k, hx(coord(rng))))
        elif r < 0.8:
            ops.append("t.fd %d %s %s" % (k, hx(coord(rng)), hx(step_h(scale))))
        else:
            x1 = coord(rng)
            x2 = x1 + rng.choice([-1, 1]) * 10 ** rng.uniform(-6, 1) if rng.random() < 0.6 else coord(rng)
            x2 = max(-30.0, min(30.0, x2))
            ops.append("t.mono %d %s %s" % (k, hx(x1), hx(x2)))
    return ["case tr%d %s" % (idx, kind)] + ops


def ctor_case(rng, idx):
    """values at distance 1 and 2 ulp from both bounds handed to the IntervalTransformedParameter
    *constructor* (it has its own copy of the forward formula), tangent and hyperbolic, with read-back"""
    lo, hi = rnd_interval(rng)
    if rng.random() < 0.5:
        lo, hi = rng.uniform(-1e3, 1e3), rng.uniform(-1e3, 1e3)
        if lo > hi:
            lo, hi = hi, lo
        if hi - lo < 1e-3:
            hi = lo + 1.0
    scale = 1.0 if rng.random() < 0.7 else rnd_scale(rng)
    up1 = math.nextafter(hi, lo); up2 = math.nextafter(up1, lo)
    lo1 = math.nextafter(lo, hi); lo2 = math.nextafter(lo1, hi)
    ops = []
    for hy in (0, 0, 1) if rng.random() < 0.5 else (0,):
        for v in (up1, up2, lo1, lo2):
            ops.append("t.ctor %d %s %s %s %s %d" % (rng.randint(0, 3), hx(v), hx(lo), hx(hi), hx(scale), hy))
    return ["case ct%d ulp" % idx] + ops


def dyadic(rng, zero_p=0.25):
    if rng.random() < zero_p:
        return 0.0
    return rng.randint(-32, 32) / 8.0


def shape_bounds(rng, shape):
    """(lo, hi) as floats (unused side = 0) and the open interval of legal interior values"""
    if shape == "none":
        return 0.0, 0.0, None, None
    if shape in ("cc", "oo", "co", "oc"):
        lo, hi = rnd_interval(rng)
        return lo, hi, lo, hi
    b = rnd_bound(rng)
    if shape in ("gt", "ge"):
        return b, 0.0, b, None
    return 0.0, b, None, b


TINY = 1e-12

# distances from a bound for the "edge" stream: 0, the smallest representable one, 1e-18 .. 1e-9,
# and the thresholds of init_ (TINY and 2 TINY, from both sides)
EDGE_DIST = ([0.0, "ulp"] + [10.0 ** -k for k in range(18, 8, -1)]
             + [0.5e-12, 0.999e-12, 1e-12, 1.001e-12, 1.5e-12, 1.999e-12, 2e-12, 2.001e-12, 3e-12, 2.0 ** -42])


def edge_param(rng, shape, stats):
    """a constraint of the given shape and a value at a chosen small distance from one of its finite
    bounds (inside the interval, on the bound, or -- for an open bound at distance 0 -- rejected)"""
    finite = shape in ("cc", "oo", "co", "oc")
    side = rng.choice(["lo", "hi"]) if finite else ("lo" if shape in ("gt", "ge") else "hi")
    while True:
        # the bound next to the value: often 0 so that distances down to 1e-18 are representable
        r = rng.random()
        if r < 0.45:
            b = 0.0
        elif r < 0.6:
            b = rng.choice([1.0, -1.0, 0.5, -0.25, 2.0 ** -10])
        else:
            b = rnd_bound(rng)
        if finite:
            rr = rng.random()
            w = rng.choice([1.0, 0.5, 1e-3, 8.0, 0.487]) if rr < 0.5 else 10 ** rng.uniform(-3, 3.3)
            lo, hi = (b, b + w) if side == "lo" else (b - w, b)
            if -1e3 <= lo < hi <= 1e3 and hi - lo >= 1e-3:
                break
        elif side == "lo":
            lo, hi = b, 0.0
            break
        else:
            lo, hi = 0.0, b
            break
    d = rng.choice(EDGE_DIST)
    sgn = 1.0 if side == "lo" else -1.0
    if d == "ulp":
        v = math.nextafter(b, sgn * math.inf)
        dname = "ulp"
    else:
        v = b + sgn * d
        dname = "0" if d == 0.0 else ("1e%d" % round(math.log10(d)) if d in [10.0 ** -k for k in range(18, 8, -1)] else "tiny-ish")
        if v == b and d != 0.0:
            # not representable next to this bound: the nearest representable value inside
            v = math.nextafter(b, sgn * math.inf)
            dname = "ulp"
    closed = (shape in ("cc", "co", "ge") and side == "lo") or (shape in ("cc", "oc", "le") and side == "hi")
    for key in ("edge_%s_%s_%s" % (shape, side, "closed" if closed else "open"),
                "edge_dist_%s_%s" % ("closed" if closed else "open", dname)):
        stats[key] = stats.get(key, 0) + 1
    return lo, hi, v


def wrapper_case(rng, idx, stats):
    n = rng.randint(1, 5)
    toks = []
    shapes = []
    for i in range(n):
        shape = rng.choice(SHAPES)
        if shape in ("cc", "oo", "co", "oc") and rng.random() < 0.04:
            # a finite interval only a few TINY wide (the quantifier states no minimum width): init_ raises
            # for one too narrow to shrink (narrower than 2-3 TINY), builds a finite coordinate otherwise
            lo = 0.0
            hi = rng.choice([0.5, 1.0, 1.5, 1.9, 2.1, 2.5, 2.9, 3.1, 3.5, 4.5, 6.0]) * TINY
            v = hi * rng.choice([0.5, 0.1, 0.9, rng.uniform(0.01, 0.99)])
            shapes.append(shape)
            toks += [shape, hx(lo), hx(hi), hx(v), hx(dyadic(rng)), hx(dyadic(rng)), hx(dyadic(rng, 0.4))]
            stats["narrow_interval"] = stats.get("narrow_interval", 0) + 1
            continue
        if shape != "none" and rng.random() < 0.3:
            # values at distance 0, 1 ulp, 1e-18 .. 1e-9, ~TINY, ~2 TINY from a closed or an open
            # bound, all eight configurations (at distance 0 from an open bound the function's own
            # Parameter constructor raises: the exception stream)
            lo, hi, v = edge_param(rng, shape, stats)
            shapes.append(shape)
            toks += [shape, hx(lo), hx(hi), hx(v), hx(dyadic(rng)), hx(dyadic(rng)), hx(dyadic(rng, 0.4))]
            continue
        lo, hi, ilo, ihi = shape_bounds(rng, shape)
        v = value_in(rng, ilo, ihi, stats)
        if shape in ("cc", "oo", "co", "oc") and not (lo <= v <= hi):
            v = (lo + hi) / 2
        shapes.append(shape)
        toks += [shape, hx(lo), hx(hi), hx(v), hx(dyadic(rng)), hx(dyadic(rng)), hx(dyadic(rng, 0.4))]
    stats["n%d" % n] = stats.get("n%d" % n, 0) + 1
    for sh in shapes:
        stats["shape_" + sh] = stats.get("shape_" + sh, 0) + 1
    # which of the function's parameters the wrapper reparametrises: all of them (first constructor)
    # or a sub-list in any order, possibly with a foreign parameter (second constructor)
    if rng.random() < 0.2:
        k = rng.randint(1, n)
        sel = rng.sample(range(n), k)
        seltoks = [str(i) for i in sel]
        if rng.random() < 0.3:
            seltoks.insert(rng.randint(0, len(seltoks)), "f")
        ops = ["w.newsub %d %s %s" % (n, ",".join(seltoks), " ".join(toks))]
        stats["ctor_sublist"] = stats.get("ctor_sublist", 0) + 1
    else:
        sel = list(range(n))
        ops = ["w.new %d %s" % (n, " ".join(toks))]
        stats["ctor_all"] = stats.get("ctor_all", 0) + 1
    m = len(sel)
    h = 2.0 ** -12
    for _ in range(rng.randint(3, 12)):
        r = rng.random()
        if r < 0.4:
            k = rng.randint(1, m)
            idxs = sorted(rng.sample(sel, k))
            ops.append("w.set %d %s" % (k, " ".join("%d %s" % (i, hx(coord(rng))) for i in idxs)))
        elif r < 0.47:
            # f() on current values: nothing changes, only the named coordinates are pushed
            k = rng.randint(1, m)
            idxs = sorted(rng.sample(sel, k))
            ops.append("w.touch %d %s" % (k, " ".join("%d" % i for i in idxs)))
        elif r < 0.58:
            ops.append("w.d1 %d" % rng.choice(sel))
        elif r < 0.7:
            i = rng.choice(sel)
            # the two-argument overload, 35% on the diagonal; or the one-argument overload
            ops.append(rng.choice(["w.d2 %d %d" % (i, rng.choice(sel)), "w.d2 %d %d" % (i, rng.choice(sel)),
                                   "w.d2 %d %d" % (i, i), "w.d21 %d" % i]))
        elif r < 0.88 or m == 1:
            ops.append("w.fd %d %s" % (rng.choice(sel), hx(h)))
        else:
            i = rng.choice(sel)
            j = rng.choice([x for x in sel if x != i])
            if rng.random() < 0.7 and (i + 1 in sel or i - 1 in sel):
                j = i + 1 if i + 1 in sel else i - 1
            ops.append("w.fdx %d %d %s" % (i, j, hx(h)))
    rest = [i for i in range(n) if i not in sel]
    if rest and rng.random() < 0.25:
        # a parameter the wrapper was not given: ParameterNotFoundException (last op: the harness
        # drops the wrapper after an exception)
        i = rng.choice(rest)
        ops.append(rng.choice(["w.set 1 %d %s" % (i, hx(coord(rng))), "w.d1 %d" % i, "w.touch 1 %d" % i,
                               "w.d2 %d %d" % (i, rng.choice(sel)), "w.fd %d %s" % (i, hx(h))]))
    return ["case wr%d n%d" % (idx, n)] + ops


# ---------------------------------------------------------------------------------------------------
# object cases: several wrappers (all three classes, both constructors, sub-lists in every order) of
# one or two shared function objects, copies / clones / assignments, interleaved use
# ---------------------------------------------------------------------------------------------------

SEL_KINDS = ["all", "prefix", "perm_full", "perm_sub", "gaps", "single", "single_first"]


def fn_params(rng, n, stats):
    """n parameters of a function: protocol tokens and (shape, ilo, ihi) per parameter; values inside"""
    toks, desc = [], []
    for _ in range(n):
        shape = rng.choice(SHAPES)
        lo, hi, ilo, ihi = shape_bounds(rng, shape)
        v = value_in(rng, ilo, ihi, stats)
        if shape in ("cc", "oo", "co", "oc") and not (lo < v < hi):
            v = (lo + hi) / 2
        toks += [shape, hx(lo), hx(hi), hx(v), hx(dyadic(rng)), hx(dyadic(rng)), hx(dyadic(rng, 0.4))]
        desc.append((shape, ilo, ihi))
    return toks, desc


def pick_sel(rng, n):
    """a selection of the function's parameters for a constructor: (kind, list of indices or None)"""
    kinds = ["all", "perm_sub", "perm_sub", "perm_full", "gaps", "single", "prefix", "single_first"]
    for _ in range(20):
        kind = rng.choice(kinds)
        if kind == "all":
            return kind, None
        if kind == "prefix" and n >= 2:
            return kind, list(range(rng.randint(1, n - 1)))
        if kind == "perm_full" and n >= 2:
            l = list(range(n))
            while l == sorted(l):
                rng.shuffle(l)
            return kind, l
        if kind == "perm_sub" and n >= 3:
            k = rng.randint(2, n - 1)
            l = rng.sample(range(n), k)
            if l == sorted(l):
                l.reverse()
            return kind, l
        if kind == "gaps" and n >= 3:
            k = rng.randint(1, n - 1)
            l = sorted(rng.sample(range(n), k))
            if l != list(range(k)):
                return kind, l
        if kind == "single" and n >= 2:
            return kind, [rng.randint(1, n - 1)]
        if kind == "single_first":
            return kind, [0]
    return "all", None


def inside_value(rng, d):
    shape, ilo, ihi = d
    return value_in(rng, ilo, ihi)


def object_case(rng, idx, stats):
    def st(key):
        stats[key] = stats.get(key, 0) + 1
    funcs = {}
    ops = []
    n0 = rng.randint(2, 5)
    toks, desc = fn_params(rng, n0, stats)
    ops.append("f.new 0 %d %s" % (n0, " ".join(toks)))
    funcs[0] = desc
    if rng.random() < 0.3:
        n1 = rng.randint(1, 4)
        toks, desc = fn_params(rng, n1, stats)
        ops.append("f.new 1 %d %s" % (n1, " ".join(toks)))
        funcs[1] = desc
        st("ob_two_functions")
    regs = {}   # k -> dict(names, cls, fid)
    h = 2.0 ** -12

    def mk(k, fid):
        n = len(funcs[fid])
        kind, sel = pick_sel(rng, n)
        cls = rng.choice([0, 1, 2, 2, 2])
        if sel is None:
            seltok = "all"
            names = list(range(n))
        else:
            items = []
            for i in sel:
                if rng.random() < 0.04 and funcs[fid][i][0] != "none":
                    # the given parameter lacks the function's constraint (Parameter(name, value))
                    items.append("%d!" % i)
                    st("ob_given_without_constraint")
                elif rng.random() < 0.07:
                    items.append("%d@%s" % (i, hx(inside_value(rng, funcs[fid][i]))))
                    st("ob_given_other_value")
                else:
                    items.append(str(i))
            if rng.random() < 0.15:
                items.insert(rng.randint(0, len(items)), "f")
            seltok = ",".join(items)
            names = list(sel)
        ops.append("w.mk %d %d %d %s" % (k, fid, cls, seltok))
        regs[k] = dict(names=names, cls=cls, fid=fid, kind=kind)
        if rng.random() < 0.5:
            ops.append("w.use %d" % k)
            ops.append("w.names")
        st("ob_ctor_" + kind); st("ob_cls%d" % cls)

    def use(k):
        ops.append("w.use %d" % k)

    def named(r):
        k = rng.randint(1, len(r["names"]))
        return rng.sample(r["names"], k)

    def update(k, heavy=False):
        """an update / evaluation through register k (preceded by w.use)"""
        r = regs[k]
        use(k)
        x = rng.random()
        if x < 0.5 or heavy:
            if rng.random() < 0.3:
                ns = list(r["names"])      # f(all the parameters)
                rng.shuffle(ns)
                st("ob_set_all")
            else:
                ns = named(r)
            ops.append("w.set %d %s" % (len(ns), " ".join("%d %s" % (i, hx(coord(rng))) for i in ns)))
            st("ob_set")
        elif x < 0.57:
            ns = named(r)
            ops.append("w.touch %d %s" % (len(ns), " ".join(str(i) for i in ns)))
        elif x < 0.62:
            ops.append(rng.choice(["w.get", "w.get", "w.names"]))
        elif x < 0.72:
            y = rng.random()
            if y < 0.08:
                ops.append("w.fire")
            elif y < 0.3:
                ops.append("w.pv %d %s" % (rng.choice(r["names"]), hx(coord(rng))))
            elif y < 0.5:
                ops.append("w.all %s" % " ".join(hx(coord(rng)) for _ in r["names"]))
            elif y < 0.75:
                ns = named(r)
                ops.append("w.match %d %s" % (len(ns), " ".join("%d %s" % (i, hx(coord(rng))) for i in ns)))
            else:
                ns = named(r)
                ops.append("w.pvs %d %s" % (len(ns), " ".join("%d %s" % (i, hx(coord(rng))) for i in ns)))
            st("ob_inherited_setter")
            if rng.random() < 0.7:
                # ... followed by f() on the current values: the function catches up
                ns = named(r)
                ops.append("w.touch %d %s" % (len(ns), " ".join(str(i) for i in ns)))
        elif x < 0.75:
            if r["cls"] >= 1:
                ops.append("w.en %d %d" % (rng.randint(1, r["cls"]), rng.randint(0, 1)))
        else:
            deriv(k)

    def deriv(k):
        r = regs[k]
        if r["cls"] == 0:
            ops.append("w.get")
            return
        y = rng.random()
        i = rng.choice(r["names"])
        if r["cls"] == 1:
            ops.append(rng.choice(["w.d1 %d" % i, "w.fd1 %d %s" % (i, hx(h))]))
            st("ob_deriv_cls1")
            return
        if y < 0.2:
            ops.append("w.d1 %d" % i)
        elif y < 0.4:
            ops.append(rng.choice(["w.d2 %d %d" % (i, rng.choice(r["names"])), "w.d2 %d %d" % (i, rng.choice(r["names"])),
                                   "w.d2 %d %d" % (i, i), "w.d21 %d" % i]))
        elif y < 0.8 or len(r["names"]) == 1:
            ops.append("w.fd %d %s" % (i, hx(h)))
        else:
            j = rng.choice([x for x in r["names"] if x != i])
            if rng.random() < 0.7 and (i + 1 in r["names"] or i - 1 in r["names"]):
                j = i + 1 if i + 1 in r["names"] else i - 1
            ops.append("w.fdx %d %d %s" % (i, j, hx(h)))
        st("ob_deriv_cls2")

    mk(0, 0)
    if rng.random() < 0.45:
        mk(1, 1 if (1 in funcs and rng.random() < 0.6) else 0)
    for _ in range(rng.randint(1, 3)):
        if rng.random() < 0.6:
            update(rng.choice(list(regs.keys())))
    # copies, each followed by updates through the copy and through the original
    for _ in range(rng.randint(1, 4)):
        j = rng.choice(list(regs.keys()))
        kind = rng.choice(["clone", "clone", "copy", "assign"])
        if kind == "assign":
            if len(regs) == 1 and rng.random() < 0.9:
                # a target to assign to: another wrapper, of another function when there is one
                free = [q for q in range(4) if q not in regs]
                mk(free[0], 1 if (1 in funcs and rng.random() < 0.6) else 0)
            cands = list(regs.keys())
            k = rng.choice(cands)
            if k == j and rng.random() < 0.93 and len(cands) > 1:
                k = rng.choice([c for c in cands if c != j])
            ops.append("w.assign %d %d" % (k, j))
            if regs[k]["fid"] != regs[j]["fid"]:
                st("ob_assign_across_functions")
            if regs[k]["names"] != regs[j]["names"]:
                st("ob_assign_across_sublists")
            if k == j:
                st("ob_assign_self")
            regs[k] = dict(names=list(regs[j]["names"]), cls=regs[k]["cls"], fid=regs[j]["fid"], kind=regs[j]["kind"])
            if regs[k]["cls"] != regs[j]["cls"]:
                st("ob_assign_across_classes")
        else:
            k = rng.randint(0, 3)
            ops.append("w.%s %d %d" % (kind, k, j))
            regs[k] = dict(names=list(regs[j]["names"]), cls=regs[j]["cls"], fid=regs[j]["fid"], kind=regs[j]["kind"])
        st("ob_" + kind); st("ob_%s_of_%s" % ("copy" if kind != "assign" else "assign", regs[j]["kind"]))
        order = [k, j] if rng.random() < 0.7 else [j, k]
        for q in order:
            update(q, heavy=True)
            if rng.random() < 0.7:
                use(q); deriv(q)
        for _ in range(rng.randint(0, 3)):
            update(rng.choice(list(regs.keys())))
        if rng.random() < 0.15:
            # the owner of a function moves it directly
            fid = rng.choice(list(funcs.keys()))
            ns = rng.sample(range(len(funcs[fid])), rng.randint(1, len(funcs[fid])))
            ops.append("f.set %d %d %s" % (fid, len(ns), " ".join("%d %s" % (i, hx(inside_value(rng, funcs[fid][i]))) for i in ns)))
            st("ob_direct_move")
            update(rng.choice(list(regs.keys())))
        if rng.random() < 0.08 and len(regs) < 4:
            # a wrapper built later, on the function where it now stands
            free = [q for q in range(4) if q not in regs]
            mk(free[0], rng.choice(list(funcs.keys())))
    if rng.random() < 0.15:
        # the exception stream (last operation: every object is dropped after an exception)
        k = rng.choice(list(regs.keys()))
        r = regs[k]
        rest = [i for i in range(len(funcs[r["fid"]])) if i not in r["names"]]
        use(k)
        if rest:
            i = rng.choice(rest)
            cand = ["w.set 2 %d %s %d %s" % (r["names"][0], hx(coord(rng)), i, hx(coord(rng))), "w.pv %d %s" % (i, hx(coord(rng))),
                    "w.touch 1 %d" % i]
            if r["cls"] >= 1:
                cand.append("w.d1 %d" % i)
            if r["cls"] >= 2:
                cand += ["w.d2 %d %d" % (i, r["names"][0]), "w.fd %d %s" % (i, hx(h))]
            ops.append(rng.choice(cand))
            st("ob_exception_stream")
    return ["case ob%d n%d" % (idx, n0)] + ops


STATS = {}


def generate(seed, tier):
    rng = random.Random(seed)
    cases = []
    n_tr = 40000 if tier == "thorough" else 1500
    for i in range(n_tr):
        cases.append(transform_case(rng, i))
    n_wr = 40000 if tier == "thorough" else 1500
    stats = {}
    for i in range(n_wr):
        cases.append(wrapper_case(rng, i, stats))
    for i in range(20000 if tier == "thorough" else 1200):
        cases.append(ctor_case(rng, i))
    n_ob = 30000 if tier == "thorough" else 1500
    for i in range(n_ob):
        cases.append(object_case(rng, i, stats))
    STATS.clear(); STATS.update(stats)
    return cases


def coverage_extra(cases, answers):
    kinds = {}
    for c in cases:
        t = c[0].split()
        if len(t) > 2:
            kinds[t[2]] = kinds.get(t[2], 0) + 1
    return {"case_kinds": kinds, "wrapper_generator_distribution": dict(sorted(STATS.items()))}
