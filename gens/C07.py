"""Script generator for C07 (VectorTools / NumTools::logsum / StatTools::computeFdr).

Every operation is self-contained: `<op> [flags] <hex double>* [; <hex double>*]*`.
Vector lengths 0..64 (0, 1, 2 over-represented); value kinds: small integers (ties), integers,
reals, mixed magnitudes, positive weights, probabilities, log-space values (up to +-1e300, with
-inf = log-zero and occasionally +inf); 15 % of the binary operations get unequal lengths.
"""
import random, struct, math

INF = float("inf")


def hx(x):
    return struct.pack(">d", float(x)).hex()


def vec(v):
    return " ".join(hx(x) for x in v)


def length(rng):
    r = rng.random()
    if r < 0.05:
        return 0
    if r < 0.10:
        return 1
    if r < 0.15:
        return 2
    if r < 0.55:
        return rng.randint(3, 12)
    return rng.randint(13, 64)


KINDS = ["tiny", "ints", "reals", "mag", "pos"]


def values(rng, n, kind):
    if kind == "tiny":
        return [float(rng.randint(-3, 3)) for _ in range(n)]
    if kind == "ints":
        return [float(rng.randint(-50, 50)) for _ in range(n)]
    if kind == "bigints":
        return [float(rng.randint(-2 ** 20, 2 ** 20)) for _ in range(n)]
    if kind == "reals":
        return [rng.uniform(-100, 100) for _ in range(n)]
    if kind == "mag":
        return [rng.choice([-1, 1]) * 10 ** rng.uniform(-5, 5) for _ in range(n)]
    if kind == "pos":
        return [rng.uniform(0.01, 10) for _ in range(n)]
    if kind == "prob":
        w = [rng.uniform(0.0, 1) for _ in range(n)]
        s = sum(w) or 1.0
        return [x / s for x in w]
    if kind == "unit":
        return [rng.choice([0.0, 1.0, rng.random(), rng.random()]) for _ in range(n)]
    if kind == "pvals":
        if rng.random() < 0.3:   # ties
            pool = [rng.random() for _ in range(max(1, n // 3))]
            return [rng.choice(pool) for _ in range(n)]
        return [rng.random() * 10 ** -rng.randint(0, 6) for _ in range(n)]
    if kind == "log":
        return logvalues(rng, n)
    raise ValueError(kind)


def logvalues(rng, n):
    """values in log space"""
    mode = rng.random()
    if mode < 0.30:      # moderate: the naive formula works
        v = [rng.uniform(-30, 30) for _ in range(n)]
    elif mode < 0.50:    # the naive formula overflows / underflows
        c = rng.choice([-1, 1]) * rng.uniform(700, 5000)
        v = [c + rng.uniform(-40, 40) for _ in range(n)]
    elif mode < 0.65:    # huge magnitudes
        e = rng.choice([1e10, 1e100, 1e300])
        v = [rng.uniform(-1, 1) * e for _ in range(n)]
    elif mode < 0.75:    # wide spread
        v = [rng.uniform(-2000, 2000) for _ in range(n)]
    elif mode < 0.85:    # ties
        pool = [rng.uniform(-800, 800) for _ in range(3)]
        v = [rng.choice(pool) for _ in range(n)]
    else:                # log-zeros
        v = [(-INF if rng.random() < 0.4 else rng.uniform(-800, 800)) for _ in range(n)]
        if rng.random() < 0.25:
            v = [-INF] * n
    if n and rng.random() < 0.03:
        v[rng.randrange(n)] = INF
    return v


def pair(rng, kinds=None, kind2=None):
    """two vectors; unequal lengths with probability 0.15"""
    k = rng.choice(kinds or KINDS)
    n = length(rng)
    m = n
    if rng.random() < 0.15:
        m = length(rng)
    return values(rng, n, k), values(rng, m, kind2 or k)


def one(rng, kinds=None):
    return values(rng, length(rng), rng.choice(kinds or KINDS))


def flag(rng):
    return "1" if rng.random() < 0.5 else "0"


def ops_arith(rng):
    o = []
    for name in ("add", "sub", "mul", "div"):
        a, b = pair(rng)
        o.append("%s %s ; %s" % (name, vec(a), vec(b)))
    name = rng.choice(["addeq", "subeq", "muleq", "diveq"])
    a, b = pair(rng)
    o.append("%s %s ; %s" % (name, vec(a), vec(b)))
    name = rng.choice(["addc", "subc", "mulc", "divc"])
    o.append("%s %s ; %s" % (name, vec(one(rng)), hx(rng.choice([0.5, 2.0, -3.0, rng.uniform(-10, 10)]))))
    name = rng.choice(["cadd", "csub", "cmul", "cdiv"])
    o.append("%s %s ; %s" % (name, hx(rng.choice([0.5, 2.0, -3.0, rng.uniform(-10, 10)])), vec(one(rng))))
    return o


def ops_reduce(rng):
    o = []
    v = one(rng, ["tiny", "ints", "bigints", "reals", "mag"])
    o += ["sum " + vec(v), "cumsum " + vec(v)]
    v = values(rng, min(length(rng), 24), rng.choice(["tiny", "ints", "reals", "pos"]))
    o += ["prod " + vec(v), "cumprod " + vec(v)]
    a, b = pair(rng)
    o.append("sumprod %s ; %s" % (vec(a), vec(b)))
    a, b = pair(rng)
    o.append("scalar %s ; %s" % (vec(a), vec(b)))
    a, b = pair(rng)
    w = values(rng, len(b) if rng.random() < 0.9 else length(rng), "pos")
    o.append("scalarw %s ; %s ; %s" % (vec(a), vec(b), vec(w)))
    o.append("norm " + vec(one(rng)))
    a, w = pair(rng, None, "pos")
    o.append("normw %s ; %s" % (vec(a), vec(w)))
    a, b = pair(rng, ["ints", "reals", "mag"])
    o.append("cos %s ; %s" % (vec(a), vec(b)))
    return o


def with_inf(rng, v):
    v = list(v)
    if v and rng.random() < 0.1:
        v[rng.randrange(len(v))] = rng.choice([INF, -INF])
    return v


def ops_extrema(rng):
    o = []
    for name in ("min", "max", "whichmin", "whichmax", "whichminall", "whichmaxall", "range"):
        v = with_inf(rng, one(rng, ["tiny", "tiny", "ints", "reals"]))
        o.append(name + " " + vec(v))
    # the maximum first / last / everywhere
    n = rng.randint(1, 10)
    v = values(rng, n, "tiny")
    o.append("whichmax " + vec([max(v)] + v))
    o.append("whichmin " + vec(v + [min(v)]))
    o.append("whichmax " + vec([v[0]] * n))
    return o


def ops_moments(rng):
    o = []
    o.append("order " + vec(one(rng, ["tiny", "ints", "reals", "mag"])))
    o.append("order " + vec(values(rng, rng.randint(17, 64), "tiny")))   # ties beyond the insertion-sort threshold
    o.append("median " + vec(one(rng, ["tiny", "ints", "reals", "mag"])))
    o.append("mean " + vec(one(rng)))
    a, w = pair(rng, None, "pos")
    o.append("meanw %s %s ; %s" % (flag(rng), vec(a), vec(w)))
    o.append("center " + vec(one(rng)))
    a, w = pair(rng, None, "pos")
    o.append("centerw %s %s ; %s" % (flag(rng), vec(a), vec(w)))
    a, b = pair(rng, ["ints", "reals", "mag", "tiny"])
    o.append("cov %s %s ; %s" % (flag(rng), vec(a), vec(b)))
    v = one(rng, ["ints", "reals", "mag", "tiny"])
    o.append("var %s %s" % (flag(rng), vec(v)))
    o.append("sd %s %s" % (flag(rng), vec(v)))
    a, b = pair(rng, ["ints", "reals", "mag"])
    o.append("cor %s ; %s" % (vec(a), vec(b)))
    # nearly collinear: correlation close to +-1
    n = rng.randint(2, 30)
    a = values(rng, n, "reals")
    k = rng.choice([-2.0, 0.5, 3.0])
    o.append("cor %s ; %s" % (vec(a), vec([k * x + rng.choice([0, 0, 1e-6 * rng.random()]) for x in a])))
    a, b = pair(rng, ["ints", "reals"])
    w = values(rng, len(b) if rng.random() < 0.9 else length(rng), "pos")
    o.append("covw %s %s %s ; %s ; %s" % (flag(rng), flag(rng), vec(a), vec(b), vec(w)))
    a, w = pair(rng, ["ints", "reals"], "pos")
    o.append("varw %s %s %s ; %s" % (flag(rng), flag(rng), vec(a), vec(w)))
    a, b = pair(rng, ["ints", "reals"])
    w = values(rng, len(b) if rng.random() < 0.9 else length(rng), "pos")
    o.append("corw %s %s ; %s ; %s" % (flag(rng), vec(a), vec(b), vec(w)))
    o.append("shannon %s ; %s" % (hx(rng.choice([2.7182818, 2.0, 10.0])), vec(one(rng, ["prob", "unit", "pos"]))))
    o.append("shannondisc %s ; %s" % (hx(rng.choice([2.7182818, 2.0, 10.0])), vec(one(rng, ["tiny", "tiny", "ints"]))))
    k = rng.choice(["tiny", "tiny", "ints"])
    a, b = pair(rng, [k])
    if rng.random() < 0.3 and len(a) == len(b):     # dependent samples
        b = [x * x for x in a]
    o.append("midisc %s ; %s ; %s" % (hx(rng.choice([2.7182818, 2.0, 10.0])), vec(a), vec(b)))
    # seq: from/to on a grid, and arbitrary reals
    by = rng.choice([1.0, 0.5, 0.25, 2.0, 3.0, 0.1])
    f = rng.randint(-20, 20) * by
    t = f + rng.randint(-40, 40) * by
    o.append("seq %s %s %s" % (hx(f), hx(t), hx(by)))
    f, t = rng.uniform(-50, 50), rng.uniform(-50, 50)
    o.append("seq %s %s %s" % (hx(f), hx(t), hx(rng.uniform(0.3, 7))))
    return o


def ops_sets(rng):
    o = []
    ks = ["tiny", "tiny", "ints"]
    o.append("unique " + vec(one(rng, ks)))
    o.append("isunique " + vec(one(rng, ks + ["reals"])))
    v = one(rng, ks)
    o.append("contains %s ; %s" % (hx(rng.choice(v + [99.0])), vec(v)))
    o.append("which %s ; %s" % (hx(rng.choice(v + [99.0])), vec(v)))
    o.append("whichall %s ; %s" % (hx(rng.choice(v + [99.0])), vec(v)))
    k = rng.choice([0, 1, 2, 2, 3, 4])
    o.append(("appendall " + " ; ".join(vec(values(rng, rng.randint(0, 6), "tiny")) for _ in range(k))).strip())
    for name in ("union", "inter", "diff", "havesame", "containsall"):
        k = rng.choice(ks)
        a = values(rng, length(rng), k)
        b = values(rng, length(rng), k)
        r = rng.random()
        if r < 0.1:
            b = []
        elif r < 0.2:
            b = list(a)
            rng.shuffle(b)
        elif r < 0.35 and a:
            b = [rng.choice(a) for _ in range(rng.randint(0, len(a)))]    # a sub-multiset
        elif r < 0.4:
            a = []
        o.append("%s %s ; %s" % (name, vec(a), vec(b)))
    return o


def ops_log(rng):
    o = []
    for name in ("lse", "lme", "sumexp", "lognorm"):
        o.append(name + " " + vec(logvalues(rng, length(rng))))
    for name in ("lsew", "sumexpw"):
        n = length(rng)
        m = n if rng.random() < 0.85 else length(rng)
        w = values(rng, m, rng.choice(["pos", "pos", "unit", "reals"]))
        o.append("%s %s ; %s" % (name, vec(logvalues(rng, n)), vec(w)))
    c = rng.choice([1.0, -5.5, 700.0, -1e5, 1e300, rng.uniform(-1000, 1000)])
    o.append("lseshift %s ; %s" % (hx(c), vec(logvalues(rng, length(rng)))))
    specials = [-INF, INF, 0.0, 1.0, -745.2, 709.8, 1e300, -1e300]
    for _ in range(3):
        r = rng.random()
        if r < 0.3:
            a, b = rng.choice(specials), rng.choice(specials)
        elif r < 0.5:
            a = rng.uniform(-800, 800)
            b = a
        elif r < 0.6:
            a, b = rng.choice(specials), rng.uniform(-800, 800)
        else:
            a, b = rng.uniform(-800, 800), rng.uniform(-800, 800)
        o.append("logsum %s %s" % (hx(a), hx(b)))
    return o


def ops_fdr(rng):
    return ["fdr " + vec(values(rng, length(rng), "pvals")), "fdr " + vec(values(rng, rng.randint(17, 64), "pvals"))]


GROUPS = [ops_arith, ops_reduce, ops_extrema, ops_moments, ops_sets, ops_log, ops_fdr]


def generate(seed, tier):
    rng = random.Random(seed)
    cases = []
    rounds = 5000 if tier == "thorough" else 500
    for i in range(rounds):
        for g in GROUPS:
            cases.append(["case %s%d" % (g.__name__[4:], i)] + g(rng))
    return cases


RELATIONAL = ("order", "fdr")


def compare(op_line, impl, model):
    """bit-exact equality, except for the two routines whose answer depends on the order in which
    std::sort leaves equal keys: there the predicate (order_sorted_perm / fdr_spec) decides."""
    if " ".join(impl.split()) == " ".join(model.split()):
        return True
    name = op_line.split()[0]
    if name in RELATIONAL and not impl.startswith(("exc:", "crash", "hang", "short")):
        keys = op_line.split()[1:]
        return len(set(keys)) < len(keys)      # only when there are ties
    return False


def coverage_extra(cases, answers):
    import collections
    lens = collections.Counter()
    kinds = collections.Counter()
    raised = collections.Counter()
    for c, a in zip(cases, answers):
        ops = [l for l in c if not l.startswith("case")]
        for l, r in zip(ops, a or []):
            t = l.split()
            first = []
            for x in t[1:]:
                if x == ";":
                    break
                if len(x) == 16:
                    first.append(x)
            n = len(first)
            lens["0" if n == 0 else "1" if n == 1 else "2" if n == 2 else "3-12" if n <= 12 else "13-64" if n <= 64 else ">64"] += 1
            if any(x in ("fff0000000000000", "7ff0000000000000") for x in t[1:]):
                kinds["with_inf"] += 1
            if r.startswith("exc:"):
                raised[r] += 1
            if r == "nan" or " nan" in r:
                kinds["answer_nan"] += 1
    return {"first_argument_length_histogram": dict(lens), "input_kinds": dict(kinds), "raised_by_kind": dict(raised)}
