"""Script generator for C07 (VectorTools / NumTools::logsum / StatTools::computeFdr).

Every operation is self-contained: `<op> [flags] <hex double>* [; <hex double>*]*`.
Vector lengths 0..64 (0, 1, 2 over-represented); value kinds: small integers (ties), integers,
reals, mixed magnitudes, positive weights, probabilities, log-space values (up to +-1e300, with
-inf = log-zero and occasionally +inf); 15 % of the binary operations get unequal lengths.
"""
import random, struct, math

INF = float("inf")


def hx(x):
    return struct.pack(">d", float(x)).hex()


def vec(v):
    return " ".join(hx(x) for x in v)


def length(rng):
    r = rng.random()
    if r < 0.05:
        return 0
    if r < 0.10:
        return 1
    if r < 0.15:
        return 2
    if r < 0.55:
        return rng.randint(3, 12)
    return rng.randint(13, 64)


KINDS = ["tiny", "ints", "reals", "mag", "pos"]


def values(rng, n, kind):
    if kind == "tiny":
        return [float(rng.randint(-3, 3)) for _ in range(n)]
    if kind == "ints":
        return [float(rng.randint(-50, 50)) for _ in range(n)]
    if kind == "bigints":
        return [float(rng.randint(-2 ** 20, 2 ** 20)) for _ in range(n)]
    if kind == "reals":
        return [rng.uniform(-100, 100) for _ in range(n)]
    if kind == "mag":
        return [rng.choice([-1, 1]) * 10 ** rng.uniform(-5, 5) for _ in range(n)]
    if kind == "pos":
        return [rng.uniform(0.01, 10) for _ in range(n)]
    if kind == "prob":
        w = [rng.uniform(0.0, 1) for _ in range(n)]
        s = sum(w) or 1.0
        return [x / s for x in w]
    if kind == "unit":
        return [rng.choice([0.0, 1.0, rng.random(), rng.random()]) for _ in range(n)]
    if kind == "pvals":
        if rng.random() < 0.3:   # ties
            pool = [rng.random() for _ in range(max(1, n // 3))]
            return [rng.choice(pool) for _ in range(n)]
        return [rng.random() * 10 ** -rng.randint(0, 6) for _ in range(n)]
    if kind == "log":
        return logvalues(rng, n)
    raise ValueError(kind)


def logvalues(rng, n):
    """values in log space"""
    mode = rng.random()
    if mode < 0.30:      # moderate: the naive formula works
        v = [rng.uniform(-30, 30) for _ in range(n)]
    elif mode < 0.50:    # the naive formula overflows / underflows
        c = rng.choice([-1, 1]) * rng.uniform(700, 5000)
        v = [c + rng.uniform(-40, 40) for _ in range(n)]
    elif mode < 0.65:    # huge magnitudes
        e = rng.choice([1e10, 1e100, 1e300])
        v = [rng.uniform(-1, 1) * e for _ in range(n)]
    elif mode < 0.75:    # wide spread
        v = [rng.uniform(-2000, 2000) for _ in range(n)]
    elif mode < 0.85:    # ties
        pool = [rng.uniform(-800, 800) for _ in range(3)]
        v = [rng.choice(pool) for _ in range(n)]
    else:                # log-zeros
        v = [(-INF if rng.random() < 0.4 else rng.uniform(-800, 800)) for _ in range(n)]
        if rng.random() < 0.25:
            v = [-INF] * n
    if n and rng.random() < 0.03:
        v[rng.randrange(n)] = INF
    return v


def pair(rng, kinds=None, kind2=None):
    """two vectors; unequal lengths with probability 0.15"""
    k = rng.choice(kinds or KINDS)
    n = length(rng)
    m = n
    if rng.random() < 0.15:
        m = length(rng)
    return values(rng, n, k), values(rng, m, kind2 or k)


def one(rng, kinds=None):
    return values(rng, length(rng), rng.choice(kinds or KINDS))


def flag(rng):
    return "1" if rng.random() < 0.5 else "0"


def ops_arith(rng):
    o = []
    for name in ("add", "sub", "mul", "div"):
        a, b = pair(rng)
        o.append("%s %s ; %s" % (name, vec(a), vec(b)))
    name = rng.choice(["addeq", "subeq", "muleq", "diveq"])
    a, b = pair(rng)
    o.append("%s %s ; %s" % (name, vec(a), vec(b)))
    name = rng.choice(["addc", "subc", "mulc", "divc"])
    o.append("%s %s ; %s" % (name, vec(one(rng)), hx(rng.choice([0.5, 2.0, -3.0, rng.uniform(-10, 10)]))))
    name = rng.choice(["cadd", "csub", "cmul", "cdiv"])
    o.append("%s %s ; %s" % (name, hx(rng.choice([0.5, 2.0, -3.0, rng.uniform(-10, 10)])), vec(one(rng))))
    return o


def ops_reduce(rng):
    o = []
    v = one(rng, ["tiny", "ints", "bigints", "reals", "mag"])
    o += ["sum " + vec(v), "cumsum " + vec(v)]
    v = values(rng, min(length(rng), 24), rng.choice(["tiny", "ints", "reals", "pos"]))
    o += ["prod " + vec(v), "cumprod " + vec(v)]
    a, b = pair(rng)
    o.append("sumprod %s ; %s" % (vec(a), vec(b)))
    a, b = pair(rng)
    o.append("scalar %s ; %s" % (vec(a), vec(b)))
    a, b = pair(rng)
    w = values(rng, rng.choice([len(a), len(b)]) if rng.random() < 0.9 else length(rng), "pos")
    o.append("scalarw %s ; %s ; %s" % (vec(a), vec(b), vec(w)))
    o.append("norm " + vec(one(rng)))
    a, w = pair(rng, None, "pos")
    if rng.random() < 0.15:
        w = [rng.choice([0.0, -1.0, 1.0, rng.uniform(-2, 2)]) for _ in w]
    o.append("normw %s ; %s" % (vec(a), vec(w)))
    a, b = pair(rng, ["ints", "reals", "mag"])
    o.append("cos %s ; %s" % (vec(a), vec(b)))
    return o


def with_inf(rng, v):
    v = list(v)
    if v and rng.random() < 0.1:
        v[rng.randrange(len(v))] = rng.choice([INF, -INF])
    return v


def ops_extrema(rng):
    o = []
    for name in ("min", "max", "whichmin", "whichmax", "whichminall", "whichmaxall", "range"):
        v = with_inf(rng, one(rng, ["tiny", "tiny", "ints", "reals"]))
        o.append(name + " " + vec(v))
    # the maximum first / last / everywhere
    n = rng.randint(1, 10)
    v = values(rng, n, "tiny")
    o.append("whichmax " + vec([max(v)] + v))
    o.append("whichmin " + vec(v + [min(v)]))
    o.append("whichmax " + vec([v[0]] * n))
    return o


def ops_moments(rng):
    o = []
    o.append("order " + vec(one(rng, ["tiny", "ints", "reals", "mag"])))
    o.append("order " + vec(values(rng, rng.randint(17, 64), "tiny")))   # ties beyond the insertion-sort threshold
    o.append("median " + vec(one(rng, ["tiny", "ints", "reals", "mag"])))
    o.append("mean " + vec(one(rng)))
    a, w = pair(rng, None, "pos")
    o.append("meanw %s %s ; %s" % (flag(rng), vec(a), vec(w)))
    o.append("center " + vec(one(rng)))
    a, w = pair(rng, None, "pos")
    o.append("centerw %s %s ; %s" % (flag(rng), vec(a), vec(w)))
    a, b = pair(rng, ["ints", "reals", "mag", "tiny"])
    o.append("cov %s %s ; %s" % (flag(rng), vec(a), vec(b)))
    v = one(rng, ["ints", "reals", "mag", "tiny"])
    o.append("var %s %s" % (flag(rng), vec(v)))
    o.append("sd %s %s" % (flag(rng), vec(v)))
    a, b = pair(rng, ["ints", "reals", "mag"])
    o.append("cor %s ; %s" % (vec(a), vec(b)))
    # nearly collinear: correlation close to +-1
    n = rng.randint(2, 30)
    a = values(rng, n, "reals")
    k = rng.choice([-2.0, 0.5, 3.0])
    o.append("cor %s ; %s" % (vec(a), vec([k * x + rng.choice([0, 0, 1e-6 * rng.random()]) for x in a])))
    a, b = pair(rng, ["ints", "reals"])
    w = values(rng, len(b) if rng.random() < 0.9 else length(rng), "pos")
    o.append("covw %s %s %s ; %s ; %s" % (flag(rng), flag(rng), vec(a), vec(b), vec(w)))
    a, w = pair(rng, ["ints", "reals"], "pos")
    o.append("varw %s %s %s ; %s" % (flag(rng), flag(rng), vec(a), vec(w)))
    a, b = pair(rng, ["ints", "reals"])
    w = values(rng, len(b) if rng.random() < 0.9 else length(rng), "pos")
    o.append("corw %s %s ; %s ; %s" % (flag(rng), vec(a), vec(b), vec(w)))
    o.append("shannon %s ; %s" % (hx(rng.choice([2.7182818, 2.0, 10.0])), vec(one(rng, ["prob", "unit", "pos"]))))
    o.append("shannondisc %s ; %s" % (hx(rng.choice([2.7182818, 2.0, 10.0])), vec(one(rng, ["tiny", "tiny", "ints"]))))
    k = rng.choice(["tiny", "tiny", "ints"])
    a, b = pair(rng, [k])
    if rng.random() < 0.3 and len(a) == len(b):     # dependent samples
        b = [x * x for x in a]
    o.append("midisc %s ; %s ; %s" % (hx(rng.choice([2.7182818, 2.0, 10.0])), vec(a), vec(b)))
    # seq: from/to on a grid, and arbitrary reals
    by = rng.choice([1.0, 0.5, 0.25, 2.0, 3.0, 0.1])
    f = rng.randint(-20, 20) * by
    t = f + rng.randint(-40, 40) * by
    o.append("seq %s %s %s" % (hx(f), hx(t), hx(by)))
    f, t = rng.uniform(-50, 50), rng.uniform(-50, 50)
    o.append("seq %s %s %s" % (hx(f), hx(t), hx(rng.uniform(0.3, 7))))
    return o


def ops_sets(rng):
    o = []
    ks = ["tiny", "tiny", "ints"]
    o.append("unique " + vec(one(rng, ks)))
    o.append("isunique " + vec(one(rng, ks + ["reals"])))
    v = one(rng, ks)
    o.append("contains %s ; %s" % (hx(rng.choice(v + [99.0])), vec(v)))
    o.append("which %s ; %s" % (hx(rng.choice(v + [99.0])), vec(v)))
    o.append("whichall %s ; %s" % (hx(rng.choice(v + [99.0])), vec(v)))
    k = rng.choice([0, 1, 2, 2, 3, 4])
    o.append(("appendall " + " ; ".join(vec(values(rng, rng.randint(0, 6), "tiny")) for _ in range(k))).strip())
    for name in ("union", "inter", "diff", "havesame", "containsall"):
        k = rng.choice(ks)
        a = values(rng, length(rng), k)
        b = values(rng, length(rng), k)
        r = rng.random()
        if r < 0.1:
            b = []
        elif r < 0.2:
            b = list(a)
            rng.shuffle(b)
        elif r < 0.35 and a:
            b = [rng.choice(a) for _ in range(rng.randint(0, len(a)))]    # a sub-multiset
        elif r < 0.4:
            a = []
        o.append("%s %s ; %s" % (name, vec(a), vec(b)))
    return o


def ops_log(rng):
    o = []
    for name in ("lse", "lme", "sumexp", "lognorm"):
        o.append(name + " " + vec(logvalues(rng, length(rng))))
    for name in ("lsew", "sumexpw"):
        n = length(rng)
        m = n if rng.random() < 0.85 else length(rng)
        w = values(rng, m, rng.choice(["pos", "pos", "unit", "reals"]))
        o.append("%s %s ; %s" % (name, vec(logvalues(rng, n)), vec(w)))
    # extreme weights (ratios up to 1e600): the leading term v_i + ln w_i need not be at max(v)
    for name in ("lsew", "sumexpw"):
        n = rng.randint(1, 8)
        w = [10.0 ** rng.uniform(-300, 300) * (1.0 if rng.random() < 0.9 else rng.choice([0.0, -1.0])) for _ in range(n)]
        r = rng.random()
        if r < 0.5:
            v = [rng.uniform(-700, 700) for _ in range(n)]
        elif r < 0.8:          # anti-correlated with the weights: the weighted terms are comparable
            v = [-math.log(abs(x)) + rng.uniform(-30, 30) if x != 0.0 else rng.uniform(-700, 700) for x in w]
        else:
            v = logvalues(rng, n)
        o.append("%s %s ; %s" % (name, vec(v), vec(w)))
    c = rng.choice([1.0, -5.5, 700.0, -1e5, 1e300, rng.uniform(-1000, 1000)])
    o.append("lseshift %s ; %s" % (hx(c), vec(logvalues(rng, length(rng)))))
    specials = [-INF, INF, 0.0, 1.0, -745.2, 709.8, 1e300, -1e300]
    for _ in range(3):
        r = rng.random()
        if r < 0.3:
            a, b = rng.choice(specials), rng.choice(specials)
        elif r < 0.5:
            a = rng.uniform(-800, 800)
            b = a
        elif r < 0.6:
            a, b = rng.choice(specials), rng.uniform(-800, 800)
        else:
            a, b = rng.uniform(-800, 800), rng.uniform(-800, 800)
        o.append("logsum %s %s" % (hx(a), hx(b)))
    return o


def ops_fdr(rng):
    return ["fdr " + vec(values(rng, length(rng), "pvals")), "fdr " + vec(values(rng, rng.randint(17, 64), "pvals"))]



# ---------------------------------------------------------------------------------------------
# round 2: every overload, every combination of the boolean options, lists of 0..5 vectors

def weights(rng, n):
    k = rng.random()
    if k < 0.12:                                            # zero and negative weights ("all weight vectors")
        return [rng.choice([0.0, 0.0, -1.0, 1.0, rng.uniform(-2, 2), rng.uniform(0, 2)]) for _ in range(n)]
    k = rng.random()
    if k < 0.35:
        return values(rng, n, "pos")
    if k < 0.6:
        return values(rng, n, "prob")                      # already normalised: 1 - sum w^2 in (0,1)
    if k < 0.85:
        return [rng.uniform(0.01, 0.3) for _ in range(n)]   # small: the unnormalised unbiased divisor stays positive for short vectors
    return [float(rng.randint(1, 4)) for _ in range(n)]     # integer weights (exact arithmetic)


def ops_options(rng):
    """the weighted and unweighted moments with *every* combination of their boolean options on the
    same data (so that two options being confused, swapped or ignored shows)"""
    o = []
    n = rng.choice([1, 2, 3, 3, 4, 5, 8, 13, 30]) if rng.random() < 0.93 else 0
    kind = rng.choice(["ints", "reals", "tiny", "mag"])
    a = values(rng, n, kind)
    b = values(rng, n, kind)
    w = weights(rng, n)
    r = rng.random()          # which of the three lengths is the odd one (each raises at a different test)
    if r < 0.05:
        w = weights(rng, length(rng))
    elif r < 0.10:
        b = values(rng, length(rng), kind)
    elif r < 0.15:
        a = values(rng, length(rng), kind)
    for u in "01":
        o.append("cov %s %s ; %s" % (u, vec(a), vec(b)))
        o.append("var %s %s" % (u, vec(a)))
        o.append("sd %s %s" % (u, vec(a)))
    for nw in "01":
        o.append("meanw %s %s ; %s" % (nw, vec(a), vec(w)))
        o.append("centerw %s %s ; %s" % (nw, vec(a), vec(w)))
        o.append("corw %s %s ; %s ; %s" % (nw, vec(a), vec(b), vec(w)))
    for u in "01":
        for nw in "01":
            o.append("covw4 %s %s %s ; %s ; %s" % (u, nw, vec(a), vec(b), vec(w)))
            o.append("varw4 %s %s %s ; %s" % (u, nw, vec(a), vec(w)))
            o.append("sdw %s %s %s ; %s" % (u, nw, vec(a), vec(w)))
    o.append("cosw %s ; %s ; %s" % (vec(a), vec(b), vec(w)))
    return o


def veclist(rng, k):
    """k vectors over a small alphabet, built so that unions and intersections are non-trivial:
    a common core, elements missing from exactly one vector (first / middle / last), repeats"""
    alphabet = [float(x) for x in range(-3, 6)]
    mode = rng.random()
    if k == 0:
        return []
    if mode < 0.25:
        return [values(rng, rng.randint(0, 7), "tiny") for _ in range(k)]
    core = rng.sample(alphabet, rng.randint(0, 3))
    others = [x for x in alphabet if x not in core]
    vs = []
    for _ in range(k):
        v = core + rng.sample(others, rng.randint(0, min(4, len(others))))
        if rng.random() < 0.4 and v:
            v += [rng.choice(v) for _ in range(rng.randint(1, 3))]     # repeats
        rng.shuffle(v)
        vs.append(v)
    if others and k >= 2 and rng.random() < 0.7:
        # an element present everywhere except in one chosen vector
        x = rng.choice(others)
        miss = rng.randrange(k)
        for i, v in enumerate(vs):
            if i == miss:
                vs[i] = [y for y in v if y != x]
            elif x not in v:
                v.insert(rng.randint(0, len(v)), x)
    if rng.random() < 0.1:
        vs[rng.randrange(k)] = []
    return vs


def lst(vs):
    return "".join(" ; " + vec(v) for v in vs).rstrip()


def ops_lists(rng):
    o = []
    for k in range(0, 6):
        vs = veclist(rng, k)
        o.append(("unionlist" + lst(vs)).strip())
        vs = veclist(rng, k)
        o.append(("interlist" + lst(vs)).strip())
        if rng.random() < 0.5:
            o.append(("appendlist" + lst(veclist(rng, k))).strip())
    # the element is missing from one middle vector only
    k = rng.randint(3, 5)
    x = 9.0
    vs = [values(rng, rng.randint(0, 4), "tiny") + [x] for _ in range(k)]
    for v in vs:
        rng.shuffle(v)
    j = rng.randint(1, k - 2)
    vs[j] = [y for y in vs[j] if y != x]
    o.append("interlist" + lst(vs))
    return o


def ops_sets2(rng):
    o = []
    ks = ["tiny", "tiny", "ints"]

    def two():
        k = rng.choice(ks)
        a = values(rng, length(rng) if rng.random() < 0.5 else rng.randint(0, 6), k)
        b = values(rng, length(rng) if rng.random() < 0.5 else rng.randint(0, 6), k)
        r = rng.random()
        if r < 0.1:
            b = []
        elif r < 0.25:
            b = list(a)
            rng.shuffle(b)
        elif r < 0.4 and a:
            b = [rng.choice(a) for _ in range(rng.randint(0, len(a)))]
        elif r < 0.45:
            a = []
        return a, b
    for name in ("extend", "append2", "prepend", "havesame2", "containsall2"):
        a, b = two()
        o.append("%s %s ; %s" % (name, vec(a), vec(b)))
    a, b = two()
    c = values(rng, rng.randint(0, 4), "tiny")
    o.append("diff3 %s ; %s ; %s" % (vec(a), vec(b), vec(c)))
    for n in (0, 1, 2, rng.randint(3, 5)):
        o.append("rep %s ; %s" % (hx(n), vec(values(rng, rng.choice([0, 1, 2, 3, 7]), "tiny"))))
    v = values(rng, rng.randint(1, 12), rng.choice(ks))
    pos = [float(rng.randrange(len(v))) for _ in range(rng.randint(0, 8))]
    o.append("extract %s ; %s" % (vec(pos), vec(v)))
    o.append("countvalues " + vec(one(rng, ks + ["reals"])))
    v = one(rng, ks)
    o.append("containsu %s ; %s" % (hx(rng.choice(v + [99.0])), vec(v)))
    # T = double, U = int: halves in the first vector are truncated before the comparison
    a = [rng.randint(-6, 6) / 2.0 for _ in range(rng.randint(0, 10))]
    b = [float(rng.randint(-3, 3)) for _ in range(rng.randint(0, 6))]
    o.append("intertu %s ; %s" % (vec(a), vec(b)))
    return o


def ops_misc(rng):
    o = []
    a = values(rng, rng.randint(0, 8), rng.choice(["tiny", "ints", "reals"]))
    b = values(rng, rng.randint(0, 8), rng.choice(["tiny", "ints", "reals"]))
    o.append("kron %s ; %s" % (vec(a), vec(b)))
    c = rng.choice([0.5, 2.0, -3.0, 0.0, rng.uniform(-10, 10)])
    o.append("%s %s ; %s" % (rng.choice(["fillc", "fill"]), vec(one(rng)), hx(c)))
    for name in ("addceq", "subceq", "mulceq", "divceq"):
        o.append("%s %s ; %s" % (name, vec(values(rng, rng.randint(0, 10), rng.choice(KINDS))), hx(rng.choice([0.5, 2.0, -3.0, rng.uniform(-10, 10)]))))
    for name in ("vlog", "vexp", "vcos", "vsin", "vlog10", "vsqr", "vabs"):
        v = values(rng, rng.randint(0, 10), rng.choice(["pos", "reals", "tiny", "mag"]))
        if rng.random() < 0.1 and v:
            v[0] = rng.choice([0.0, -0.0, INF, -INF])
        o.append(name + " " + vec(v))
    o.append("vlogb %s ; %s" % (hx(rng.choice([2.0, 10.0, 2.7182818])), vec(values(rng, rng.randint(0, 10), "pos"))))
    o.append("vpow %s ; %s" % (hx(rng.choice([2.0, 0.5, -1.0, 3.0, 0.0, rng.uniform(-2, 2)])), vec(values(rng, rng.randint(0, 10), rng.choice(["pos", "reals"])))))
    o.append("vfact " + vec([float(rng.choice([0, 1, 2, 3, 5, 10, 18, 20, 25])) for _ in range(rng.randint(0, 6))]))
    specials = [0.0, -0.0, 1.0, -1.0, 2.5, -2.5, 1e300, -1e300, 5e-324, INF, -INF]
    x = rng.choice(specials + [rng.uniform(-100, 100)] * 6)
    y = rng.choice(specials + [rng.uniform(-100, 100), x] * 4)
    o += ["ntabs " + hx(x), "ntsign " + hx(x), "ntsqr " + hx(x)]
    o += ["ntmax %s %s" % (hx(x), hx(y)), "ntmin %s %s" % (hx(x), hx(y)), "ntsign2 %s %s" % (hx(x), hx(y))]
    o.append("ntswap " + vec([rng.uniform(-9, 9) for _ in range(rng.choice([2, 3, 4]))]))
    n = rng.choice([0, 1, 2, 3, 5, 10, 18, 19, 25, 100, 170, 171])
    o += ["ntfact " + hx(n), "ntlogfact " + hx(n)]
    v = values(rng, rng.randint(0, 20) if rng.random() < 0.9 else 0, rng.choice(["ints", "reals", "tiny"]))
    o.append("breaks %s ; %s" % (hx(rng.choice([0, 1, 2, 3, 4, 7, 10])), vec(v)))
    n = rng.randint(2, 40)
    v = values(rng, n, rng.choice(["ints", "reals", "mag"]))
    if len(set(v)) > 1:
        o.append("nclass " + vec(v))
    if rng.random() < 0.1:
        o.append("nclass")
    rows = [values(rng, rng.randint(0, 4), "tiny") for _ in range(rng.randint(0, 4))]
    o.append(("resize2 %s %s" % (hx(rng.randint(0, 5)), hx(rng.randint(0, 5))) + lst(rows)).strip())
    o.append("resize3 " + vec([rng.randint(0, 3) for _ in range(6)]))
    o.append("resize4 " + vec([rng.randint(0, 3) for _ in range(8)]))
    return o


def ops_cont(rng):
    """continuous entropy / mutual information: samples without ties, at least 3 points"""
    o = []
    base = rng.choice([2.7182818, 2.0, 10.0])
    n = rng.randint(3, 16)
    v = [rng.gauss(0, rng.choice([0.5, 1, 5])) + rng.choice([0, 10]) for _ in range(n)]
    o.append("shannoncont %s ; %s" % (hx(base), vec(v)))
    a = [rng.gauss(0, 1) for _ in range(n)]
    k = rng.choice([0.0, 0.5, -0.8])
    b = [k * x + rng.gauss(0, 1) for x in a]
    if rng.random() < 0.1:
        b = b[:-1]
    o.append("micont %s ; %s ; %s" % (hx(base), vec(a), vec(b)))
    return o


def ops_defaults(rng):
    """calls that leave trailing arguments to their defaults (a changed default value shows only here)"""
    o = []
    n = rng.choice([2, 3, 4, 5, 8, 13]) if rng.random() < 0.95 else rng.choice([0, 1])
    kind = rng.choice(["ints", "reals", "tiny"])
    a = values(rng, n, kind)
    b = values(rng, n, kind)
    w = weights(rng, n if rng.random() < 0.9 else length(rng))
    o.append("dcov %s ; %s" % (vec(a), vec(b)))
    o.append("dvar " + vec(a))
    o.append("dsd " + vec(a))
    o.append("dmeanw %s ; %s" % (vec(a), vec(w)))
    o.append("dcenterw %s ; %s" % (vec(a), vec(w)))
    o.append("dcorw %s ; %s ; %s" % (vec(a), vec(b), vec(w)))
    o.append("dcovw %s ; %s ; %s" % (vec(a), vec(b), vec(w)))
    o.append("dvarw %s ; %s" % (vec(a), vec(w)))
    o.append("dsdw %s ; %s" % (vec(a), vec(w)))
    for u in "01":
        o.append("dcovw1 %s %s ; %s ; %s" % (u, vec(a), vec(b), vec(w)))
        o.append("dvarw1 %s %s ; %s" % (u, vec(a), vec(w)))
        o.append("dsdw1 %s %s ; %s" % (u, vec(a), vec(w)))
    o.append("dshannon " + vec(one(rng, ["prob", "unit", "pos"])))
    o.append("dshannondisc " + vec(one(rng, ["tiny", "tiny", "ints"])))
    k = rng.choice(["tiny", "ints"])
    x, y = pair(rng, [k])
    o.append("dmidisc %s ; %s" % (vec(x), vec(y)))
    if rng.random() < 0.3:
        m = rng.randint(3, 12)
        v = [rng.gauss(0, 1) for _ in range(m)]
        o.append("dshannoncont " + vec(v))
        o.append("dmicont %s ; %s" % (vec(v), vec([0.5 * x + rng.gauss(0, 1) for x in v])))
    return o


GROUPS = [ops_arith, ops_reduce, ops_extrema, ops_moments, ops_sets, ops_log, ops_fdr,
          ops_options, ops_lists, ops_sets2, ops_misc, ops_cont, ops_defaults]


def generate(seed, tier):
    rng = random.Random(seed)
    cases = []
    rounds = 5000 if tier == "thorough" else 500
    for i in range(rounds):
        for g in GROUPS:
            cases.append(["case %s%d" % (g.__name__[4:], i)] + g(rng))
    return cases


RELATIONAL = ("order", "fdr")


def compare(op_line, impl, model):
    """bit-exact equality, except for the two routines whose answer depends on the order in which
    std::sort leaves equal keys: there the predicate (order_sorted_perm / fdr_spec) decides."""
    if impl.strip() == "bad-op" or model.strip() == "bad-op":
        return False                       # an operation one side does not know is never "agreement"
    if " ".join(impl.split()) == " ".join(model.split()):
        return True
    name = op_line.split()[0]
    if name in RELATIONAL and not impl.startswith(("exc:", "crash", "hang", "short")):
        keys = op_line.split()[1:]
        return len(set(keys)) < len(keys)      # only when there are ties
    return False


def coverage_extra(cases, answers):
    import collections
    lens = collections.Counter()
    kinds = collections.Counter()
    raised = collections.Counter()
    for c, a in zip(cases, answers):
        ops = [l for l in c if not l.startswith("case")]
        for l, r in zip(ops, a or []):
            t = l.split()
            first = []
            for x in t[1:]:
                if x == ";":
                    break
                if len(x) == 16:
                    first.append(x)
            n = len(first)
            lens["0" if n == 0 else "1" if n == 1 else "2" if n == 2 else "3-12" if n <= 12 else "13-64" if n <= 64 else ">64"] += 1
            if any(x in ("fff0000000000000", "7ff0000000000000") for x in t[1:]):
                kinds["with_inf"] += 1
            if r.startswith("exc:"):
                raised[r] += 1
            if r == "nan" or " nan" in r:
                kinds["answer_nan"] += 1
    return {"first_argument_length_histogram": dict(lens), "input_kinds": dict(kinds), "raised_by_kind": dict(raised)}
