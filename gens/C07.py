"""Script generator for C07 (VectorTools / NumTools::logsum / StatTools::computeFdr)."""
import random, struct, math


def hx(x):
    return struct.pack(">d", float(x)).hex()


def vec(v):
    return " ".join(hx(x) for x in v)


def generate(seed, tier):
    rng = random.Random(seed)
    cases = []
    n = 2000 if tier == "thorough" else 300
    for i in range(n):
        L = rng.randint(0, 64)
        v = [float(rng.randint(-50, 50)) for _ in range(L)]
        w = [rng.uniform(-700, 700) for _ in range(L)]
        ops = ["sum " + vec(v), "cumsum " + vec(v), "max " + vec(v), "sum " + vec(w), "lse " + vec(w),
               "logsum %s %s" % (hx(rng.uniform(-50, 50)), hx(rng.uniform(-50, 50)))]
        cases.append(["case s%d" % i] + ops)
    return cases
