"""Script generator for C03 (AbstractParameterAliasable).

Three object slots.  Values and bounds are integers meaning quarters.  A light shadow per slot
(namespace, parameters with their constraints, who follows whom) only *biases* the choices:
most requests are valid and most values lie inside every constraint of the object (so that an
update goes through the whole alias chain), a minority is meant to be refused (alias twice,
cycles of every length, unknown names, values outside a constraint somewhere in the chain).
"""
import itertools
import random

NAMES = list("abcdef")
NSLOT = 3
PRES = ["-", "-", "m.", "x", "ab."]
CONS = ["-", "-", "-", "c:1:-8:8:1", "c:0:-8:8:0", "c:1:0:+inf:0", "c:0:0:+inf:0", "c:0:-inf:6:1", "c:1:-4:12:0", "c:0:-2:4:1"]


def accepts(con, q):
    if con == "-":
        return True
    _, il, lo, hi, ih = con.split(":")
    lo_ok = True if lo == "-inf" else (q >= int(lo) if il == "1" else q > int(lo))
    hi_ok = True if hi == "+inf" else (q <= int(hi) if ih == "1" else q < int(hi))
    return lo_ok and hi_ok


def nm(s):
    return s if s else "-"


class Obj:
    def __init__(self, pre):
        self.pre = pre            # "" or prefix
        self.params = []          # [short, con]
        self.parent = {}          # short -> short it follows

    def clone(self):
        o = Obj(self.pre)
        o.params = [list(p) for p in self.params]
        o.parent = dict(self.parent)
        return o

    def shorts(self):
        return [p[0] for p in self.params]

    def cons(self):
        return [p[1] for p in self.params]

    def roots(self):
        return [s for s in self.shorts() if s not in self.parent]

    def inside_all(self, rng):
        cands = [q for q in range(-12, 17) if all(accepts(c, q) for c in self.cons())]
        return rng.choice(cands) if cands else rng.randint(-4, 8)

    def ancestors(self, x):
        r = []
        while x in self.parent and len(r) < 10:
            x = self.parent[x]
            r.append(x)
        return r


class Gen:
    def __init__(self, rng, tag):
        self.rng = rng
        self.ops = ["case " + tag]
        self.o = [None] * NSLOT

    def emit(self, s):
        self.ops.append(s)

    # ----- building blocks
    def new(self, k, pre=None):
        pre = self.rng.choice(PRES) if pre is None else pre
        self.o[k] = Obj("" if pre == "-" else pre)
        self.emit("new %d %s" % (k, pre))

    def add(self, k, short, q=None, con=None, bad_prefix=False):
        o = self.o[k]
        con = self.rng.choice(CONS) if con is None else con
        if q is None:
            cands = [x for x in range(-8, 13) if accepts(con, x)]
            q = self.rng.choice(cands)
        full = ("zz" if bad_prefix else (o.pre if o else "")) + short
        self.emit("add %d %s %d %s" % (k, nm(full), q, con))
        if o is not None and not bad_prefix and short not in o.shorts() and accepts(con, q):
            o.params.append([short, con])

    def populate(self, k, n, pre=None, cons=None):
        self.new(k, pre)
        for s in NAMES[:n]:
            self.add(k, s, con=(cons if cons is not None else None))

    def alias(self, k, p1, p2):
        o = self.o[k]
        self.emit("alias %d %s %s" % (k, nm(p1), nm(p2)))
        if o and p1 in o.shorts() and p2 in o.shorts() and p2 not in o.parent and p1 != p2 and p2 not in o.ancestors(p1):
            o.parent[p2] = p1      # (a constraint failure is ignored by the shadow)

    def unalias(self, k, p1, p2):
        o = self.o[k]
        self.emit("unalias %d %s %s" % (k, nm(p1), nm(p2)))
        if o and o.parent.get(p2) == p1:
            del o.parent[p2]

    def bulk(self, k, entries):
        o = self.o[k]
        self.emit("bulk %d %s" % (k, " ".join("%s:%s" % (nm(a), nm(b)) for a, b in entries)))
        # shadow: approximate (only used for biasing)
        if o and o.pre == "":
            m = dict(entries)
            done = True
            while done and m:
                done = False
                for key in sorted(m):
                    val = m[key]
                    if val not in m and val in o.shorts() and key in o.shorts() and key not in o.parent and key != val and key not in o.ancestors(val):
                        o.parent[key] = val
                        del m[key]
                        done = True
                        break

    def value_for(self, k, wild=0.15):
        o = self.o[k]
        if o is None or self.rng.random() < wild:
            return self.rng.randint(-16, 20)
        return o.inside_all(self.rng)

    def setv(self, k, short, q=None):
        q = self.value_for(k) if q is None else q
        self.emit("setv %d %s %d" % (k, nm(short), q))

    def full(self, k, short):
        o = self.o[k]
        return (o.pre if o else "") + short

    def bulkset(self, k, kind, names, same=None, wild=0.1):
        ents = []
        for s in names:
            q = same if same is not None else self.value_for(k, wild)
            ents.append("%s=%d" % (nm(self.full(k, s)), q))
        self.emit("%s %d %s" % (kind, k, " ".join(ents)))

    def copy(self, s, d):
        self.emit("copy %d %d" % (s, d))
        if self.o[s] is not None:
            self.o[d] = self.o[s].clone()

    def assign(self, s, d):
        self.emit("assign %d %d" % (s, d))
        if self.o[s] is not None and self.o[d] is not None:
            self.o[d] = self.o[s].clone()

    def ns(self, k, pre=None):
        pre = self.rng.choice(PRES) if pre is None else pre
        self.emit("ns %d %s" % (k, pre))
        if self.o[k] is not None:
            self.o[k].pre = "" if pre == "-" else pre

    def queries(self, k):
        o = self.o[k]
        self.emit("aliases %d" % k)
        if o and o.params:
            s = self.rng.choice(o.shorts())
            self.emit("aliasof %d %s" % (k, s))
            self.emit("from %d %s" % (k, nm(o.pre + s)))
            self.emit("from %d %s" % (k, s))

    def sweep_updates(self, k, rng_names=None):
        """every update route on every parameter (root first)"""
        o = self.o[k]
        names = rng_names or o.shorts()
        for s in names:
            self.setv(k, s)
        roots = o.roots()
        if roots:
            self.bulkset(k, "setvs", roots)
            self.bulkset(k, "matchvs", roots)
        v = o.inside_all(self.rng)
        self.bulkset(k, "setallv", o.shorts(), same=v)
        self.bulkset(k, "setvs", self.rng.sample(o.shorts(), max(1, len(o.shorts()) // 2)))


# ---------------------------------------------------------------- directed cases
def chain_cases(rng, tier):
    cases = []
    lens = [2, 3, 4, 5, 6]
    for n in lens:
        for order in ("down", "up", "rand"):
            for pre in ("-", "m."):
                for cons in ("-", None):
                    g = Gen(rng, "chain n=%d %s pre=%s cons=%s" % (n, order, pre, "free" if cons else "mixed"))
                    g.populate(0, n, pre, cons)
                    names = NAMES[:n]
                    perm = names[:]
                    rng.shuffle(perm)               # perm[i+1] follows perm[i]
                    links = [(perm[i], perm[i + 1]) for i in range(n - 1)]
                    if order == "up":
                        links.reverse()
                    elif order == "rand":
                        rng.shuffle(links)
                    for p1, p2 in links:
                        g.alias(0, p1, p2)
                    g.setv(0, perm[0])
                    g.sweep_updates(0)
                    g.queries(0)
                    # desynchronise one link by a direct write, then update above it
                    mid = perm[rng.randrange(1, n)]
                    g.setv(0, mid)
                    g.setv(0, perm[0])
                    g.setv(0, perm[0], q=None)
                    # un-alias in the middle and update again
                    p1, p2 = links[rng.randrange(len(links))]
                    g.unalias(0, p1, p2)
                    g.sweep_updates(0)
                    g.queries(0)
                    cases.append(g.ops)
    return cases


def refuse_cases(rng, tier):
    cases = []
    for n in range(1, 7):                      # cycle length
        for pre in ("-", "ab."):
            g = Gen(rng, "cycle len=%d pre=%s" % (n, pre))
            g.populate(0, max(n, 2), pre, "-")
            names = NAMES[:max(n, 2)]
            rot = rng.randrange(n)
            cyc = names[:n][rot:] + names[:n][:rot]
            for i in range(n - 1):
                g.alias(0, cyc[i], cyc[i + 1])
            g.alias(0, cyc[n - 1], cyc[0])      # closes the cycle
            g.queries(0)
            g.setv(0, cyc[0])
            g.setv(0, cyc[n - 1])
            g.queries(0)
            cases.append(g.ops)
    for n in (3, 4, 6):
        g = Gen(rng, "twice n=%d" % n)
        g.populate(0, n)
        a, b, c = rng.sample(NAMES[:n], 3)
        g.alias(0, a, b)
        g.alias(0, c, b)       # twice
        g.alias(0, a, b)       # the same link again
        g.alias(0, b, a)       # reverse
        g.alias(0, "q", a)
        g.alias(0, a, "q")
        g.unalias(0, c, b)     # not aliased
        g.unalias(0, a, b)
        g.alias(0, c, b)       # now fine
        g.sweep_updates(0)
        cases.append(g.ops)
    return cases


def bulk_cases(rng, tier):
    cases = []
    sizes = [2, 3, 4] if tier == "quick" else [2, 3, 4, 5]
    for n in sizes:
        for perm in itertools.permutations(NAMES[:n]):
            # chain perm[0] <- perm[1] <- ... : key perm[i+1] follows perm[i]; the key order of the
            # map (sorted names) is therefore every possible order relative to the chain
            if n >= 4 and tier == "quick" and rng.random() < 0.5:
                continue
            g = Gen(rng, "bulk chain " + "".join(perm))
            g.populate(0, n + (1 if n < 6 else 0), "-", rng.choice(["-", None]))
            g.bulk(0, [(perm[i + 1], perm[i]) for i in range(n - 1)])
            g.setv(0, perm[0])
            g.queries(0)
            cases.append(g.ops)
    for n in (2, 3, 4, 5):
        g = Gen(rng, "bulk cycle n=%d" % n)
        g.populate(0, n + 1, "-", "-")
        names = NAMES[:n]
        rng.shuffle(names)
        g.bulk(0, [(names[(i + 1) % n], names[i]) for i in range(n)])
        g.setv(0, names[0])
        cases.append(g.ops)
        g = Gen(rng, "bulk cycle+tail n=%d" % n)
        g.populate(0, n + 1, "-", "-")
        ents = [(names[(i + 1) % n], names[i]) for i in range(n)]
        ents.append((NAMES[n], names[0]))          # NAMES[n] -> into the cycle
        g.bulk(0, ents)
        cases.append(g.ops)
    for kind in range(8):
        g = Gen(rng, "bulk odd %d" % kind)
        pre = "-" if kind < 5 else "m."
        g.populate(0, 4, pre)
        if kind == 0:
            g.bulk(0, [("a", "zz")])                       # unknown source
        elif kind == 1:
            g.bulk(0, [("zz", "a")])                       # unknown target
        elif kind == 2:
            g.bulk(0, [("a", "a")])                        # follows itself
        elif kind == 3:
            g.alias(0, "a", "b"); g.bulk(0, [("b", "c"), ("d", "a")])   # b is aliased already
        elif kind == 4:
            g.bulk(0, [])
        elif kind == 5:
            g.bulk(0, [("b", "a")])                        # short names under a namespace
        elif kind == 6:
            g.bulk(0, [("m.b", "m.a")])                    # full names under a namespace
        else:
            g.bulk(0, [("m.b", "m.a"), ("m.c", "m.b")])
        g.sweep_updates(0)
        cases.append(g.ops)
    return cases


def copy_cases(rng, tier):
    cases = []
    for variant in range(10):
        g = Gen(rng, "copy/assign %d" % variant)
        n = rng.randint(3, 6)
        g.populate(0, n, rng.choice(PRES))
        names = NAMES[:n]
        rng.shuffle(names)
        for i in range(rng.randint(1, n - 1)):
            g.alias(0, names[i], names[i + 1])
        g.setv(0, names[0])
        if variant % 2 == 0:
            g.copy(0, 1)
        else:
            m = rng.randint(2, 6)
            g.populate(1, m, rng.choice(PRES))
            others = NAMES[:m]
            rng.shuffle(others)
            for i in range(rng.randint(0, m - 1)):
                g.alias(1, others[i], others[i + 1])
            g.assign(0, 1)
        # updates on both sides: each must leave the other alone
        g.sweep_updates(1)
        g.sweep_updates(0)
        g.queries(1)
        g.unalias(1, names[0], names[1])
        g.alias(1, names[-1], names[0])
        g.sweep_updates(1)
        g.sweep_updates(0)
        if variant == 4:
            g.assign(1, 1); g.sweep_updates(1)
        if variant == 5:
            g.copy(1, 1); g.sweep_updates(1)
        if variant == 6:
            g.copy(1, 2); g.assign(2, 0); g.sweep_updates(0); g.sweep_updates(2)
        cases.append(g.ops)
    return cases


def ns_cases(rng, tier):
    cases = []
    for pre1 in PRES[1:]:
        for pre2 in PRES[1:]:
            g = Gen(rng, "ns %s -> %s" % (pre1, pre2))
            n = rng.randint(3, 5)
            g.populate(0, n, pre1)
            names = NAMES[:n]
            rng.shuffle(names)
            g.alias(0, names[0], names[1])
            g.alias(0, names[1], names[2])
            g.queries(0)
            g.ns(0, pre2)
            g.queries(0)
            g.sweep_updates(0)
            g.unalias(0, names[1], names[2])
            g.alias(0, names[2], names[0])
            g.alias(0, names[0], names[2])
            g.ns(0, pre1)
            g.sweep_updates(0)
            g.copy(0, 1)
            g.ns(1, "-")
            g.sweep_updates(1)
            g.sweep_updates(0)
            cases.append(g.ops)
    return cases


def constraint_cases(rng, tier):
    cases = []
    real = [c for c in CONS if c != "-"]
    pairs = [(c1, c2) for c1 in ["-"] + real for c2 in ["-"] + real]
    if tier == "quick":
        pairs = rng.sample(pairs, 24)
    for c1, c2 in pairs:
        g = Gen(rng, "constraints %s %s" % (c1, c2))
        g.new(0, "-")
        both = [q for q in range(-8, 13) if accepts(c1, q) and accepts(c2, q)]
        inside = rng.random() < 0.7 and both
        g.add(0, "a", q=(rng.choice(both) if inside else None), con=c1)
        g.add(0, "b", q=(rng.choice(both) if inside else None), con=c2)
        g.add(0, "c", con="-")
        g.alias(0, "a", "b")
        for q in rng.sample(range(-10, 14), 5):
            g.setv(0, "a", q)
        g.alias(0, "b", "c")
        for q in rng.sample(range(-10, 14), 3):
            g.setv(0, "a", q)
        cases.append(g.ops)
    return cases


# ---------------------------------------------------------------- random histories
def random_case(rng, tag, length, raise_p):
    g = Gen(rng, tag)
    g.populate(0, rng.randint(2, 6))
    if rng.random() < 0.5:
        g.populate(1, rng.randint(2, 6))
    for _ in range(length):
        live = [k for k in range(NSLOT) if g.o[k] is not None]
        k = rng.choice(live)
        o = g.o[k]
        bad = rng.random() < raise_p
        r = rng.random()
        sh = o.shorts() or ["a"]
        if r < 0.16:
            roots = o.roots()
            if bad or len(roots) < 2:
                g.alias(k, rng.choice(sh + ["zz"]), rng.choice(sh))
            else:
                p2 = rng.choice(roots)
                cands = [s for s in sh if s != p2 and p2 not in o.ancestors(s)]
                g.alias(k, rng.choice(cands) if cands else rng.choice(sh), p2)
        elif r < 0.24:
            if o.parent and not bad:
                p2 = rng.choice(sorted(o.parent))
                g.unalias(k, o.parent[p2], p2)
            else:
                g.unalias(k, rng.choice(sh), rng.choice(sh))
        elif r < 0.30:
            m = rng.randint(1, 3)
            keys = rng.sample(sh, min(m, len(sh)))
            ents = [(o.pre + key if rng.random() < 0.8 else key, (o.pre if rng.random() < 0.8 else "") + rng.choice(sh)) for key in keys]
            g.bulk(k, ents)
        elif r < 0.52:
            g.setv(k, rng.choice(sh if not bad else sh + ["zz"]))
        elif r < 0.60:
            names = o.roots() if (o.roots() and rng.random() < 0.7) else rng.sample(sh, rng.randint(1, len(sh)))
            g.bulkset(k, "setvs", names)
        elif r < 0.68:
            names = o.roots() if (o.roots() and rng.random() < 0.7) else rng.sample(sh, rng.randint(1, len(sh)))
            g.bulkset(k, "matchvs", names + (["zz"] if bad else []))
        elif r < 0.74:
            if rng.random() < 0.7:
                g.bulkset(k, "setallv", sh, same=o.inside_all(rng))
            else:
                g.bulkset(k, "setallv", sh if not bad else sh[:-1])
        elif r < 0.80:
            g.copy(k, rng.randrange(NSLOT))
        elif r < 0.86:
            d = rng.choice(live)
            g.assign(k, d)
        elif r < 0.91:
            g.ns(k)
        elif r < 0.96:
            g.queries(k)
        else:
            free = [s for s in NAMES if s not in sh]
            if free and len(sh) < 6:
                g.add(k, rng.choice(free), bad_prefix=(bad and rng.random() < 0.3))
            else:
                g.add(k, rng.choice(sh))
    for k in range(NSLOT):
        if g.o[k] is not None and g.o[k].params:
            g.queries(k)
    return g.ops


def malformed_case(rng, tag):
    g = Gen(rng, tag)
    ops = ["alias 0 a b", "setv 1 a 4", "copy 2 0", "assign 0 1", "ns 2 m.", "aliases 1", "bulk 0 a:b"]
    for s in rng.sample(ops, 4):
        g.emit(s)
    g.populate(0, 3, "m.")
    g.add(0, "d", bad_prefix=True)
    g.add(0, "a")
    g.emit("add 0 m.e 0 c:0:0:+inf:0")       # the constructor refuses the value
    g.alias(0, "a", "b")
    g.emit("setvs 0 m.a=4 m.a=8")
    g.emit("assign 0 2")
    g.emit("copy 0 7")
    g.sweep_updates(0)
    return g.ops


def round2_cases(rng, tier):
    """round 2: the bulk form on objects that already have links (the values of the new aliases are
    taken when they are written: a source that follows, by an older link, a key of the map changes
    meanwhile); getAlias / getAliases / getFrom on chains under a namespace, and with short names that
    begin with the namespace; setAllParametersValues with sources consistent / inconsistent with the
    links, on objects whose links are out of sync; a chain whose lower end is constrained, updated at
    its upper end with a value the lower end rejects."""
    cases = []
    perms = list(itertools.permutations(NAMES[:5], 4))
    rng.shuffle(perms)
    for (p0, p1, p2, p3) in perms[:(24 if tier == "quick" else 120)]:
        g = Gen(rng, "bulk onto links %s%s%s%s" % (p0, p1, p2, p3))
        g.new(0, "-")
        for s in NAMES[:5]:
            g.add(0, s, q=rng.randint(-8, 8), con="-")
        kind = rng.randrange(3)
        g.alias(0, p0, p1)                         # p1 follows p0 (older link)
        if kind == 1:
            g.setv(0, p0)                          # ... in sync
        if kind == 2:
            g.alias(0, p1, [x for x in NAMES[:5] if x not in (p0, p1, p2, p3)][0])
        g.bulk(0, [(p0, p2), (p3, p1)])            # p0 follows p2; p3 follows p1
        g.queries(0)
        g.setv(0, p2)
        cases.append(g.ops)
    for pre in ["m.", "ab.", "x", "-"]:
        for n in (3, 4, 5):
            g = Gen(rng, "queries chain %s n=%d" % (pre, n))
            g.populate(0, n + 1, pre, "-")
            order = NAMES[:n]
            rng.shuffle(order)
            links = [(order[i], order[i + 1]) for i in range(n - 1)]
            rng.shuffle(links)
            for (a, b) in links:
                g.alias(0, a, b)
            g.emit("aliases 0")
            o = g.o[0]
            for s in NAMES[:n + 1]:
                g.emit("aliasof 0 %s" % s)
                g.emit("aliasof 0 %s" % nm(o.pre + s))
                g.emit("from 0 %s" % nm(o.pre + s))
                g.emit("from 0 %s" % s)
            g.ns(0, rng.choice(["-", "m.", "q."]))
            g.emit("aliases 0")
            g.emit("aliasof 0 %s" % order[0])
            cases.append(g.ops)
    for variant in range(4):
        # short names that begin with the namespace: the full name of one parameter is the short name of another
        g = Gen(rng, "queries clash %d" % variant)
        g.new(0, "m.")
        for s in ["p", "q", "m.p", "m.q"]:
            g.emit("add 0 %s %d -" % ("m." + s, rng.randint(-8, 8)))
        if variant == 0:
            g.emit("alias 0 m.q p"); g.emit("alias 0 m.p q")
        elif variant == 1:
            g.emit("alias 0 m.p p"); g.emit("alias 0 m.q m.p")
        elif variant == 2:
            g.emit("alias 0 p m.p"); g.emit("alias 0 q m.q"); g.emit("alias 0 m.q p")
        else:
            g.emit("alias 0 m.p q"); g.emit("alias 0 q p")
        g.emit("aliases 0")
        for s in ["p", "q", "m.p", "m.q", "m.m.p", "m.m.q"]:
            g.emit("aliasof 0 %s" % s)
            g.emit("from 0 %s" % s)
        g.emit("setv 0 m.q 3"); g.emit("setv 0 m.p 5")
        g.emit("bulk 0 m.p:m.q")
        cases.append(g.ops)
    for i in range(12 if tier == "quick" else 60):
        g = Gen(rng, "setall %d" % i)
        n = rng.choice([3, 4, 5])
        names = NAMES[:n]
        g.new(0, rng.choice(["-", "m."]))
        o = g.o[0]
        order = names[:]
        rng.shuffle(order)
        for s in order:                              # parameter order independent of the chain
            g.add(0, s, q=rng.randint(-8, 8), con="-")
        chain = names[:]
        rng.shuffle(chain)
        cut = rng.randint(1, n - 1)
        for a, b in zip(chain[:cut], chain[1:cut + 1]):
            g.alias(0, a, b)                         # links are out of sync (different values)
        cls = {}
        for s in names:
            r = s
            while r in o.parent:
                r = o.parent[r]
            cls.setdefault(r, rng.randint(-8, 8))
        vals = {}
        for s in names:
            r = s
            while r in o.parent:
                r = o.parent[r]
            vals[s] = cls[r]
        src = names[:]
        rng.shuffle(src)
        g.emit("setallv 0 " + " ".join("%s=%d" % (nm(o.pre + s), vals[s]) for s in src))     # consistent
        bad = dict(vals)
        t = rng.choice(list(o.parent) or names)
        bad[t] = bad[t] + rng.choice([1, -1, 3])
        g.emit("setallv 0 " + " ".join("%s=%d" % (nm(o.pre + s), bad[s]) for s in src))      # inconsistent at one link
        g.emit("setallv 0 " + " ".join("%s=%d" % (nm(o.pre + s), vals[s] + 1) for s in src)) # consistent again
        cases.append(g.ops)
    for i, (lo, hi) in enumerate([(0, 4), (-4, 0), (0, 8), (2, 6)]):
        g = Gen(rng, "chain lower constraint %d" % i)
        g.new(0, "-")
        g.add(0, "a", q=lo, con="-"); g.add(0, "b", q=lo, con="-"); g.add(0, "c", q=lo, con="c:1:%d:%d:1" % (lo, hi))
        if i % 2 == 0:
            g.alias(0, "a", "b"); g.alias(0, "b", "c")      # a stays unconstrained
        else:
            g.alias(0, "b", "c"); g.alias(0, "a", "b")      # a takes the constraint
        g.setv(0, "a", hi + 3)                              # rejected by c (and b)
        g.setv(0, "a", hi)
        g.bulkset(0, "setvs", ["a"], same=hi + 5)
        g.bulkset(0, "matchvs", ["a"], same=lo)
        cases.append(g.ops)
    return cases


UNDERSCORE_NAMES = ["c", "a_to_b", "b_to_c", "a", "kappa_1", "x_to_", "_to_y", "b"]


def underscore_cases(rng, tier):
    """audit round 2: parameter names with underscores and with the substring "_to_" (two different links can
    then have the same listener id __alias_<y>_to_<x>): aliasing in both orders, copy / assignment, updates on
    both sides, un-aliasing of each link, queries; and short random histories over such names."""
    cases = []
    pairs = [(("c", "a_to_b"), ("b_to_c", "a")), (("b_to_c", "a"), ("c", "a_to_b")),
             (("x_to_", "b"), ("b", "x_to_")), (("_to_y", "a"), ("y", "a_to_")), (("kappa_1", "a"), ("a", "c"))]
    for n, (l1, l2) in enumerate(pairs):
        for pre in ["-", "m."]:
            g = Gen(rng, "underscore %d %s" % (n, pre))
            g.new(0, pre)
            names = sorted(set(UNDERSCORE_NAMES + ["y", "a_to_"]))
            for s in names:
                g.add(0, s, q=rng.randint(-8, 8), con="-")
            g.alias(0, *l1); g.alias(0, *l2)
            g.setv(0, l1[0]); g.setv(0, l2[0])
            g.copy(0, 1); g.setv(1, l1[0]); g.setv(1, l2[0])
            g.new(2, pre); g.add(2, "c", q=1, con="-"); g.assign(0, 2); g.setv(2, l1[0]); g.setv(2, l2[0])
            g.emit("aliases 1")
            g.unalias(0, *l2); g.unalias(0, *l1); g.alias(0, *l2); g.setv(0, l2[0])
            g.unalias(1, *l1); g.setv(1, l1[0]); g.setv(1, l2[0])
            cases.append(g.ops)
    for i in range(10 if tier == "quick" else 60):
        g = Gen(rng, "underscore random %d" % i)
        g.new(0, rng.choice(["-", "m."]))
        for s in UNDERSCORE_NAMES:
            g.add(0, s, q=rng.randint(-8, 8), con="-")
        for _ in range(rng.randint(10, 25)):
            r = rng.random()
            a, b = rng.sample(UNDERSCORE_NAMES, 2)
            if r < 0.35:
                g.alias(0, a, b)
            elif r < 0.5:
                g.unalias(0, a, b)
            elif r < 0.8:
                g.setv(0, a)
            elif r < 0.9:
                g.copy(0, 1); g.setv(1, a)
            else:
                g.emit("aliases 0"); g.emit("aliasof 0 %s" % a)
        cases.append(g.ops)
    return cases


def generate(seed, tier):
    rng = random.Random(seed)
    cases = []
    cases += underscore_cases(rng, tier)
    cases += round2_cases(rng, tier)
    cases += chain_cases(rng, tier)
    cases += refuse_cases(rng, tier)
    cases += bulk_cases(rng, tier)
    cases += copy_cases(rng, tier)
    cases += ns_cases(rng, tier)
    cases += constraint_cases(rng, tier)
    nrand = 250 if tier == "quick" else 2500
    for i in range(nrand):
        cases.append(random_case(rng, "random %d" % i, rng.randint(12, 45), rng.choice([0.05, 0.15, 0.3])))
    for i in range(6 if tier == "quick" else 30):
        cases.append(malformed_case(rng, "malformed %d" % i))
    return cases


def coverage_extra(cases, answers):
    chain = 0
    for c in cases:
        if c[0].startswith("case chain") or c[0].startswith("case bulk chain"):
            chain += 1
    return {"directed_chain_cases": chain, "slots": NSLOT, "names": len(NAMES)}
