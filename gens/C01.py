"""Script generator for C01 (IntervalConstraint / Parameter / AutoParameter).

Every case runs in one of two modes (last word of the `case` line):
  rat  dyadic inputs on which double arithmetic is exact; the driver runs the model at Rat
  flt  arbitrary doubles; the driver runs the same model text at Float, compared bit for bit
"""
import random, struct, itertools, math

INF = float("inf")


def H(d):
    return "%016x" % struct.unpack(">Q", struct.pack(">d", float(d)))[0]


def S(s):
    return "".join("%02x" % ord(c) for c in s) if s else "-"


def B(x):
    return "1" if x else "0"


TINY = 1e-12
GRID9 = [-2.0, -1.0, -0.5, 0.0, 0.25, 0.5, 1.0, 1.5, 3.0]
GRID11 = [-INF] + GRID9 + [INF]


# --------------------------------------------------------------------------- pure interval functions
def interval_cases(mode, tier):
    """all bound pairs over an 11-point grid (9 dyadic values and both infinities: every order
    type of {lo, hi, value}), all flag combinations, every grid value as argument"""
    cases = []
    prec = 2.0 ** -4 if mode == "rat" else TINY
    n = 0
    for lo, hi in itertools.product(GRID11, repeat=2):
        # one case per flag combination: the evaluation of a case ends at its first disagreement, and a
        # changed comparison usually disagrees on the open ends before it is *wrong* on the closed ones
        for il, iu in itertools.product((0, 1), repeat=2):
            ops = []
            ops.append("ic.new 0 %s %s %d %d %s" % (H(lo), H(hi), il, iu, H(prec)))
            # every pair, [+inf,+inf] / [-inf,-inf] included (formerly a known finding, now repaired:
            # corpus/C01/02-fixed-isEmpty-infinite.txt)
            ops.append("ic.empty 0")
            ops.append("ic.fin 0")
            for v in GRID11:
                ops.append("ic.correct 0 %s" % H(v))
                ops.append("ic.limit 0 %s" % H(v))
                ops.append("ic.alimit 0 %s" % H(v))
                ops.append("ic.cmp 0 %s" % H(v))
            if tier == "thorough" or n % 3 == 0:
                for a, b in itertools.product(GRID11, repeat=2):
                    if a <= b:
                        ops.append("ic.includes 0 %s %s" % (H(a), H(b)))
            n += 1
            cases.append(["case iv%d %s" % (len(cases), mode)] + ops)
    return cases


def inter_cases(mode, tier, rng):
    """all pairs of intervals over a small grid (every order type of the four bounds, all flags)"""
    g = [-INF, 0.0, 1.0, 2.0, INF] if tier != "thorough" else [-INF, 0.0, 0.5, 1.0, 2.0, INF]
    ivs = [(lo, hi, il, iu) for lo in g for hi in g for il in (0, 1) for iu in (0, 1)]
    cases = []
    precs = [2.0 ** -4, 2.0 ** -6, TINY, 0.0]
    chunk = []
    for a in ivs:
        for b in ivs:
            if tier != "thorough" and mode == "flt" and rng.random() < 0.5:
                continue
            pa, pb = rng.choice(precs), rng.choice(precs)
            chunk += ["ic.new 0 %s %s %d %d %s" % (H(a[0]), H(a[1]), a[2], a[3], H(pa)),
                      "ic.new 1 %s %s %d %d %s" % (H(b[0]), H(b[1]), b[2], b[3], H(pb)),
                      "ic.inter 0 1 2", "ic.empty 2", "ic.rel 0 1", "ic.interas 0 1", "ic.empty 0", "ic.rel 0 2"]
            if len(chunk) >= 350:
                cases.append(["case in%d %s" % (len(cases), mode)] + chunk)
                chunk = []
    if chunk:
        cases.append(["case in%d %s" % (len(cases), mode)] + chunk)
    return cases


def ctor_cases(mode):
    ops = ["ic.def 0", "ic.get 0", "ic.get 5"]
    for n in ["R_PLUS", "R_PLUS_STAR", "R_MINUS", "R_MINUS_STAR", "PROP_IN", "PROP_EX"]:
        ops += ["ic.static 1 " + n, "ic.empty 1", "ic.fin 1", "ic.correct 1 %s" % H(0.0), "ic.correct 1 %s" % H(1.0),
                "ic.correct 1 %s" % H(-0.5), "ic.correct 1 %s" % H(INF), "ic.correct 1 %s" % H(-INF),
                "p.new3 0 0 %s 1" % H(0.0), "p.new3 1 0 %s 1" % H(1.0), "p.new3 2 1 %s 1" % H(0.0), "p.new 3 0 %s 1 %s" % (H(-1.0), H(0.5))]
    for pos, bnd, incl in itertools.product((0, 1), (-1.0, 0.0, 2.5, INF, -INF), (0, 1)):
        ops += ["ic.half 2 %d %s %d %s" % (pos, H(bnd), incl, H(0.125)), "ic.half3 3 %d %s %d" % (pos, H(bnd), incl), "ic.empty 2",
                "ic.correct 2 %s" % H(bnd), "ic.copy 2 4", "ic.setlo 4 %s %d" % (H(-3.0), incl), "ic.sethi 4 %s %d" % (H(7.0), 1 - incl), "ic.get 2", "ic.get 4"]
    return [["case ctor " + mode] + ops]


# --------------------------------------------------------------------------- parameter histories
class ValueSpace:
    """where values, bounds and precisions of one history come from"""

    def __init__(self, rng, mode):
        self.rng = rng
        self.mode = mode
        if mode == "rat":
            if rng.random() < 0.3:
                # tiny scale: limit + TINY is exact in double arithmetic (all sums stay below 2^-39)
                u = 2.0 ** -50
                self.vals = [k * u for k in range(-800, 801, 50)]
                self.cprecs = [0.0, 64 * u, TINY, 16 * u]
                self.pprecs = [0.0, 0.0, 0.0, 100 * u, 400 * u]
                self.kind = "rat-tiny"
            else:
                self.vals = [k / 4.0 for k in range(-8, 13)]
                self.cprecs = [0.125, 0.5, 0.125, 0.03125, 0.0]
                self.pprecs = [0.0, 0.0, 0.0, 0.5, 0.25, 1.0, -1.0]
                self.kind = "rat-grid"
        else:
            self.vals = None
            self.cprecs = [TINY, TINY, TINY, 1e-6, 1e-9, 0.0, 0.001]
            self.pprecs = [0.0, 0.0, 0.0, 1e-3, 1e-6, 0.5, -2.0]
            self.kind = "flt"

    def value(self):
        r = self.rng
        if self.vals is not None:
            return r.choice(self.vals)
        x = r.random()
        if x < 0.15:
            return float(r.randint(-3, 3))
        if x < 0.25:
            return r.choice([1e3, -1e3, 999.999, 1e-7, -1e-7, 0.1, 0.3])
        return r.uniform(-1e3, 1e3) if x < 0.6 else r.uniform(-4, 4)

    def interval(self):
        """(lo, hi, il, iu, prec): mostly lo < hi and wide; sometimes equal, reversed, or infinite"""
        r = self.rng
        x = r.random()
        a, b = self.value(), self.value()
        if self.mode == "flt":
            # at least 1e-9 wide (the property's range for the auto-correcting variant)
            while abs(a - b) < 1e-9:
                b = self.value()
        lo, hi = min(a, b), max(a, b)
        if x < 0.06:
            hi = lo
        elif x < 0.10:
            lo, hi = hi, lo
        elif x < 0.22:
            lo = -INF
        elif x < 0.34:
            hi = INF
        elif x < 0.37:
            lo, hi = -INF, INF
        return (lo, hi, r.randint(0, 1), r.randint(0, 1), r.choice(self.cprecs))


def history_case(rng, mode, idx, maxlen):
    vs = ValueSpace(rng, mode)
    ops = []
    ivs = {}

    def new_iv(k):
        lo, hi, il, iu, pr = vs.interval()
        ivs[k] = (lo, hi)
        if rng.random() < 0.2 and mode == "flt":
            return "ic.new4 %d %s %s %d %d" % (k, H(lo), H(hi), il, iu)
        return "ic.new %d %s %s %d %d %s" % (k, H(lo), H(hi), il, iu, H(pr))

    def near(k):
        """a value related to interval k: a bound, just inside/outside, or anything"""
        if k in ivs and rng.random() < 0.8:
            lo, hi = ivs[k]
            fin = [b for b in (lo, hi) if abs(b) != INF]
            x = rng.random()
            if fin and rng.random() < 0.3:
                # deliberately outside, on the side of a finite bound
                b0 = rng.choice(fin)
                side = -1 if (b0 == lo and lo <= hi) else 1
                if vs.kind == "rat-grid":
                    return b0 + side * 0.25 * rng.randint(1, 6)
                if vs.kind == "rat-tiny":
                    return b0 + side * (2.0 ** -50) * 50 * rng.randint(1, 4)
                return b0 + side * rng.choice([1e-12, 1e-9, 1e-3, 0.5, 3.0, rng.uniform(0, 50)])
            if fin and x < 0.3:
                return rng.choice(fin)
            if fin and x < 0.5 and mode == "flt":
                b0 = rng.choice(fin)
                return b0 + rng.choice([-1, 1]) * rng.choice([1e-12, 5e-13, 1e-9, 1e-3, 2.0])
            if len(fin) == 2 and x < 0.8:
                if vs.vals is not None:
                    inside = [v for v in vs.vals if lo <= v <= hi]
                    if inside:
                        return rng.choice(inside)
                else:
                    return rng.uniform(min(lo, hi), max(lo, hi))
        return vs.value()

    for k in range(3):
        ops.append(new_iv(k))
    live = set()
    attached = {}
    L = rng.randint(6, maxlen)
    while len(ops) < L:
        r = rng.random()
        k = rng.randint(0, 3)
        if not live or r < 0.12:
            c = rng.choice(["-", "0", "1", "2"]) if rng.random() < 0.85 else "-"
            au = 1 if rng.random() < 0.45 else 0
            v = near(int(c)) if c != "-" else vs.value()
            if rng.random() < 0.3:
                ops.append("p.new3 %d %d %s %s" % (k, au, H(v), c))
            else:
                ops.append("p.new %d %d %s %s %s" % (k, au, H(v), c, H(rng.choice(vs.pprecs))))
            live.add(k)
            attached[k] = int(c) if c != "-" else None
            continue
        k = rng.choice(sorted(live))
        if r < 0.55:
            a = attached.get(k)
            v = near(a) if a is not None else vs.value()
            ops.append("p.set %d %s" % (k, H(v)))
            if rng.random() < 0.15:
                ops.append("p.set %d %s" % (k, H(v)))     # same request twice
        elif r < 0.66:
            c = rng.choice(["-", "0", "1", "2"])
            ops.append("p.setc %d %s" % (k, c))
            if c != "-":
                attached[k] = int(c)
        elif r < 0.70:
            ops.append("p.rmc %d" % k)
        elif r < 0.77:
            j = rng.randint(0, 3)
            ops.append("p.copy %d %d" % (k, j))
            live.add(j); attached[j] = attached.get(k)
            # independence: update the copy, then look at the source again
            ops.append("p.set %d %s" % (j, H(vs.value())))
            ops.append("p.get %d" % k)
        elif r < 0.83:
            j = rng.choice(sorted(live))
            ops.append("p.assign %d %d" % (k, j))
            attached[j] = attached.get(k)
            ops.append("p.set %d %s" % (j, H(vs.value())))
            ops.append("p.get %d" % k)
        elif r < 0.87:
            j = rng.randint(0, 3)
            ops.append(("p.auto %d %d" if rng.random() < 0.7 else "p.plain %d %d") % (k, j))
            live.add(j); attached[j] = attached.get(k)
        elif r < 0.92:
            ops.append("p.prec %d %s" % (k, H(rng.choice(vs.pprecs))))
        elif r < 0.96:
            i = rng.randint(0, 2)
            ops.append(new_iv(i))       # replaces the register object; attached copies are not affected
        elif r < 0.975:
            ops.append("p.get %d" % k)
        elif r < 0.98:
            ops.append("p.con %d" % k)
        elif r < 0.99:
            ops += ["p.mh %d %d" % (k, rng.randint(0, 2)), "p.msgs"]
        else:
            j = rng.randint(0, 3)
            ops.append("p.def %d %d" % (j, rng.randint(0, 1)))
            live.add(j); attached[j] = None
    ops.append("p.msgs")
    return ["case h%d %s %s" % (idx, vs.kind, mode)] + ops


# --------------------------------------------------------------------------- the auto-correcting setter, directed
def auto_cases(mode, tier, rng):
    """the corners of the property's quantifier for the auto-correcting variant: intervals exactly 1e-9 wide,
    one-sided infinite bounds, all four open/closed combinations, requests at +-1e3, at the bounds, one
    precision step / TINY / one ulp on either side of them, constraint precisions 0 .. 1e-10 (the largest
    that `wide_of_width` allows), a non-zero parameter precision set half way, and the three message-handler
    settings (null pointer, capturing stream, sink)"""
    cases = []
    if mode == "flt":
        shapes = [(a, a + 1e-9) for a in (0.0, 1.0, -1e3, 1e3 - 1e-9, 0.1, -0.3)]
        shapes += [(-INF, b) for b in (0.0, -1e3, 1e3, 0.5)] + [(a, INF) for a in (0.0, -1e3, 1e3, -0.25)]
        shapes += [(-1e3, 1e3), (0.0, 1.0), (-INF, INF), (1e-7, 2e-7)]
        cprecs = [TINY, 1e-10, 0.0, 1e-11, 3e-13]
        pprecs = [1e-10, 1e-3, 5e-10, 2e-12]
        step = lambda b, d: math.nextafter(b, d * INF)
    else:
        u = 2.0 ** -50
        shapes = [(0.0, 2.0 ** -29), (-2.0 ** -30, 0.0), (-INF, 0.0), (0.0, INF), (-INF, 2.0 ** -31), (-2.0 ** -32, INF), (-1.0, 1.0), (0.0, 0.25), (-INF, INF)]
        cprecs = [64 * u, 0.0, 16 * u, 2.0 ** -34]
        pprecs = [100 * u, 2.0 ** -36, 0.25]
        step = lambda b, d: b + d * u
    n = 0
    for (lo, hi) in shapes:
        for il, iu in itertools.product((0, 1), repeat=2):
            cp = cprecs[n % len(cprecs)]
            pp = pprecs[n % len(pprecs)]
            n += 1
            fin = [b for b in (lo, hi) if abs(b) != INF]
            if lo == -INF and hi == INF:
                start = 0.0
            elif lo == -INF:
                start = hi - (1.0 if mode == "flt" else 2.0 ** -33)
            elif hi == INF:
                start = lo + (1.0 if mode == "flt" else 2.0 ** -33)
            else:
                start = lo + (hi - lo) / 2
            reqs = [1e3, -1e3] if mode == "flt" else [1.0, -1.0, 2.0 ** -20, -2.0 ** -20]
            for b0 in fin:
                reqs += [b0, step(b0, 1), step(b0, -1), b0 + cp, b0 - cp, b0 + (TINY if mode == "flt" else 4 * 2.0 ** -50),
                         b0 - (TINY if mode == "flt" else 4 * 2.0 ** -50), b0 + 2 * cp, b0 - 2 * cp, b0 + pp / 2, b0 - pp / 2]
            reqs += [start, 0.0]
            rng.shuffle(reqs)
            ops = ["ic.new 0 %s %s %d %d %s" % (H(lo), H(hi), il, iu, H(cp)),
                   "p.new 0 1 %s 0 %s" % (H(start), H(0.0)), "p.mh 0 %d" % (n % 3), "p.msgs"]
            half = len(reqs) // 2
            for i, r in enumerate(reqs):
                if i == half:
                    ops += ["p.msgs", "p.prec 0 %s" % H(pp), "p.mh 0 %d" % ((n + 1) % 3), "p.copy 0 1", "p.set 1 %s" % H(reqs[0]), "p.msgs"]
                ops.append("p.set 0 %s" % H(r))
                if rng.random() < 0.2:
                    ops.append("p.set 0 %s" % H(r))
            # handlers travel with copy / assignment between auto-correcting parameters, not with Parameter::operator=
            ops += ["p.msgs", "p.new 2 1 %s 0 %s" % (H(start), H(0.0)), "p.mh 2 1", "p.assign 2 1", "p.set 1 %s" % H(reqs[1]), "p.msgs",
                    "p.new 3 0 %s 0 %s" % (H(start), H(0.0)), "p.assign 3 0", "p.set 0 %s" % H(reqs[-1]), "p.mh 3 1", "p.auto 3 2", "p.set 2 %s" % H(reqs[0]), "p.msgs"]
            cases.append(["case au%d %s" % (len(cases), mode)] + ops)
    return cases


def auto_large_cases():
    """bounds far beyond the sampled range |x| <= 1e3 (the statement's "for all bound pairs (finite, ...)" has no
    magnitude limit): powers of two around 2^15 - where `bound -+ 1e-12` starts to round back to the bound -, 1e5 ...
    1e300, every open/closed combination, default and larger constraint precisions.  Float only.  Where the setter
    raises the driver answers `auto_total_rounding` (known finding C01-auto-raises-large-open-bound)."""
    cases = []
    mags = [8192.0, 16384.0, 32768.0, 65536.0, 1e5, 1e6, 2.0 ** 30, 1e12, 1e15, 2.0 ** 53, 1e100, 1e300]
    n = 0
    for m in mags:
        for (lo, hi) in ((0.0, m), (-m, 0.0), (-m, m), (m, 2 * m), (-INF, m), (-m, INF)):
            for il, iu in itertools.product((0, 1), repeat=2):
                cp = [None, None, m * 1e-9, 0.0][n % 4]          # None = the default 1e-12 (ic.new4)
                n += 1
                if lo == -INF:
                    start = hi - m / 2
                elif hi == INF:
                    start = lo + m / 2
                else:
                    start = lo + (hi - lo) / 2
                ops = ["ic.new4 0 %s %s %d %d" % (H(lo), H(hi), il, iu) if cp is None else
                       "ic.new 0 %s %s %d %d %s" % (H(lo), H(hi), il, iu, H(cp)),
                       "p.new3 0 1 %s 0" % H(start)]
                fin = [b for b in (lo, hi) if abs(b) != INF]
                for b0 in fin:
                    for r in (b0, math.nextafter(b0, INF), math.nextafter(b0, -INF), b0 * 2 if b0 else m * 3, -(b0 * 2 if b0 else m * 3), b0 + 1, b0 - 1):
                        ops += ["p.set 0 %s" % H(r), "p.set 0 %s" % H(start)]
                cases.append(["case aul%d flt" % len(cases)] + ops)
    return cases


# --------------------------------------------------------------------------- constraints as shared objects
def shared_case(rng, mode, idx, maxlen, unsafe):
    """histories on the pointer model (BppModel/ParamShared.lean).  Registers 0,1 hold the objects that are
    attached to parameters *by pointer* (p.news, p.setcs) or taken back from them (p.getc, p.rmcs);
    registers 2,3 hold objects no parameter ever points to.  `unsafe = False`: only registers 2,3 are mutated
    in place (theorem shared_detached_mutation_inv: the invariant must hold); `unsafe = True`: attached objects
    are mutated too (shared_mutate_inv_iff; a rejected value held afterwards is the known finding
    C01-shared-constraint-mutation).  After every in-place mutation every live parameter is inspected."""
    vs = ValueSpace(rng, mode)
    while vs.kind == "rat-tiny":
        vs = ValueSpace(rng, mode)
    ops = []
    ivs = {}

    def new_iv(k):
        lo, hi, il, iu, pr = vs.interval()
        if lo > hi:
            lo, hi = hi, lo
        ivs[k] = (lo, hi)
        return "ic.new %d %s %s %d %d %s" % (k, H(lo), H(hi), il, iu, H(pr))

    def inside(k):
        lo, hi = ivs.get(k, (-1.0, 1.0))
        if lo == -INF and hi == INF:
            return vs.value()
        if lo == -INF:
            return hi - (1.0 if mode == "flt" else 0.25) * rng.randint(0, 3)
        if hi == INF:
            return lo + (1.0 if mode == "flt" else 0.25) * rng.randint(0, 3)
        if vs.vals is not None:
            ins = [v for v in vs.vals if lo <= v <= hi]
            return rng.choice(ins) if ins else lo
        return rng.uniform(lo, hi)

    for k in range(4):
        ops.append(new_iv(k))
    live = set()
    L = rng.randint(8, maxlen)
    mut_regs = [0, 1, 2, 3] if unsafe else [2, 3]

    def inspect():
        for k in sorted(live):
            ops.append("p.get %d" % k)

    while len(ops) < L:
        r = rng.random()
        k = rng.randint(0, 3)
        if not live or r < 0.14:
            c = rng.choice(["0", "1", "0", "1", "-"])
            au = 1 if rng.random() < 0.4 else 0
            v = inside(int(c)) if c != "-" and rng.random() < 0.85 else vs.value()
            opn = "p.news" if rng.random() < 0.8 else "p.new"
            ops.append("%s %d %d %s %s %s" % (opn, k, au, H(v), c, H(rng.choice(vs.pprecs))))
            live.add(k)
            continue
        k = rng.choice(sorted(live))
        if r < 0.34:
            # in-place mutation through a handle
            i = rng.choice(mut_regs)
            lo, hi = ivs.get(i, (-1.0, 1.0))
            x = rng.random()
            if x < 0.35:
                b0 = rng.choice([vs.value(), lo, hi]) if abs(lo) != INF and abs(hi) != INF else vs.value()
                ops.append("ic.setlo %d %s %d" % (i, H(b0), rng.randint(0, 1)))
                ivs[i] = (b0, hi)
            elif x < 0.7:
                b0 = rng.choice([vs.value(), lo, hi]) if abs(lo) != INF and abs(hi) != INF else vs.value()
                ops.append("ic.sethi %d %s %d" % (i, H(b0), rng.randint(0, 1)))
                ivs[i] = (lo, b0)
            elif x < 0.9:
                j = rng.choice([a for a in range(4) if a != i])
                ops.append("ic.interas %d %d" % (i, j))
                l2, h2 = ivs.get(j, (-1.0, 1.0))
                ivs[i] = (max(lo, l2), min(hi, h2))
            else:
                a, b = sorted([rng.randint(-2, 3), rng.randint(-2, 3)])
                d = rng.choice(["[", "]"]) + "%d;%d" % (a, b) + rng.choice(["[", "]"])
                ops.append("ic.parse %d %s" % (i, S(d)))
                ivs[i] = (float(a), float(b))
            inspect()
        elif r < 0.55:
            v = inside(rng.choice([0, 1])) if rng.random() < 0.7 else vs.value()
            ops.append("p.set %d %s" % (k, H(v)))
        elif r < 0.63:
            ops.append("p.setcs %d %s" % (k, rng.choice(["0", "1", "-"])))
        elif r < 0.66:
            ops.append("p.setc %d %s" % (k, rng.choice(["0", "1", "2", "3"])))
        elif r < 0.72:
            # the handle of a parameter's constraint goes into register 0 or 1
            i = rng.randint(0, 1)
            ops.append(("p.getc %d %d" if rng.random() < 0.7 else "p.rmcs %d %d") % (k, i))
            ivs.pop(i, None)
        elif r < 0.80:
            j = rng.randint(0, 3)
            ops.append("p.copy %d %d" % (k, j))
            live.add(j)
        elif r < 0.85:
            j = rng.choice(sorted(live))
            ops.append("p.assign %d %d" % (k, j))
        elif r < 0.88:
            j = rng.randint(0, 3)
            ops.append(("p.auto %d %d" if rng.random() < 0.6 else "p.plain %d %d") % (k, j))
            live.add(j)
        elif r < 0.91:
            ops.append("p.prec %d %s" % (k, H(rng.choice(vs.pprecs))))
        elif r < 0.94:
            i = rng.randint(0, 1)
            ops.append("ic.alias %d %d" % (i, 1 - i))
            if i in ivs:
                ivs[1 - i] = ivs[i]
        elif r < 0.97:
            i = rng.randint(0, 3)
            ops.append(new_iv(i))      # a new object in the register; the old one lives on where it is attached
        else:
            ops.append("p.rmc %d" % k)
    inspect()
    return ["case %s%d shared %s %s" % ("shm" if unsafe else "shs", idx, vs.kind, mode)] + ops


# --------------------------------------------------------------------------- descriptions
def fmt_num(v):
    if v == INF:
        return "+inf"
    if v == -INF:
        return "-inf"
    return ("%.6f" % v).rstrip("0").rstrip(".") if v != int(v) else "%d" % int(v)


def fmt_alt(v, rng):
    """the same number in one of the other forms `toDouble` accepts: exponent notation, no integer
    part, no fraction digits (exact decimal value = the double, so the model knows the value)"""
    if abs(v) == INF:
        return fmt_num(v)
    x = rng.random()
    neg = "-" if v < 0 else ""
    a = abs(v)
    if a == int(a):
        n = int(a)
        if x < 0.3:
            return neg + "%d." % n
        if x < 0.6 and n % 100 == 0 and n > 0:
            return neg + "%de%s2" % (n // 100, rng.choice(["", "+"]))
        if x < 0.8:
            return neg + "%d0e-1" % n
        return neg + "%de0" % n
    frac = ("%.6f" % a).rstrip("0")            # d.ddd, exact for the dyadic values used here
    ip, fp = frac.split(".")
    if x < 0.35 and ip == "0":
        return neg + "." + fp
    if x < 0.7:
        return neg + "%se-%d" % ((ip + fp).lstrip("0") or "0", len(fp))
    return neg + frac + "e0"


def describe_cases(rng, tier):
    vals = [k / 8.0 for k in range(-24, 41)] + [100.0, 1000.0, 999999.0, 123.5, 0.0625, 0.015625, 1234.25, -512.0, 1e6, 2.0 ** -14, 3e-5]
    cases = []
    n = 1500 if tier == "thorough" else 250
    ops = []
    for i in range(n):
        lo = rng.choice(vals + [-INF] * 12)
        hi = rng.choice(vals + [INF] * 12)
        if rng.random() < 0.05:
            lo, hi = rng.choice([INF, -INF]), rng.choice([INF, -INF])
        il, iu = rng.randint(0, 1), rng.randint(0, 1)
        ops += ["ic.new 0 %s %s %d %d %s" % (H(lo), H(hi), il, iu, H(0.125)), "ic.desc 0", "ic.roundtrip 0"]
        # a hand-written description of the same interval, with optional blanks
        sp = lambda: rng.choice(["", "", " ", "  ", "\t"])
        d = ("[" if il else "]") + sp() + fmt_num(lo) + sp() + ";" + sp() + (rng.choice(["inf", "+inf"]) if hi == INF else fmt_num(hi)) + sp() + ("]" if iu else "[") + rng.choice(["", "", " ", "xyz"])
        ops += ["ic.parsenew 1 %s" % S(d), "ic.parse 0 %s" % S(d), "ic.rel 0 1"]
        if rng.random() < 0.5:
            # the same interval with its numbers in exponent / short form
            d2 = ("[" if il else "]") + sp() + fmt_alt(lo, rng) + sp() + ";" + sp() + (rng.choice(["inf", "+inf"]) if hi == INF else fmt_alt(hi, rng)) + sp() + ("]" if iu else "[")
            ops += ["ic.parsenew 2 %s" % S(d2), "ic.rel 1 2"]
        # malformed / unusual variants
        x = rng.random()
        if x < 0.5:
            m = list(d)
            for _ in range(rng.randint(1, 2)):
                pos = rng.randrange(len(m) + 1)
                ch = rng.choice(list("[];.-+e 0123456789ainf") + [""])
                if rng.random() < 0.5 and pos < len(m):
                    m[pos] = ch
                else:
                    m.insert(pos, ch)
            ops += ["ic.parse 0 %s" % S("".join(m)), "ic.get 0"]
        elif x < 0.7:
            ops += ["ic.parse 0 %s" % S(rng.choice(["", "[", "[;", "[;]", "[1;2", "1;2]", " [1;2]", "[1,2]", "];[", "[1;2;3]", "[--1;2]", "[1.2.3;4]", "[1;abc]",
                                                    "[-;1]", "[.;1]", "[e5;1]", "[-.;1]", "[0;-]", "[0;.]", "[0;e5]", "[-e1;1]", "[.e1;1]", "[1e2;.5e1]", "[-1.;1.]", "[25e-1;1e+1]", "[1e-1;1]", "[1e400;inf]", "[1e400;2]", "[1e-400;1]", "[-1e400;1]", "[0;1e309]", "[0.1;abc]", "[1e;2]", "[1e+;2]", "[ ; ]", "[1;]", "[;1]", "[inf;1]", "[1;-inf]", "[0.1;0.2]",
                                                    "[1e2;1e3]", "[1.;2.]", "[.5;1]", "[-0;0]", "[ -inf ; +inf ]", "]-inf;inf[", "[5;1]", "[1;1["])), "ic.get 0"]
        if len(ops) > 300:
            cases.append(["case d%d rat" % len(cases)] + ops)
            ops = []
    if ops:
        cases.append(["case d%d rat" % len(cases)] + ops)
    return cases


# --------------------------------------------------------------------------- entry points
def generate(seed, tier):
    rng = random.Random(seed)
    cases = []
    for mode in ("rat", "flt"):
        cases += ctor_cases(mode)
        cases += interval_cases(mode, tier)
        cases += inter_cases(mode, tier, rng)
    cases += describe_cases(rng, tier)
    for mode in ("rat", "flt"):
        cases += auto_cases(mode, tier, rng)
    cases += auto_large_cases()
    ns = 6000 if tier == "thorough" else 1200
    for i in range(ns):
        mode = "flt" if i % 2 else "rat"
        cases.append(shared_case(rng, mode, i, 30 if tier != "thorough" else 40, unsafe=(i % 3 == 2)))
    nh = 100000 if tier == "thorough" else 10000
    for i in range(nh):
        mode = "flt" if i % 2 else "rat"
        cases.append(history_case(rng, mode, i, 30 if tier != "thorough" else 40))
    return cases


NEGZERO = "8000000000000000"


def _norm(s):
    return " ".join("0000000000000000" if t == NEGZERO else t for t in s.split())


def compare(op_line, impl, model):
    # `unmodelled`: the model declares the situation outside its scope (a number text outside the strict
    # subset, an infinite corrected value, or rational arithmetic that is not exact in doubles)
    if model.startswith("unmodelled"):
        return True
    return _norm(impl) == _norm(model)


def coverage_extra(cases, answers):
    modes = {}
    kinds = {}
    psets = rejected = corrected = 0
    raised_param = param_ops = 0
    for c, a in zip(cases, answers):
        head = c[0].split()
        modes[head[-1]] = modes.get(head[-1], 0) + 1
        if head[1].startswith("h"):
            kinds[head[2]] = kinds.get(head[2], 0) + 1
        ops = [l for l in c if not l.startswith("case")]
        for l, r in zip(ops, a or []):
            if l.startswith("p."):
                param_ops += 1
                if r.startswith("exc:"):
                    raised_param += 1
            if l.startswith("p.set "):
                psets += 1
                t = r.split()
                if r.startswith("exc:"):
                    rejected += 1
                elif len(t) > 2 and t[0] == "ok" and t[2] != l.split()[2]:
                    corrected += 1
    shared = {"cases": 0, "cases_mutating_attached_objects": 0, "in_place_mutations": 0, "pointer_attachments": 0,
              "handles_taken_back": 0, "auto_directed_cases": 0, "message_lines_captured": 0}
    for c, a in zip(cases, answers):
        head = c[0].split()
        if head[1].startswith("au"):
            shared["auto_directed_cases"] += 1
        ops = [l for l in c if not l.startswith("case")]
        for l, r in zip(ops, a or []):
            if l.startswith("p.msgs") and r.split()[:1] and r.split()[0].isdigit():
                shared["message_lines_captured"] += int(r.split()[0])
        if "shared" not in head:
            continue
        shared["cases"] += 1
        if head[1].startswith("shm"):
            shared["cases_mutating_attached_objects"] += 1
        for l in ops:
            if l.startswith(("ic.setlo", "ic.sethi", "ic.interas", "ic.parse")):
                shared["in_place_mutations"] += 1
            elif l.startswith(("p.news", "p.setcs")):
                shared["pointer_attachments"] += 1
            elif l.startswith(("p.getc", "p.rmcs")):
                shared["handles_taken_back"] += 1
    return {"cases_by_mode": modes, "history_kinds": kinds, "param_ops": param_ops, "shared_and_auto": shared,
            "param_ops_raised_fraction": round(raised_param / param_ops, 4) if param_ops else 0.0,
            "setValue_calls": psets, "setValue_rejected": rejected, "setValue_ended_on_other_value": corrected}
