"""Script generator for C19 (Simplex / OrderedSimplex).

Case = one object history: construction (from a vector or from a dimension), then a mix of
setFrequencies / matchParametersValues(all thetas) / setParameterValue(one theta) / copies.
Dimensions: all of 0..17 for every (method, allowNull), random up to 33 biased to 2^k-1, 2^k, 2^k+1.
Probability vectors: Dirichlet-like, with entries down to 1e-9, dyadic, one dominant entry.
Parameter vectors: uniform in (0,1), coordinates within 1e-9 .. 1e-12 of 0 or 1, dyadic k/16.
A malformed stream (sum off by more than SMALL, sum next to the SMALL threshold, negative or zero
entries, vectors longer and shorter than the dimension, parameters outside the constraint, unknown
parameter index) exercises the rejections, each
followed by a look at the object and, often, by a partial notification (the ratio cache of the
local-ratio coding is written by setFrequencies before the vector is validated).
Copies: copy construction, clone(), operator= (also onto itself, in chains), between objects of every
pair of codings, of different dimensions and constraint options, plain and ordered, ordered -> plain
(slicing copy construction / assignment) and plain -> base part of an ordered object of the same
dimension; each followed by notifications (setParameterValue, matchParametersValues on all or some
thetas, setParametersValues on some, fireParameterChanged, setFrequencies) on BOTH objects and looks
at the other one.
"""
import random, struct, math

BIG = list(range(18, 34)) + [31, 31, 32, 32, 32, 33, 33, 33]


def hx(d):
    return "%016x" % struct.unpack(">Q", struct.pack(">d", d))[0]


def hv(v):
    return " ".join(hx(x) for x in v)


def fsum_lr(v):
    s = 0.0
    for x in v:
        s += x
    return s


def normalise(w):
    s = math.fsum(w)
    p = [x / s for x in w]
    # bring the left-to-right double sum within a few ulps of 1 by adjusting the largest entry
    for _ in range(3):
        d = 1.0 - fsum_lr(p)
        if d == 0.0:
            break
        i = max(range(len(p)), key=lambda j: p[j])
        p[i] += d
    return p


def rand_probs(rng, n, stats=None):
    kind = rng.choice(["dir", "dir", "tiny", "tiny", "dyadic", "dominant", "equal"])
    if n == 1:
        return [1.0], "one"
    if kind == "dir":
        w = [rng.expovariate(1.0) + 1e-3 for _ in range(n)]
    elif kind == "tiny":
        w = [rng.expovariate(1.0) + 1e-3 for _ in range(n)]
        for i in range(n):
            if rng.random() < 0.35:
                w[i] = 10 ** rng.uniform(-9, -5)
        if all(x < 1e-4 for x in w):
            w[rng.randrange(n)] = 1.0
    elif kind == "dyadic":
        m = 1 << rng.choice([4, 6, 10])
        cuts = sorted(rng.sample(range(1, m), min(n - 1, m - 1)))
        if len(cuts) < n - 1:
            w = [1.0] * n
        else:
            b = [0] + cuts + [m]
            return [(b[i + 1] - b[i]) / m for i in range(n)], "dyadic"
    elif kind == "dominant":
        w = [10 ** rng.uniform(-9, -7) for _ in range(n)]
        w[rng.randrange(n)] = 1.0
    else:
        w = [1.0] * n
    p = normalise(w)
    p = [max(x, 1e-9) for x in p]
    p = normalise(p)
    return p, kind


def rand_theta(rng, m):
    kind = rng.choice(["unif", "unif", "edge", "edge", "dyadic", "half", "allsmall", "alllarge"])
    th = []
    for _ in range(m):
        if kind == "unif":
            th.append(rng.uniform(0.001, 0.999))
        elif kind == "edge":
            r = rng.random()
            if r < 0.25:
                th.append(10 ** rng.uniform(-12, -9))
            elif r < 0.5:
                th.append(1.0 - 10 ** rng.uniform(-12, -9))
            else:
                th.append(rng.uniform(0.001, 0.999))
        elif kind == "allsmall":
            # every coordinate next to 0 (>= 1e-9: the alpha products of the local-ratio coding stay
            # below 1e9^32 = 1e288 up to dimension 33; see findings: C19-local-ratio-overflow)
            # (down to 1e-12: in high dimensions the local-ratio coding then overflows: known finding,
            #  reported by the driver as `local_ratio_overflow`)
            th.append(10 ** rng.uniform(-12, -7))
        elif kind == "alllarge":
            th.append(1.0 - 10 ** rng.uniform(-12, -7))
        elif kind == "dyadic":
            th.append(rng.randint(1, 15) / 16.0)
        else:
            th.append(0.5)
    return th, kind


def ordered_from_probs(p):
    n = len(p)
    v = [0.0] * n
    x = 0.0
    for i in range(n, 0, -1):
        x += p[i - 1] / i
        v[i - 1] = x
    return v


def pick_dim(rng):
    r = rng.random()
    if r < 0.7:
        return rng.randint(1, 17)
    return rng.choice(BIG)


def some_pairs(rng, npar):
    """(index, value) pairs with distinct indices, now and then a name the object does not have"""
    k = rng.randint(1, min(npar, 3))
    idx = rng.sample(range(1, npar + 1), k)
    if rng.random() < 0.15:
        idx.append(npar + rng.randint(1, 3))
    out = []
    for i in idx:
        th, _ = rand_theta(rng, 1)
        out.append("%d %s" % (i, hx(th[0])))
    return " ".join(out)


def notify(rng, pre, reg, n, m):
    """one call on register `reg` (dimension n, method m) that notifies the object"""
    npar = n - 1 if 1 <= m <= 3 and n >= 1 else 0
    r = rng.random()
    if npar == 0 or r < 0.12:
        return "%sfire %d" % (pre, reg)
    if r < 0.37:
        th, _ = rand_theta(rng, 1)
        return "%ssetone %d %d %s" % (pre, reg, rng.randint(1, npar), hx(th[0]))
    if r < 0.57:
        th, _ = rand_theta(rng, npar)
        return "%ssetpar %d %s" % (pre, reg, hv(th))
    if r < 0.72:
        return "%ssetsome %d %s" % (pre, reg, some_pairs(rng, npar))
    if r < 0.85:
        return "%smatchsome %d %s" % (pre, reg, some_pairs(rng, npar))
    p, _ = rand_probs(rng, n)
    return "%ssetfreq %d %s" % (pre, reg, hv(ordered_from_probs(p) if pre == "o" else p))


def construct_op(rng, pre, reg, n, m, a):
    if rng.random() < 0.7:
        p, _ = rand_probs(rng, n)
        return "%snew %d %d %d %s" % (pre, reg, m, a, hv(ordered_from_probs(p) if pre == "o" else p))
    return "%snewdim %d %d %d %d" % (pre, reg, n, m, a)


def copy_case(rng, kind, ms, mt, as_, at, ns, nt):
    """source in register 0, target in register 1; kind of copy; notifications on both afterwards"""
    ops = []
    if kind in ("assign", "copy", "copyctor", "self", "chain"):
        sp, tp, cp = "", "", ""
    elif kind in ("oassign", "ocopy", "oclone"):
        sp, tp, cp = "o", "o", "o"
    elif kind in ("sliceassign", "slicecopy"):
        sp, tp, cp = "o", "", ""
    else:  # baseassign: plain source, ordered target of the same dimension
        sp, tp, cp = "", "o", "o"
        nt = ns
    ops.append(construct_op(rng, sp, 0, ns, ms, as_))
    if rng.random() < 0.5:
        ops.append(notify(rng, sp, 0, ns, ms))
    if kind in ("assign", "oassign", "sliceassign", "baseassign", "chain") and rng.random() < 0.85:
        ops.append(construct_op(rng, tp, 1, nt, mt, at))
        if rng.random() < 0.4:
            ops.append(notify(rng, tp, 1, nt, mt))
    if kind == "self":
        ops.append("assign 0 0")
        ops.append(notify(rng, "", 0, ns, ms))
        ops.append("get 0")
        return ops
    if kind == "baseassign" and not any(l.startswith("onew") for l in ops[1:]):
        ops.append(construct_op(rng, "o", 1, ns, mt, at))
    opname = {"assign": "assign", "chain": "assign", "copy": "copy", "copyctor": "copyctor", "oassign": "oassign",
              "ocopy": "ocopy", "oclone": "oclone", "sliceassign": "sliceassign", "slicecopy": "slicecopy",
              "baseassign": "baseassign"}[kind]
    ops.append("%s 0 1" % opname)
    # the copy now has the source's dimension and coding
    for _ in range(rng.randint(1, 3)):
        ops.append(notify(rng, cp, 1, ns, ms))
        ops.append("%sget 0" % sp)
        ops.append(notify(rng, sp, 0, ns, ms))
        ops.append("%sget 1" % cp)
    if kind == "chain":
        ops.append(construct_op(rng, "", 2, rng.randint(1, 6), rng.randint(1, 3), rng.randint(0, 1)))
        ops.append("assign 1 2")
        ops.append("assign 2 0")
        ops.append(notify(rng, "", 2, ns, ms))
        ops.append("get 0")
        ops.append("get 1")
        ops.append(notify(rng, "", 0, ns, ms))
        ops.append("get 2")
    return ops


def history(rng, pre, n, m, a, L):
    """random ops on register 0 of kind pre ('' Simplex / 'o' OrderedSimplex)"""
    ops = []
    npar = n - 1 if 1 <= m <= 3 and n >= 1 else 0
    for _ in range(L):
        r = rng.random()
        if r < 0.30 and n >= 1:
            p, _ = rand_probs(rng, n)
            if pre == "o":
                # a valid ordered vector needs strictly decreasing values: derive it from probabilities
                ops.append("osetfreq 0 " + hv(ordered_from_probs(p)))
            else:
                ops.append("setfreq 0 " + hv(p))
        elif r < 0.60 and npar:
            th, _ = rand_theta(rng, npar)
            ops.append("%ssetpar 0 %s" % (pre, hv(th)))
            if rng.random() < 0.4:
                # injectivity: a second vector differing in one coordinate
                i = rng.randrange(npar)
                th2 = list(th)
                th2[i] = th[i] * (1 - 10 ** rng.uniform(-9, -2))
                if 0 < th2[i] < 1 and th2[i] != th[i]:
                    ops.append("%ssetpar 0 %s" % (pre, hv(th2)))
        elif r < 0.75 and npar:
            th, _ = rand_theta(rng, 1)
            ops.append("%ssetone 0 %d %s" % (pre, rng.randint(1, npar), hx(th[0])))
        elif r < 0.88:
            j = rng.randint(1, 3)
            ops.append("%s 0 %d" % (("oclone" if rng.random() < 0.5 else "ocopy") if pre == "o" else "copy", j))
            # independence: change the copy, look at the source; change the source, look at the copy
            if npar:
                th, _ = rand_theta(rng, npar)
                ops.append("%ssetpar %d %s" % (pre, j, hv(th)))
                ops.append("%sget 0" % pre)
                th, _ = rand_theta(rng, 1)
                ops.append("%ssetone 0 %d %s" % (pre, rng.randint(1, npar), hx(th[0])))
                ops.append("%sget %d" % (pre, j))
            else:
                ops.append("%sget 0" % pre)
        elif r < 0.93 and n >= 1:
            j = rng.randint(1, 3)
            ops.append("%snewdim %d %d %d %d" % (pre, j, rng.randint(1, 5), rng.randint(1, 3), rng.randint(0, 1)))
            ops.append("%sassign 0 %d" % (pre, j))
            ops.append("%sget 0" % pre)
            # the target now has the source's coding and dimension: notify it, then the source
            ops.append(notify(rng, pre, j, n, m))
            ops.append("%sget 0" % pre)
            ops.append(notify(rng, pre, 0, n, m))
            ops.append("%sget %d" % (pre, j))
        elif r < 0.97:
            ops.append(notify(rng, pre, 0, n, m))
        else:
            ops.append("%sget 0" % pre)
    return ops


def wrong_size(rng, v, ordered):
    """a vector of another size: longer (extra entries: zeros, or small positive ones with the whole
    vector renormalised so that the sum test passes) or shorter"""
    v = list(v)
    if rng.random() < 0.6 or len(v) <= 1:
        k = rng.randint(1, 3)
        if rng.random() < 0.5:
            v += [0.0] * k
        else:
            v += [10 ** rng.uniform(-6, -1) for _ in range(k)]
            if ordered:
                v.sort(reverse=True)
                # ordered values must keep sum one
                s = fsum_lr(v)
                v = [x / s for x in v]
            else:
                v = normalise(v)
    else:
        v = v[: rng.randint(1, len(v) - 1)]
        if rng.random() < 0.6:
            # keep the sum at one: only then does the plain setter get past its sum test
            v = normalise(v) if not ordered else [x / fsum_lr(v) for x in v]
    return v


def malformed(rng, n, m, a):
    """one rejected or out-of-hypothesis operation on Simplex register 0"""
    r = rng.random()
    npar = n - 1
    if r < 0.12:
        # another size: a longer vector is defined (the first n entries are read, all are summed),
        # a shorter one is undefined behaviour (the harness does not execute it, the model says `ub`)
        p, _ = rand_probs(rng, n)
        return "setfreq 0 " + hv(wrong_size(rng, p, False))
    r = (r - 0.12) / 0.88
    if r < 0.2:
        p, _ = rand_probs(rng, n)
        p[rng.randrange(n)] += rng.choice([1e-3, -1e-3, 0.5])
        return "setfreq 0 " + hv(p)
    if r < 0.4:
        # next to the SMALL = 1e-6 threshold of the sum test
        p, _ = rand_probs(rng, n)
        i = max(range(n), key=lambda j: p[j])
        p[i] += rng.choice([0.9e-6, -0.9e-6, 1.1e-6, -1.1e-6])
        return "setfreq 0 " + hv(p)
    if r < 0.55 and n >= 2:
        p, _ = rand_probs(rng, n)
        i, j = rng.sample(range(n), 2)
        p[j] += p[i]
        p[i] = 0.0 if rng.random() < 0.6 else -p[j] / 4
        if p[i] < 0:
            p[j] -= p[i]
        return "setfreq 0 " + hv(p)
    if r < 0.85 and npar >= 1:
        th, _ = rand_theta(rng, npar)
        th[rng.randrange(npar)] = rng.choice([0.0, 1.0, 1.5, -0.25, 1.0 + 2 ** -52])
        return "setpar 0 " + hv(th)
    if npar >= 1:
        return "setone 0 %d %s" % (rng.choice([0, npar + 1, npar + 7]), hx(0.5))
    return "get 0"


def generate(seed, tier):
    rng = random.Random(seed)
    cases = []
    thorough = tier == "thorough"
    # 1. every (method, allowNull, dim 0..17): construction from a vector and from the dimension,
    #    then a short history
    reps = 20 if thorough else 3
    for m in (1, 2, 3):
        for a in (0, 1):
            for n in range(0, 18):
                for rep in range(reps):
                    ops = []
                    if n == 0:
                        ops.append("new 0 %d %d" % (m, a))
                    else:
                        p, _ = rand_probs(rng, n)
                        ops.append("new 0 %d %d %s" % (m, a, hv(p)))
                    ops += history(rng, "", n, m, a, rng.randint(2, 6))
                    cases.append(["case vec m%d a%d n%d r%d" % (m, a, n, rep)] + ops)
                ops = ["newdim 0 %d %d %d" % (n, m, a)] + history(rng, "", n, m, a, rng.randint(2, 5))
                cases.append(["case dim m%d a%d n%d" % (m, a, n)] + ops)
                if n == 0:
                    cases.append(["case oempty m%d a%d n0" % (m, a), "onew 0 %d %d" % (m, a), "oget 0", "onewdim 1 0 %d %d" % (m, a), "oget 1"])
                if n >= 1:
                    p, _ = rand_probs(rng, n)
                    ops = ["onew 0 %d %d %s" % (m, a, hv(ordered_from_probs(p)))] + history(rng, "o", n, m, a, rng.randint(2, 5))
                    cases.append(["case ovec m%d a%d n%d" % (m, a, n)] + ops)
                    ops = ["onewdim 0 %d %d %d" % (n, m, a)] + history(rng, "o", n, m, a, rng.randint(2, 5))
                    cases.append(["case odim m%d a%d n%d" % (m, a, n)] + ops)
    # 2. random cases, dimensions up to 33
    nrand = 40000 if thorough else 2000
    for i in range(nrand):
        m = rng.choice([1, 2, 3])
        a = rng.randint(0, 1)
        n = pick_dim(rng)
        pre = "o" if rng.random() < 0.3 else ""
        p, _ = rand_probs(rng, n)
        if rng.random() < 0.75:
            head = "%snew 0 %d %d %s" % (pre, m, a, hv(ordered_from_probs(p) if pre else p))
        else:
            head = "%snewdim 0 %d %d %d" % (pre, n, m, a)
        ops = [head] + history(rng, pre, n, m, a, rng.randint(2, 8))
        cases.append(["case rnd%d m%d a%d n%d" % (i, m, a, n)] + ops)
    # 3. malformed stream
    nbad = 6000 if thorough else 400
    for i in range(nbad):
        m = rng.choice([1, 2, 3])
        a = rng.randint(0, 1)
        n = rng.randint(1, 12)
        p, _ = rand_probs(rng, n)
        if rng.random() < 0.65:
            ops = ["new 0 %d %d %s" % (m, a, hv(p))]
        else:
            ops = ["newdim 0 %d %d %d" % (n, m, a)]
        for _ in range(rng.randint(1, 4)):
            ops.append(malformed(rng, n, m, a))
            ops.append("get 0")
            if rng.random() < 0.5:
                # a partial notification right after the rejection, then a copy of the object
                ops.append(notify(rng, "", 0, n, m))
                if rng.random() < 0.3:
                    ops.append("copy 0 1")
                    ops.append(notify(rng, "", 1, n, m))
        if rng.random() < 0.3:
            ops += history(rng, "", n, m, a, 2)
        cases.append(["case bad%d m%d a%d n%d" % (i, m, a, n)] + ops)
    # 3b. rejected vectors on an OrderedSimplex (increasing values, wrong sum), then a look at the object
    for i in range(3000 if thorough else 200):
        m = rng.choice([1, 2, 3])
        a = rng.randint(0, 1)
        n = rng.randint(2, 10)
        p, _ = rand_probs(rng, n)
        ops = ["onew 0 %d %d %s" % (m, a, hv(ordered_from_probs(p)))]
        for _ in range(rng.randint(1, 3)):
            q, _ = rand_probs(rng, n)
            v = ordered_from_probs(q)
            r = rng.random()
            if r < 0.25:
                # another size (longer, shorter): rejected since the third repair
                v = wrong_size(rng, v, True)
            elif r < 0.5:
                v.reverse()
            elif r < 0.75 and n >= 2:
                i1, i2 = rng.sample(range(n), 2)
                v[i1], v[i2] = v[i2], v[i1]
            else:
                v[rng.randrange(n)] += rng.choice([0.25, -1e-3, 1e-4])
            ops.append("osetfreq 0 " + hv(v))
            ops.append("oget 0")
        ops += history(rng, "o", n, m, a, 2)
        cases.append(["case obad%d m%d a%d n%d" % (i, m, a, n)] + ops)
    # 3a'. product codings with several LEADING parameters within 1e-9 of 1 (the remaining mass drops to
    #      1e-27..1e-48 and must still be shared out in the right proportions), then vectors that differ
    #      in ONE later coordinate only (injectivity; relative accuracy of the tiny probabilities)
    for i in range(600 if thorough else 60):
        m = rng.choice([1, 1, 3])
        a = rng.randint(0, 1)
        n = rng.randint(6, 12)
        lead = rng.randint(3, 4)
        def near_one_vec():
            return [1.0 - 10 ** rng.uniform(-12, -9) if j < lead else rng.uniform(0.05, 0.95) for j in range(n - 1)]
        th = near_one_vec()
        ops = ["newdim 0 %d %d %d" % (n, m, a), "setpar 0 " + hv(th)]
        for _ in range(rng.randint(1, 3)):
            j = rng.randrange(lead, n - 1)
            th = list(th)
            th[j] = rng.uniform(0.05, 0.95)
            ops.append("setpar 0 " + hv(th))
        ops.append("setone 0 %d %s" % (rng.randint(lead + 1, n - 1), hx(rng.uniform(0.05, 0.95))))
        ops.append("get 0")
        cases.append(["case nearone%d m%d a%d n%d" % (i, m, a, n)] + ops)
    # 3c. copies between objects of different coding / dimension / constraint option / class
    kinds = ["assign", "assign", "oassign", "sliceassign", "slicecopy", "baseassign", "copy", "copyctor", "ocopy",
             "oclone", "self", "chain"]
    reps = 12 if thorough else 3
    for kind in kinds:
        for ms in (1, 2, 3):
            for mt in (1, 2, 3):
                for rep in range(reps):
                    as_, at = rng.randint(0, 1), rng.randint(0, 1)
                    ns = rng.choice([1, 2, 2, 3, 3, 4, 5, 7, 8, 9])
                    nt = ns if rng.random() < 0.3 else rng.choice([1, 2, 3, 4, 5, 6, 9])
                    cases.append(["case cp-%s m%d t%d a%d%d n%d k%d r%d" % (kind, ms, mt, as_, at, ns, nt, rep)]
                                 + copy_case(rng, kind, ms, mt, as_, at, ns, nt))
    # 4. method 0 (no parametrisation) and unknown method numbers: correspondence only
    for m in (0, 4):
        for n in (1, 3, 8):
            p, _ = rand_probs(rng, n)
            q, _ = rand_probs(rng, n)
            cases.append(["case nometh m%d n%d" % (m, n), "new 0 %d 0 %s" % (m, hv(p)), "setfreq 0 " + hv(q), "get 0",
                          "newdim 1 %d %d 0" % (n, m), "get 1"])
    return cases


def coverage_extra(cases, answers):
    dims, meth, kinds, edge, minp = {}, {}, {}, 0, {}
    for c in cases:
        t = c[0].split()
        for w in t:
            if w.startswith("n") and w[1:].isdigit():
                dims[int(w[1:])] = dims.get(int(w[1:]), 0) + 1
            if w.startswith("m") and w[1:].isdigit():
                meth[w] = meth.get(w, 0) + 1
        for l in c[1:]:
            w = l.split()
            if w[0] in ("setpar", "osetpar", "setone", "osetone"):
                vals = [struct.unpack(">d", struct.pack(">Q", int(h, 16)))[0] for h in (w[2:] if w[0].endswith("setpar") else w[3:])]
                if any(0 < v < 1e-8 or 0 < 1 - v < 1e-8 for v in vals):
                    edge += 1
            if w[0] in ("new", "setfreq") and len(w) > 4:
                vals = [struct.unpack(">d", struct.pack(">Q", int(h, 16)))[0] for h in (w[4:] if w[0] == "new" else w[2:])]
                pos = [v for v in vals if v > 0]
                if pos:
                    d = int(math.floor(math.log10(min(pos))))
                    minp[d] = minp.get(d, 0) + 1
    # copies: kind -> number of cases; how many go across codings / dimensions / constraint options
    cp, cross = {}, {"coding": 0, "dimension": 0, "constraint": 0}
    for c in cases:
        t = c[0].split()
        if len(t) > 1 and t[1].startswith("cp-"):
            cp[t[1][3:]] = cp.get(t[1][3:], 0) + 1
            d = {w[0]: w[1:] for w in t[2:] if w[1:].isdigit()}
            if d.get("m") != d.get("t"):
                cross["coding"] += 1
            if d.get("n") != d.get("k"):
                cross["dimension"] += 1
            if len(d.get("a", "")) == 2 and d["a"][0] != d["a"][1]:
                cross["constraint"] += 1
    ops = {}
    for c in cases:
        for l in c[1:]:
            w = l.split()[0]
            if w in ("copy", "copyctor", "assign", "ocopy", "oclone", "oassign", "slicecopy", "sliceassign", "baseassign"):
                ops[w] = ops.get(w, 0) + 1
    return {"copy_cases_by_kind": cp, "copy_cases_across": cross, "copy_ops": ops,
            "dimension_histogram": {str(k): dims[k] for k in sorted(dims)}, "method_histogram": meth,
            "param_ops_with_coordinate_within_1e-8_of_0_or_1": edge,
            "min_probability_decade_histogram": {str(k): minp[k] for k in sorted(minp)}}
