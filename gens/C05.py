"""Script generator for C05 (LUDecomposition.h, MatrixTools::inv / det).

Every case: `case <tag> <storage of A> <storage of B> <storage of X>` followed by
  lu m n A | solve mb nx B | solvev mb b | inv m n A | invip m n A | det m n A | dett n A | detmul n A B
  | solveip mb nx B (solve(B, B)) | solvevip mb b (solve(b, b)) | xset r c X | xvset k x
Matrix families (n = 1..10): integer entries in [-9,9]; dyadic entries (all arithmetic exact, so
exact zero pivots occur); permuted triangular; rank-deficient (integer products of thin factors,
repeated / zero rows and columns); prescribed singular values (condition number 1..1e6 and
beyond, up to numerically singular); diagonal matrices at the singularity threshold; a few
rectangular m > n; a few inputs on which the C++ has undefined behaviour (m < n, no right-hand
side column, empty matrix) — the model answers `ub`, the sanitised harness must abort.
Right-hand sides have 1..4 columns; a few have the wrong height.

In/out parameters: the output matrix `X` of solve / inv and the output vector `x` of the vector
overload live as long as the case, so every call receives them in the state the previous calls
left them (inv's n x n result feeds a later 1..4 column solve, a 4 column solve a 2 column one, a
refused call leaves them alone ...).  `xset r c <entries>` / `xvset k <entries>` put them into an
explicit prior state first: same number of rows and more columns than the result, larger in both
directions, smaller, equal shape with junk, an empty dimension.
"""
import random, struct, math

STOR = ["row", "col", "lin"]
SMALL = 1e-6


def hx(x):
    return struct.pack(">d", float(x)).hex()


def mat(rows):
    m = len(rows)
    n = len(rows[0]) if m else 0
    return "%d %d %s" % (m, n, " ".join(hx(v) for r in rows for v in r))


def mat_mn(m, n, rows):
    return ("%d %d %s" % (m, n, " ".join(hx(v) for r in rows for v in r))).strip()


def matmul(A, B):
    return [[sum(A[i][k] * B[k][j] for k in range(len(B))) for j in range(len(B[0]))] for i in range(len(A))]


def transpose(A):
    return [list(r) for r in zip(*A)]


def int_matrix(rng, m, n, lo=-9, hi=9):
    return [[rng.randint(lo, hi) for _ in range(n)] for _ in range(m)]


def dyadic_matrix(rng, n):
    vals = [0, 0, 1, -1, 2, -2, 4, -4, 0.5, -0.5, 8]
    return [[rng.choice(vals) for _ in range(n)] for _ in range(n)]


def perm_triangular(rng, n):
    lower = rng.random() < 0.5
    T = [[0] * n for _ in range(n)]
    for i in range(n):
        for j in range(n):
            if (j < i and lower) or (j > i and not lower):
                T[i][j] = rng.randint(-9, 9)
        T[i][i] = rng.choice([1, -1, 2, 3, -5, 9]) if rng.random() < 0.9 else 0
    p = list(range(n)); rng.shuffle(p)
    A = [T[p[i]] for i in range(n)]
    if rng.random() < 0.5:
        q = list(range(n)); rng.shuffle(q)
        A = [[r[q[j]] for j in range(n)] for r in A]
    return A


def rank_deficient(rng, n):
    k = rng.random()
    if k < 0.4 and n >= 2:
        r = rng.randint(1, n - 1)
        B = int_matrix(rng, n, r, -3, 3); C = int_matrix(rng, r, n, -3, 3)
        return matmul(B, C)
    A = int_matrix(rng, n, n)
    if k < 0.55:
        j = rng.randrange(n)
        for i in range(n): A[i][j] = 0           # zero column: exact zero pivot
    elif k < 0.7:
        i = rng.randrange(n); A[i] = [0] * n     # zero row
    elif k < 0.85 and n >= 2:
        i, j = rng.sample(range(n), 2); A[i] = list(A[j])   # repeated row
    elif n >= 2:
        i, j = rng.sample(range(n), 2)
        for r in range(n): A[r][i] = A[r][j]     # repeated column
    else:
        A = [[0]]
    return A


def householder(rng, n):
    v = [rng.gauss(0, 1) for _ in range(n)]
    s = sum(x * x for x in v) or 1.0
    return [[(1.0 if i == j else 0.0) - 2 * v[i] * v[j] / s for j in range(n)] for i in range(n)]


def prescribed_sv(rng, n, kappa):
    if n == 1:
        return [[rng.choice([-1, 1]) * rng.uniform(0.5, 2)]]
    sv = [kappa ** (-i / (n - 1)) for i in range(n)]
    D = [[sv[i] if i == j else 0.0 for j in range(n)] for i in range(n)]
    return matmul(matmul(householder(rng, n), D), householder(rng, n))


def rhs(rng, m, nx, integer):
    if integer:
        return int_matrix(rng, m, nx)
    return [[rng.uniform(-10, 10) for _ in range(nx)] for _ in range(m)]


def nextafter(x, up):
    b = struct.unpack(">q", struct.pack(">d", x))[0]
    b += 1 if (up == (x > 0)) else -1
    return struct.unpack(">d", struct.pack(">q", b))[0]


JUNK = [7.0, -7.0, 0.5, 1e9, -3.25, 123456.0]


def xset_line(rng, n, nx):
    """prior state of the output matrix for a result of shape n x nx"""
    k = rng.random()
    if k < 0.30: r, c = n, nx + rng.randint(1, 4)            # enough rows, more columns than needed
    elif k < 0.45: r, c = n + rng.randint(1, 3), nx + rng.randint(0, 3)
    elif k < 0.58: r, c = n, nx                              # right shape, junk contents
    elif k < 0.68: r, c = max(0, n - rng.randint(1, 2)), nx
    elif k < 0.78: r, c = n, max(0, nx - 1)
    elif k < 0.90: r, c = rng.randint(0, 12), rng.randint(0, 6)
    else: r, c = rng.choice([(0, 0), (0, 3), (3, 0)])
    return "xset " + mat_mn(r, c, [[rng.choice(JUNK) for _ in range(c)] for _ in range(r)])


def xvset_line(rng, n):
    k = rng.choice([n, n, n + rng.randint(1, 3), max(0, n - 1), 0, rng.randint(0, 12)])
    return ("xvset %d %s" % (k, " ".join(hx(rng.choice(JUNK)) for _ in range(k)))).strip()


def square_case(rng, tag, A, integer, ops_extra=True):
    n = len(A)
    st = [rng.choice(STOR) for _ in range(3)]
    ops = ["lu " + mat(A)]
    inv_first = ops_extra and rng.random() < 0.4
    if inv_first:
        if rng.random() < 0.3:
            ops.append(xset_line(rng, n, n))
        ops.append("inv " + mat(A))                         # its n x n result is the prior state of the solves
    for _ in range(rng.randint(1, 3)):
        nx = rng.randint(1, 4)
        if rng.random() < 0.45:
            ops.append(xset_line(rng, n, nx))
        ops.append("solve " + mat(rhs(rng, n, nx, integer and rng.random() < 0.7)))
    for _ in range(rng.choice([0, 1, 1, 2])):
        if rng.random() < 0.5:
            ops.append(xvset_line(rng, n))
        b = rhs(rng, n, 1, integer and rng.random() < 0.7)
        ops.append("solvev %d %s" % (n, " ".join(hx(r_[0]) for r_ in b)))
    if rng.random() < 0.25:
        nx = rng.randint(1, 4)                               # solve(B, B): the right-hand side is the output
        ops.append("solveip " + mat(rhs(rng, n, nx, integer and rng.random() < 0.7)))
    if rng.random() < 0.15:
        b = rhs(rng, n, 1, integer and rng.random() < 0.7)
        ops.append("solvevip %d %s" % (n, " ".join(hx(r_[0]) for r_ in b)))
    if rng.random() < 0.04:
        mb = rng.choice([x for x in range(0, 12) if x != n])
        ops.append(("solvev %d %s" % (mb, " ".join(hx(rng.randint(-9, 9)) for _ in range(mb)))).strip())
    r = rng.random()
    if r < 0.08:
        mb = rng.choice([x for x in range(0, 12) if x != n])
        nx = rng.randint(1, 3)
        ops.append("solve " + mat_mn(mb, nx, rhs(rng, mb, nx, True)))
    if ops_extra:
        if not inv_first:
            if rng.random() < 0.4:
                ops.append(xset_line(rng, n, n))
            ops.append("inv " + mat(A))
        if rng.random() < 0.15:
            ops.append("invip " + mat(A))                    # in-place inverse: inv(A, A)
        if r > 0.9:
            nx = rng.randint(1, 4)                           # one more solve after everything else
            ops.append("solve " + mat(rhs(rng, n, nx, integer)))
        ops.append("det " + mat(A))
        if rng.random() < 0.5:
            ops.append("dett %d %s" % (n, " ".join(hx(v) for r_ in A for v in r_)))
        if integer and n <= 6 and rng.random() < 0.5:
            B = int_matrix(rng, n, n, -3, 3)
            A3 = [[max(-3, min(3, v)) for v in r_] for r_ in A]
            ops.append("detmul %d %s %s" % (n, " ".join(hx(v) for r_ in A3 for v in r_), " ".join(hx(v) for r_ in B for v in r_)))
    return ["case %s %s %s %s" % (tag, st[0], st[1], st[2])] + ops


def generate(seed, tier):
    rng = random.Random(seed)
    N = 9000 if tier == "thorough" else 1100
    cases = []
    # fixed edge cases ---------------------------------------------------------------
    sm_lo, sm_hi = nextafter(SMALL, False), nextafter(SMALL, True)
    for k, d in enumerate([SMALL, sm_lo, sm_hi, -SMALL, -sm_lo, 0.0, -0.0]):
        for n in (1, 2, 3):
            A = [[(1.0 if i == j else 0.0) for j in range(n)] for i in range(n)]
            A[rng.randrange(n)][rng.randrange(n)] = 0.0
            for i in range(n): A[i][i] = 1.0
            A[n - 1][n - 1] = d
            cases.append(square_case(rng, "thr%d_%d" % (k, n), A, False))
    for n in range(1, 6):
        cases.append(square_case(rng, "zero%d" % n, [[0] * n for _ in range(n)], True))
        cases.append(square_case(rng, "id%d" % n, [[1 if i == j else 0 for j in range(n)] for i in range(n)], True))
        cases.append(square_case(rng, "anti%d" % n, [[1 if i + j == n - 1 else 0 for j in range(n)] for i in range(n)], True))
    # ties in the pivot search (strict `>`: the first maximal row wins)
    for n in range(2, 6):
        A = [[rng.choice([-3, 3]) for _ in range(n)] for _ in range(n)]
        cases.append(square_case(rng, "tie%d" % n, A, True))
    # non-square through MatrixTools: DimensionException
    for (m, n) in [(2, 3), (3, 2), (1, 4), (4, 1)]:
        A = int_matrix(rng, m, n)
        cases.append(["case nonsq%d%d %s row row" % (m, n, rng.choice(STOR)), "inv " + mat(A), "det " + mat(A)])
    # undefined behaviour in the C++ (each ends its case)
    A = int_matrix(rng, 2, 3)
    cases.append(["case ub_wide row row row", "lu " + mat(A)])
    A = int_matrix(rng, 3, 3)
    cases.append(["case ub_nx0 row row row", "lu " + mat(A), "solve 3 0"])
    cases.append(["case ub_inv0 row row row", "inv 0 0"])
    A = int_matrix(rng, 3, 2)
    cases.append(["case ub_tall_solve row row row", "lu " + mat(A), "solve " + mat(int_matrix(rng, 3, 1))])
    # random families ------------------------------------------------------------------
    for c in range(N):
        n = rng.randint(1, 10)
        f = rng.random()
        if f < 0.30:
            cases.append(square_case(rng, "int%d_n%d" % (c, n), int_matrix(rng, n, n), True))
        elif f < 0.40:
            cases.append(square_case(rng, "dyad%d_n%d" % (c, n), dyadic_matrix(rng, n), True))
        elif f < 0.52:
            cases.append(square_case(rng, "ptri%d_n%d" % (c, n), perm_triangular(rng, n), True))
        elif f < 0.66:
            cases.append(square_case(rng, "rdef%d_n%d" % (c, n), rank_deficient(rng, n), True))
        elif f < 0.92:
            e = rng.choice([0, 0, 1, 2, 3, 4, 5, 6, 6, 7, 8, 10, 13, 16])
            kappa = 10.0 ** e * rng.uniform(1, 3) if e else 1.0
            cases.append(square_case(rng, "sv%d_n%d_k1e%d" % (c, n, e), prescribed_sv(rng, n, kappa), False))
        else:
            m = rng.randint(2, 10); n2 = rng.randint(1, m - 1)
            A = int_matrix(rng, m, n2) if rng.random() < 0.6 else [[rng.uniform(-1, 1) for _ in range(n2)] for _ in range(m)]
            cases.append(["case rect%d_%dx%d %s row row" % (c, m, n2, rng.choice(STOR)), "lu " + mat(A)])
    return cases


def compare(op_line, impl, model):
    if model.strip() == "ub":
        # the sanitised build aborts on the out-of-range access
        return impl.startswith("crash") or impl.startswith("hang")
    return " ".join(impl.split()) == " ".join(model.split())


def coverage_extra(cases, answers):
    sizes, fam, stor, kappa, nxs = {}, {}, {}, {}, {}
    swaps = zero_piv = zerodiv = solved = ub = 0
    prior = {"empty": 0, "same_shape": 0, "same_rows_more_cols": 0, "same_rows_fewer_cols": 0, "other_rows": 0}
    prior_v = {"empty": 0, "same_len": 0, "longer": 0, "shorter": 0}
    for c, a in zip(cases, answers):
        xs = (0, 0); xl = 0; nlu = None
        head = c[0].split()
        tag = head[1]
        f = "".join(ch for ch in tag.split("_")[0] if not ch.isdigit())
        fam[f] = fam.get(f, 0) + 1
        if "_k1e" in tag:
            e = "1e" + tag.split("_k1e")[1]
            kappa[e] = kappa.get(e, 0) + 1
        stor["/".join(head[2:5])] = stor.get("/".join(head[2:5]), 0) + 1
        ops = [l for l in c[1:]]
        for l, r in zip(ops, a or []):
            t = l.split()
            if t[0] == "lu":
                key = "%sx%s" % (t[1], t[2]) if t[1] != t[2] else t[1]
                sizes[key] = sizes.get(key, 0) + 1
                if r.startswith("piv"):
                    parts = r.split(";")
                    piv = parts[0].split()[1:]
                    if piv != [str(i) for i in range(len(piv))]:
                        swaps += 1
                    u = parts[2].split()[1:]
                    nn = int(u[1]); vals = u[2:]
                    if any(vals[i * nn + i] in ("0000000000000000", "8000000000000000") for i in range(nn)):
                        zero_piv += 1
            if t[0] == "lu":
                nlu = int(t[1]) if t[1] == t[2] else None
            if t[0] == "solvevip":
                xl = int(t[1])
            if t[0] in ("xset", "invip", "solveip"):
                xs = (int(t[1]), int(t[2]))
                if t[0] != "xset" and r.startswith("minD"):
                    u = r.split(";")[1].split()
                    xs = (int(u[1]), int(u[2]))
            if t[0] == "xvset":
                xl = int(t[1])
            want = None
            if t[0] == "solve" and nlu is not None and int(t[1]) == nlu:
                want = (nlu, int(t[2]))
            if t[0] == "inv" and t[1] == t[2]:
                want = (int(t[1]), int(t[1]))
            if want is not None:
                if xs[0] == 0 or xs[1] == 0: prior["empty"] += 1
                elif xs == want: prior["same_shape"] += 1
                elif xs[0] == want[0] and xs[1] > want[1]: prior["same_rows_more_cols"] += 1
                elif xs[0] == want[0]: prior["same_rows_fewer_cols"] += 1
                else: prior["other_rows"] += 1
                if r.startswith("minD"):
                    u = r.split(";")[1].split()
                    xs = (int(u[1]), int(u[2]))
            if t[0] == "solvev" and nlu is not None:
                if xl == 0: prior_v["empty"] += 1
                elif xl == nlu: prior_v["same_len"] += 1
                elif xl > nlu: prior_v["longer"] += 1
                else: prior_v["shorter"] += 1
                if r.startswith("minD"):
                    xl = int(r.split(";")[1].split()[1])
            if t[0] == "solve":
                nxs[t[2]] = nxs.get(t[2], 0) + 1
            if t[0] in ("solve", "solvev", "inv", "invip", "solveip", "solvevip"):
                if r == "exc:zerodiv": zerodiv += 1
                elif r.startswith("minD"): solved += 1
            if r.startswith("crash"): ub += 1
    return {"lu_sizes": dict(sorted(sizes.items())), "families": fam, "storage_triples": len(stor),
            "prescribed_condition_numbers": dict(sorted(kappa.items(), key=lambda kv: float(kv[0]))),
            "rhs_columns": dict(sorted(nxs.items())),
            "factorisations_with_row_exchange": swaps, "factorisations_with_exact_zero_pivot": zero_piv,
            "output_matrix_prior_state": prior, "output_vector_prior_state": prior_v,
            "solves_returned": solved, "solves_refused_singular": zerodiv, "ub_inputs_aborted": ub}
