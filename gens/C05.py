"""Script generator for C05 (LUDecomposition.h, MatrixTools::inv / det).

Every case: `case <tag> <storage of A> <storage of B> <storage of X>` followed by
  lu m n A | solve mb nx B | solvev mb b | inv m n A | det m n A | dett n A | detmul n A B
Matrix families (n = 1..10): integer entries in [-9,9]; dyadic entries (all arithmetic exact, so
exact zero pivots occur); permuted triangular; rank-deficient (integer products of thin factors,
repeated / zero rows and columns); prescribed singular values (condition number 1..1e6 and
beyond, up to numerically singular); diagonal matrices at the singularity threshold; a few
rectangular m > n; a few inputs on which the C++ has undefined behaviour (m < n, no right-hand
side column, empty matrix) — the model answers `ub`, the sanitised harness must abort.
Right-hand sides have 1..4 columns; a few have the wrong height.
"""
import random, struct, math

STOR = ["row", "col", "lin"]
SMALL = 1e-6


def hx(x):
    return struct.pack(">d", float(x)).hex()


def mat(rows):
    m = len(rows)
    n = len(rows[0]) if m else 0
    return "%d %d %s" % (m, n, " ".join(hx(v) for r in rows for v in r))


def mat_mn(m, n, rows):
    return ("%d %d %s" % (m, n, " ".join(hx(v) for r in rows for v in r))).strip()


def matmul(A, B):
    return [[sum(A[i][k] * B[k][j] for k in range(len(B))) for j in range(len(B[0]))] for i in range(len(A))]


def transpose(A):
    return [list(r) for r in zip(*A)]


def int_matrix(rng, m, n, lo=-9, hi=9):
    return [[rng.randint(lo, hi) for _ in range(n)] for _ in range(m)]


def dyadic_matrix(rng, n):
    vals = [0, 0, 1, -1, 2, -2, 4, -4, 0.5, -0.5, 8]
    return [[rng.choice(vals) for _ in range(n)] for _ in range(n)]


def perm_triangular(rng, n):
    lower = rng.random() < 0.5
    T = [[0] * n for _ in range(n)]
    for i in range(n):
        for j in range(n):
            if (j < i and lower) or (j > i and not lower):
                T[i][j] = rng.randint(-9, 9)
        T[i][i] = rng.choice([1, -1, 2, 3, -5, 9]) if rng.random() < 0.9 else 0
    p = list(range(n)); rng.shuffle(p)
    A = [T[p[i]] for i in range(n)]
    if rng.random() < 0.5:
        q = list(range(n)); rng.shuffle(q)
        A = [[r[q[j]] for j in range(n)] for r in A]
    return A


def rank_deficient(rng, n):
    k = rng.random()
    if k < 0.4 and n >= 2:
        r = rng.randint(1, n - 1)
        B = int_matrix(rng, n, r, -3, 3); C = int_matrix(rng, r, n, -3, 3)
        return matmul(B, C)
    A = int_matrix(rng, n, n)
    if k < 0.55:
        j = rng.randrange(n)
        for i in range(n): A[i][j] = 0           # zero column: exact zero pivot
    elif k < 0.7:
        i = rng.randrange(n); A[i] = [0] * n     # zero row
    elif k < 0.85 and n >= 2:
        i, j = rng.sample(range(n), 2); A[i] = list(A[j])   # repeated row
    elif n >= 2:
        i, j = rng.sample(range(n), 2)
        for r in range(n): A[r][i] = A[r][j]     # repeated column
    else:
        A = [[0]]
    return A


def householder(rng, n):
    v = [rng.gauss(0, 1) for _ in range(n)]
    s = sum(x * x for x in v) or 1.0
    return [[(1.0 if i == j else 0.0) - 2 * v[i] * v[j] / s for j in range(n)] for i in range(n)]


def prescribed_sv(rng, n, kappa):
    if n == 1:
        return [[rng.choice([-1, 1]) * rng.uniform(0.5, 2)]]
    sv = [kappa ** (-i / (n - 1)) for i in range(n)]
    D = [[sv[i] if i == j else 0.0 for j in range(n)] for i in range(n)]
    return matmul(matmul(householder(rng, n), D), householder(rng, n))


def rhs(rng, m, nx, integer):
    if integer:
        return int_matrix(rng, m, nx)
    return [[rng.uniform(-10, 10) for _ in range(nx)] for _ in range(m)]


def nextafter(x, up):
    b = struct.unpack(">q", struct.pack(">d", x))[0]
    b += 1 if (up == (x > 0)) else -1
    return struct.unpack(">d", struct.pack(">q", b))[0]


def square_case(rng, tag, A, integer, ops_extra=True):
    n = len(A)
    st = [rng.choice(STOR) for _ in range(3)]
    ops = ["lu " + mat(A)]
    for _ in range(rng.randint(1, 2)):
        nx = rng.randint(1, 4)
        ops.append("solve " + mat(rhs(rng, n, nx, integer and rng.random() < 0.7)))
    if rng.random() < 0.6:
        b = rhs(rng, n, 1, integer and rng.random() < 0.7)
        ops.append("solvev %d %s" % (n, " ".join(hx(r_[0]) for r_ in b)))
    if rng.random() < 0.04:
        mb = rng.choice([x for x in range(0, 12) if x != n])
        ops.append(("solvev %d %s" % (mb, " ".join(hx(rng.randint(-9, 9)) for _ in range(mb)))).strip())
    r = rng.random()
    if r < 0.08:
        mb = rng.choice([x for x in range(0, 12) if x != n])
        nx = rng.randint(1, 3)
        ops.append("solve " + mat_mn(mb, nx, rhs(rng, mb, nx, True)))
    if ops_extra:
        ops.append("inv " + mat(A))
        ops.append("det " + mat(A))
        if rng.random() < 0.5:
            ops.append("dett %d %s" % (n, " ".join(hx(v) for r_ in A for v in r_)))
        if integer and n <= 6 and rng.random() < 0.5:
            B = int_matrix(rng, n, n, -3, 3)
            A3 = [[max(-3, min(3, v)) for v in r_] for r_ in A]
            ops.append("detmul %d %s %s" % (n, " ".join(hx(v) for r_ in A3 for v in r_), " ".join(hx(v) for r_ in B for v in r_)))
    return ["case %s %s %s %s" % (tag, st[0], st[1], st[2])] + ops


def generate(seed, tier):
    rng = random.Random(seed)
    N = 9000 if tier == "thorough" else 1100
    cases = []
    # fixed edge cases ---------------------------------------------------------------
    sm_lo, sm_hi = nextafter(SMALL, False), nextafter(SMALL, True)
    for k, d in enumerate([SMALL, sm_lo, sm_hi, -SMALL, -sm_lo, 0.0, -0.0]):
        for n in (1, 2, 3):
            A = [[(1.0 if i == j else 0.0) for j in range(n)] for i in range(n)]
            A[rng.randrange(n)][rng.randrange(n)] = 0.0
            for i in range(n): A[i][i] = 1.0
            A[n - 1][n - 1] = d
            cases.append(square_case(rng, "thr%d_%d" % (k, n), A, False))
    for n in range(1, 6):
        cases.append(square_case(rng, "zero%d" % n, [[0] * n for _ in range(n)], True))
        cases.append(square_case(rng, "id%d" % n, [[1 if i == j else 0 for j in range(n)] for i in range(n)], True))
        cases.append(square_case(rng, "anti%d" % n, [[1 if i + j == n - 1 else 0 for j in range(n)] for i in range(n)], True))
    # ties in the pivot search (strict `>`: the first maximal row wins)
    for n in range(2, 6):
        A = [[rng.choice([-3, 3]) for _ in range(n)] for _ in range(n)]
        cases.append(square_case(rng, "tie%d" % n, A, True))
    # non-square through MatrixTools: DimensionException
    for (m, n) in [(2, 3), (3, 2), (1, 4), (4, 1)]:
        A = int_matrix(rng, m, n)
        cases.append(["case nonsq%d%d %s row row" % (m, n, rng.choice(STOR)), "inv " + mat(A), "det " + mat(A)])
    # undefined behaviour in the C++ (each ends its case)
    A = int_matrix(rng, 2, 3)
    cases.append(["case ub_wide row row row", "lu " + mat(A)])
    A = int_matrix(rng, 3, 3)
    cases.append(["case ub_nx0 row row row", "lu " + mat(A), "solve 3 0"])
    cases.append(["case ub_inv0 row row row", "inv 0 0"])
    A = int_matrix(rng, 3, 2)
    cases.append(["case ub_tall_solve row row row", "lu " + mat(A), "solve " + mat(int_matrix(rng, 3, 1))])
    # random families ------------------------------------------------------------------
    for c in range(N):
        n = rng.randint(1, 10)
        f = rng.random()
        if f < 0.30:
            cases.append(square_case(rng, "int%d_n%d" % (c, n), int_matrix(rng, n, n), True))
        elif f < 0.40:
            cases.append(square_case(rng, "dyad%d_n%d" % (c, n), dyadic_matrix(rng, n), True))
        elif f < 0.52:
            cases.append(square_case(rng, "ptri%d_n%d" % (c, n), perm_triangular(rng, n), True))
        elif f < 0.66:
            cases.append(square_case(rng, "rdef%d_n%d" % (c, n), rank_deficient(rng, n), True))
        elif f < 0.92:
            e = rng.choice([0, 0, 1, 2, 3, 4, 5, 6, 6, 7, 8, 10, 13, 16])
            kappa = 10.0 ** e * rng.uniform(1, 3) if e else 1.0
            cases.append(square_case(rng, "sv%d_n%d_k1e%d" % (c, n, e), prescribed_sv(rng, n, kappa), False))
        else:
            m = rng.randint(2, 10); n2 = rng.randint(1, m - 1)
            A = int_matrix(rng, m, n2) if rng.random() < 0.6 else [[rng.uniform(-1, 1) for _ in range(n2)] for _ in range(m)]
            cases.append(["case rect%d_%dx%d %s row row" % (c, m, n2, rng.choice(STOR)), "lu " + mat(A)])
    return cases


def compare(op_line, impl, model):
    if model.strip() == "ub":
        # the sanitised build aborts on the out-of-range access
        return impl.startswith("crash") or impl.startswith("hang")
    return " ".join(impl.split()) == " ".join(model.split())


def coverage_extra(cases, answers):
    sizes, fam, stor, kappa, nxs = {}, {}, {}, {}, {}
    swaps = zero_piv = zerodiv = solved = ub = 0
    for c, a in zip(cases, answers):
        head = c[0].split()
        tag = head[1]
        f = "".join(ch for ch in tag.split("_")[0] if not ch.isdigit())
        fam[f] = fam.get(f, 0) + 1
        if "_k1e" in tag:
            e = "1e" + tag.split("_k1e")[1]
            kappa[e] = kappa.get(e, 0) + 1
        stor["/".join(head[2:5])] = stor.get("/".join(head[2:5]), 0) + 1
        ops = [l for l in c[1:]]
        for l, r in zip(ops, a or []):
            t = l.split()
            if t[0] == "lu":
                key = "%sx%s" % (t[1], t[2]) if t[1] != t[2] else t[1]
                sizes[key] = sizes.get(key, 0) + 1
                if r.startswith("piv"):
                    parts = r.split(";")
                    piv = parts[0].split()[1:]
                    if piv != [str(i) for i in range(len(piv))]:
                        swaps += 1
                    u = parts[2].split()[1:]
                    nn = int(u[1]); vals = u[2:]
                    if any(vals[i * nn + i] in ("0000000000000000", "8000000000000000") for i in range(nn)):
                        zero_piv += 1
            if t[0] == "solve":
                nxs[t[2]] = nxs.get(t[2], 0) + 1
            if t[0] in ("solve", "solvev", "inv"):
                if r == "exc:zerodiv": zerodiv += 1
                elif r.startswith("minD"): solved += 1
            if r.startswith("crash"): ub += 1
    return {"lu_sizes": dict(sorted(sizes.items())), "families": fam, "storage_triples": len(stor),
            "prescribed_condition_numbers": dict(sorted(kappa.items(), key=lambda kv: float(kv[0]))),
            "rhs_columns": dict(sorted(nxs.items())),
            "factorisations_with_row_exchange": swaps, "factorisations_with_exact_zero_pivot": zero_piv,
            "solves_returned": solved, "solves_refused_singular": zerodiv, "ub_inputs_aborted": ub}
