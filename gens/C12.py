"""Script generator for C12 (numerical derivative wrappers).  Grammar: harness/C12.cpp.

Two kinds of cases:
 * `rat`  : dyadic coefficients / values / bounds and h = 2^-k, chosen so that double arithmetic is
            (mostly) exact; the driver also runs the model over the rationals and, where both runs
            agree, checks numerical = analytical derivative exactly on the implementation's answer;
 * `float`: random reals, steps 1e-2 .. 1e-6, compared bit for bit with the model run at Float.
"""
import random, struct, math


def hx(d):
    return "%016x" % struct.unpack(">Q", struct.pack(">d", float(d)))[0]


def con_s(con):
    if con is None:
        return "N"
    lo, hi, il, ih = con
    return "I %s %s %d %d" % ("*" if lo is None else hx(lo), "*" if hi is None else hx(hi), il, ih)


def par_s(n, v, pr, con):
    return "%d %s %s %s" % (n, hx(v), hx(pr), con_s(con))


def feasible(con, v):
    if con is None:
        return True
    lo, hi, il, ih = con
    if lo is not None and not (v >= lo if il else v > lo):
        return False
    if hi is not None and not (v <= hi if ih else v < hi):
        return False
    return True


class G:
    def __init__(self, rng, mode):
        self.rng, self.mode = rng, mode

    def grid(self, lo, hi, q):
        """a value on the grid of step q in [lo, hi]"""
        return self.rng.randint(int(math.ceil(lo / q)), int(math.floor(hi / q))) * q

    def value(self):
        r = self.rng
        if self.mode == "rat":
            return self.grid(-4, 4, 0.5)
        u = r.random()
        if u < 0.1:
            return float(r.randint(-3, 3))
        if u < 0.2:
            return r.uniform(-50, 50)
        return r.uniform(-4, 4)

    def coef(self):
        r = self.rng
        if self.mode == "rat":
            c = 0
            while c == 0:
                c = r.randint(-16, 16)
            return c / 4.0
        return r.uniform(-3, 3)

    def step(self):
        r = self.rng
        if self.mode == "rat":
            return 2.0 ** -r.randint(2, 5)
        if r.random() < 0.3:
            return 2.0 ** -r.randint(6, 20)
        return 10.0 ** -r.randint(2, 6) * (1 if r.random() < 0.7 else r.uniform(1, 9.9))

    def interval(self, v, h):
        """an interval constraint containing v: wide, with v on / next to a bound, narrow, degenerate"""
        r = self.rng
        q = 0.5 if self.mode == "rat" else None
        hs = (1 + abs(v)) * h
        u = r.random()

        def off(k):   # a distance to a bound, in units of the probe step
            if self.mode == "rat":
                return k * hs
            return k * hs * r.uniform(0.8, 1.2)

        if u < 0.30:    # wide
            lo, hi = v - (r.randint(1, 6) if q else r.uniform(1, 6)), v + (r.randint(1, 6) if q else r.uniform(1, 6))
        elif u < 0.45:  # on a bound
            lo, hi = (v, v + r.randint(1, 4)) if r.random() < 0.5 else (v - r.randint(1, 4), v)
        elif u < 0.80:  # next to a bound: room for 1/4 .. 3 steps on one side
            k = r.choice([0.25, 0.5, 1, 1, 1.5, 2, 2, 2.5, 3])
            if r.random() < 0.5:
                lo, hi = v - off(k), v + r.randint(1, 4)
            else:
                lo, hi = v - r.randint(1, 4), v + off(k)
        elif u < 0.93:  # narrow on both sides (dyadic fractions of the step)
            nar = [1 / 64, 1 / 32, 1 / 8, 0.5, 1, 1.5, 2]
            lo, hi = v - off(r.choice(nar)), v + off(r.choice(nar))
        else:           # degenerate
            lo, hi = v, v
        il, ih = int(r.random() < 0.7), int(r.random() < 0.7)
        if lo == v:
            il = 1
        if hi == v:
            ih = 1
        if r.random() < 0.15:
            if r.random() < 0.5:
                lo = None
            else:
                hi = None
        return (lo, hi, il, ih)

    def prec(self):
        r = self.rng
        if r.random() < 0.9:
            return 0.0
        return 2.0 ** -r.randint(3, 12)

    def poly(self, n):
        r = self.rng
        m = r.randint(1, 6)
        dmax = r.choice([0, 1, 1, 2, 2, 3, 3, 4, 4, 5])
        monos = []
        for k in range(m):
            e = [0] * n
            d = dmax if k == 0 else r.randint(0, dmax)
            for _ in range(d):
                e[r.randrange(n)] += 1
            c = self.coef()
            monos.append((c, e))
        if self.mode == "float" and r.random() < 0.04:
            # a huge coefficient: the value reaches VERY_BIG (the "too large" branches)
            c, e = monos[0]
            monos[0] = (c * 1e23, e)
        return monos


def gen_case(rng, idx, mode):
    g = G(rng, mode)
    r = rng
    n = r.randint(1, 4)
    kind = r.choice([0, 0, 1, 2, 2])
    scheme = r.choice([2, 3, 3, 5])
    h = g.step()
    monos = g.poly(n)
    # the wrapped function's own parameters
    own = []
    for k in range(n):
        v = g.value()
        con = g.interval(v, h) if r.random() < 0.45 else None
        pr = g.prec() if r.random() < 0.3 else 0.0
        own.append([k, v, pr, con])
    lines = ["case c%d %s" % (idx, mode)]
    lines.append("fn %d %d %s poly %d %s" % (kind, n, " ".join(par_s(*p) for p in own), len(monos),
                                           " ".join("%s %s" % (hx(c), " ".join(map(str, e))) for c, e in monos)))
    # `D`: the constructor's default step is kept (no setInterval)
    lines.append("wrap %d %s" % (scheme, "D" if (mode == "float" and r.random() < 0.05) else hx(h)))
    if lines[-1].endswith(" D"):
        h = 0.0001
    cur = {"h": h}

    def vars_line():
        u = r.random()
        names = list(range(n))
        r.shuffle(names)
        if u < 0.55:
            vs = names
        elif u < 0.9:
            vs = names[: r.randint(0, n)]
        elif u < 0.95:
            vs = names + [r.randrange(n)]      # a duplicate
            r.shuffle(vs)
        else:
            vs = names + [7]                   # a name the function does not have
            r.shuffle(vs)
        return "vars %d %s" % (len(vs), " ".join(map(str, vs)))

    def enable_line(first):
        if not first and r.random() < 0.3:
            # one switch alone
            return "%s %d" % (r.choice(["en1", "en2", "enx"]), r.randint(0, 1))
        if r.random() < 0.35:
            # every combination of the three switches, uniformly
            return "enable %d %d %d" % (r.randint(0, 1), r.randint(0, 1), r.randint(0, 1))
        if first:
            return "enable %d %d %d" % (int(r.random() < 0.9), int(r.random() < 0.8), int(r.random() < 0.6 if scheme == 3 else r.random() < 0.2))
        return "enable %d %d %d" % (int(r.random() < 0.8), int(r.random() < 0.7), int(r.random() < 0.5 if scheme == 3 else r.random() < 0.2))

    lines.append(vars_line())
    if r.random() < 0.5:
        lines.append(enable_line(True))

    def caller_list(full):
        """a list as a caller would pass it: usually the function's own parameters (same
        constraints) with new values"""
        names = list(range(n))
        if not full:
            r.shuffle(names)
            if r.random() < 0.6:
                names = names[: r.randint(1, n)]
        elif r.random() < 0.1 and n > 1:
            names = names[:-1]                 # setAllParametersValues with a missing name
        if r.random() < 0.05:
            names.append(7)
        out = []
        for k in names:
            if k < n:
                _, v0, pr0, con0 = own[k]
            else:
                v0, pr0, con0 = 0.0, 0.0, None
            u = r.random()
            if u < 0.7:
                con = con0
            elif u < 0.85:
                con = None
            else:
                con = "new"
            v = None
            if con is not None and con != "new":
                lo, hi, il, ih = con
                # a point of the box: anywhere, on a bound, next to a bound
                w = r.random()
                hs = (1 + abs(v0)) * cur["h"]
                cand = []
                if lo is not None and hi is not None and lo < hi:
                    if mode == "rat":
                        cand.append(lo + (hi - lo) * r.choice([0.25, 0.5, 0.75]))
                    else:
                        cand.append(r.uniform(lo, hi))
                if w < 0.5:
                    if lo is not None:
                        cand += [lo, lo + hs * r.choice([0.25, 0.5, 1, 1.5, 2, 3])]
                    if hi is not None:
                        cand += [hi, hi - hs * r.choice([0.25, 0.5, 1, 1.5, 2, 3])]
                cand.append(v0)
                r.shuffle(cand)
                for c in cand:
                    if feasible(con, c):
                        v = c
                        break
            if v is None:
                v = g.value()
                # mostly a value the wrapped function accepts (its own constraint may differ from the caller's)
                if con0 is not None and not feasible(con0, v) and r.random() < 0.85:
                    lo0, hi0, _, _ = con0
                    cand = [v0]
                    if lo0 is not None and hi0 is not None and lo0 < hi0:
                        cand.append(lo0 + (hi0 - lo0) * r.choice([0.25, 0.5, 0.75]))
                    v = r.choice(cand)
                if con == "new":
                    con = g.interval(v, abs(cur["h"]))
                elif con is not None and not feasible(con, v):
                    v = v0 if feasible(con, v0) else None
                    if v is None:
                        con = None
                        v = g.value()
            pr = pr0 if r.random() < 0.8 else g.prec()
            out.append((k, v, pr, con))
        return "%d %s" % (len(out), " ".join(par_s(*p) for p in out)), out

    nops = r.randint(2, 7)
    for _ in range(nops):
        u = r.random()
        if u < 0.62:
            o = r.choice(["set", "set", "set", "setall", "setvals", "match", "f", "setone", "df", "d2f" if r.random() < 0.6 else "d2fx"])
            if o in ("df", "d2f", "d2fx"):
                # FirstOrderDerivable::df / SecondOrderDerivable::d2f through the wrapper
                s_, _ = caller_list(False)
                a, b = r.randrange(n + (1 if r.random() < 0.05 else 0)), r.randrange(n)
                lines.append("%s %d %s" % (o, a, s_) if o != "d2fx" else "d2fx %d %d %s" % (a, b, s_))
            elif o == "setone":
                k = r.randrange(n) if r.random() < 0.95 else 7
                _, v0, pr0, con0 = own[k] if k < n else (7, 0.0, 0.0, None)
                v = g.value()
                if con0 is not None and r.random() < 0.85:
                    lo, hi, il, ih = con0
                    c = [x for x in (lo, hi) if x is not None]
                    hs = (1 + abs(v0)) * cur["h"]
                    c += [x + hs * s for x in c for s in (-1.5, -0.5, 0.5, 1.5)] + [v0]
                    c = [x for x in c if feasible(con0, x)]
                    if c:
                        v = r.choice(c)
                lines.append("setone %d %s" % (k, hx(v)))
            else:
                s, _ = caller_list(o == "setall")
                lines.append("%s %s" % (o, s))
            if r.random() < 0.5:
                what = r.choice(["d1", "d1", "d2", "dx"])
                a, b = r.randrange(n + (1 if r.random() < 0.05 else 0)), r.randrange(n)
                lines.append("get %s %d" % (what, a) if what != "dx" else "get dx %d %d" % (a, b))
        elif u < 0.80:
            what = r.choice(["d1", "d1", "d2", "dx"])
            a, b = r.randrange(n + (1 if r.random() < 0.05 else 0)), r.randrange(n)
            lines.append("get %s %d" % (what, a) if what != "dx" else "get dx %d %d" % (a, b))
        elif u < 0.86:
            lines.append(vars_line())
        elif u < 0.915:
            lines.append(enable_line(False))
        elif u < 0.94:
            # setInterval between updates (rarely a negative step: the first probe is then on the right)
            nh = g.step()
            if r.random() < 0.06:
                nh = -nh
            cur["h"] = nh
            lines.append("interval %s" % hx(nh))
        elif u < 0.965:
            # the wrapped function's own analytical-derivative switches, behind the wrapper's back
            lines.append("fnenable %d %d" % (r.randint(0, 1), r.randint(0, 1)))
        elif u < 0.98:
            lines.append(r.choice(["copy", "assign"]))
        else:
            s, _ = caller_list(False)
            lines.append("fnset %s" % s)
    return lines


def generate(seed, tier):
    rng = random.Random(seed)
    n = 80000 if tier == "thorough" else 6000
    cases = []
    for i in range(n):
        mode = "rat" if i % 2 == 0 else "float"
        cases.append(gen_case(rng, i, mode))
    return cases


def rs_flags(answer):
    """the r=abc field of an answer to a switch operation"""
    for tok in answer.split():
        if tok.startswith("r=") and len(tok) == 5:
            return tok[2:]
    return None


def coverage_extra(cases, answers):
    """distribution of what was generated / what the implementation did"""
    st = {"mode": {}, "scheme": {}, "kind": {}, "status": {}, "entry_op": {}, "other_op": {}, "enable_combination": {},
          "nvars_function": {}, "nselected": {},
          "max_degree": {}, "entry_calls": 0, "entry_calls_with_nan_derivative": 0,
          "entry_calls_with_constrained_list": 0,
          "selection_with_duplicate": 0, "selection_with_foreign_name": 0, "cross_enabled_calls": 0,
          "evaluation_points_per_entry_call": {}}
    for c, a in zip(cases, answers):
        if a is None:
            continue
        mode = c[0].split()[-1]
        st["mode"][mode] = st["mode"].get(mode, 0) + 1
        ops = [l for l in c if not l.startswith(("case", "#", "="))]
        cross = False
        for l, r in zip(ops, a):
            t = l.split()
            if t[0] == "fn":
                st["kind"][t[1]] = st["kind"].get(t[1], 0) + 1
                st["nvars_function"][t[2]] = st["nvars_function"].get(t[2], 0) + 1
                n = int(t[2])
                i = t.index("poly")
                m = int(t[i + 1])
                deg = 0
                for k in range(m):
                    e = t[i + 2 + k * (n + 1) + 1: i + 2 + (k + 1) * (n + 1)]
                    deg = max(deg, sum(int(x) for x in e))
                st["max_degree"][str(deg)] = st["max_degree"].get(str(deg), 0) + 1
            if t[0] == "wrap":
                st["scheme"][t[1]] = st["scheme"].get(t[1], 0) + 1
            if t[0] == "vars":
                vs = t[2:]
                st["nselected"][t[1]] = st["nselected"].get(t[1], 0) + 1
                if len(set(vs)) < len(vs):
                    st["selection_with_duplicate"] += 1
                if "7" in vs:
                    st["selection_with_foreign_name"] += 1
            if t[0] == "enable":
                cross = t[3] == "1"
            if t[0] in ("interval", "fnenable", "copy", "assign", "fnset", "get", "vars"):
                st["other_op"][t[0]] = st["other_op"].get(t[0], 0) + 1
            if t[0] in ("en1", "en2", "enx"):
                cross = rs_flags(r)[2] == "1" if rs_flags(r) else cross
                st["other_op"][t[0]] = st["other_op"].get(t[0], 0) + 1
            if t[0] == "enable":
                k = "".join(t[1:4])
                st["enable_combination"][k] = st["enable_combination"].get(k, 0) + 1
            if t[0] in ("set", "setall", "setvals", "match", "f", "setone", "df", "d2f", "d2fx"):
                st["entry_calls"] += 1
                st["entry_op"][t[0]] = st["entry_op"].get(t[0], 0) + 1
                s = r.split()[0] if r.split() else "?"
                st["status"][s] = st["status"].get(s, 0) + 1
                if " nan" in r.split(" E ")[0]:
                    st["entry_calls_with_nan_derivative"] += 1
                if " I " in l:
                    st["entry_calls_with_constrained_list"] += 1
                if cross:
                    st["cross_enabled_calls"] += 1
                rt = r.split()
                if "L" in rt:
                    k = rt[rt.index("L") + 1]
                    b = k if int(k) < 12 else "12+"
                    st["evaluation_points_per_entry_call"][b] = st["evaluation_points_per_entry_call"].get(b, 0) + 1
    return {"c12_distribution": st}
