"""Script generator for C10 (optimisers).  Grammar: harness/C10.cpp.

A case = one objective (random positive-definite quadratic with condition number <= 1e3, a sum of
cosh, or a quartic -- convex or a double well), one optimiser of the quantifier's list with a
constraint policy, a tolerance and an evaluation cap, the parameter list passed to init (all or a
subset of the function's parameters, with interval constraints containing the start, and -- for the
convergence clause -- the minimiser), then init followed by optimize / single steps.
The `hint` op carries what the generator knows about the objective (condition number, minimiser,
whether the minimiser is strictly inside the constraints, for quadratics a lower bound of the smallest
eigenvalue of Q after `lmin`); the harness ignores it.
Three cases in ten go on with a re-use history: the same optimiser object is initialised again, one to
three times, after any of setMaximumNumberOfEvaluations / setConstraintPolicy (keep / ignore / auto) /
clone, with the same constraints, none, other ones or a tight box, from another start.
"""
import random, struct, math


def hx(d):
    return "%016x" % struct.unpack(">Q", struct.pack(">d", float(d)))[0]


def con_s(con):
    if con is None:
        return "N"
    lo, hi, il, ih = con
    return "I %s %s %d %d" % ("*" if lo is None else hx(lo), "*" if hi is None else hx(hi), il, ih)


ONE_DIM = ["gss", "brent", "brentin", "newton1", "nback"]
MULTI = ["simple", "snewton", "powell", "simplex", "cg", "bfgs", "meta"]
# kinds whose model is run by the driver (bit-exact tie); the others are explored through the predicates only
MODELLED = set(["gss", "brent", "brentin", "nback", "newton1", "simple", "snewton", "simplex", "powell", "cg", "bfgs", "meta"])


def rand_orth(r, n):
    """random orthogonal matrix (Gram-Schmidt on gaussian columns)"""
    cols = []
    while len(cols) < n:
        v = [r.gauss(0, 1) for _ in range(n)]
        for c in cols:
            d = sum(a * b for a, b in zip(v, c))
            v = [a - d * b for a, b in zip(v, c)]
        nv = math.sqrt(sum(a * a for a in v))
        if nv < 1e-6:
            continue
        cols.append([a / nv for a in v])
    return cols


def quad(r, n, dyadic=False):
    """c + b.x + x'Qx with Q symmetric positive definite, cond <= 1e3; returns coefficients, minimiser, cond and a
    lower bound of the smallest eigenvalue of Q (the spectrum it was built from, less rounding; Gershgorin for the dyadic ones)"""
    if dyadic:
        # small integers: diagonally dominant symmetric matrix, integer minimiser
        q = [[0.0] * n for _ in range(n)]
        for i in range(n):
            for j in range(i + 1, n):
                v = r.choice([0, 0, 0.25, -0.25, 0.5, -0.5])
                q[i][j] = q[j][i] = v
        for i in range(n):
            q[i][i] = sum(abs(q[i][j]) for j in range(n) if j != i) + r.choice([0.5, 1, 2, 4])
        xs = [float(r.randint(-4, 4)) for _ in range(n)]
        kappa = 64.0
        lmin = min(q[i][i] - sum(abs(q[i][j]) for j in range(n) if j != i) for i in range(n))
    else:
        kappa = 10 ** r.uniform(0, 3)
        lam = [1.0] + [kappa ** r.random() for _ in range(n - 2)] + ([kappa] if n > 1 else [])
        # the scale of the objective: the quantifier bounds the condition number only.  Half the quadratics have
        # eigenvalues of order 1 (0.1 .. 10 times [1, kappa]), the other half anywhere in 1e-8 .. 1e8
        sc = 10 ** r.uniform(-1, 1) if r.random() < 0.5 else 10 ** r.uniform(-8, 8)
        lam = [l * sc for l in lam]
        U = rand_orth(r, n)
        q = [[sum(U[k][i] * lam[k] * U[k][j] for k in range(n)) for j in range(n)] for i in range(n)]
        q = [[(q[i][j] + q[j][i]) / 2 for j in range(n)] for i in range(n)]
        xs = [r.uniform(-5, 5) for _ in range(n)]
        lmin = min(lam) * (1 - 1e-6)
    b = [-2 * sum(q[i][j] * xs[j] for j in range(n)) for i in range(n)]
    c = r.choice([0.0, 0.0, r.uniform(-10, 10), r.uniform(1, 100)])
    coef = [c] + b + [q[i][j] for i in range(n) for j in range(n)]
    return coef, xs, kappa, lmin


def d1_at(fam_s, n, coef, x, k):
    """derivative of the objective along coordinate k (generator side, not bit-exact)"""
    if fam_s == "quad":
        return coef[1 + k] + sum((coef[1 + n + k * n + j] + coef[1 + n + j * n + k]) * x[j] for j in range(n))
    if fam_s == "cosh":
        a, w, m = coef[3 * k: 3 * k + 3]
        return a * w * math.sinh(w * (x[k] - m))
    a, e, d, m = coef[4 * k: 4 * k + 4]
    t = x[k] - m
    return 4 * a * t ** 3 + 2 * e * t + d


def gen_case(rng, idx, tier):
    r = rng
    n = r.choice([1, 1, 2, 2, 3, 3, 4, 5, 6])
    kind = r.choice(ONE_DIM + MULTI + MULTI)
    if kind in ONE_DIM and r.random() < 0.5:
        n = 1
    fam = r.choice(["quad", "quad", "quad", "quadi", "cosh", "quart", "well"])
    convex = fam != "well"
    xs, kappa, lmin = None, 0.0, None
    if fam in ("quad", "quadi"):
        coef, xs, kappa, lmin = quad(r, n, dyadic=(fam == "quadi"))
        fam_s = "quad"
    elif fam == "cosh":
        coef, xs = [], []
        for _ in range(n):
            a, w, m = r.uniform(0.2, 3), r.uniform(0.2, 1.5), r.uniform(-3, 3)
            coef += [a, w, m]; xs.append(m)
        fam_s = "cosh"
    else:
        coef, xs = [], []
        for _ in range(n):
            a, m = r.uniform(0.1, 2), r.uniform(-3, 3)
            if fam == "quart":
                e, d = r.choice([0.0, r.uniform(0, 3)]), 0.0
            else:
                e, d = -r.uniform(0.5, 4), r.uniform(-1, 1)
            coef += [a, e, d, m]; xs.append(m)
        fam_s = "quart"
        if fam == "well":
            xs = None
    # the function's own starting point
    if fam == "quadi":
        x0 = [float(r.randint(-6, 6)) for _ in range(n)]
    else:
        x0 = [r.uniform(-6, 6) for _ in range(n)]
    if r.random() < 0.05 and xs is not None:
        x0 = list(xs)                               # start at the minimiser
    if kind == "nback":
        # the optimised coordinate is the step length of a line search: it starts at 0, and mostly the
        # objective decreases from there towards 1 (mirror the coordinate otherwise)
        x0[0] = 0.0
        if d1_at(fam_s, n, coef, x0, 0) > 0 and r.random() < 0.85:
            if fam_s == "quad":
                coef[1] = -coef[1]
                for j in range(1, n):
                    coef[1 + n + j] = -coef[1 + n + j]; coef[1 + n + j * n] = -coef[1 + n + j * n]
            elif fam_s == "cosh":
                coef[2] = -coef[2]
            else:
                coef[2] = -coef[2]; coef[3] = -coef[3]
            if xs is not None:
                xs[0] = -xs[0]
    lines = ["case c%d %s %s" % (idx, kind, fam)]
    lines.append("obj %s %d %s at %s" % (fam_s, n, " ".join(hx(c) for c in coef), " ".join(hx(x) for x in x0)))
    # which parameters are optimised
    if kind == "nback":
        sel = [0]
    elif kind in ONE_DIM:
        sel = [r.randrange(n)]
    else:
        sel = list(range(n))
        if r.random() < 0.25:
            r.shuffle(sel)
        if r.random() < 0.2 and n > 1:
            sel = sel[: r.randint(1, n)]
    full = sorted(sel) == list(range(n))
    pol = r.choice(["k", "i", "a", "a"])
    tol = 10 ** -r.uniform(4, 10)
    u = r.random()
    if u < 0.70:
        mx = r.choice([2000, 5000, 10000])
    elif u < 0.9:
        mx = r.randint(3, 80)
    else:
        mx = r.choice([0, 1, 2, 3])
    # constraints
    cons, inside = {}, True
    start = {}
    for k in sel:
        v = x0[k] if (r.random() < 0.9 or kind == "nback") else x0[k] + r.uniform(-1, 1)
        start[k] = v
        if kind == "meta":
            if v != x0[k]:
                continue        # (no constraint then: it would have to contain both values)
            v = x0[k]           # the meta-optimiser starts from the function's own point, whatever the list says
        if r.random() < (0.6 if pol != "k" else 0.25):
            m = xs[k] if xs is not None else v
            w = r.random()
            if w < 0.6:       # contains start and minimiser with a margin
                lo, hi = min(v, m) - r.uniform(0.5, 4), max(v, m) + r.uniform(0.5, 4)
            elif w < 0.8:     # start on / next to a bound
                lo, hi = (v - r.choice([0, 0, 1e-9, 1e-3]), max(v, m) + r.uniform(0.5, 4)) if r.random() < 0.5 else (min(v, m) - r.uniform(0.5, 4), v + r.choice([0, 0, 1e-9, 1e-3]))
            else:             # minimiser outside (active constraint)
                if v <= m:
                    lo, hi = v - r.uniform(0.1, 3), v + abs(m - v) * r.uniform(0.1, 0.9) + 1e-3
                else:
                    lo, hi = v - abs(m - v) * r.uniform(0.1, 0.9) - 1e-3, v + r.uniform(0.1, 3)
            il, ih = int(r.random() < 0.8), int(r.random() < 0.8)
            if lo == v:
                il = 1
            if hi == v:
                ih = 1
            if r.random() < 0.15:
                if r.random() < 0.5:
                    lo = None
                else:
                    hi = None
            cons[k] = (lo, hi, il, ih)
            if xs is not None:
                if (lo is not None and not (lo + 1e-3 < xs[k])) or (hi is not None and not (xs[k] < hi - 1e-3)):
                    inside = False
    extra = ""
    if kind in ("gss", "brent", "brentin"):
        k = sel[0]
        v = start[k]
        w = r.random()
        if w < 0.5:
            lo, hi = v - r.uniform(0.01, 2), v + r.uniform(0.01, 2)
        elif w < 0.8:
            lo, hi = v, v + r.choice([-1, 1]) * r.uniform(0.01, 2)
        else:
            m = xs[k] if xs is not None else v
            lo, hi = m - r.uniform(0.5, 3), m + r.uniform(0.5, 3)
        if fam == "quadi":
            lo, hi = float(round(lo * 4)) / 4, float(round(hi * 4)) / 4
            if lo == hi:
                hi = lo + 0.5
        extra = "%s %s" % (hx(lo), hx(hi))
        if kind != "gss":
            extra += " out" if kind == "brent" else " in"
    elif kind == "nback":
        # slope: the derivative at the start (sometimes a wrong one), test: |direction| / max(|x|, 1)
        sl = d1_at(fam_s, n, coef, x0, 0)
        if r.random() < 0.1:
            sl = sl * r.uniform(0.5, 2)          # an inexact slope
        extra = "%s %s" % (hx(sl), hx(r.choice([1.0, 1.0, r.uniform(0.01, 10)])))
    elif kind == "meta":
        extra = r.choice(["full", "step"])
        if r.random() < 0.6:
            extra += " %d" % r.choice([1, 3, 4, 6])
        # which optimisers the description holds: mostly the modelled pair (coordinate-wise Brent + BFGS); else another
        # pair (the last member Powell) or ONE member for all the parameters (harness/C10.cpp)
        if r.random() < 0.3:
            if len(extra.split()) < 2:
                extra += " 2"
            extra += " " + r.choice(["sp", "bp", "p", "b", "s", "c", "p", "sp"])
    kname = "brent" if kind == "brentin" else kind
    tol_s = hx(tol) if r.random() < 0.95 else "-"
    lines.append("opt %s %s %s %d %s" % (kname, pol, tol_s, mx, extra))
    # hint: cond, inside, convex, then the minimiser (or nothing)
    if xs is not None:
        lines.append("hint %s %d %d %d %s%s" % (hx(kappa), int(inside), int(convex), int(full), " ".join(hx(x) for x in xs),
                                                 "" if lmin is None else " lmin " + hx(lmin)))
    else:
        lines.append("hint %s 0 0 %d" % (hx(0.0), int(full)))
    lines.append("init %d %s" % (len(sel), " ".join("%d %s %s" % (k, hx(start[k]), con_s(cons.get(k))) for k in sel)))
    if r.random() < 0.05:
        lines.append("clone")
    u = r.random()
    if u < 0.7:
        lines.append("optimize")
    elif u < 0.85:
        for _ in range(r.randint(1, 4)):
            lines.append("step")
            if r.random() < 0.1:
                lines.append("clone")
        lines.append("optimize")
    else:
        lines.append("optimize")
        lines.append("optimize")
    # the same optimiser OBJECT used again (state left by the earlier runs, in the optimiser and in the
    # DirectionFunction / one-dimensional optimisers it owns): another budget, another constraint policy,
    # other constraints (box <-> no box, another box, a tight one), another start, between successive inits
    if r.random() < 0.3:
        cur_pol, cur_cons, cur_start = pol, dict(cons), dict(start)
        for _ in range(r.choice([1, 1, 1, 2, 2, 3])):
            if r.random() < 0.4:
                lines.append("setmax %d" % r.choice([0, 1, 1, 2, 3, 5, 50, 2000, 2000, 5000]))
            if r.random() < 0.6:
                cur_pol = r.choice(["k", "i", "a", "a", "a"])
                lines.append("setpol %s" % cur_pol)
            if r.random() < 0.05:
                lines.append("clone")
            mode = r.choice(["same", "same", "none", "fresh", "fresh", "fresh", "tight", "tight"])
            if kind == "meta" and mode in ("fresh", "tight"):
                mode = r.choice(["same", "none", "wide"])     # (it starts from the function's own point, which the generator does not know)
            new_start, new_cons = {}, {}
            for k in sel:
                v = cur_start[k]
                if kind != "nback":
                    u = r.random()
                    v = v + r.uniform(-1, 1) if u < 0.6 else (start[k] if u < 0.8 else v)
                if fam == "quadi" and r.random() < 0.7:
                    v = float(round(v))
                if kind == "meta":
                    v = x0[k]                # (a value the constraints of the first list accept; the optimiser does not use it)
                m = xs[k] if xs is not None else v
                c = None
                if mode == "same":
                    c = cur_cons.get(k)
                    if c is not None:
                        lo, hi = c[0], c[1]
                        if not ((lo is None or lo + 1e-6 < v) and (hi is None or v < hi - 1e-6)):
                            v = cur_start[k]
                elif mode == "wide":
                    c = (min(v, m) - r.uniform(40, 60), max(v, m) + r.uniform(40, 60), 1, 1) if r.random() < 0.7 else None
                elif mode == "fresh":
                    if r.random() < 0.75:
                        w = r.random()
                        if w < 0.5:
                            lo, hi = min(v, m) - r.uniform(0.5, 4), max(v, m) + r.uniform(0.5, 4)
                        elif w < 0.7:
                            lo, hi = (v - r.choice([0, 0, 1e-9, 1e-3]), max(v, m) + r.uniform(0.5, 4)) if r.random() < 0.5 else (min(v, m) - r.uniform(0.5, 4), v + r.choice([0, 0, 1e-9, 1e-3]))
                        else:
                            if v <= m:
                                lo, hi = v - r.uniform(0.1, 3), v + abs(m - v) * r.uniform(0.1, 0.9) + 1e-3
                            else:
                                lo, hi = v - abs(m - v) * r.uniform(0.1, 0.9) - 1e-3, v + r.uniform(0.1, 3)
                        c = (lo, hi, int(r.random() < 0.8), int(r.random() < 0.8))
                elif mode == "tight":
                    # a bound within reach of the outward bracketing of a line search from the start (it goes up to
                    # ~1.6 .. 2.6 times the distance to the line minimum), on either side of the minimiser
                    d = abs(m - v) + r.choice([0.0, 0.05, 0.3])
                    f1, f2 = r.uniform(0.3, 1.6), r.uniform(0.02, 0.6)
                    lo, hi = (v - f2 * d - 1e-3, v + f1 * d + 1e-3) if v <= m else (v - f1 * d - 1e-3, v + f2 * d + 1e-3)
                    c = (lo, hi, int(r.random() < 0.8), int(r.random() < 0.8))
                if c is not None and mode != "same":
                    lo, hi, il, ih = c
                    if lo == v:
                        il = 1
                    if hi == v:
                        ih = 1
                    if r.random() < 0.1:
                        if r.random() < 0.5:
                            lo = None
                        else:
                            hi = None
                    c = (lo, hi, il, ih)
                new_start[k] = v
                if c is not None:
                    new_cons[k] = c
            cur_cons, cur_start = new_cons, new_start
            lines.append("init %d %s" % (len(sel), " ".join("%d %s %s" % (k, hx(cur_start[k]), con_s(cur_cons.get(k))) for k in sel)))
            u = r.random()
            if u < 0.75:
                lines.append("optimize")
            elif u < 0.9:
                for _ in range(r.randint(1, 3)):
                    lines.append("step")
                lines.append("optimize")
            else:
                lines.append("optimize")
                lines.append("optimize")
    return lines


def gen_bracket(rng, idx):
    r = rng
    n = r.choice([1, 1, 2, 3])
    fam = r.choice(["quad", "cosh", "quart", "well"])
    if fam == "quad":
        coef, xs, _, _ = quad(r, n)
        fam_s = "quad"
    elif fam == "cosh":
        coef = []
        for _ in range(n):
            coef += [r.uniform(0.2, 3), r.uniform(0.2, 1.5), r.uniform(-3, 3)]
        fam_s = "cosh"
    else:
        coef = []
        for _ in range(n):
            coef += [r.uniform(0.1, 2), (r.uniform(0, 3) if fam == "quart" else -r.uniform(0.5, 4)), (0.0 if fam == "quart" else r.uniform(-1, 1)), r.uniform(-3, 3)]
        fam_s = "quart"
    x0 = [r.uniform(-6, 6) for _ in range(n)]
    k = r.randrange(n)
    a = r.uniform(-6, 6)
    b = a + r.choice([-1, 1]) * r.uniform(0.01, 3)
    mode = r.choice(["out", "in"])
    con = None
    auto = 0
    if r.random() < 0.4:
        lo, hi = min(a, b, x0[k]) - r.uniform(0, 2), max(a, b, x0[k]) + r.uniform(0, 2)
        con = (lo, hi, 1, 1)
        auto = int(r.random() < 0.8)
    lines = ["case b%d bracket %s" % (idx, fam)]
    lines.append("obj %s %d %s at %s" % (fam_s, n, " ".join(hx(c) for c in coef), " ".join(hx(x) for x in x0)))
    lines.append("bracket %s %s %s %d %d %s %s %d" % (mode, hx(a), hx(b), r.choice([1, 2, 5, 10, 10, 17]), k, hx(x0[k]), con_s(con), auto))
    return lines


def generate(seed, tier):
    rng = random.Random(seed)
    n = 30000 if tier == "thorough" else 4000
    cases = []
    for i in range(n):
        if i % 8 == 7:
            cases.append(gen_bracket(rng, i))
        else:
            cases.append(gen_case(rng, i, tier))
    return cases


def compare(op_line, impl, model):
    """answers of optimisers the driver has no model of are `-`: nothing to compare; what follows `#`
    in the implementation's answer comes from the harness' step listener (used by the predicates only)"""
    if model.strip() == "-":
        return True
    return " ".join(impl.split("#")[0].split()) == " ".join(model.split())


def coverage_extra(cases, answers, model=None):
    st = {"kind": {}, "family": {}, "policy": {}, "dimension": {}, "status": {}, "tolerance_reached": {"0": 0, "1": 0},
          "evaluations_per_optimize": {}, "constrained_inits": 0}
    # the convergence clause (explored only): how many `optimize` calls were judged, and for how many of them the
    # bound is below the objective gap at the start (`nontrivial`) / is implied by descent alone, by kind and dimension
    conv = {"judged": 0, "nontrivial": 0, "implied_by_descent": 0, "by_kind": {}, "by_dimension": {}, "failed_by_clause": {}}
    for c, m in zip(cases, model or []):
        h = c[0].split()
        kind = h[2] if len(h) > 3 else "?"
        dim = next((l.split()[2] for l in c if l.startswith("obj ")), "?")
        for (_, v) in m:
            if v == "ok:conv:not_judged":
                conv["not_judged"] = conv.get("not_judged", 0) + 1     # an `optimize` outside the guards of the clause
            elif v.startswith("ok:conv:"):
                w = v[len("ok:conv:"):]
                conv["judged"] += 1
                conv[w] = conv.get(w, 0) + 1
                for key, d in ((kind, conv["by_kind"]), (dim, conv["by_dimension"])):
                    e = d.setdefault(key, {"nontrivial": 0, "implied_by_descent": 0})
                    e[w] = e.get(w, 0) + 1
            elif v.startswith("FAIL:convergence"):
                conv["judged"] += 1
                conv["failed_by_clause"][v[5:]] = conv["failed_by_clause"].get(v[5:], 0) + 1
    st["convergence_clause"] = conv
    for c, a in zip(cases, answers):
        if a is None:
            continue
        h = c[0].split()
        kind, fam = (h[2], h[3]) if len(h) > 3 else ("?", "?")
        st["kind"][kind] = st["kind"].get(kind, 0) + 1
        st["family"][fam] = st["family"].get(fam, 0) + 1
        ops = [l for l in c if not l.startswith(("case", "#", "="))]
        for l, r in zip(ops, a):
            t = l.split()
            if t[0] == "obj":
                st["dimension"][t[2]] = st["dimension"].get(t[2], 0) + 1
            if t[0] == "opt":
                st["policy"][t[2]] = st["policy"].get(t[2], 0) + 1
            if t[0] == "init" and " I " in l:
                st["constrained_inits"] += 1
            if t[0] in ("optimize", "step", "init", "bracket"):
                rt = r.split()
                s = rt[0] if rt else "?"
                st["status"][t[0] + ":" + s] = st["status"].get(t[0] + ":" + s, 0) + 1
                if t[0] == "optimize":
                    for x in rt:
                        if x.startswith("t="):
                            st["tolerance_reached"][x[2:]] = st["tolerance_reached"].get(x[2:], 0) + 1
                    if "L" in rt:
                        k = int(rt[rt.index("L") + 1])
                        b = "0" if k == 0 else "1-9" if k < 10 else "10-99" if k < 100 else "100-999" if k < 1000 else "1000+"
                        st["evaluations_per_optimize"][b] = st["evaluations_per_optimize"].get(b, 0) + 1
    return {"c10_distribution": st}
