"""Script generator for C09 (discretised distributions).

Each case builds one distribution (gamma with/without offset, beta with the three schemes,
gaussian, exponential, truncated exponential, uniform; constant, user-specified, invariant-mixed,
mixture) and drives a history of parameter updates (mostly accepted, some outside the
constraints), class-count changes (1..32), median toggles, restrictions to sub-intervals (mostly
meeting the domain; some disjoint, one-point or end-excluding), re-discretisations and copies,
interleaved with look-ups (random values, exactly on every bound, at class values, outside the
domain), cumulative class queries and exploration ops on the parent (`x.H`).
Shapes / rates / locations are log-uniform over three orders of magnitude, shapes >= 0.1.
"""
import random, struct, math, sys


def hx(x):
    return "%016x" % struct.unpack("<Q", struct.pack("<d", float(x)))[0]


def unhx(s):
    return struct.unpack("<d", struct.pack("<Q", int(s, 16)))[0]


def hs(s):
    return s.encode().hex() if s else "-"


def logu(rng, lo, hi):
    return math.exp(rng.uniform(math.log(lo), math.log(hi)))


def nice(rng, x):
    """sometimes round to few digits (dyadic-friendly / typical user values)"""
    r = rng.random()
    if r < 0.3:
        return float("%.2g" % x)
    if r < 0.4:
        return float(round(x * 4) / 4) if x > 0.25 else x
    return x


def pick_n(rng):
    r = rng.random()
    if r < 0.15:
        return 1
    if r < 0.3:
        return 2
    if r < 0.8:
        return rng.randint(3, 10)
    return rng.randint(11, 32)


class Fam:
    """generator-side description of a continuous family: creation line, parameter names with
    samplers, a typical scale of the support (for look-up values and restrictions)"""

    def __init__(self, rng):
        self.rng = rng
        self.kind = rng.choice(["gamma", "gamma", "gammaoff", "beta", "beta", "gauss", "exp", "texp", "unif"])
        r = rng
        k = self.kind
        self.n = pick_n(r)
        if k in ("gamma", "gammaoff"):
            self.a = nice(r, logu(r, 0.1, 100)); self.b = nice(r, logu(r, 0.1, 100))
            self.off = 0.0 if k == "gamma" else nice(r, r.choice([-1, 1]) * logu(r, 0.01, 10))
        elif k == "beta":
            self.a = nice(r, logu(r, 0.1, 100)); self.b = nice(r, logu(r, 0.1, 100)); self.scheme = r.choice([1, 1, 2, 3, 3])
        elif k == "gauss":
            self.a = nice(r, r.choice([-1, 1, 1, 0]) * logu(r, 0.01, 10)); self.b = nice(r, logu(r, 0.01, 10))
        elif k == "exp":
            self.a = nice(r, logu(r, 0.01, 10))
        elif k == "texp":
            self.a = nice(r, logu(r, 0.01, 10)); self.b = nice(r, logu(r, 0.1, 100))
        else:
            lo = nice(r, r.choice([-1, 1, 0]) * logu(r, 0.01, 10)); self.a = lo; self.b = lo + nice(r, logu(r, 0.01, 10))

    def new(self):
        k = self.kind
        if k in ("gamma", "gammaoff"):
            return "new gamma %d %s %s %d %s" % (self.n, hx(self.a), hx(self.b), 1 if k == "gammaoff" else 0, hx(self.off))
        if k == "beta":
            return "new beta %d %s %s %d" % (self.n, hx(self.a), hx(self.b), self.scheme)
        if k == "gauss":
            return "new gauss %d %s %s" % (self.n, hx(self.a), hx(self.b))
        if k == "exp":
            return "new exp %d %s" % (self.n, hx(self.a))
        if k == "texp":
            return "new texp %d %s %s" % (self.n, hx(self.a), hx(self.b))
        return "new unif %d %s %s" % (self.n, hx(self.a), hx(self.b))

    def support(self):
        """(typical low, typical high) of the bulk of the parent"""
        k = self.kind
        if k in ("gamma", "gammaoff"):
            m = self.a / self.b; sd = math.sqrt(self.a) / self.b
            return (self.off + max(0.0, m - 2 * sd), self.off + m + 3 * sd)
        if k == "beta":
            return (0.0, 1.0)
        if k == "gauss":
            return (self.a - 3 * self.b, self.a + 3 * self.b)
        if k == "exp":
            return (0.0, 4 / self.a)
        if k == "texp":
            return (0.0, min(self.b, 4 / self.a))
        return (self.a, self.b)

    def value(self):
        lo, hi = self.support()
        r = self.rng.random()
        if r < 0.75:
            return self.rng.uniform(lo, hi)
        if r < 0.85:
            return hi + (hi - lo) * logu(self.rng, 0.01, 100)
        if r < 0.95:
            return lo - (hi - lo) * logu(self.rng, 0.001, 10)
        return self.rng.choice([0.0, 1.0, lo, hi, -1.0, 1e-13, 1e30, -1e30])

    def setp(self, prefix=""):
        """a parameter update; ~12% outside the constraint, ~5% unknown name"""
        r = self.rng
        k = self.kind
        bad = r.random() < 0.12
        if r.random() < 0.05:
            return "setp %s %s" % (hs(prefix + r.choice(["gamma", "alpha2", "x", "offset", "tp"])), hx(1.0))
        if k in ("gamma", "gammaoff"):
            c = r.choice(["alpha", "beta"] + (["offset"] if k == "gammaoff" else []))
            if c == "offset":
                v = nice(r, r.choice([-1, 1]) * logu(r, 0.01, 10)); self.off = v
            else:
                v = r.choice([0.01, 0.0, -1.0, 0.049]) if bad else nice(r, logu(r, 0.1, 100))
                if not bad:
                    setattr(self, "a" if c == "alpha" else "b", v)
            return "setp %s %s" % (hs(prefix + c), hx(v))
        if k == "beta":
            c = r.choice(["alpha", "beta"])
            v = r.choice([0.0, -1.0, 0.00009]) if bad else nice(r, logu(r, 0.1, 100))
            if not bad:
                setattr(self, "a" if c == "alpha" else "b", v)
            return "setp %s %s" % (hs(prefix + c), hx(v))
        if k == "gauss":
            c = r.choice(["mu", "sigma"])
            if c == "mu":
                v = nice(r, r.choice([-1, 1, 0]) * logu(r, 0.01, 10)); self.a = v
            else:
                v = r.choice([0.0, -1.0]) if bad else nice(r, logu(r, 0.01, 10))
                if not bad:
                    self.b = v
            return "setp %s %s" % (hs(prefix + c), hx(v))
        # rate / truncation point 0: accepted by the documented constraint [0, inf[ (outside the regular range of the
        # property: only the tie and the parent-independent clauses are exercised), 2% of the updates
        zero = r.random() < 0.02
        if k == "exp":
            v = r.choice([-0.5, -1e-9]) if bad else (0.0 if zero else nice(r, logu(r, 0.01, 10)))
            if not bad and not zero:
                self.a = v
            return "setp %s %s" % (hs(prefix + "lambda"), hx(v))
        if k == "texp":
            c = r.choice(["lambda", "tp"])
            v = r.choice([-0.5, -1e-9]) if bad else (0.0 if zero else nice(r, logu(r, 0.01, 10) if c == "lambda" else logu(r, 0.1, 100)))
            if not bad and not zero:
                setattr(self, "a" if c == "lambda" else "b", v)
            return "setp %s %s" % (hs(prefix + c), hx(v))
        return "setp %s %s" % (hs(prefix + "min"), hx(0.5))

    def restrict(self):
        """a sub-interval of the bulk (75%), an end-excluding / half-line / wide one, a one-point or a
        disjoint one"""
        r = self.rng
        lo, hi = self.support()
        w = hi - lo
        q = r.random()
        il, iu = r.choice([0, 1]), r.choice([0, 1])
        if q < 0.6:
            a = lo + w * r.uniform(0.0, 0.6); b = a + w * r.uniform(0.05, 0.9)
        elif q < 0.7:
            a, b = lo - w, lo + w * r.uniform(0.3, 1.5)
        elif q < 0.8:
            a, b = lo + w * r.uniform(0.0, 0.5), math.inf
        elif q < 0.85:
            a, b = -math.inf, hi
        elif q < 0.9:
            a = lo + w * r.uniform(0.1, 0.9); b = a; il = iu = 1
        elif q < 0.95:
            a = hi + 1000 * w + 1e6; b = a + w
        else:
            a = lo + w * r.uniform(0.1, 0.9); b = a + w * 1e-13
        self.narrow = True
        return "restrict %s %s %d %d" % (hx(nice(r, a) if math.isfinite(a) else a), hx(nice(r, b) if math.isfinite(b) else b), il, iu)


def queries(rng, fam, n_hint, k):
    ops = []
    for _ in range(k):
        q = rng.random()
        if q < 0.3:
            ops.append("look " + hx(fam.value()))
        elif q < 0.5:
            ops.append("lookb %d" % rng.randint(0, n_hint + 1))
        elif q < 0.65:
            ops.append("lookc %d" % rng.randint(0, n_hint))
        elif q < 0.85:
            ops.append("cumi %d" % rng.randint(0, n_hint))
        elif q < 0.9:
            ops.append(rng.choice(["cinf", "ciinf", "csup", "cssup"]) + " " + hx(fam.value()))
        elif q < 0.95:
            ops.append(rng.choice(["n", "cats", "probs", "bounds", "lu"]))
        else:
            ops.append("%s %d" % (rng.choice(["bound", "cat", "prob"]), rng.randint(0, n_hint + 1)))
    return ops


def family_case(rng, idx, nops):
    f = Fam(rng)
    ops = ["case fam%d %s" % (idx, f.kind), f.new()]
    ops += queries(rng, f, f.n, rng.randint(1, 4))
    for _ in range(nops):
        q = rng.random()
        if q < 0.3:
            ops.append(f.setp())
        elif q < 0.5:
            f.n = pick_n(rng); ops.append("setn %d" % f.n)
        elif q < 0.62:
            ops.append("median %d" % rng.choice([0, 1]))
        elif q < 0.85:
            ops.append(f.restrict())
        elif q < 0.92:
            ops.append("discretize")
        elif q < 0.96:
            ops.append(rng.choice(["copy", "copy", "fork", "forkassign", "swap", "selfassign"]))
        else:
            g = Fam(rng)
            if rng.random() < 0.5:
                f = g
                ops.append(f.new())
            else:
                # a constructor call that must be refused
                ops.append(rng.choice(["new gamma 3 %s %s 0 %s" % (hx(0.01), hx(1.0), hx(0.0)),
                                       "new gauss 3 %s %s" % (hx(0.0), hx(0.0)),
                                       "new beta 3 %s %s 1" % (hx(1.0), hx(0.00001)),
                                       "new exp 3 %s" % hx(-1.0)]))
        ops += queries(rng, f, f.n, rng.randint(0, 3))
    return ops


PREFIX = {"gamma": "Gamma.", "gammaoff": "Gamma.", "beta": "Beta.", "gauss": "Gaussian.", "exp": "Exponential.",
          "texp": "TruncExponential.", "unif": "Uniform."}


class SimpleD:
    """user-specified distribution: distinct values (sometimes closer than the precision, refused),
    dyadic probabilities summing to one (sometimes not, refused)"""

    def __init__(self, rng):
        self.rng = rng
        self.kind = "simple"
        self.k = rng.randint(1, 6)
        base = nice(rng, rng.choice([-1, 0, 1]) * logu(rng, 0.01, 10))
        self.vals = sorted(set(round(base + i * nice(rng, logu(rng, 0.05, 3)), 6) for i in range(self.k)))
        self.k = len(self.vals)
        rng.shuffle(self.vals)
        w = [rng.randint(1, 8) for _ in range(self.k)]
        tot = sum(w)
        # probabilities as multiples of 1/64 summing to exactly one
        q = [max(1, (x * 64) // tot) for x in w]
        q[0] += 64 - sum(q)
        if q[0] < 1:
            q = [1] * self.k; q[0] = 64 - (self.k - 1)
        self.probs = [x / 64.0 for x in q]
        self.n = self.k

    def new(self):
        vals, probs = list(self.vals), list(self.probs)
        r = self.rng.random()
        if r < 0.06 and self.k >= 2:
            vals[1] = vals[0] + 1e-13          # equivalent to the first one: refused
        elif r < 0.12:
            probs[0] += 0.125                  # does not sum to one: refused
        elif r < 0.17:
            probs[0] += 5e-13                  # within the precision of 1: accepted, stored as given (normalised up to the precision)
        # precision of the map: the default 1e-12, sometimes 0 (exact comparison) or coarse
        prec = 1e-12 if self.rng.random() < 0.8 else self.rng.choice([0.0, 0.0, 1e-3])
        return "new simple %s 0 %d %s" % (hx(prec), self.k, " ".join(hx(v) + " " + hx(p) for v, p in zip(vals, probs)))

    def support(self):
        return (min(self.vals) - 0.5, max(self.vals) + 0.5)

    def value(self):
        lo, hi = self.support()
        return self.rng.choice(self.vals + [self.rng.uniform(lo, hi), self.rng.uniform(lo - 3, hi + 3)])

    def setp(self, prefix=""):
        r = self.rng
        q = r.random()
        if q < 0.5:
            i = r.randint(1, self.k + (1 if r.random() < 0.1 else 0))
            v = r.choice(self.vals) if r.random() < 0.3 else nice(r, r.uniform(*self.support()))
            if i <= self.k:
                self.vals[i - 1] = v
            return "setp %s %s" % (hs(prefix + "V%d" % i), hx(v))
        if q < 0.95:
            i = r.randint(1, max(1, self.k - 1) + (1 if r.random() < 0.1 else 0))
            v = r.choice([-0.1, 1.5]) if r.random() < 0.12 else r.choice([0.0, 1.0, 0.5, 0.25, r.random()])
            return "setp %s %s" % (hs(prefix + "theta%d" % i), hx(v))
        return "setp %s %s" % (hs(prefix + "W1"), hx(1.0))

    def restrict(self):
        r = self.rng
        lo, hi = self.support()
        q = r.random()
        if q < 0.6:
            a, b = lo - r.random(), hi + r.random()
        elif q < 0.8:
            a, b = lo + (hi - lo) * r.uniform(0.2, 0.5), hi + 1
        else:
            a, b = hi + 5, hi + 6
        return "restrict %s %s %d %d" % (hx(a), hx(b), r.choice([0, 1]), r.choice([0, 1]))


class ConstD:
    def __init__(self, rng):
        self.rng = rng
        self.kind = "const"
        self.v = nice(rng, rng.choice([-1, 0, 1, 1]) * logu(rng, 0.01, 10))
        self.n = 1

    def new(self):
        return "new const " + hx(self.v)

    def support(self):
        return (self.v - 1, self.v + 1)

    def value(self):
        return self.rng.choice([self.v, self.v + self.rng.uniform(-2, 2)])

    def setp(self, prefix=""):
        r = self.rng
        if r.random() < 0.1:
            return "setp %s %s" % (hs(prefix + "val"), hx(1.0))
        v = self.v + r.uniform(-1.5, 1.5)
        return "setp %s %s" % (hs(prefix + "value"), hx(nice(r, v)))

    def restrict(self):
        r = self.rng
        q = r.random()
        if q < 0.7:
            a, b = self.v - r.uniform(0.1, 2), self.v + r.uniform(0.1, 2)
        else:
            a, b = self.v + 1, self.v + 2
        return "restrict %s %s %d %d" % (hx(a), hx(b), r.choice([0, 1]), r.choice([0, 1]))


PREFIX.update({"simple": "Simple.", "const": "Constant."})


def leaf(rng, allow=("fam", "simple", "const")):
    k = rng.choice(allow)
    if k == "fam":
        return Fam(rng)
    return SimpleD(rng) if k == "simple" else ConstD(rng)


def leaf_case(rng, idx, nops):
    d = leaf(rng, ("simple", "const"))
    ops = ["case leaf%d %s" % (idx, d.kind), d.new()]
    ops += queries(rng, d, d.n, rng.randint(1, 4))
    for _ in range(nops):
        q = rng.random()
        if q < 0.45:
            ops.append(d.setp())
        elif q < 0.55:
            ops.append("setn %d" % pick_n(rng))
        elif q < 0.65:
            ops.append("median %d" % rng.choice([0, 1]))
        elif q < 0.85:
            ops.append(d.restrict())
        elif q < 0.93:
            ops.append("discretize")
        else:
            ops.append(rng.choice(["copy", "fork", "forkassign", "swap"]))
        ops += queries(rng, d, d.n, rng.randint(0, 3))
    return ops


def compound_case(rng, idx, nops):
    """an invariant-mixed or a mixture distribution over leaves, then a history on the compound"""
    ops = []
    if rng.random() < 0.5:
        d = leaf(rng, ("fam", "fam", "fam", "simple", "const"))
        ops += ["case invar%d %s" % (idx, d.kind), d.new()]
        p = rng.choice([0.0, 0.25, 0.1, 0.5, 1.0, rng.random(), 1.5 if rng.random() < 0.3 else 0.3])
        lo, hi = d.support()
        inv = rng.choice([0.0, 0.0, lo, hi + 1, nice(rng, rng.uniform(lo, hi)), lo - 1])
        ops.append("new invar %s %s" % (hx(p), hx(inv)))
        comps = [("", d)]
        own = ["p"]
        kind = "invar"
    else:
        k = rng.randint(1, 3)
        ds = [leaf(rng, ("fam", "fam", "simple", "const")) for _ in range(k)]
        ops.append("case mix%d %s" % (idx, "+".join(x.kind for x in ds)))
        for x in ds:
            ops += [x.new(), "push"]
        w = [rng.randint(1, 8) for _ in range(k)]
        q = [max(1, (x * 32) // sum(w)) for x in w]
        q[0] += 32 - sum(q)
        ws = [x / 32.0 for x in q]
        if rng.random() < 0.1:
            ws[0] += 0.25
        ops.append("new mix %d %s" % (k, " ".join(hx(x) for x in ws)))
        comps = [("%d_" % (i + 1), x) for i, x in enumerate(ds)]
        own = ["theta%d" % (i + 1) for i in range(max(1, k - 1))]
        kind = "mix"
        d = ds[0]
    nh = 8
    ops += queries(rng, d, nh, rng.randint(1, 4))
    for _ in range(nops):
        q = rng.random()
        if q < 0.2:
            nm = rng.choice(own + (["theta9", "q"] if rng.random() < 0.1 else []))
            v = rng.choice([-0.2, 1.2]) if rng.random() < 0.12 else rng.choice([0.0, 1.0, 0.5, 0.125, rng.random()])
            ops.append("setp %s %s" % (hs(nm), hx(v)))
        elif q < 0.45:
            pre, c = rng.choice(comps)
            ops.append(c.setp(pre + PREFIX[c.kind]))
        elif q < 0.6:
            ops.append("setn %d" % pick_n(rng))
        elif q < 0.7:
            ops.append("median %d" % rng.choice([0, 1]))
        elif q < 0.85:
            ops.append(rng.choice(comps)[1].restrict())
        elif q < 0.93:
            ops.append("discretize")
        else:
            ops.append(rng.choice(["copy", "fork", "forkassign", "swap"]))
        ops += queries(rng, d, nh, rng.randint(0, 3))
    return ops


class TexpD(Fam):
    """a truncated exponential (the family whose `tp` gets tied to the domain)"""

    def __init__(self, rng):
        Fam.__init__(self, rng)
        self.kind = "texp"
        self.n = pick_n(rng)
        self.a = nice(rng, logu(rng, 0.01, 10)); self.b = nice(rng, logu(rng, 0.1, 100))


def tie_leaf(rng):
    """a leaf of one of the three classes that tie a parameter to their domain (mostly), or any family"""
    k = rng.random()
    if k < 0.4:
        return TexpD(rng)
    if k < 0.6:
        return ConstD(rng)
    if k < 0.8:
        return SimpleD(rng)
    return Fam(rng)


def accepting_restrict(rng, d):
    """a restriction that the object accepts most of the time: an interval around its tied values"""
    if d.kind == "texp":
        lo = 0.0 if rng.random() < 0.7 else -1.0
        hi = d.b * rng.choice([1.0, 1.5, 2.0, 10.0])
        return "restrict %s %s %d %d" % (hx(lo), hx(hi), rng.choice([0, 1]), 1)
    if d.kind == "const":
        return "restrict %s %s 1 1" % (hx(d.v - rng.choice([0.5, 1, 3])), hx(d.v + rng.choice([0.5, 1, 3])))
    if d.kind == "simple":
        return "restrict %s %s 1 1" % (hx(min(d.vals) - rng.choice([0.25, 1, 4])), hx(max(d.vals) + rng.choice([0.25, 1, 4])))
    return d.restrict()


def tied_update(rng, d, prefix=""):
    """an update of the parameter that a restriction ties to the domain (values inside and outside the
    restricted domain), or any other update"""
    r = rng.random()
    if d.kind == "texp" and r < 0.7:
        v = nice(rng, d.b * rng.choice([0.25, 0.5, 0.9, 1.0, 1.2, 3.0]))
        if rng.random() < 0.7:
            d.b = v
        return "setp %s %s" % (hs(prefix + "tp"), hx(v))
    if d.kind == "const" and r < 0.8:
        v = nice(rng, d.v + rng.choice([-2, -0.75, -0.25, 0.25, 0.75, 2]))
        return "setp %s %s" % (hs(prefix + "value"), hx(v))
    if d.kind == "simple" and r < 0.6:
        i = rng.randint(1, d.k)
        v = nice(rng, rng.uniform(min(d.vals) - 1.5, max(d.vals) + 1.5))
        return "setp %s %s" % (hs(prefix + "V%d" % i), hx(v))
    return d.setp(prefix)


def shared_case(rng, idx, nops):
    """copies and what they share with their source: a leaf (mostly of a class that ties a parameter
    to its domain), often restricted first, is copied (`fork` = clone(), `forkassign` = operator=,
    `copy` = the clone replaces the original); then updates of the source and of the copy (`swap`
    exchanges the roles) — of the tied parameter, restrictions, class counts; further copies of copies.
    With probability 1/2 the leaf is wrapped into an invariant-mixed distribution or a mixture
    (before or after its first restriction) and the history runs on the compound."""
    d = tie_leaf(rng)
    ops = ["case shared%d %s" % (idx, d.kind), d.new()]
    pre = ""
    if rng.random() < 0.6:
        ops.append(accepting_restrict(rng, d))
    wrap = rng.random()
    if wrap < 0.25:
        lo, hi = d.support()
        ops.append("new invar %s %s" % (hx(rng.choice([0.0, 0.25, 0.5])), hx(rng.choice([0.0, lo - 1, hi + 1]))))
        pre = PREFIX[d.kind]
        ops[0] += "+invar"
    elif wrap < 0.5:
        e = leaf(rng, ("fam", "const", "simple"))
        ops.append("push")
        ops += [e.new(), "push"]
        ops.append("new mix 2 %s %s" % (hx(0.25), hx(0.75)))
        pre = "1_" + PREFIX[d.kind]
        ops[0] += "+mix"
    ops.append(rng.choice(["fork", "fork", "forkassign"]))
    for _ in range(nops):
        q = rng.random()
        if q < 0.45:
            ops.append(tied_update(rng, d, pre))
        elif q < 0.6:
            ops.append(accepting_restrict(rng, d) if rng.random() < 0.7 else d.restrict())
        elif q < 0.75:
            ops.append("swap")
        elif q < 0.82:
            ops.append(rng.choice(["fork", "forkassign", "copy", "selfassign"]))
        elif q < 0.9:
            ops.append("setn %d" % pick_n(rng))
        elif q < 0.95:
            ops.append("median %d" % rng.choice([0, 1]))
        else:
            ops.append("discretize")
        if rng.random() < 0.3:
            ops += queries(rng, d, d.n, 1)
    return ops


def generate(seed, tier):
    rng = random.Random(seed)
    big = tier == "thorough"
    cases = []
    for i in range(40000 if big else 6000):
        cases.append(family_case(rng, i, rng.randint(2, 14)))
    for i in range(8000 if big else 1200):
        cases.append(leaf_case(rng, i, rng.randint(2, 10)))
    for i in range(16000 if big else 2500):
        cases.append(compound_case(rng, i, rng.randint(2, 10)))
    for i in range(12000 if big else 2000):
        cases.append(shared_case(rng, i, rng.randint(3, 12)))
    return cases


def coverage_extra(cases, answers):
    """distribution of the generated histories (evidence only)"""
    fam, ncls, hist_len, refused, states = {}, {}, {}, 0, 0
    for c, a in zip(cases, answers):
        t = c[0].split()
        fam[t[2] if len(t) > 2 else "?"] = fam.get(t[2] if len(t) > 2 else "?", 0) + 1
        ops = [l for l in c if not l.startswith("case")]
        k = sum(1 for l in ops if l.split()[0] in ("setp", "setn", "median", "restrict", "discretize", "copy", "fork", "forkassign", "swap", "selfassign"))
        b = "%d-%d" % (k // 4 * 4, k // 4 * 4 + 3)
        hist_len[b] = hist_len.get(b, 0) + 1
        for l, r in zip(ops, a or []):
            if r.startswith("exc:"):
                refused += 1
            m = r.split()
            if "st" in m[:2]:
                states += 1
                try:
                    n = int(m[m.index("st") + 1]); nb = "1" if n == 1 else "2" if n == 2 else "3-10" if n <= 10 else "11-32" if n <= 32 else ">32"
                    ncls[nb] = ncls.get(nb, 0) + 1
                except (ValueError, IndexError):
                    pass
    top = dict(sorted(fam.items(), key=lambda kv: -kv[1])[:14])
    return {"families_of_cases": top, "class_count_of_dumped_states": ncls, "history_length_histogram": hist_len,
            "state_dumps_judged": states, "operations_refused": refused,
            "search_note": "clauses named search_* are numeric exploration of the parent (gamma/beta/gaussian kernels abstract in the "
                           "model) on the points lower::bounds++[upper] with tolerances; they support, and are not part of, obligations/discharged"}


def compare(op_line, impl, model):
    return " ".join(impl.split()) == " ".join(model.split())


if __name__ == "__main__":
    cs = generate(int(sys.argv[1]) if len(sys.argv) > 1 else 1, sys.argv[2] if len(sys.argv) > 2 else "quick")
    hist = {}
    for c in cs:
        for l in c[1:]:
            hist[l.split()[0]] = hist.get(l.split()[0], 0) + 1
    print(len(cs), "cases", sum(hist.values()), "ops")
    for k in sorted(hist):
        print("  %-12s %d" % (k, hist[k]))
    if len(sys.argv) > 3:
        for c in cs[: int(sys.argv[3])]:
            print("\n".join(c))
