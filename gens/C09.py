"""Script generator for C09 (discretised distributions).

Each case builds one distribution (gamma with/without offset, beta with the three schemes,
gaussian, exponential, truncated exponential, uniform; constant, user-specified, invariant-mixed,
mixture) and drives a history of parameter updates (mostly accepted, some outside the
constraints), class-count changes (1..32), median toggles, restrictions to sub-intervals (mostly
meeting the domain; some disjoint, one-point or end-excluding), re-discretisations and copies,
interleaved with look-ups (random values, exactly on every bound, at class values, outside the
domain), cumulative class queries and exploration ops on the parent (`x.H`).
Shapes / rates / locations are log-uniform over three orders of magnitude, shapes >= 0.1.
"""
import random, struct, math, sys


def hx(x):
    return "%016x" % struct.unpack("<Q", struct.pack("<d", float(x)))[0]


def unhx(s):
    return struct.unpack("<d", struct.pack("<Q", int(s, 16)))[0]


def hs(s):
    return s.encode().hex() if s else "-"


def logu(rng, lo, hi):
    return math.exp(rng.uniform(math.log(lo), math.log(hi)))


def nice(rng, x):
    """sometimes round to few digits (dyadic-friendly / typical user values)"""
    r = rng.random()
    if r < 0.3:
        return float("%.2g" % x)
    if r < 0.4:
        return float(round(x * 4) / 4) if x > 0.25 else x
    return x


def pick_n(rng):
    r = rng.random()
    if r < 0.15:
        return 1
    if r < 0.3:
        return 2
    if r < 0.8:
        return rng.randint(3, 10)
    return rng.randint(11, 32)


class Fam:
    """generator-side description of a continuous family: creation line, parameter names with
    samplers, a typical scale of the support (for look-up values and restrictions)"""

    def __init__(self, rng):
        self.rng = rng
        self.kind = rng.choice(["gamma", "gamma", "gammaoff", "beta", "beta", "gauss", "exp", "texp", "unif"])
        r = rng
        k = self.kind
        self.n = pick_n(r)
        if k in ("gamma", "gammaoff"):
            self.a = nice(r, logu(r, 0.1, 100)); self.b = nice(r, logu(r, 0.1, 100))
            self.off = 0.0 if k == "gamma" else nice(r, r.choice([-1, 1]) * logu(r, 0.01, 10))
        elif k == "beta":
            self.a = nice(r, logu(r, 0.1, 100)); self.b = nice(r, logu(r, 0.1, 100)); self.scheme = r.choice([1, 1, 2, 3, 3])
        elif k == "gauss":
            self.a = nice(r, r.choice([-1, 1, 1, 0]) * logu(r, 0.01, 10)); self.b = nice(r, logu(r, 0.01, 10))
        elif k == "exp":
            self.a = nice(r, logu(r, 0.01, 10))
        elif k == "texp":
            self.a = nice(r, logu(r, 0.01, 10)); self.b = nice(r, logu(r, 0.1, 100))
        else:
            lo = nice(r, r.choice([-1, 1, 0]) * logu(r, 0.01, 10)); self.a = lo; self.b = lo + nice(r, logu(r, 0.01, 10))

    def new(self):
        k = self.kind
        if k in ("gamma", "gammaoff"):
            return "new gamma %d %s %s %d %s" % (self.n, hx(self.a), hx(self.b), 1 if k == "gammaoff" else 0, hx(self.off))
        if k == "beta":
            return "new beta %d %s %s %d" % (self.n, hx(self.a), hx(self.b), self.scheme)
        if k == "gauss":
            return "new gauss %d %s %s" % (self.n, hx(self.a), hx(self.b))
        if k == "exp":
            return "new exp %d %s" % (self.n, hx(self.a))
        if k == "texp":
            return "new texp %d %s %s" % (self.n, hx(self.a), hx(self.b))
        return "new unif %d %s %s" % (self.n, hx(self.a), hx(self.b))

    def support(self):
        """(typical low, typical high) of the bulk of the parent"""
        k = self.kind
        if k in ("gamma", "gammaoff"):
            m = self.a / self.b; sd = math.sqrt(self.a) / self.b
            return (self.off + max(0.0, m - 2 * sd), self.off + m + 3 * sd)
        if k == "beta":
            return (0.0, 1.0)
        if k == "gauss":
            return (self.a - 3 * self.b, self.a + 3 * self.b)
        if k == "exp":
            return (0.0, 4 / self.a)
        if k == "texp":
            return (0.0, min(self.b, 4 / self.a))
        return (self.a, self.b)

    def value(self):
        lo, hi = self.support()
        r = self.rng.random()
        if r < 0.75:
            return self.rng.uniform(lo, hi)
        if r < 0.85:
            return hi + (hi - lo) * logu(self.rng, 0.01, 100)
        if r < 0.95:
            return lo - (hi - lo) * logu(self.rng, 0.001, 10)
        return self.rng.choice([0.0, 1.0, lo, hi, -1.0, 1e-13, 1e30, -1e30])

    def setp(self, prefix=""):
        """a parameter update; ~12% outside the constraint, ~5% unknown name"""
        r = self.rng
        k = self.kind
        bad = r.random() < 0.12
        if r.random() < 0.05:
            return "setp %s %s" % (hs(prefix + r.choice(["gamma", "alpha2", "x", "offset", "tp"])), hx(1.0))
        if k in ("gamma", "gammaoff"):
            c = r.choice(["alpha", "beta"] + (["offset"] if k == "gammaoff" else []))
            if c == "offset":
                v = nice(r, r.choice([-1, 1]) * logu(r, 0.01, 10)); self.off = v
            else:
                v = r.choice([0.01, 0.0, -1.0, 0.049]) if bad else nice(r, logu(r, 0.1, 100))
                if not bad:
                    setattr(self, "a" if c == "alpha" else "b", v)
            return "setp %s %s" % (hs(prefix + c), hx(v))
        if k == "beta":
            c = r.choice(["alpha", "beta"])
            v = r.choice([0.0, -1.0, 0.00009]) if bad else nice(r, logu(r, 0.1, 100))
            if not bad:
                setattr(self, "a" if c == "alpha" else "b", v)
            return "setp %s %s" % (hs(prefix + c), hx(v))
        if k == "gauss":
            c = r.choice(["mu", "sigma"])
            if c == "mu":
                v = nice(r, r.choice([-1, 1, 0]) * logu(r, 0.01, 10)); self.a = v
            else:
                v = r.choice([0.0, -1.0]) if bad else nice(r, logu(r, 0.01, 10))
                if not bad:
                    self.b = v
            return "setp %s %s" % (hs(prefix + c), hx(v))
        if k == "exp":
            v = r.choice([-0.5, -1e-9]) if bad else nice(r, logu(r, 0.01, 10))
            if not bad:
                self.a = v
            return "setp %s %s" % (hs(prefix + "lambda"), hx(v))
        if k == "texp":
            c = r.choice(["lambda", "tp"])
            v = r.choice([-0.5, -1e-9]) if bad else nice(r, logu(r, 0.01, 10) if c == "lambda" else logu(r, 0.1, 100))
            if not bad:
                setattr(self, "a" if c == "lambda" else "b", v)
            return "setp %s %s" % (hs(prefix + c), hx(v))
        return "setp %s %s" % (hs(prefix + "min"), hx(0.5))

    def restrict(self):
        """a sub-interval of the bulk (75%), an end-excluding / half-line / wide one, a one-point or a
        disjoint one"""
        r = self.rng
        lo, hi = self.support()
        w = hi - lo
        q = r.random()
        il, iu = r.choice([0, 1]), r.choice([0, 1])
        if q < 0.6:
            a = lo + w * r.uniform(0.0, 0.6); b = a + w * r.uniform(0.05, 0.9)
        elif q < 0.7:
            a, b = lo - w, lo + w * r.uniform(0.3, 1.5)
        elif q < 0.8:
            a, b = lo + w * r.uniform(0.0, 0.5), math.inf
        elif q < 0.85:
            a, b = -math.inf, hi
        elif q < 0.9:
            a = lo + w * r.uniform(0.1, 0.9); b = a; il = iu = 1
        elif q < 0.95:
            a = hi + 1000 * w + 1e6; b = a + w
        else:
            a = lo + w * r.uniform(0.1, 0.9); b = a + w * 1e-13
        self.narrow = True
        return "restrict %s %s %d %d" % (hx(nice(r, a) if math.isfinite(a) else a), hx(nice(r, b) if math.isfinite(b) else b), il, iu)


def queries(rng, fam, n_hint, k):
    ops = []
    for _ in range(k):
        q = rng.random()
        if q < 0.3:
            ops.append("look " + hx(fam.value()))
        elif q < 0.5:
            ops.append("lookb %d" % rng.randint(0, n_hint + 1))
        elif q < 0.65:
            ops.append("lookc %d" % rng.randint(0, n_hint))
        elif q < 0.85:
            ops.append("cumi %d" % rng.randint(0, n_hint))
        elif q < 0.9:
            ops.append(rng.choice(["cinf", "ciinf", "csup", "cssup"]) + " " + hx(fam.value()))
        elif q < 0.95:
            ops.append(rng.choice(["n", "cats", "probs", "bounds", "lu"]))
        else:
            ops.append("%s %d" % (rng.choice(["bound", "cat", "prob"]), rng.randint(0, n_hint + 1)))
    return ops


def family_case(rng, idx, nops):
    f = Fam(rng)
    ops = ["case fam%d %s" % (idx, f.kind), f.new()]
    ops += queries(rng, f, f.n, rng.randint(1, 4))
    for _ in range(nops):
        q = rng.random()
        if q < 0.3:
            ops.append(f.setp())
        elif q < 0.5:
            f.n = pick_n(rng); ops.append("setn %d" % f.n)
        elif q < 0.62:
            ops.append("median %d" % rng.choice([0, 1]))
        elif q < 0.85:
            ops.append(f.restrict())
        elif q < 0.92:
            ops.append("discretize")
        elif q < 0.96:
            ops.append("copy")
        else:
            g = Fam(rng)
            if rng.random() < 0.5:
                f = g
                ops.append(f.new())
            else:
                # a constructor call that must be refused
                ops.append(rng.choice(["new gamma 3 %s %s 0 %s" % (hx(0.01), hx(1.0), hx(0.0)),
                                       "new gauss 3 %s %s" % (hx(0.0), hx(0.0)),
                                       "new beta 3 %s %s 1" % (hx(1.0), hx(0.00001)),
                                       "new exp 3 %s" % hx(-1.0)]))
        ops += queries(rng, f, f.n, rng.randint(0, 3))
    return ops


def generate(seed, tier):
    rng = random.Random(seed)
    big = tier == "thorough"
    cases = []
    for i in range(1500 if big else 220):
        cases.append(family_case(rng, i, rng.randint(2, 14)))
    return cases


def compare(op_line, impl, model):
    return " ".join(impl.split()) == " ".join(model.split())


if __name__ == "__main__":
    cs = generate(int(sys.argv[1]) if len(sys.argv) > 1 else 1, sys.argv[2] if len(sys.argv) > 2 else "quick")
    hist = {}
    for c in cs:
        for l in c[1:]:
            hist[l.split()[0]] = hist.get(l.split()[0], 0) + 1
    print(len(cs), "cases", sum(hist.values()), "ops")
    for k in sorted(hist):
        print("  %-12s %d" % (k, hist[k]))
    if len(sys.argv) > 3:
        for c in cs[: int(sys.argv[3])]:
            print("\n".join(c))
