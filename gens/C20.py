"""Script generator for C20 (Range.h)."""
import random, itertools

TYPES = ["int", "uint", "double"]


def generate(seed, tier):
    rng = random.Random(seed)
    cases = []
    # 1. range-level predicates/expansion/slicing: exhaustive over end points 0..6 (all order types,
    #    incl. empty, touching, nested, reversed-argument), per coordinate type
    U = 7
    for ty in TYPES:
        ops = []
        for a, b, c, d in itertools.product(range(U), repeat=4):
            ops += ["r.pred %d %d %d %d" % (a, b, c, d), "r.expand %d %d %d %d" % (a, b, c, d), "r.slice %d %d %d %d" % (a, b, c, d)]
        for a, b, v in itertools.product(range(U), range(U), range(0, 9, 4)):
            ops.append("r.shift %d %d %d" % (a, b, v))
        # split into cases of 300 ops
        for i in range(0, len(ops), 300):
            cases.append(["case rng%d %s" % (i, ty)] + ops[i:i + 300])
    # 2. exhaustive multi-range / range-set histories over the universe 0..6
    pairs_all = [(a, b) for a in range(U) for b in range(U)]
    pairs_ord = [(a, b) for a in range(U) for b in range(a, U)]
    kinds = ["add", "restrict", "filter"]
    if tier == "thorough":
        steps = [[(k, a, b) for k in kinds for (a, b) in pairs_ord]] * 3
        seqs = itertools.product(*steps)
        tylist = ["int"]
    else:
        steps = [[(k, a, b) for k in kinds for (a, b) in pairs_all]] * 2
        seqs = itertools.product(*steps)
        tylist = ["int"]
    n = 0
    for seq in seqs:
        # histories that do not start with an add act on an empty collection: keep one in 10
        if seq[0][0] != "add" and n % 10:
            n += 1
            continue
        n += 1
        ty = tylist[n % len(tylist)]
        ops = []
        for (k, a, b) in seq:
            ops.append("mr.%s 0 %d %d" % (k, a, b))
            ops.append("rs.%s 0 %d %d" % (k, a, b))
        cases.append(["case ex%d %s" % (n, ty)] + ops)
    # 3. random histories up to length 12 over 0..24 with 4 registers, copies/assignments and clears
    nrand = 40000 if tier == "thorough" else 3000
    for i in range(nrand):
        ty = TYPES[i % 3]
        L = rng.randint(1, 12)
        ops = []
        for _ in range(L):
            r = rng.random()
            k = rng.randint(0, 1)
            pre = "mr" if rng.random() < 0.75 else "rs"
            a, b = rng.randint(0, 24), rng.randint(0, 24)
            if rng.random() < 0.15:
                b = a
            if r < 0.55:
                ops.append("%s.add %d %d %d" % (pre, k, a, b))
            elif r < 0.72:
                # restrictions are biased to be wide so that collections stay populated
                if rng.random() < 0.5:
                    a, b = rng.randint(0, 8), rng.randint(14, 24)
                ops.append("%s.restrict %d %d %d" % (pre, k, a, b))
            elif r < 0.84:
                if rng.random() < 0.5:
                    a, b = rng.randint(0, 8), rng.randint(14, 24)
                ops.append("%s.filter %d %d %d" % (pre, k, a, b))
            elif r < 0.88:
                ops.append("%s.clear %d" % (pre, k))
            elif r < 0.94:
                j = rng.randint(0, 3)
                ops.append("%s.copy %d %d" % (pre, k, j))
                # independence: mutate the copy, then look at the source again
                ops.append("%s.add %d %d %d" % (pre, j, rng.randint(0, 24), rng.randint(0, 24)))
                ops.append("%s.get %d" % (pre, k))
            else:
                j = rng.randint(0, 3)
                ops.append("%s.assign %d %d" % (pre, k, j))
                ops.append("%s.restrict %d %d %d" % (pre, j, rng.randint(0, 12), rng.randint(12, 24)))
                ops.append("%s.get %d" % (pre, k))
        cases.append(["case rnd%d %s" % (i, ty)] + ops)
    return cases
