"""Script generator for C20 (Range.h).

`case <tag> <type> [scale]`: type in int / uint / double; a script integer n stands for the
coordinate n / scale (scale 1, 2 or 4, only for double: non-integral dyadic doubles)."""
import random, itertools

TYPES = ["int", "uint", "double"]


def generate(seed, tier):
    rng = random.Random(seed)
    cases = []
    # 1. range-level predicates / comparison operators / toString / expansion / slicing: exhaustive over
    #    end points 0..6 (all order types, incl. empty, touching, nested, reversed-argument), per type
    U = 7
    for ty in TYPES:
        ops = []
        for a, b, c, d in itertools.product(range(U), repeat=4):
            ops += ["r.pred %d %d %d %d" % (a, b, c, d), "r.expand %d %d %d %d" % (a, b, c, d), "r.slice %d %d %d %d" % (a, b, c, d)]
        # shifts up and down, by more than begin / end (unsigned wraps; a "negative" amount arrives as 2^32-v)
        shifts = [-9, -4, -1, 0, 1, 4, 8]
        if ty == "uint":
            shifts += [4294967295, 4294967290, 2147483648]
        for a, b, v in itertools.product(range(U), range(U), shifts):
            ops.append("r.shift %d %d %d" % (a, b, v))
        for a in range(U):
            ops.append("r.ctor %d" % a)
        for a, b in itertools.product(range(U), repeat=2):
            ops.append("r.copy %d %d %d" % (a, b, 1 + (a + b) % 3))
        # split into cases of 300 ops
        for i in range(0, len(ops), 300):
            cases.append(["case rng%d %s" % (i, ty)] + ops[i:i + 300])
    # 1b. non-integral doubles (halves and quarters) over 0..6
    for sc in (2, 4):
        ops = []
        for _ in range(1500 if tier == "thorough" else 400):
            a, b, c, d = [rng.randint(0, 6 * sc) for _ in range(4)]
            if rng.random() < 0.2:
                b = a
            if rng.random() < 0.2:
                d = rng.choice([a, b, c])
            ops += ["r.pred %d %d %d %d" % (a, b, c, d), "r.expand %d %d %d %d" % (a, b, c, d), "r.slice %d %d %d %d" % (a, b, c, d),
                    "r.shift %d %d %d" % (a, b, rng.randint(-8 * sc, 8 * sc))]
        for i in range(0, len(ops), 300):
            cases.append(["case frac%d_%d double %d" % (sc, i, sc)] + ops[i:i + 300])
    # 2. exhaustive multi-range / range-set histories over the universe 0..6, for int, unsigned and double
    pairs_all = [(a, b) for a in range(U) for b in range(U)]
    pairs_ord = [(a, b) for a in range(U) for b in range(a, U)]
    kinds = ["add", "restrict", "filter"]
    if tier == "thorough":
        steps = [[(k, a, b) for k in kinds for (a, b) in pairs_ord]] * 3
        seqs = itertools.product(*steps)
    else:
        steps = [[(k, a, b) for k in kinds for (a, b) in pairs_all]] * 2
        seqs = itertools.product(*steps)
    n = 0
    for seq in seqs:
        # histories that do not start with an add act on an empty collection: keep one in 10
        if seq[0][0] != "add" and n % 10:
            n += 1
            continue
        n += 1
        ops = []
        for (k, a, b) in seq:
            ops.append("mr.%s 0 %d %d" % (k, a, b))
            ops.append("rs.%s 0 %d %d" % (k, a, b))
        # quick: every history at every coordinate type; thorough (length 3): the type rotates
        for ty in (TYPES if tier != "thorough" else [TYPES[(n + seed) % 3]]):
            cases.append(["case ex%d %s" % (n, ty)] + ops)
    # 3. random histories up to length 12 over 0..24 with 4 registers, copies/assignments and clears
    nrand = 40000 if tier == "thorough" else 3000
    for i in range(nrand):
        ty = TYPES[i % 3]
        sc = rng.choice([1, 1, 2, 4]) if ty == "double" else 1
        M = 24 * sc
        L = rng.randint(1, 12)
        ops = []
        for _ in range(L):
            r = rng.random()
            k = rng.randint(0, 1)
            pre = "mr" if rng.random() < 0.75 else "rs"
            a, b = rng.randint(0, M), rng.randint(0, M)
            if rng.random() < 0.15:
                b = a
            if r < 0.50:
                ops.append("%s.add %d %d %d" % (pre, k, a, b))
            elif r < 0.67:
                # restrictions are biased to be wide so that collections stay populated
                if rng.random() < 0.5:
                    a, b = rng.randint(0, 8 * sc), rng.randint(14 * sc, M)
                ops.append("%s.restrict %d %d %d" % (pre, k, a, b))
            elif r < 0.80:
                if rng.random() < 0.5:
                    a, b = rng.randint(0, 8 * sc), rng.randint(14 * sc, M)
                ops.append("%s.filter %d %d %d" % (pre, k, a, b))
            elif r < 0.84:
                ops.append("%s.clear %d" % (pre, k))
            elif r < 0.88:
                # getRange(i) for i around size (i >= size is reported as oob by the harness, not called)
                ops.append("%s.at %d %d" % (pre, k, rng.randint(0, 4)))
            elif r < 0.94:
                j = rng.randint(0, 3)
                ops.append("%s.copy %d %d" % (pre, k, j))
                # independence: mutate the copy, then look at the source again
                ops.append("%s.add %d %d %d" % (pre, j, rng.randint(0, M), rng.randint(0, M)))
                ops.append("%s.get %d" % (pre, k))
            else:
                j = rng.randint(0, 3)
                ops.append("%s.assign %d %d" % (pre, k, j))
                ops.append("%s.restrict %d %d %d" % (pre, j, rng.randint(0, 12 * sc), rng.randint(12 * sc, M)))
                ops.append("%s.get %d" % (pre, k))
        cases.append(["case rnd%d %s %d" % (i, ty, sc)] + ops)
    return cases
