"""Script generator for C20 (Range.h).

`case <tag> <type> [scale]`: type in int / uint / double; a script integer n stands for the
coordinate n / scale (scale 1, 2 or 4, only for double: non-integral dyadic doubles)."""
import random, itertools

TYPES = ["int", "uint", "double"]


def generate(seed, tier):
    rng = random.Random(seed)
    cases = []
    # 1. range-level predicates / comparison operators / toString / expansion / slicing: exhaustive over
    #    end points 0..6 (all order types, incl. empty, touching, nested, reversed-argument), per type
    U = 7
    for ty in TYPES:
        ops = []
        for a, b, c, d in itertools.product(range(U), repeat=4):
            ops += ["r.pred %d %d %d %d" % (a, b, c, d), "r.expand %d %d %d %d" % (a, b, c, d), "r.slice %d %d %d %d" % (a, b, c, d)]
        # shifts up and down, by more than begin / end (unsigned wraps; a "negative" amount arrives as 2^32-v)
        shifts = [-9, -4, -1, 0, 1, 4, 8]
        if ty == "uint":
            shifts += [4294967295, 4294967290, 2147483648]
        for a, b, v in itertools.product(range(U), range(U), shifts):
            ops.append("r.shift %d %d %d" % (a, b, v))
        # shift results as operands of the predicates (unsigned: wrapped, ill-formed first operand)
        for a, b, v, c, d in itertools.product(range(0, U, 2), range(1, U, 2), (1, 4), range(0, U, 3), range(0, U, 2)):
            ops.append("r.shpred %d %d %d %d %d" % (a, b, v, c, d))
        for a in range(U):
            ops.append("r.ctor %d" % a)
        for a, b in itertools.product(range(U), repeat=2):
            ops.append("r.copy %d %d %d" % (a, b, 1 + (a + b) % 3))
        # split into cases of 300 ops
        for i in range(0, len(ops), 300):
            cases.append(["case rng%d %s" % (i, ty)] + ops[i:i + 300])
    # 1a. the same over end points -3..3 (negative coordinates) for the signed types
    for ty in ("int", "double"):
        ops = []
        for a, b, c, d in itertools.product(range(-3, 4), repeat=4):
            ops += ["r.pred %d %d %d %d" % (a, b, c, d), "r.expand %d %d %d %d" % (a, b, c, d), "r.slice %d %d %d %d" % (a, b, c, d)]
        for i in range(0, len(ops), 300):
            cases.append(["case neg%d %s" % (i, ty)] + ops[i:i + 300])
    # 1b. non-integral doubles (halves and quarters) over 0..6
    for sc in (2, 4):
        ops = []
        for _ in range(1500 if tier == "thorough" else 400):
            a, b, c, d = [rng.randint(0, 6 * sc) for _ in range(4)]
            if rng.random() < 0.2:
                b = a
            if rng.random() < 0.2:
                d = rng.choice([a, b, c])
            ops += ["r.pred %d %d %d %d" % (a, b, c, d), "r.expand %d %d %d %d" % (a, b, c, d), "r.slice %d %d %d %d" % (a, b, c, d),
                    "r.shift %d %d %d" % (a, b, rng.randint(-8 * sc, 8 * sc))]
        for i in range(0, len(ops), 300):
            cases.append(["case frac%d_%d double %d" % (sc, i, sc)] + ops[i:i + 300])
    # 2. exhaustive multi-range / range-set histories over the universe 0..6, for int, unsigned and double
    pairs_all = [(a, b) for a in range(U) for b in range(U)]
    pairs_ord = [(a, b) for a in range(U) for b in range(a, U)]
    kinds = ["add", "restrict", "filter"]
    if tier == "thorough":
        steps = [[(k, a, b) for k in kinds for (a, b) in pairs_ord]] * 3
        seqs = itertools.product(*steps)
    else:
        steps = [[(k, a, b) for k in kinds for (a, b) in pairs_all]] * 2
        seqs = itertools.product(*steps)
    n = 0
    for seq in seqs:
        # histories that do not start with an add act on an empty collection: keep one in 10
        if seq[0][0] != "add" and n % 10:
            n += 1
            continue
        n += 1
        ops = []
        for (k, a, b) in seq:
            ops.append("mr.%s 0 %d %d" % (k, a, b))
            ops.append("rs.%s 0 %d %d" % (k, a, b))
        # quick: every history at every coordinate type; thorough (length 3): the type rotates
        for ty in (TYPES if tier != "thorough" else [TYPES[(n + seed) % 3]]):
            cases.append(["case ex%d %s" % (n, ty)] + ops)
    # 2b. the same histories over -3..3 (windows straddling 0, reset to [0,0[ next to negative ranges), int / double
    if tier != "thorough":
        n = 0
        for seq in itertools.product(*([[(k, a - 3, b - 3) for k in kinds for (a, b) in pairs_all]] * 2)):
            if seq[0][0] != "add" and n % 10:
                n += 1
                continue
            n += 1
            ops = []
            for (k, a, b) in seq:
                ops.append("mr.%s 0 %d %d" % (k, a, b))
                ops.append("rs.%s 0 %d %d" % (k, a, b))
            cases.append(["case nex%d %s" % (n, ("int", "double")[(n + seed) % 2])] + ops)
    # 2c. large collections (std::sort leaves its insertion-sort regime at 17 elements): k ranges below 0, one
    #     straddling 0, k above, then windows that empty most of them (the crash family of the audit), and random
    #     large collections followed by restrictions / filters / bridging adds
    for k in ([8, 9, 12, 16, 20] if tier != "thorough" else range(6, 24)):
        for ty in ("int", "double", "uint"):
            lo = 0 if ty == "uint" else -1
            ops = []
            if ty != "uint":
                ops += ["mr.add 0 %d %d" % (-48 + 2 * i, -47 + 2 * i) for i in range(k)]
            ops.append("mr.add 0 %d 1" % lo)
            ops += ["mr.add 0 %d %d" % (3 + 2 * i, 4 + 2 * i) for i in range(k if ty != "uint" else 2 * k)]
            ops += ["mr.copy 0 1", "mr.restrict 0 %d 1" % lo, "mr.restrict 1 -2 5" if ty != "uint" else "mr.restrict 1 0 5",
                    "mr.copy 0 2", "mr.assign 1 3", "mr.add 3 1 40", "mr.filter 3 0 60"]
            cases.append(["case big%d %s" % (k, ty)] + ops)
    for i in range(60 if tier != "thorough" else 600):
        ty = TYPES[i % 3]
        lo = 0 if ty == "uint" else -48
        ops = []
        for _ in range(rng.randint(18, 45)):
            a = rng.randint(lo, 90)
            ops.append("mr.add 0 %d %d" % (a, a + rng.choice([0, 1, 1, 1, 2])))
        for _ in range(4):
            a, b = rng.randint(lo, 90), rng.randint(lo, 90)
            ops.append(rng.choice(["mr.restrict 0 %d %d", "mr.filter 0 %d %d", "mr.add 0 %d %d"]) % (a, b))
        cases.append(["case bigrnd%d %s" % (i, ty)] + ops)
    # 2d. a shift result as the argument of addRange, last op of its case (unsigned: a wrapped, ill-formed
    #     range reaches the collection: known finding C20-illformed-unsigned-argument)
    for ty in TYPES:
        for (a, b, v) in [(2, 5, 3), (1, 4, 1), (3, 6, 2), (0, 2, 1), (4, 6, 9), (5, 2, 4)]:
            for pre in ([], ["mr.add 0 1 3"], ["mr.add 0 1 3", "mr.add 0 6 9"]):
                cases.append(["case addsh_%d_%d_%d_%d %s" % (a, b, v, len(pre), ty)] + pre + ["mr.addsh 0 %d %d %d" % (a, b, v)])
    # 3. random histories up to length 12 over 0..24 with 4 registers, copies/assignments and clears
    nrand = 40000 if tier == "thorough" else 3000
    for i in range(nrand):
        ty = TYPES[i % 3]
        sc = rng.choice([1, 1, 2, 4]) if ty == "double" else 1
        M = 24 * sc
        # half of the signed cases use the universe -24..24 (scale 4 stays non-negative: -96 is outside the
        # specification vector of the driver)
        LO = -M if (ty != "uint" and sc <= 2 and rng.random() < 0.5) else 0
        L = rng.randint(1, 12)
        ops = []
        for _ in range(L):
            r = rng.random()
            k = rng.randint(0, 1)
            pre = "mr" if rng.random() < 0.75 else "rs"
            a, b = rng.randint(LO, M), rng.randint(LO, M)
            if rng.random() < 0.15:
                b = a
            if r < 0.50:
                ops.append("%s.add %d %d %d" % (pre, k, a, b))
            elif r < 0.67:
                # restrictions are biased to be wide so that collections stay populated
                if rng.random() < 0.5:
                    a, b = rng.randint(LO, 8 * sc), rng.randint(14 * sc, M)
                ops.append("%s.restrict %d %d %d" % (pre, k, a, b))
            elif r < 0.80:
                if rng.random() < 0.5:
                    a, b = rng.randint(LO, 8 * sc), rng.randint(14 * sc, M)
                ops.append("%s.filter %d %d %d" % (pre, k, a, b))
            elif r < 0.84:
                ops.append("%s.clear %d" % (pre, k))
            elif r < 0.88:
                # getRange(i) for i around size (i >= size is reported as oob by the harness, not called)
                ops.append("%s.at %d %d" % (pre, k, rng.randint(0, 4)))
            elif r < 0.94:
                j = rng.randint(0, 3)
                ops.append("%s.copy %d %d" % (pre, k, j))
                # independence: mutate the copy, then look at the source again
                ops.append("%s.add %d %d %d" % (pre, j, rng.randint(LO, M), rng.randint(LO, M)))
                ops.append("%s.get %d" % (pre, k))
            else:
                j = rng.randint(0, 3)
                ops.append("%s.assign %d %d" % (pre, k, j))
                ops.append("%s.restrict %d %d %d" % (pre, j, rng.randint(LO, 12 * sc), rng.randint(12 * sc, M)))
                ops.append("%s.get %d" % (pre, k))
        cases.append(["case rnd%d %s %d" % (i, ty, sc)] + ops)
    return cases
