"""Script generator for C04 (Matrix.h, MatrixTools.h).

Every case: `case <tag> <kA> <kB> <kO> <or> <oc>` (storage classes of the operands in order of
appearance, of the output, size of the stale content of the output) followed by a few operations
(see harness/C04.cpp for the list).  Shapes 0x0 .. 7x7 including 1xn, nx1, non-square and the
degenerate 0xn / nx0 (which the vector-of-vector classes cannot represent: they report 0x0);
integer-valued entries (small range, so that ties and exact arithmetic occur; compared exactly with
the textbook definition evaluated in Rat) and real entries (compared bit-exactly with the Float
instantiation of the model and with the definition within the running error bound).  About one
operation in eight is non-conformable.  `lap`: cost matrices up to 7x7 (a few up to 14x14), integer (narrow ranges:
many ties) and real; thorough also enumerates all 0..2 matrices up to 3x3.
"""
import random, struct, itertools

STOR = ["row", "col", "lin"]


def hx(x):
    return struct.pack(">d", float(x)).hex()


def dim(rng, hi=7):
    r = rng.random()
    if r < 0.06:
        return 0
    if r < 0.22:
        return 1
    return rng.randint(2, hi)


def entries(rng, n, integer):
    if integer:
        lo, hi = rng.choice([(-9, 9), (-3, 3), (0, 2), (-1, 1), (-50, 50)])
        return [rng.randint(lo, hi) for _ in range(n)]
    f = rng.random()
    if f < 0.7:
        return [rng.uniform(-10, 10) for _ in range(n)]
    if f < 0.85:
        return [rng.gauss(0, 1) * 10 ** rng.randint(-3, 3) for _ in range(n)]
    return [rng.choice([0.0, -0.0, 1.0, -1.0, 0.5, rng.uniform(-1, 1)]) for _ in range(n)]


SPECIAL = [0.0, -0.0, float("inf"), float("-inf"), float("nan"), 1.0, -2.5, 3.0]


def mat(rng, r, c, integer):
    if integer == "special":
        return ("%d %d %s" % (r, c, " ".join(hx(rng.choice(SPECIAL)) for _ in range(r * c)))).strip()
    return ("%d %d %s" % (r, c, " ".join(hx(v) for v in entries(rng, r * c, integer)))).strip()


def vec(rng, n, integer):
    return ("%d %s" % (n, " ".join(hx(v) for v in entries(rng, n, integer)))).strip()


def num(rng, integer):
    return hx(entries(rng, 1, integer)[0])


def other(rng, n, hi=7):
    return rng.choice([x for x in range(0, hi + 1) if x != n])


def one_op(rng, integer):
    """a random operation line (not needing a specific stale output)"""
    k = rng.choice(OPS)
    bad = rng.random() < 0.13
    r, c, n = dim(rng), dim(rng), dim(rng)
    I = integer
    if k in ("copy", "copyup", "copydown", "transpose", "transpose2", "diagm", "whichmax", "whichmin", "max", "min",
             "issym", "tovv", "sum"):
        if k in ("diagm", "issym") and rng.random() < 0.8:
            c = r
        if k == "issym" and r == c and rng.random() < 0.6:
            v = entries(rng, r * r, I)
            for i in range(r):
                for j in range(i):
                    v[i * r + j] = v[j * r + i]
            if rng.random() < 0.3 and r >= 2:
                v[rng.randrange(r * r)] += 1
            return ("issym %d %d %s" % (r, r, " ".join(hx(x) for x in v))).strip()
        return "%s %s" % (k, mat(rng, r, c, I))
    if k == "covar":
        return "covar %s" % mat(rng, r, c if rng.random() < 0.95 else 0, I)
    if k == "getid":
        return "getid %d" % n
    if k == "diagv":
        return "diagv %s" % vec(rng, n, I)
    if k == "diags":
        return "diags %s %d" % (num(rng, I), n)
    if k in ("fill", "filldiag"):
        return "%s %s %s" % (k, mat(rng, r, c, I), num(rng, I))
    if k == "scale":
        a = rng.choice([hx(1), hx(1), num(rng, I), num(rng, I)])
        b = rng.choice([hx(0), hx(0), num(rng, I)])
        return "scale %s %s %s" % (mat(rng, r, c, I), a, b)
    if k == "mult":
        return "mult %s %s" % (mat(rng, r, n, I), mat(rng, other(rng, n) if bad else n, c, I))
    if k == "multc":
        w = rng.randrange(4) if bad else -1
        A = mat(rng, r, n, I)
        iA = mat(rng, other(rng, r) if w == 0 else r, n, I) if w != 1 or True else ""
        if w == 1:
            iA = mat(rng, r, other(rng, n), I)
        B = mat(rng, other(rng, n) if w == 2 else n, c, I)
        iB = mat(rng, n, other(rng, c) if w == 3 else c, I)
        return "multc %s %s %s %s" % (A, iA, B, iB)
    if k == "multd":
        w = rng.randrange(2) if bad else -1
        return "multd %s %s %s" % (mat(rng, r, n, I), vec(rng, other(rng, n) if w == 0 else n, I),
                                   mat(rng, other(rng, n) if w == 1 else n, c, I))
    if k == "multt":
        if rng.random() < 0.3:
            n = 1
        n = max(n, 1) if not bad else n
        w = rng.randrange(4) if bad else -1
        D = vec(rng, other(rng, n) if w == 0 else n, I)
        U = vec(rng, other(rng, max(n - 1, 0)) if w == 1 else max(n - 1, 0), I)
        L = vec(rng, other(rng, max(n - 1, 0)) if w == 2 else max(n - 1, 0), I)
        B = mat(rng, other(rng, n) if w == 3 else n, c, I)
        return "multt %s %s %s %s %s" % (mat(rng, r, n, I), D, U, L, B)
    if k == "multcd":
        w = rng.randrange(6) if bad else -1
        A = mat(rng, r, n, I)
        iA = mat(rng, r, other(rng, n) if w == 0 else n, I)
        D = vec(rng, other(rng, n) if w == 1 else n, I)
        iD = vec(rng, other(rng, n) if w == 2 else n, I)
        B = mat(rng, other(rng, n) if w == 3 else n, c, I)
        iB = mat(rng, other(rng, n) if w == 4 else n, other(rng, c) if w == 5 else c, I)
        return "multcd %s %s %s %s %s %s" % (A, iA, D, iD, B, iB)
    if k in ("add", "adds", "had"):
        r2, c2 = r, c
        if bad:
            if rng.random() < 0.5:
                r2 = other(rng, r)
            else:
                c2 = other(rng, c)
            if rng.random() < 0.5:      # A smaller than B in both directions
                r2, c2 = r + rng.randint(0, 2), c + rng.randint(1, 2)
        if k == "adds":
            return "adds %s %s %s" % (mat(rng, r, c, I), num(rng, I), mat(rng, r2, c2, I))
        return "%s %s %s" % (k, mat(rng, r, c, I), mat(rng, r2, c2, I))
    if k == "hadc":
        w = rng.randrange(3) if bad else -1
        A = mat(rng, r, c, I)
        iA = mat(rng, other(rng, r) if w == 0 else r, c, I)
        B = mat(rng, r, other(rng, c) if w == 1 else c, I)
        iB = mat(rng, r, other(rng, c) if w == 2 else c, I)
        return "hadc %s %s %s %s" % (A, iA, B, iB)
    if k == "hadv":
        row = rng.random() < 0.5
        m = r if row else c
        return "hadv %s %s %d" % (mat(rng, r, c, I), vec(rng, other(rng, m) if bad else m, I), 1 if row else 0)
    if k == "pow":
        n = dim(rng, 5)
        p = rng.choice([0, 1, 2, 3, 4, 5, 6, 7, 8, 9, 11, 16])
        c2 = other(rng, n, 5) if bad else n
        if I or rng.random() < 0.3:
            return ("pow %d %d %s %d" % (n, c2, " ".join(hx(rng.randint(-2, 2)) for _ in range(n * c2)), p)).replace("  ", " ")
        return "pow %s %d" % (mat(rng, n, c2, False), p)
    if k == "taylor":
        n = dim(rng, 5)
        p = rng.choice([0, 0, 1, 2, 3, 4, 5])
        c2 = other(rng, n, 5) if bad else n
        if I:
            return ("taylor %d %d %s %d" % (n, c2, " ".join(hx(rng.randint(-2, 2)) for _ in range(n * c2)), p)).replace("  ", " ")
        return "taylor %s %d" % (mat(rng, n, c2, False), p)
    if k == "kron":
        return "kron %s %s 1" % (mat(rng, dim(rng, 4), dim(rng, 4), I), mat(rng, dim(rng, 4), dim(rng, 4), I))
    if k == "krond":
        return "krond %s %d %s 1" % (mat(rng, dim(rng, 4), dim(rng, 4), I), dim(rng, 4), num(rng, I))
    if k == "kron2":
        return "kron2 %s %s %s %s 1" % (mat(rng, dim(rng, 4), dim(rng, 4), I), mat(rng, dim(rng, 4), dim(rng, 4), I), num(rng, I), num(rng, I))
    if k == "dsum":
        return "dsum %s %s" % (mat(rng, dim(rng, 5), dim(rng, 5), I), mat(rng, dim(rng, 5), dim(rng, 5), I))
    if k == "dsumn":
        m = rng.randint(0, 4)
        return ("dsumn %d %s" % (m, " ".join(mat(rng, dim(rng, 3), dim(rng, 3), I) for _ in range(m)))).strip()
    if k == "lap":
        return lap_op(rng, I)
    raise AssertionError(k)


OPS = ["copy", "copyup", "copydown", "transpose", "transpose2", "diagm", "whichmax", "whichmin", "max", "min", "issym",
       "tovv", "sum", "covar", "getid", "diagv", "diags", "fill", "filldiag", "scale", "mult", "mult", "multc", "multd",
       "multt", "multt", "multcd", "add", "adds", "had", "hadc", "hadv", "pow", "pow", "taylor", "kron", "krond", "kron2",
       "dsum", "dsum", "dsumn", "lap", "lap"]


def lap_op(rng, integer):
    n = rng.choice([0, 1, 2, 2, 3, 3, 4, 4, 5, 5, 6, 7])
    if rng.random() < 0.04:
        return "lap %s" % mat(rng, n, other(rng, n), True)
    if n >= 2 and rng.random() < 0.25:
        # every column has its minimum in a different row: the column reduction assigns all rows (the
        # part of the routine that is transcribed and proved, `Lap.lapEasy`)
        rows = list(range(n)); rng.shuffle(rows)
        if integer:
            v = [rng.randint(0, 9) for _ in range(n * n)]
            for j in range(n):
                v[rows[j] * n + j] = -rng.randint(1, 5)
        else:
            v = [rng.uniform(0, 5) for _ in range(n * n)]
            for j in range(n):
                v[rows[j] * n + j] = -rng.uniform(0.1, 5)
        return ("lap %d %d %s" % (n, n, " ".join(hx(x) for x in v))).strip()
    if integer:
        lo, hi = rng.choice([(0, 1), (0, 2), (0, 3), (1, 9), (-5, 5), (0, 100)])
        v = [rng.randint(lo, hi) for _ in range(n * n)]
        if rng.random() < 0.2 and n:
            # structured: rank one / constant rows (massive degeneracy)
            a = [rng.randint(0, 3) for _ in range(n)]
            b = [rng.randint(0, 3) for _ in range(n)]
            v = [a[i] + b[j] for i in range(n) for j in range(n)]
    else:
        v = [rng.uniform(-5, 5) for _ in range(n * n)]
    return ("lap %d %d %s" % (n, n, " ".join(hx(x) for x in v))).strip()


def case_line(rng, tag, orr=None, occ=None, kinds=None):
    k = kinds or [rng.choice(STOR) for _ in range(3)]
    if orr is None:
        orr, occ = rng.choice([(0, 0), (0, 0), (1, 1), (2, 3), (3, 2), (8, 8), (1, 9), (9, 1), (4, 4)])
    return "case %s %s %s %s %d %d" % (tag, k[0], k[1], k[2], orr, occ)


def shape(k, r, c):
    if k == "row":
        return (r, c if r else 0)
    if k == "col":
        return (r if c else 0, c)
    return (r, c)


def store_case(rng, tag):
    """a history of constructor / element assignment / resize / operator= on one object"""
    kinds = [rng.choice(STOR) for _ in range(3)]
    k = rng.choice(STOR)
    r, c = dim(rng, 5), dim(rng, 5)
    ops = ["mnew %s %d %d" % (k, r, c)]
    cr, cc = shape(k, r, c)
    for _ in range(rng.randint(2, 9)):
        f = rng.random()
        if f < 0.55 and cr and cc:
            ops.append("mset %d %d %s" % (rng.randrange(cr), rng.randrange(cc), hx(rng.randint(-9, 9))))
        elif f < 0.9:
            r, c = dim(rng, 6), dim(rng, 6)
            ops.append("mresize %d %d" % (r, c))
            cr, cc = shape(k, r, c)
        else:
            k = rng.choice(STOR)
            r, c = dim(rng, 4), dim(rng, 4)
            ops.append("massign %s %s" % (k, mat(rng, r, c, True)))
            cr, cc = shape(k, *shape(kinds[0], r, c))
    return [case_line(rng, tag, 0, 0, kinds)] + ops


def generate(seed, tier):
    rng = random.Random(seed)
    N = 6000 if tier == "thorough" else 1100
    cases = []
    # ---- fixed edge cases --------------------------------------------------------------------
    one = hx(2)
    for ks in itertools.product(STOR, repeat=3):
        kk = list(ks)
        cases.append([case_line(rng, "edge_" + "".join(x[0] for x in ks), 2, 3, kk),
                      "multt 1 1 %s 1 %s 0 0 1 1 %s" % (hx(2), hx(5), hx(3)),          # 1x1 tridiagonal
                      "multt 2 1 %s %s 1 %s 0 0 1 3 %s %s %s" % (hx(1), hx(2), hx(3), hx(1), hx(2), hx(4)),
                      "dsum 1 1 %s 1 3 %s %s %s" % (hx(1), hx(2), hx(3), hx(4)),          # non-square blocks
                      "dsum 1 1 %s 3 1 %s %s %s" % (hx(1), hx(2), hx(3), hx(4)),
                      "dsum 2 3 %s 0 0" % " ".join(hx(i) for i in range(6)),
                      "add 1 1 %s 2 2 %s %s %s %s" % (hx(1), hx(1), hx(2), hx(3), hx(4)),  # A smaller than B
                      "taylor 2 2 %s %s %s %s 0" % (hx(1), hx(2), hx(3), hx(4)),
                      "taylor 0 0 0", "taylor 0 0 3", "pow 0 0 5", "pow 1 1 %s 7" % hx(3),
                      "copyup 0 3", "copydown 0 3", "copyup 0 0", "copydown 0 0", "copyup 1 2 %s %s" % (hx(1), hx(2)),
                      "filldiag 3 2 %s %s" % (" ".join(hx(i) for i in range(6)), hx(9)),
                      "filldiag 2 3 %s %s" % (" ".join(hx(i) for i in range(6)), hx(9)),
                      "multcd 2 2 %s 2 2 %s 2 %s %s 2 %s %s 2 2 %s 2 2 %s" % (
                          " ".join(hx(i) for i in (1, 2, 3, 4)), " ".join(hx(i) for i in (0, 1, -1, 2)), hx(1), hx(2), hx(3), hx(-1),
                          " ".join(hx(i) for i in (2, 0, 1, 1)), " ".join(hx(i) for i in (1, 1, 0, -2))),
                      "multc 2 2 %s 1 1 %s 2 2 %s 2 2 %s" % (" ".join([one] * 4), one, " ".join([one] * 4), " ".join([one] * 4)),
                      "hadc 2 2 %s 1 1 %s 2 2 %s 2 2 %s" % (" ".join([one] * 4), one, " ".join([one] * 4), " ".join([one] * 4)),
                      "whichmax 0 0", "whichmin 0 0", "max 0 0", "min 0 0", "sum 0 0", "transpose 0 4", "transpose 4 0",
                      "mult 2 0 0 3", "mult 0 2 2 0", "kron 0 0 2 2 %s 1" % " ".join([one] * 4),
                      "lap 0 0", "lap 1 1 %s" % hx(5), "lap 2 2 %s" % " ".join(hx(i) for i in (1, 1, 1, 1)),
                      "lap 2 3 %s" % " ".join([one] * 6)])
    # Kronecker products into a pre-sized output (check = false)
    for i in range(40 if tier == "thorough" else 12):
        ra, ca, rb, cb = dim(rng, 3), dim(rng, 3), dim(rng, 3), dim(rng, 3)
        I = rng.random() < 0.7
        extra = rng.choice([(0, 0), (0, 0), (1, 2), (2, 0)])
        orr, occ = ra * rb + extra[0], ca * cb + extra[1]
        which = rng.choice(["kron", "krond", "kron2"])
        if which == "kron":
            op = "kron %s %s 0" % (mat(rng, ra, ca, I), mat(rng, rb, cb, I))
        elif which == "krond":
            orr, occ = ra * rb + extra[0], ca * rb + extra[1]
            op = "krond %s %d %s 0" % (mat(rng, ra, ca, I), rb, num(rng, I))
        else:
            op = "kron2 %s %s %s %s 0" % (mat(rng, ra, ca, I), mat(rng, rb, cb, I), num(rng, I), num(rng, I))
        cases.append([case_line(rng, "kronpre%d" % i, orr, occ), op])
    # ... and into an output that is too small (the caller's error: the model says `ub` or, for the
    # flat class, which entries get overwritten)
    for i in range(6):
        cases.append([case_line(rng, "kronsmall%d" % i, 1, 1, [rng.choice(STOR), rng.choice(STOR), rng.choice(["row", "col"])]),
                      "kron %s %s 0" % (mat(rng, 2, 2, True), mat(rng, 2, 2, True))])
    cases.append([case_line(rng, "kronalias", 4, 1, ["row", "row", "lin"]), "kron %s %s 0" % (mat(rng, 2, 2, True), mat(rng, 1, 2, True))])
    # exhaustive small assignment problems
    if tier == "thorough":
        for n in (1, 2, 3):
            ops = []
            for v in itertools.product((0, 1, 2), repeat=n * n):
                if n == 3 and rng.random() < 0.9:
                    continue
                ops.append("lap %d %d %s" % (n, n, " ".join(hx(x) for x in v)))
                if len(ops) == 60:
                    cases.append([case_line(rng, "lapall%d" % n)] + ops); ops = []
            if ops:
                cases.append([case_line(rng, "lapall%d" % n)] + ops)
    # degenerate assignment problems: sizes 4..7 with entries from a narrow integer range, so that the
    # augmentation phase meets ties at every level (the dual update is only visible there)
    for i in range(150 if tier == "thorough" else 36):
        ops = []
        for _ in range(20):
            n = rng.choice([4, 5, 5, 6, 6, 7, 7])
            lo, hi = rng.choice([(0, 1), (0, 1), (0, 2), (0, 3), (-2, 2), (-2, 4), (1, 5)])
            v = [rng.randint(lo, hi) for _ in range(n * n)]
            if rng.random() < 0.15:
                # a cheap column that every row wants
                j = rng.randrange(n)
                for r in range(n):
                    v[r * n + j] = lo - 1
            ops.append("lap %d %d %s" % (n, n, " ".join(hx(x) for x in v)))
        cases.append([case_line(rng, "lapdeg%d" % i)] + ops)
    # nearly tied costs: small integers plus a few multiples of a tiny quantum.  The augmenting row
    # reduction then lowers a column price by the quantum per re-assignment (a "price war"): before
    # the repair recorded in findings/C04.json the routine needed ~ range/quantum steps (did not
    # return for quantum = 2^-52); now the chain is cut after dim scans per free row.
    for i in range(40 if tier == "thorough" else 10):
        ops = []
        for _ in range(12):
            n = rng.choice([3, 4, 4, 5, 6, 7])
            q = rng.choice([2.0 ** -52, 2.0 ** -51, 2.0 ** -40, 2.0 ** -20, 2.0 ** -8, 0.25])
            hi = rng.choice([1, 2, 3])
            v = [float(rng.randint(0, hi)) + (q * rng.randint(0, 5) if rng.random() < 0.3 else 0.0) for _ in range(n * n)]
            ops.append("lap %d %d %s" % (n, n, " ".join(hx(x) for x in v)))
        cases.append([case_line(rng, "lapwar%d" % i)] + ops)
    # costs that are not finite numbers (NaN, +-inf, alone and mixed with finite ones: the routine must
    # raise) and finite costs near the largest double (the reduced costs overflow: known finding
    # C04-lap-overflow - the routine must still return, without touching memory outside its vectors)
    for i in range(24 if tier == "thorough" else 6):
        ops = []
        for _ in range(10):
            n = rng.choice([1, 2, 3, 3, 4, 5, 6])
            if rng.random() < 0.6:
                pool = [float("inf"), float("inf"), float("-inf"), float("nan"), 0.0, 1.0, 2.0, 3.0, -1.0]
                v = [rng.choice(pool) for _ in range(n * n)]
            else:
                pool = [1e308, -1e308, 5e307, -5e307, 1.7e308, 0.0, 1.0, 3.0, -2.0]
                v = [rng.choice(pool) for _ in range(n * n)]
            ops.append("lap %d %d %s" % (n, n, " ".join(hx(x) for x in v)))
        cases.append([case_line(rng, "lapnf%d" % i)] + ops)
    # larger problems (no brute force beyond 7x7: the certificate alone is evaluated)
    for i in range(12 if tier == "thorough" else 3):
        ops = []
        for _ in range(6):
            n = rng.choice([8, 9, 10, 12, 14])
            if rng.random() < 0.6:
                lo, hi = rng.choice([(0, 1), (0, 3), (-2, 4), (0, 20)])
                v = [float(rng.randint(lo, hi)) for _ in range(n * n)]
            else:
                v = [rng.uniform(-5, 5) for _ in range(n * n)]
            ops.append("lap %d %d %s" % (n, n, " ".join(hx(x) for x in v)))
        cases.append([case_line(rng, "lapbig%d" % i)] + ops)
    # ---- random -------------------------------------------------------------------------------
    for cidx in range(N):
        f = rng.random()
        if f < 0.08:
            cases.append(store_case(rng, "store%d" % cidx))
            continue
        if f < 0.12:
            # IEEE special values (signed zeros, infinities, NaN): only the bit-exact tie with the Float
            # instantiation is judged (the theorems are about real numbers)
            ops = []
            for _ in range(rng.randint(3, 6)):
                k = rng.choice(["whichmax", "whichmin", "max", "min", "sum", "transpose", "copy", "issym", "scale", "mult", "add", "had", "fill"])
                r, c = dim(rng, 4), dim(rng, 4)
                if k in ("mult",):
                    n = dim(rng, 4)
                    ops.append("mult %s %s" % (mat(rng, r, n, "special"), mat(rng, n, c, "special")))
                elif k in ("add", "had"):
                    ops.append("%s %s %s" % (k, mat(rng, r, c, "special"), mat(rng, r, c, "special")))
                elif k == "scale":
                    ops.append("scale %s %s %s" % (mat(rng, r, c, "special"), hx(rng.choice([1.0, 1.0, -1.0, 2.0])), hx(rng.choice([0.0, 0.0, -0.0, 1.0]))))
                elif k == "fill":
                    ops.append("fill %s %s" % (mat(rng, r, c, "special"), hx(-0.0)))
                else:
                    ops.append("%s %s" % (k, mat(rng, r, c, "special")))
            cases.append([case_line(rng, "special%d" % cidx)] + ops)
            continue
        integer = rng.random() < 0.6
        ops = [one_op(rng, integer) for _ in range(rng.randint(3, 7))]
        cases.append([case_line(rng, ("int%d" if integer else "real%d") % cidx)] + ops)
    return with_vector_lengths(rng, cases)


def with_vector_lengths(rng, cases):
    """about a third of the lap calls get output vectors of other lengths than dim (0, shorter,
    longer, mixed): `lapv <|rowSol|> <|colSol|> <|u|> <|v|> M`"""
    for c in cases:
        for k in range(1, len(c)):
            t = c[k].split()
            if t[0] == "lap" and len(t) >= 3 and rng.random() < 0.33:
                n = int(t[1])
                pick = lambda: rng.choice([0, 0, max(n - 1, 0), n, n, n + 1, n + 3, 1])
                if rng.random() < 0.3:
                    l = rng.choice([0, max(n - 1, 0), n + 2]); lens = [l] * 4
                else:
                    lens = [pick() for _ in range(4)]
                c[k] = "lapv %d %d %d %d %s" % (lens[0], lens[1], lens[2], lens[3], " ".join(t[1:]))
    return cases


def compare(op_line, impl, model):
    m = model.strip()
    if m == "ub":
        return impl.startswith("crash") or impl.startswith("hang")
    if m == "hang":
        # lap: a loop of the transcription ran out of fuel
        return impl.startswith("hang")
    if m == "inf":
        # lap: the sentinel +inf entered the arithmetic (reduced costs overflowed; outside the number
        # domain of the model): the implementation must still answer
        return not (impl.startswith("crash") or impl.startswith("hang") or impl.startswith("short"))
    return " ".join(impl.split()) == " ".join(m.split())


def coverage_extra(cases, answers):
    shapes, kinds, lapn = {}, {}, {}
    nonconf = crashed = integer_cases = real_cases = lapv_lengths = 0
    for c, a in zip(cases, answers):
        head = c[0].split()
        kinds["/".join(head[2:5])] = kinds.get("/".join(head[2:5]), 0) + 1
        if head[1].startswith("int"):
            integer_cases += 1
        if head[1].startswith("real"):
            real_cases += 1
        for l, r in zip(c[1:], a or []):
            t = l.split()
            if r == "exc:dimension":
                nonconf += 1
            if r.startswith("crash"):
                crashed += 1
            if t[0] == "lapv":
                lapv_lengths += 1
                t = ["lap"] + t[5:]
            if t[0] == "lap" and len(t) > 2:
                lapn[t[1] + "x" + t[2]] = lapn.get(t[1] + "x" + t[2], 0) + 1
            elif len(t) > 2 and t[1].isdigit() and t[2].isdigit() and not t[0].startswith("m"):
                key = t[1] + "x" + t[2]
                shapes[key] = shapes.get(key, 0) + 1
    lap_transcribed = 0
    for c, a in zip(cases, answers):
        for l, r in zip(c[1:], a or []):
            if l.startswith(("lap ", "lapv ")) and r.startswith("cost "):
                t = l.split()
                if t[0] == "lapv":
                    t = ["lap"] + t[5:]
                n = int(t[1])
                if n == int(t[2]) and n >= 1:
                    import struct as _s
                    vals = [_s.unpack(">d", bytes.fromhex(x))[0] for x in t[3:]]
                    im = [min(range(n), key=lambda i: (vals[i * n + j], i)) for j in range(n)]
                    if len(set(im)) == n:
                        lap_transcribed += 1
    lap_compared = sum(1 for c, a in zip(cases, answers) for l, r in zip(c[1:], a or []) if l.startswith(("lap ", "lapv ")) and r.startswith("cost "))
    return {"lap_answers_compared_bit_for_bit": lap_compared, "lap_inputs_without_free_row_after_column_reduction": lap_transcribed, "first_operand_shapes": dict(sorted(shapes.items())), "storage_triples_used": len(kinds),
            "storage_triples": dict(sorted(kinds.items())), "lap_sizes": dict(sorted(lapn.items())), "lap_calls_with_output_vectors_of_other_lengths": lapv_lengths,
            "dimension_errors_raised": nonconf, "aborted_on_contract_violation": crashed,
            "integer_cases": integer_cases, "real_cases": real_cases}
