"""Script generator for C15 (TreeGraphImpl on GlobalGraph)."""
import random, itertools


def build(parents, order=None):
    """createNode x n, then link parent -> child for every non-root node (in the given order)"""
    n = len(parents) + 1
    ops = ["t.createNode"] * n
    idx = list(range(1, n)) if order is None else order
    for i in idx:
        ops.append("t.link %d %d" % (parents[i - 1], i))
    return ops


def queries_all(n, pairs=True):
    """every structural query; the ones hit by recorded findings (leavesUnder, mrca) come last, because
    the check stops judging a case at its first (known) failure"""
    ops = ["t.valid"]
    for a in range(n):
        ops += ["t.qn %d" % a, "t.subN %d" % a, "t.subE %d" % a]
    if pairs:
        for a in range(n):
            for b in range(n):
                ops += ["t.path %d %d 1" % (a, b), "t.epath %d %d" % (a, b)]
    for a in range(n):
        ops.append("t.leavesUnder %d" % a)
    if pairs:
        for a in range(n):
            for b in range(n):
                ops.append("t.mrca %d %d" % (a, b))
    return ops


def all_parent_vectors(n):
    """increasing labelled rooted trees on n nodes: parent of i is any j < i"""
    return itertools.product(*[range(i) for i in range(1, n)])


def random_tree(rng, n):
    """random labelled rooted tree on 0..n-1 rooted at a random node: parents given after a random relabelling"""
    perm = list(range(n)); rng.shuffle(perm)
    par = {}
    for i in range(1, n):
        par[perm[i]] = perm[rng.randrange(i)]
    return perm[0], par


def generate(seed, tier):
    rng = random.Random(seed)
    cases = []
    k = 0
    # 1. all increasing tree shapes: every structural query, every pair; then every re-rooting
    nmax = 6 if tier == "thorough" else 5
    for n in range(1, nmax + 1):
        for pv in all_parent_vectors(n):
            cases.append(["case shape%d dir" % k] + build(list(pv)) + queries_all(n, pairs=(n <= 5)))
            k += 1
            for r in range(n):
                ops = build(list(pv)) + ["t.valid", "t.rootAt %d" % r, "t.valid"]
                for a in range(n):
                    ops.append("t.qn %d" % a)
                for a in range(min(n, 4)):
                    ops += ["t.path %d %d 1" % (a, r), "t.epath %d %d" % (r, a)]
                # a second re-rooting of the still rooted tree, then (recorded finding: unrooted re-rooting) un-root and re-root
                ops += ["t.rootAt %d" % ((r + 1) % n), "t.valid", "t.qn %d" % r]
                for a in range(min(n, 4)):
                    ops.append("t.mrca %d %d" % (a, r))
                if n >= 3:
                    ops.append("t.mrca 0 1 2")
                ops += ["t.unRoot 0", "t.valid", "t.rootAt %d" % r, "t.valid", "t.qn %d" % r]
                cases.append(["case root%d dir" % k] + ops)
                k += 1
    # 2. random trees up to 12 nodes with arbitrary labels: queries on random pairs / subsets, re-rootings
    nrand = 3000 if tier == "thorough" else 400
    for i in range(nrand):
        n = rng.randint(2, 12)
        root, par = random_tree(rng, n)
        ops = ["t.createNode"] * n
        kids = list(par); rng.shuffle(kids)
        for c in kids:
            ops.append("t.link %d %d" % (par[c], c))
        ops += ["t.setRoot %d" % root, "t.valid"]
        for _ in range(12):
            r = rng.random()
            a, b = rng.randrange(n), rng.randrange(n)
            if r < 0.25:
                ops.append("t.mrca " + " ".join(str(rng.randrange(n)) for _ in range(rng.randint(1, 4))))
            elif r < 0.45:
                ops.append("t.path %d %d %d" % (a, b, rng.randint(0, 1)))
            elif r < 0.55:
                ops.append("t.epath %d %d" % (a, b))
            elif r < 0.7:
                ops.append("t.qn %d" % a)
            elif r < 0.8:
                ops.append(rng.choice(["t.leavesUnder %d", "t.subN %d", "t.subE %d"]) % a)
            else:
                ops += ["t.rootAt %d" % a, "t.valid"]
        cases.append(["case rnd%d dir" % i] + ops)
    # 3. histories mixing topology edits with validity and structural queries (stale cache must show)
    nhist = 6000 if tier == "thorough" else 1200
    for i in range(nhist):
        directed = rng.random() < 0.8
        n0 = rng.randint(1, 5)
        ops = ["t.createNode"] * n0
        nn = n0
        L = rng.randint(4, 30)
        while len(ops) < L:
            r = rng.random()
            a, b = rng.randint(0, nn), rng.randint(0, nn)
            if r < 0.08 and nn < 8:
                ops.append("t.createNode"); nn += 1
            elif r < 0.22:
                ops.append("t.addSon %d %d" % (a, b))
            elif r < 0.34:
                ops.append("t.setFather %d %d" % (a, b))
            elif r < 0.42:
                ops.append("t.removeSon %d %d" % (a, b))
            elif r < 0.47:
                ops.append("t.deleteNode %d" % a)
            elif r < 0.55:
                ops.append("t.rootAt %d" % a)
            elif r < 0.59:
                ops.append("t.unRoot %d" % rng.randint(0, 1))
            elif r < 0.64:
                ops.append("t.setRoot %d" % a)
            elif r < 0.67:
                ops.append(rng.choice(["t.makeDirected", "t.makeUndirected"]))
            elif r < 0.70:
                ops.append("t.link %d %d" % (a, b))
            elif r < 0.73:
                ops.append("t.unlink %d %d" % (a, b))
            elif r < 0.88:
                ops.append("t.valid")
            elif r < 0.93:
                ops.append("t.qn %d" % a)
            elif r < 0.96:
                ops.append("t.mrca %d %d" % (a, b))
            elif r < 0.98:
                ops.append("t.path %d %d %d" % (a, b, rng.randint(0, 1)))
            else:
                ops.append(rng.choice(["t.leavesUnder %d", "t.subN %d", "t.subE %d"]) % a)
        ops.append("t.valid")
        cases.append(["case hist%d %s" % (i, "dir" if directed else "undir")] + ops)
    return cases


def coverage_extra(cases, answers):
    kinds = {}
    for c in cases:
        k = c[0].split()[1].rstrip("0123456789")
        kinds[k] = kinds.get(k, 0) + 1
    valid = sum(1 for a in answers for x in a if x.startswith("1 ;"))
    return {"case_kinds": kinds, "validity_queries_answering_true": valid}
