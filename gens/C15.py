"""Script generator for C15 (TreeGraphImpl on GlobalGraph)."""
import random, itertools


def build(parents, order=None):
    """createNode x n, then link parent -> child for every non-root node (in the given order)"""
    n = len(parents) + 1
    ops = ["t.createNode"] * n
    idx = list(range(1, n)) if order is None else order
    for i in idx:
        ops.append("t.link %d %d" % (parents[i - 1], i))
    return ops


def queries_all(n, pairs=True):
    """every structural query"""
    ops = ["t.valid"]
    for a in range(n):
        ops += ["t.qn %d" % a, "t.subN %d" % a, "t.subE %d" % a]
    if pairs:
        for a in range(n):
            for b in range(n):
                ops += ["t.path %d %d 1" % (a, b), "t.epath %d %d" % (a, b)]
    for a in range(n):
        ops.append("t.leavesUnder %d" % a)
    if pairs:
        for a in range(n):
            for b in range(n):
                ops.append("t.mrca %d %d" % (a, b))
    return ops


def all_parent_vectors(n):
    """increasing labelled rooted trees on n nodes: parent of i is any j < i"""
    return itertools.product(*[range(i) for i in range(1, n)])


def random_tree(rng, n):
    """random labelled rooted tree on 0..n-1 rooted at a random node: parents given after a random relabelling"""
    perm = list(range(n)); rng.shuffle(perm)
    par = {}
    for i in range(1, n):
        par[perm[i]] = perm[rng.randrange(i)]
    return perm[0], par


def generate(seed, tier):
    rng = random.Random(seed)
    cases = []
    k = 0
    # 1. all increasing tree shapes: every structural query, every pair; then every re-rooting
    nmax = 7 if tier == "thorough" else 5
    for n in range(1, nmax + 1):
        for pv in all_parent_vectors(n):
            cases.append(["case shape%d dir" % k] + build(list(pv)) + queries_all(n, pairs=(n <= 5)))
            k += 1
            for r in range(n):
                ops = build(list(pv)) + ["t.valid", "t.rootAt %d" % r, "t.valid"]
                for a in range(n):
                    ops.append("t.qn %d" % a)
                for a in range(min(n, 4)):
                    ops += ["t.path %d %d 1" % (a, r), "t.epath %d %d" % (r, a)]
                # a second re-rooting of the still rooted tree, then un-root and re-root
                ops += ["t.rootAt %d" % ((r + 1) % n), "t.valid", "t.qn %d" % r]
                for a in range(min(n, 4)):
                    ops.append("t.mrca %d %d" % (a, r))
                if n >= 3:
                    ops.append("t.mrca 0 1 2")
                ops += ["t.unRoot 0", "t.valid", "t.rootAt %d" % r, "t.valid", "t.qn %d" % r]
                for a in range(n):
                    ops.append("t.qn %d" % a)
                ops += ["t.subN %d" % r, "t.leavesUnder %d" % r]
                cases.append(["case root%d dir" % k] + ops)
                k += 1
            # the same shape built unrooted with the relations given in a shuffled order and direction, rooted at every node
            if n >= 2:
                for r in range(n):
                    ops = ["t.createNode"] * n
                    idx = list(range(1, n)); rng.shuffle(idx)
                    for i in idx:
                        a, b = pv[i - 1], i
                        if rng.random() < 0.5:
                            a, b = b, a
                        ops.append("t.link %d %d" % (a, b))
                    ops += ["t.setRoot %d" % rng.randrange(n), "t.valid"]
                    # the queries that need a rooted tree refuse the (valid) unrooted one
                    a, b = rng.randrange(n), rng.randrange(n)
                    ops += ["t.leavesUnder %d" % r, "t.path %d %d %d" % (a, b, rng.randint(0, 1)), "t.epath %d %d" % (b, a),
                            "t.mrca %d %d" % (a, b), "t.mrca %d" % a, "t.subN %d" % a, "t.subE %d" % b, "t.leavesUnder %d" % a]
                    ops += ["t.rootAt %d" % r, "t.valid"]
                    for a in range(n):
                        ops.append("t.qn %d" % a)
                    ops += ["t.subN %d" % r, "t.subE %d" % r, "t.leavesUnder %d" % r]
                    cases.append(["case uroot%d undir" % k] + ops)
                    k += 1
    # 2. random trees up to 12 nodes with arbitrary labels: queries on random pairs / subsets, re-rootings
    nrand = 3000 if tier == "thorough" else 400
    for i in range(nrand):
        n = rng.randint(2, 12)
        root, par = random_tree(rng, n)
        ops = ["t.createNode"] * n
        kids = list(par); rng.shuffle(kids)
        for c in kids:
            ops.append("t.link %d %d" % (par[c], c))
        ops += ["t.setRoot %d" % root, "t.valid"]
        if i % 4 == 3:
            ops += ["t.unRoot 0", "t.valid", "t.rootAt %d" % rng.randrange(n), "t.valid"]
        for _ in range(12):
            r = rng.random()
            a, b = rng.randrange(n), rng.randrange(n)
            if r < 0.25:
                ops.append("t.mrca " + " ".join(str(rng.randrange(n)) for _ in range(rng.randint(1, 4))))
            elif r < 0.45:
                ops.append("t.path %d %d %d" % (a, b, rng.randint(0, 1)))
            elif r < 0.55:
                ops.append("t.epath %d %d" % (a, b))
            elif r < 0.7:
                ops.append("t.qn %d" % a)
            elif r < 0.8:
                ops.append(rng.choice(["t.leavesUnder %d", "t.subN %d", "t.subE %d"]) % a)
            else:
                ops += ["t.rootAt %d" % a, "t.valid"]
        if i % 5 == 0:
            # setOutGroup on a valid rooted tree (it deletes the root first and cannot succeed: see BppModel/Tree.lean)
            ops += ["t.valid", "t.setOutGroup %d" % rng.randrange(n), "t.valid"]
        cases.append(["case rnd%d dir" % i] + ops)
    # 3. histories mixing topology edits with validity and structural queries (stale cache must show)
    nhist = 6000 if tier == "thorough" else 1200
    for i in range(nhist):
        directed = rng.random() < 0.8
        n0 = rng.randint(1, 5)
        ops = ["t.createNode"] * n0
        nn = n0
        L = rng.randint(4, 30)
        while len(ops) < L:
            r = rng.random()
            a, b = rng.randint(0, nn), rng.randint(0, nn)
            if r < 0.025 and i % 3 == 0:
                # another container: copy construction / assignment / assignment through the GlobalGraph base, change of container
                j, k2 = rng.randint(0, 2), rng.randint(0, 2)
                ops.append(rng.choice(["h.copy %d %d" % (j, k2), "h.copy %d %d" % (j, k2), "h.assign %d %d" % (j, k2),
                                       "h.gassign %d %d" % (j, k2), "h.sel %d" % k2]))
                ops.append("t.valid" if rng.random() < 0.5 else "h.sel %d" % rng.randint(0, 2))
            elif r < 0.08 and nn < 8:
                ops.append("t.createNode"); nn += 1
            elif r < 0.22:
                ops.append("t.addSon %d %d" % (a, b))
            elif r < 0.34:
                ops.append("t.setFather %d %d" % (a, b))
            elif r < 0.40:
                ops.append("t.removeSon %d %d" % (a, b))
            elif r < 0.42:
                ops.append(rng.choice(["t.removeSons %d" % a, "t.setFatherE %d %d %d" % (a, b, rng.randint(0, 12)),
                                       "t.addSonE %d %d %d" % (a, b, rng.randint(0, 12))]))
            elif r < 0.47:
                ops.append("t.deleteNode %d" % a)
            elif r < 0.55:
                ops.append("t.rootAt %d" % a)
            elif r < 0.585:
                ops.append("t.unRoot %d" % rng.randint(0, 1))
            elif r < 0.59:
                ops.append("t.setOutGroup %d" % a)
            elif r < 0.64:
                ops.append("t.setRoot %d" % a)
            elif r < 0.67:
                ops.append(rng.choice(["t.makeDirected", "t.makeUndirected"]))
            elif r < 0.685:
                ops.append("t.link %d %d" % (a, b))
            elif r < 0.70:
                # the other public mutators inherited from GlobalGraph
                ops.append(rng.choice(["t.createNodeFromNode %d" % a, "t.createNodeOnEdge %d" % rng.randint(0, 8),
                                       "t.createNodeFromEdge %d" % rng.randint(0, 8), "t.orientate"]))
                if ops[-1] != "t.orientate":
                    nn = min(nn + 2, 10)
            elif r < 0.73:
                ops.append("t.unlink %d %d" % (a, b))
            elif r < 0.88:
                ops.append("t.valid")
            elif r < 0.93:
                ops.append("t.qn %d" % a)
            elif r < 0.96:
                ops.append("t.mrca %d %d" % (a, b))
            elif r < 0.98:
                ops.append("t.path %d %d %d" % (a, b, rng.randint(0, 1)))
            else:
                ops.append(rng.choice(["t.leavesUnder %d", "t.subN %d", "t.subE %d"]) % a)
        ops.append("t.valid")
        cases.append(["case hist%d %s" % (i, "dir" if directed else "undir")] + ops)
    cases += copy_cases(rng, tier)
    cases += dag_cases(rng, tier)
    cases += obs_cases(rng, tier)
    cases += dagobs_cases(rng, tier)
    return cases


def dagobs_cases(rng, tier):
    """the DAG observer: node objects 0..n-1, edge objects; a random DAG (sometimes closed into a cycle) built through
    addFather / addSon / link with and without edge objects (fresh, attached elsewhere, none); removals, re-rootings,
    copies of the observer (copy constructor, clone, operator=), validity / rootedness queries in between"""
    cases = []
    nobs = 1200 if tier == "thorough" else 500
    for i in range(nobs):
        n = rng.randint(1, 6)
        ops = ["w.createNode %d" % a for a in range(n)]
        free_obj = list(range(12)); rng.shuffle(free_obj)
        def obj():
            r = rng.random()
            if r < 0.2:
                return "-"
            if r < 0.8 and free_obj:
                return str(free_obj.pop())
            return str(rng.randrange(12))
        perm = list(range(n)); rng.shuffle(perm)
        for _ in range(rng.randint(0, 2 * n)):
            a, b = rng.randrange(n), rng.randrange(n)
            if rng.random() < 0.85 and a != b:
                # along a topological order: no cycle
                if perm.index(a) > perm.index(b):
                    a, b = b, a
            w = rng.random()
            if w < 0.4:
                ops.append("w.addSon %d %d %s" % (a, b, obj()))
            elif w < 0.8:
                ops.append("w.addFather %d %d %s" % (b, a, obj()))
            else:
                ops.append("w.link %d %d %s" % (a, b, obj()))
        ops += ["w.valid", "w.rooted"]
        for _ in range(rng.randint(3, 14)):
            r = rng.random()
            a, b = rng.randint(0, n), rng.randint(0, n)
            if r < 0.14:
                ops.append("w.addSon %d %d %s" % (a, b, obj()))
            elif r < 0.28:
                ops.append("w.addFather %d %d %s" % (a, b, obj()))
            elif r < 0.36:
                ops.append(rng.choice(["w.removeSon %d %d", "w.removeFather %d %d", "w.unlink %d %d"]) % (a, b))
            elif r < 0.42:
                ops.append(rng.choice(["w.removeSons %d", "w.removeFathers %d"]) % a)
            elif r < 0.46:
                ops.append("w.deleteNode %d" % a)
            elif r < 0.58:
                ops += ["w.rootAt %d" % a, "w.rooted", "w.valid"]
            elif r < 0.66 and i % 2 == 0:
                j, k2 = rng.randint(0, 2), rng.randint(0, 2)
                ops.append(rng.choice(["w.copy %d %d" % (j, k2), "w.clone %d %d" % (j, k2), "w.assign %d %d" % (j, k2)]))
                ops += ["w.sel %d" % rng.randint(0, 2), "w.qn %d" % a]
            elif r < 0.76:
                ops.append(rng.choice(["w.valid", "w.rooted"]))
            elif r < 0.86:
                ops.append("w.qn %d" % a)
            elif r < 0.90:
                ops.append("w.qe %d" % rng.randrange(12))
            elif r < 0.91:
                ops.append("w.setRoot %d" % a)
            elif r < 0.94:
                ops.append("w.qi %d %d" % (a, rng.randrange(12)))
            else:
                ops.append("w.below %d" % a)
        ops += ["w.valid", "w.rooted", "w.below %d" % rng.randrange(n)]
        cases.append(["case dagobs%d obsdag" % i] + ops)
    return cases


def copy_cases(rng, tier):
    """copies of the tree container: a tree (valid or with one relation too many, cache written or not) is copied /
    assigned / assigned through the GlobalGraph base into another container; then one of the two is edited and both
    are queried: the other one must not move, the cached validity of each must stay sound"""
    cases = []
    ncopy = 1500 if tier == "thorough" else 600
    for i in range(ncopy):
        directed = rng.random() < 0.75
        n = rng.randint(1, 6)
        root, par = random_tree(rng, n)
        ops = ["t.createNode"] * n
        kids = list(par); rng.shuffle(kids)
        for c in kids:
            ops.append("t.link %d %d" % (par[c], c))
        ops.append("t.setRoot %d" % root)
        if rng.random() < 0.3 and n >= 2:
            ops.append("t.link %d %d" % (rng.randrange(n), rng.randrange(n)))
        if rng.random() < 0.7:
            ops.append("t.valid")
        how = rng.choice(["copy", "copy", "assign", "gassign"])
        if how == "copy":
            ops.append("h.copy 0 1")
        else:
            # the target exists already, with a content and a cache of its own
            ops += ["h.copy 0 1", "h.sel 1"]
            ops += ["t.deleteNode %d" % rng.randrange(n), "t.createNode", "t.addSon %d %d" % (rng.randrange(n + 1), rng.randrange(n + 1))]
            if rng.random() < 0.6:
                ops.append("t.valid")
            ops.append("h.sel 0")
            j, k2 = (0, 1) if rng.random() < 0.6 else (1, 0)
            ops.append("h.%s %d %d" % (how, j, k2))
            if rng.random() < 0.15:
                ops.append("h.%s %d %d" % (how, k2, k2))   # onto itself
        ops.append("t.valid")
        ops += ["h.sel 1", "t.valid", "h.sel %d" % rng.randint(0, 1)]
        # edit one container, look at both
        for _ in range(rng.randint(1, 5)):
            a, b = rng.randint(0, n), rng.randint(0, n)
            ops.append(rng.choice(["t.addSon %d %d" % (a, b), "t.setFather %d %d" % (a, b), "t.removeSon %d %d" % (a, b),
                                   "t.deleteNode %d" % a, "t.rootAt %d" % a, "t.createNode", "t.unRoot 0", "t.setRoot %d" % a,
                                   "t.link %d %d" % (a, b), "t.unlink %d %d" % (a, b)]))
            if rng.random() < 0.5:
                ops.append("t.valid")
        ops += ["t.valid", "h.sel 0", "t.valid", "t.qn 0", "h.sel 1", "t.valid", "t.qn 0"]
        if rng.random() < 0.3:
            ops += ["h.copy 1 2", "h.sel 2", "t.valid", "t.rootAt %d" % rng.randrange(n), "t.valid", "h.sel 1", "t.valid"]
        cases.append(["case copy%d %s" % (i, "dir" if directed else "undir")] + ops)
    return cases


def dag_queries(rng, n, full):
    ops = ["d.valid", "d.rooted"]
    nodes = range(n) if full else rng.sample(range(n), min(n, 2))
    for a in nodes:
        ops += ["d.qn %d" % a, "d.belowN %d" % a, "d.belowE %d" % a, "d.leavesUnder %d" % a]
    return ops


def dag_cases(rng, tier):
    """every DAG on n nodes is isomorphic to one whose relations go from a lower to a higher node: all
    subsets of the n(n-1)/2 forward relations (n <= 4 quick, n <= 6 thorough), linked in a shuffled order,
    queried, then closed into a cycle by one backward relation and queried again; random graphs;
    histories mixing DAG edits with validity / rootedness queries"""
    cases = []
    k = 0
    nmax = 6 if tier == "thorough" else 4
    for n in range(0, nmax + 1):
        pairs = [(a, b) for a in range(n) for b in range(a + 1, n)]
        for mask in range(1 << len(pairs)):
            es = [p for i, p in enumerate(pairs) if mask >> i & 1]
            rng.shuffle(es)
            ops = ["d.createNode"] * n
            for (a, b) in es:
                ops.append(rng.choice(["d.addSon %d %d", "d.link %d %d"]) % (a, b) if rng.random() < 0.7 else "d.addFather %d %d" % (b, a))
            ops += dag_queries(rng, n, n <= 4)
            if n >= 1 and (n <= 3 or (n == 4 and mask % 2 == 0) or mask % 11 == 0):
                # re-root at a node (the others: a case each below), ask again; then a second re-rooting
                r = rng.randrange(n)
                ops += ["d.rootAt %d" % r, "d.valid", "d.rooted", "d.qn %d" % r, "d.rootAt %d" % rng.randrange(n + 1), "d.rooted", "d.valid"]
            if es and (n <= 4 or mask % 7 == 0):
                # a backward relation along an existing path makes a cycle; elsewhere it may not
                a, b = rng.choice(es)
                ops += ["d.addSon %d %d" % (b, a), "d.valid", "d.rooted", "d.removeSon %d %d" % (b, a), "d.valid"]
            cases.append(["case dagall%d dag" % k] + ops)
            k += 1
            # closing edits over ALL ordered pairs that are not yet related (not only the reciprocal of a relation): a backward
            # relation b -> a closes a cycle exactly when a reaches b — cycles of every length; n <= 4 every pair, beyond a sample
            related = set(es)
            closing = [(b, a) for a in range(n) for b in range(a + 1, n) if (a, b) not in related]
            if n >= 3 and closing:
                if n > 4:
                    closing = rng.sample(closing, 1) if mask % 5 == 0 else []
                for (b, a) in closing:
                    ops = ["d.createNode"] * n
                    for (x, y) in es:
                        ops.append("d.addSon %d %d" % (x, y))
                    if rng.random() < 0.5:
                        ops.append("d.valid")
                    ops += [rng.choice(["d.addSon %d %d" % (b, a), "d.addFather %d %d" % (a, b)]), "d.valid", "d.rooted", "d.leavesUnder %d" % a,
                            "d.belowN %d" % b, "d.rootAt %d" % a, "d.valid", "d.rooted"]
                    cases.append(["case dagclose%d dag" % k] + ops)
                    k += 1
            if 1 <= n <= 4:
                # every node as the new root, with the caches written before or not; the relations given either way round
                for r in range(n):
                    ops = ["d.createNode"] * n
                    for (a, b) in es:
                        if rng.random() < 0.25:
                            a, b = b, a
                        ops.append("d.addSon %d %d" % (a, b))
                    if rng.random() < 0.5:
                        ops += ["d.valid", "d.rooted"]
                    ops += ["d.rootAt %d" % r, "d.rooted", "d.valid"]
                    for a in range(n):
                        ops.append("d.qn %d" % a)
                    ops += ["d.leavesUnder %d" % r, "d.belowN %d" % r]
                    cases.append(["case dagroot%d dag" % k] + ops)
                    k += 1
    nrand = 1500 if tier == "thorough" else 250
    for i in range(nrand):
        n = rng.randint(1, 7)
        ops = ["d.createNode"] * n
        nn = n
        L = rng.randint(4, 28)
        while len(ops) < L:
            r = rng.random()
            a, b = rng.randint(0, nn), rng.randint(0, nn)
            if r < 0.06 and nn < 8:
                ops.append("d.createNode"); nn += 1
            elif r < 0.30:
                ops.append("d.addSon %d %d" % (a, b))
            elif r < 0.40:
                ops.append("d.addFather %d %d" % (a, b))
            elif r < 0.44:
                ops.append(rng.choice(["d.addSonE %d %d %d", "d.addFatherE %d %d %d", "d.linkE %d %d %d"]) % (a, b, rng.randint(0, 12)))
            elif r < 0.50:
                ops.append("d.removeSon %d %d" % (a, b))
            elif r < 0.56:
                ops.append("d.removeFather %d %d" % (a, b))
            elif r < 0.59:
                ops.append(rng.choice(["d.removeSons %d", "d.removeFathers %d"]) % a)
            elif r < 0.63:
                ops.append("d.deleteNode %d" % a)
            elif r < 0.66:
                ops.append(rng.choice(["d.link %d %d", "d.unlink %d %d"]) % (a, b))
            elif r < 0.68:
                ops.append("d.setRoot %d" % a)
            elif r < 0.73:
                ops.append("d.rootAt %d" % a)
            elif r < 0.75 and i % 2 == 0:
                j, k2 = rng.randint(0, 2), rng.randint(0, 2)
                ops.append(rng.choice(["h.copy %d %d" % (j, k2), "h.assign %d %d" % (j, k2), "h.gassign %d %d" % (j, k2), "h.sel %d" % k2]))
            elif r < 0.80:
                ops.append("d.valid")
            elif r < 0.90:
                ops.append("d.rooted")
            elif r < 0.94:
                ops.append("d.qn %d" % a)
            else:
                ops.append(rng.choice(["d.belowN %d", "d.belowE %d", "d.leavesUnder %d"]) % a)
        ops += ["d.valid", "d.rooted"]
        cases.append(["case daghist%d dag" % i] + ops)
    return cases


def obs_cases(rng, tier):
    """the tree observer: node objects 0..n-1 (labels), edge objects; trees built through createNode / link /
    addSon / setFather with and without edge objects, moved around with setFather (with the object of the
    current branch, a fresh one, one attached elsewhere, none), re-rooted, with validity queries in between"""
    cases = []
    nobs = 1500 if tier == "thorough" else 500
    for i in range(nobs):
        rooted = rng.random() < 0.85
        n = rng.randint(2, 7)
        ops = ["o.createNode %d" % a for a in range(n)]
        free_obj = list(range(12)); rng.shuffle(free_obj)
        def obj():
            r = rng.random()
            if r < 0.15:
                return "-"
            if r < 0.75 and free_obj:
                return str(free_obj.pop())
            return str(rng.randrange(12))
        # a random tree, each branch made by one of the three ways
        perm = list(range(n)); rng.shuffle(perm)
        for j in range(1, n):
            f, s = perm[rng.randrange(j)], perm[j]
            w = rng.random()
            if w < 0.35:
                ops.append("o.addSon %d %d %s" % (f, s, obj()))
            elif w < 0.7:
                ops.append("o.setFather %d %d %s" % (s, f, obj()))
            else:
                ops.append("o.link %d %d %s" % (f, s, obj()))
        # the graph's root is the first node created unless told otherwise: the tree built above hangs from perm[0]
        if rooted:
            if rng.random() < 0.9:
                ops.append("o.setRoot %d" % perm[0])
        elif rng.random() < 0.8:
            ops += ["o.valid", "o.rootAt %d" % perm[0]]
        ops.append("o.valid")
        # the object-level and the index-level queries on the tree as built: every node, a partner each
        for a in rng.sample(range(n), min(n, 3)):
            b = rng.randrange(n)
            ops += ["o.qt %d %d" % (a, b), "o.qi %d %d" % (a, b)]
        L = rng.randint(3, 14)
        for _ in range(L):
            r = rng.random()
            a, b = rng.randint(0, n), rng.randint(0, n)
            if r < 0.40:
                # move a node: often with the object of its current branch (the typical use)
                ops.append("o.qn %d" % a)
                if rng.random() < 0.4:
                    ops.append("o.setFatherCur %d %d" % (a, b))
                else:
                    ops.append("o.setFather %d %d %s" % (a, b, obj()))
                ops.append("o.qp %d %d" % (b, a))
            elif r < 0.52:
                ops.append("o.addSon %d %d %s" % (a, b, obj()))
            elif r < 0.60:
                ops.append("o.unlink %d %d" % (a, b))
            elif r < 0.64:
                ops.append("o.deleteNode %d" % a)
            elif r < 0.70:
                ops += ["o.rootAt %d" % a, "o.valid"]
            elif r < 0.74:
                ops.append(rng.choice(["o.removeSon %d %d" % (a, b), "o.removeSons %d" % a]))
            elif r < 0.80 and i % 2 == 0:
                # a copy of the observer (copy constructor, clone(), operator=) observes the same tree; go on through one of them
                j, k2 = rng.randint(0, 2), rng.randint(0, 2)
                ops.append(rng.choice(["o.copy %d %d" % (j, k2), "o.clone %d %d" % (j, k2), "o.assign %d %d" % (j, k2)]))
                ops += ["o.sel %d" % rng.randint(0, 2), "o.qn %d" % a, "o.qt %d %d" % (a, b)]
            elif r < 0.83:
                ops.append(rng.choice(["o.qt %d %d", "o.qi %d %d"]) % (a, b))
            elif r < 0.84:
                ops.append("o.setRoot %d" % a)
            elif r < 0.86:
                ops.append("o.valid")
            else:
                ops.append("o.qn %d" % a)
        ops += ["o.valid", "o.qt %d %d" % (rng.randrange(n), rng.randrange(n)), "o.qi %d %d" % (rng.randrange(n), rng.randrange(n))]
        cases.append(["case obs%d %s" % (i, "obsdir" if rooted else "obsundir")] + ops)
    return cases


def coverage_extra(cases, answers):
    kinds = {}
    for c in cases:
        k = c[0].split()[1].rstrip("0123456789")
        kinds[k] = kinds.get(k, 0) + 1
    valid = sum(1 for a in answers for x in a if x.startswith("1 ;"))
    # how many of the object-level / index-level tree queries were really answered (the harness answers `notrooted`
    # without calling on a graph that is not a valid rooted tree), and how many DAG closing edits made a cycle
    obj = {"o.qt": [0, 0], "o.qi": [0, 0]}
    cyc = [0, 0]
    for c, a in zip(cases, answers):
        ops = c[1:]
        for i, (o, x) in enumerate(zip(ops, a)):
            name = o.split()[0]
            if name in obj:
                obj[name][1] += 1
                if not x.startswith("notrooted") and not x.startswith("exc:"):
                    obj[name][0] += 1
            if c[0].split()[1].startswith("dagclose") and name == "d.valid" and i > 0 and ops[i - 1].split()[0] in ("d.addSon", "d.addFather") and i >= len(ops) - 8:
                cyc[1] += 1
                if x.startswith("0 ;"):
                    cyc[0] += 1
    return {"case_kinds": kinds, "validity_queries_answering_true": valid,
            "object_level_queries_answered_of_asked": {k: "%d/%d" % tuple(v) for k, v in obj.items()},
            "dag_closing_edits_making_a_cycle_of_tried": "%d/%d" % tuple(cyc)}
