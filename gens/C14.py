"""Script generator for C14 (GlobalGraph + association observer).

Graph-level scripts (`createNode`, `link a b`, ...) act on the GlobalGraph of observer 0;
observer-level scripts (`o.*`) act through the association observer.
A light shadow of the graph (node set, edge triples) is kept only to *bias* the choice of
arguments towards existing items (about a quarter of the operations address absent items and
must raise); it is not an oracle.
"""
import random, itertools


class Shadow:
    def __init__(self, directed):
        self.d = directed
        self.nodes = set()
        self.edges = {}
        self.nn = 0
        self.ne = 0

    def between(self, a, b):
        for e, (x, y) in self.edges.items():
            if (x, y) == (a, b) or (not self.d and (x, y) == (b, a)):
                return e
        return None

    def apply(self, op):
        t = op.split()
        o, a = t[0], [int(x) for x in t[1:]]
        if o == "createNode":
            self.nodes.add(self.nn); self.nn += 1
        elif o == "link":
            if a[0] in self.nodes and a[1] in self.nodes and self.between(a[0], a[1]) is None:
                self.edges[self.ne] = (a[0], a[1]); self.ne += 1
        elif o == "linkE":
            if a[2] not in self.edges and a[0] in self.nodes and a[1] in self.nodes and self.between(a[0], a[1]) is None:
                self.edges[a[2]] = (a[0], a[1]); self.ne = max(self.ne, a[2] + 1)
        elif o == "unlink":
            e = self.between(a[0], a[1])
            if e is not None:
                del self.edges[e]
        elif o == "deleteNode":
            if a[0] in self.nodes:
                self.nodes.discard(a[0])
                self.edges = {e: p for e, p in self.edges.items() if a[0] not in p}
        elif o == "createNodeFromNode":
            if a[0] in self.nodes:
                n = self.nn; self.nodes.add(n); self.nn += 1
                self.edges[self.ne] = (a[0], n); self.ne += 1
        elif o == "createNodeOnEdge":
            if a[0] in self.edges:
                x, y = self.edges.pop(a[0])
                n = self.nn; self.nodes.add(n); self.nn += 1
                self.edges[self.ne] = (x, n); self.ne += 1
                self.edges[self.ne] = (n, y); self.ne += 1
        elif o == "createNodeFromEdge":
            if a[0] in self.edges:
                self.apply("createNodeOnEdge %d" % a[0])
                self.apply("createNodeFromNode %d" % (self.nn - 1))
        elif o == "switchNodes":
            if self.d:
                e = self.between(a[0], a[1])
                r = self.between(a[1], a[0])
                if e is not None and (a[0] == a[1] or r is None):
                    self.edges[e] = (a[1], a[0])
                elif e is None and r is not None:
                    self.edges[r] = (a[0], a[1])
        elif o == "makeDirected":
            if not self.d:
                self.d = True
                self.edges = {e: (min(p), max(p)) for e, p in self.edges.items()}
        elif o == "makeUndirected":
            if self.d:
                seen = set(); rec = False
                for p in self.edges.values():
                    k = (min(p), max(p))
                    rec |= k in seen; seen.add(k)
                if not rec:
                    self.d = False


MAXN = 8


def pick_node(rng, sh, absent=0.25):
    if sh.nodes and rng.random() >= absent:
        return rng.choice(sorted(sh.nodes))
    return rng.randint(0, sh.nn + 1)


def pick_edge(rng, sh, absent=0.25):
    if sh.edges and rng.random() >= absent:
        return rng.choice(sorted(sh.edges))
    return rng.randint(0, sh.ne + 1)


def pick_linked(rng, sh):
    if sh.edges and rng.random() < 0.75:
        a, b = sh.edges[rng.choice(sorted(sh.edges))]
        if rng.random() < 0.3:
            a, b = b, a
        return a, b
    return pick_node(rng, sh), pick_node(rng, sh)


def random_graph_case(rng, i, maxlen=40):
    directed = rng.random() < 0.5
    sh = Shadow(directed)
    ops = []
    L = rng.randint(3, maxlen)
    for _ in range(rng.randint(1, 4)):
        ops.append("createNode"); sh.apply(ops[-1])
    while len(ops) < L:
        r = rng.random()
        if r < 0.10:
            if len(sh.nodes) >= MAXN:
                continue
            op = "createNode"
        elif r < 0.34:
            op = "link %d %d" % (pick_node(rng, sh, 0.12), pick_node(rng, sh, 0.12))
        elif r < 0.45:
            op = "unlink %d %d" % pick_linked(rng, sh)
        elif r < 0.52:
            op = "deleteNode %d" % pick_node(rng, sh)
        elif r < 0.57:
            if len(sh.nodes) >= MAXN:
                continue
            op = "createNodeFromNode %d" % pick_node(rng, sh)
        elif r < 0.61:
            if len(sh.nodes) >= MAXN:
                continue
            op = "createNodeOnEdge %d" % pick_edge(rng, sh)
        elif r < 0.63:
            if len(sh.nodes) >= MAXN - 1:
                continue
            op = "createNodeFromEdge %d" % pick_edge(rng, sh)
        elif r < 0.66:
            e = pick_edge(rng, sh, 0.7) if rng.random() < 0.5 else sh.ne + rng.randint(0, 2)
            op = "linkE %d %d %d" % (pick_node(rng, sh, 0.1), pick_node(rng, sh, 0.1), e)
        elif r < 0.71:
            op = "switchNodes %d %d" % pick_linked(rng, sh)
        elif r < 0.735:
            op = "makeDirected"
        elif r < 0.76:
            op = "makeUndirected"
        elif r < 0.78:
            op = "setRoot %d" % pick_node(rng, sh)
        elif r < 0.86:
            op = "qn %d" % pick_node(rng, sh)
        elif r < 0.90:
            op = "qe %d" % pick_edge(rng, sh)
        elif r < 0.94:
            op = "qp %d %d" % pick_linked(rng, sh)
        elif r < 0.98:
            op = "qg"
        else:
            op = "leavesFrom %d %d" % (pick_node(rng, sh), rng.randint(0, 4))
        ops.append(op); sh.apply(op)
    ops.append("qg")
    for n in sorted(sh.nodes)[:3]:
        ops.append("qn %d" % n)
    return ["case rnd%d %s" % (i, "dir" if directed else "undir")] + ops


def exhaustive_cases(length, nn, tag, alphabet_extra=True):
    """all histories of the given length over nn pre-created nodes"""
    ids = range(nn)
    alpha = ["createNode", "makeDirected", "makeUndirected"]
    alpha += ["link %d %d" % (a, b) for a in ids for b in ids]
    alpha += ["unlink %d %d" % (a, b) for a in ids for b in ids]
    alpha += ["deleteNode %d" % a for a in ids]
    if alphabet_extra:
        alpha += ["switchNodes %d %d" % (a, b) for a in ids for b in ids if a <= b]
        alpha += ["createNodeFromNode 0", "createNodeOnEdge 0", "createNodeFromEdge 1", "linkE 0 1 3", "linkE 1 0 0"]
    tail = ["qg"] + ["qn %d" % a for a in ids] + ["qp 0 1", "qe 0"]
    out = []
    k = 0
    for d in ("dir", "undir"):
        for seq in itertools.product(alpha, repeat=length):
            out.append(["case %s%d %s" % (tag, k, d)] + ["createNode"] * nn + list(seq) + tail)
            k += 1
    return out, len(alpha)


def generate(seed, tier):
    rng = random.Random(seed)
    cases = []
    # 1. exhaustive histories over 2 pre-created nodes (length 3) and 3 nodes (length 2); thorough: length 4 / 3
    if tier == "thorough":
        c, _ = exhaustive_cases(4, 2, "ex2_"); cases += c
        c, _ = exhaustive_cases(3, 3, "ex3_"); cases += c
    else:
        c, _ = exhaustive_cases(3, 2, "ex2_", alphabet_extra=False); cases += c
        c, _ = exhaustive_cases(2, 3, "ex3_"); cases += c
    # 2. random histories up to length 40 over <= 8 nodes
    nrand = 30000 if tier == "thorough" else 2500
    for i in range(nrand):
        cases.append(random_graph_case(rng, i))
    return cases


def coverage_extra(cases, answers):
    """distribution of what was generated: lengths, nodes alive at the end, directedness"""
    lens = {}
    und = 0
    for c in cases:
        n = len(c) - 1
        b = "%d-%d" % (n // 10 * 10, n // 10 * 10 + 9)
        lens[b] = lens.get(b, 0) + 1
        und += c[0].endswith("undir")
    return {"history_length_histogram": lens, "undirected_cases": und, "directed_cases": len(cases) - und}
