"""Script generator for C14 (GlobalGraph + association observer).

Graph-level scripts (`createNode`, `link a b`, ...) act on the GlobalGraph of observer 0;
observer-level scripts (`o.*`) act through the association observer.
A light shadow of the graph (node set, edge triples) is kept only to *bias* the choice of
arguments towards existing items (about a quarter of the operations address absent items and
must raise); it is not an oracle.
"""
import random, itertools


class Shadow:
    def __init__(self, directed):
        self.d = directed
        self.nodes = set()
        self.edges = {}
        self.nn = 0
        self.ne = 0

    def between(self, a, b):
        for e, (x, y) in self.edges.items():
            if (x, y) == (a, b) or (not self.d and (x, y) == (b, a)):
                return e
        return None

    def apply(self, op):
        t = op.split()
        o, a = t[0], [int(x) for x in t[1:]]
        if o == "createNode":
            self.nodes.add(self.nn); self.nn += 1
        elif o == "link":
            if a[0] in self.nodes and a[1] in self.nodes and self.between(a[0], a[1]) is None:
                self.edges[self.ne] = (a[0], a[1]); self.ne += 1
        elif o == "linkE":
            if a[2] not in self.edges and a[0] in self.nodes and a[1] in self.nodes and self.between(a[0], a[1]) is None:
                self.edges[a[2]] = (a[0], a[1]); self.ne = max(self.ne, a[2] + 1)
        elif o == "unlink":
            e = self.between(a[0], a[1])
            if e is not None:
                del self.edges[e]
        elif o == "deleteNode":
            if a[0] in self.nodes:
                self.nodes.discard(a[0])
                self.edges = {e: p for e, p in self.edges.items() if a[0] not in p}
        elif o == "createNodeFromNode":
            if a[0] in self.nodes:
                n = self.nn; self.nodes.add(n); self.nn += 1
                self.edges[self.ne] = (a[0], n); self.ne += 1
        elif o == "createNodeOnEdge":
            if a[0] in self.edges:
                x, y = self.edges.pop(a[0])
                n = self.nn; self.nodes.add(n); self.nn += 1
                self.edges[self.ne] = (x, n); self.ne += 1
                self.edges[self.ne] = (n, y); self.ne += 1
        elif o == "createNodeFromEdge":
            if a[0] in self.edges:
                self.apply("createNodeOnEdge %d" % a[0])
                self.apply("createNodeFromNode %d" % (self.nn - 1))
        elif o == "switchNodes":
            if self.d:
                e = self.between(a[0], a[1])
                r = self.between(a[1], a[0])
                if e is not None and (a[0] == a[1] or r is None):
                    self.edges[e] = (a[1], a[0])
                elif e is None and r is not None:
                    self.edges[r] = (a[0], a[1])
        elif o == "orientate":
            self.d = True      # the directions afterwards are not tracked (the shadow only biases choices)
        elif o == "makeDirected":
            if not self.d:
                self.d = True
                self.edges = {e: (min(p), max(p)) for e, p in self.edges.items()}
        elif o == "makeUndirected":
            if self.d:
                seen = set(); rec = False
                for p in self.edges.values():
                    k = (min(p), max(p))
                    rec |= k in seen; seen.add(k)
                if not rec:
                    self.d = False


MAXN = 8


def pick_node(rng, sh, absent=0.25):
    if sh.nodes and rng.random() >= absent:
        return rng.choice(sorted(sh.nodes))
    return rng.randint(0, sh.nn + 1)


def pick_edge(rng, sh, absent=0.25):
    if sh.edges and rng.random() >= absent:
        return rng.choice(sorted(sh.edges))
    return rng.randint(0, sh.ne + 1)


def pick_linked(rng, sh):
    if sh.edges and rng.random() < 0.75:
        a, b = sh.edges[rng.choice(sorted(sh.edges))]
        if rng.random() < 0.3:
            a, b = b, a
        return a, b
    return pick_node(rng, sh), pick_node(rng, sh)


def random_graph_case(rng, i, maxlen=40):
    directed = rng.random() < 0.5
    sh = Shadow(directed)
    ops = []
    L = rng.randint(3, maxlen)
    for _ in range(rng.randint(1, 4)):
        ops.append("createNode"); sh.apply(ops[-1])
    while len(ops) < L:
        r = rng.random()
        if r < 0.10:
            if len(sh.nodes) >= MAXN:
                continue
            op = "createNode"
        elif r < 0.34:
            op = "link %d %d" % (pick_node(rng, sh, 0.12), pick_node(rng, sh, 0.12))
        elif r < 0.45:
            op = "unlink %d %d" % pick_linked(rng, sh)
        elif r < 0.52:
            op = "deleteNode %d" % pick_node(rng, sh)
        elif r < 0.57:
            if len(sh.nodes) >= MAXN:
                continue
            op = "createNodeFromNode %d" % pick_node(rng, sh)
        elif r < 0.61:
            if len(sh.nodes) >= MAXN:
                continue
            op = "createNodeOnEdge %d" % pick_edge(rng, sh)
        elif r < 0.63:
            if len(sh.nodes) >= MAXN - 1:
                continue
            op = "createNodeFromEdge %d" % pick_edge(rng, sh)
        elif r < 0.66:
            e = pick_edge(rng, sh, 0.7) if rng.random() < 0.5 else sh.ne + rng.randint(0, 2)
            op = "linkE %d %d %d" % (pick_node(rng, sh, 0.1), pick_node(rng, sh, 0.1), e)
        elif r < 0.71:
            op = "switchNodes %d %d" % pick_linked(rng, sh)
        elif r < 0.735:
            op = "makeDirected"
        elif r < 0.76:
            op = "makeUndirected"
        elif r < 0.78:
            op = "setRoot %d" % pick_node(rng, sh)
        elif r < 0.795:
            op = "orientate"
        elif r < 0.86:
            op = "qn %d" % pick_node(rng, sh)
        elif r < 0.90:
            op = "qe %d" % pick_edge(rng, sh)
        elif r < 0.94:
            op = "qp %d %d" % pick_linked(rng, sh)
        elif r < 0.98:
            op = "qg"
        else:
            op = "leavesFrom %d %d" % (pick_node(rng, sh), rng.randint(0, 4))
        ops.append(op); sh.apply(op)
    ops.append("qg")
    for n in sorted(sh.nodes)[:3]:
        ops.append("qn %d" % n)
    return ["case rnd%d %s" % (i, "dir" if directed else "undir")] + ops


class OShadow:
    """rough shadow of one observer: node label -> graph id, edge label -> edge id, indices"""
    def __init__(self):
        self.n = {}
        self.e = {}
        self.ni = {}
        self.ei = {}

    def copy(self):
        c = OShadow()
        c.n, c.e = dict(self.n), dict(self.e)
        c.ni = {k: v for k, v in self.ni.items() if k in self.n}
        c.ei = {k: v for k, v in self.ei.items() if k in self.e}
        return c


NLAB = 10

# object-level mutators: the positions of the arguments that must be objects (not the optional edge object of
# o.link / o.createNodeFrom)
NULLABLE = {"o.createNode": [2], "o.createNodeFrom": [2, 3], "o.link": [2, 3], "o.unlink": [2, 3], "o.deleteNode": [2],
            "o.associateNode": [2], "o.associateEdge": [2], "o.dissociateNode": [2], "o.dissociateEdge": [2],
            "o.setNodeIndex": [2], "o.addNodeIndex": [2], "o.setEdgeIndex": [2], "o.addEdgeIndex": [2],
            "o.setEdgeLinking": [2, 3, 4], "o.setRoot": [2]}


def random_observer_case(rng, i, maxlen=40, flavour=0):
    """flavour 0: mostly object-level operations; 1: many operations made directly on the shared graph;
    2: many copies (with edge objects and indices)"""
    GP = (0.03, 0.16, 0.06)[flavour]     # share of graph-level mutators
    CP = (0, 0, 1)[flavour]              # more copies
    directed = rng.random() < 0.5
    sh = Shadow(directed)
    obs = {0: OShadow()}
    ops = []

    def forget_edges():
        for o in obs.values():
            for l in [l for l, e in o.e.items() if e not in sh.edges]:
                del o.e[l]; o.ei.pop(l, None)

    def forget_nodes():
        for o in obs.values():
            for l in [l for l, n in o.n.items() if n not in sh.nodes]:
                del o.n[l]; o.ni.pop(l, None)

    def node(o, absent=0.2):
        if o.n and rng.random() >= absent:
            return rng.choice(sorted(o.n))
        return rng.randint(0, NLAB - 1)

    def edge(o, absent=0.25):
        if o.e and rng.random() >= absent:
            return rng.choice(sorted(o.e))
        return rng.randint(0, NLAB - 1)

    def free_node(o):
        c = [l for l in range(NLAB) if l not in o.n]
        return rng.choice(c) if c and rng.random() < 0.85 else rng.randint(0, NLAB - 1)

    def free_edge(o):
        if rng.random() < 0.35:
            return "-"
        c = [l for l in range(NLAB) if l not in o.e]
        return str(rng.choice(c)) if c and rng.random() < 0.85 else str(rng.randint(0, NLAB - 1))

    L = rng.randint(4, maxlen)
    while len(ops) < L:
        k = rng.choice(sorted(obs)) if rng.random() < 0.8 else rng.randint(0, 2)
        o = obs.get(k)
        r = rng.random()
        if o is None:
            # an observer that does not exist: only copy into it (or, rarely, use it: undefined, answered `ub`)
            j = rng.choice(sorted(obs))
            if rng.random() < 0.8:
                ops.append("o.copy %d %d" % (j, k)); obs[k] = obs[j].copy()
            else:
                ops.append("o.qg %d" % k)
            continue
        if r < 0.16:
            if len(sh.nodes) >= MAXN:
                continue
            a = free_node(o)
            ops.append("o.createNode %d %d" % (k, a))
            if a not in o.n:
                o.n[a] = sh.nn; sh.apply("createNode")
        elif r < 0.24:
            if len(sh.nodes) >= MAXN:
                continue
            orig, a, x = node(o), free_node(o), free_edge(o)
            ops.append("o.createNodeFrom %d %d %d %s" % (k, orig, a, x))
            if orig in o.n and a not in o.n and (x == "-" or int(x) not in o.e):
                n = sh.nn; sh.apply("createNode"); o.n[a] = n
                ne = sh.ne; sh.apply("link %d %d" % (o.n[orig], n))
                if x != "-" and sh.ne > ne:
                    o.e[int(x)] = ne
        elif r < 0.42:
            a, b, x = node(o, 0.1), node(o, 0.1), free_edge(o)
            ops.append("o.link %d %d %d %s" % (k, a, b, x))
            if a in o.n and b in o.n and (x == "-" or int(x) not in o.e):
                ne = sh.ne; sh.apply("link %d %d" % (o.n[a], o.n[b]))
                if x != "-" and sh.ne > ne:
                    o.e[int(x)] = ne
        elif r < 0.50:
            a, b = node(o), node(o)
            if o.e and rng.random() < 0.7:
                eid = o.e[rng.choice(sorted(o.e))]
                if eid in sh.edges:
                    inv = {v: l for l, v in o.n.items()}
                    x, y = sh.edges[eid]
                    if x in inv and y in inv:
                        a, b = inv[x], inv[y]
            ops.append("o.unlink %d %d %d" % (k, a, b))
            if a in o.n and b in o.n:
                sh.apply("unlink %d %d" % (o.n[a], o.n[b])); forget_edges()
        elif r < 0.56:
            a = node(o)
            ops.append("o.deleteNode %d %d" % (k, a))
            if a in o.n:
                sh.apply("deleteNode %d" % o.n[a]); forget_edges(); forget_nodes()
        elif r < 0.60:
            a = node(o, 0.5)
            i = rng.randint(0, 6)
            ops.append("o.setNodeIndex %d %d %d" % (k, a, i))
            if a not in o.ni and i not in o.ni.values():
                o.ni[a] = i
        elif r < 0.64:
            a = node(o, 0.3)
            ops.append("o.addNodeIndex %d %d" % (k, a))
            if a not in o.ni:
                i = 0
                while i in o.ni.values():
                    i += 1
                o.ni[a] = i
        elif r < 0.67:
            x = edge(o, 0.4); i = rng.randint(0, 6)
            ops.append("o.setEdgeIndex %d %d %d" % (k, x, i))
            if x not in o.ei and i not in o.ei.values():
                o.ei[x] = i
        elif r < 0.70:
            x = edge(o, 0.3)
            ops.append("o.addEdgeIndex %d %d" % (k, x))
            if x not in o.ei:
                i = 0
                while i in o.ei.values():
                    i += 1
                o.ei[x] = i
        elif r < 0.72:
            a = node(o, 0.5)
            ops.append("o.dissociateNode %d %d" % (k, a)); o.n.pop(a, None)
        elif r < 0.735:
            x = edge(o, 0.5)
            ops.append("o.dissociateEdge %d %d" % (k, x)); o.e.pop(x, None)
        elif r < 0.755:
            a = free_node(o); n = pick_node(rng, sh)
            ops.append("o.associateNode %d %d %d" % (k, a, n))
            if a not in o.n and n in sh.nodes and n not in o.n.values():
                o.n[a] = n
        elif r < 0.77:
            x = rng.randint(0, NLAB - 1); e = pick_edge(rng, sh)
            ops.append("o.associateEdge %d %d %d" % (k, x, e))
            if x not in o.e and e in sh.edges and e not in o.e.values():
                o.e[x] = e
        elif r < 0.785:
            a, b, x = node(o), node(o), rng.randint(0, NLAB - 1)
            ops.append("o.setEdgeLinking %d %d %d %d" % (k, a, b, x))
            if a in o.n and b in o.n and x not in o.e:
                e = sh.between(o.n[a], o.n[b]) if sh.d else None
                if e is not None and e not in o.e.values():
                    o.e[x] = e
        elif r < 0.785 + 0.03 * CP:
            # copies: copy constructor, clone(), converting constructor (there and back), operator=
            kk = rng.randint(1, 2)
            if kk != k:
                kind = rng.choice(["o.copy", "o.copy", "o.clone", "o.copyvia", "o.assign"])
                if kind == "o.assign" and kk not in obs:
                    kind = "o.copy"
                ops.append("%s %d %d" % (kind, k, kk)); obs[kk] = o.copy()
            elif rng.random() < 0.3:
                ops.append("o.assign %d %d" % (k, k))
            else:
                ops.append("o.assignx %d" % k)
        elif r < 0.795 + 0.03 * CP:
            if k != 0:
                ops.append("o.drop %d" % k); del obs[k]
            else:
                free = [j for j in (1, 2) if j not in obs]
                if free:
                    j = rng.choice(free)
                    ops.append("o.attach %d" % j); obs[j] = OShadow()
        elif r < 0.80 + 0.03 * CP:
            a = node(o)
            ops.append("o.setRoot %d %d" % (k, a) if rng.random() < 0.85 else "o.rereg %d" % k)
        elif r < 0.80 + 0.03 * CP + GP:
            # operations made directly on the shared graph (every mutator of GlobalGraph), aimed at the
            # nodes / edges that carry objects (and indices) in some observer
            def onode():
                c = sorted({n for ob in obs.values() for n in ob.n.values() if n in sh.nodes})
                return rng.choice(c) if c and rng.random() < 0.7 else pick_node(rng, sh)

            def oedge():
                c = sorted({e for ob in obs.values() for e in ob.e.values() if e in sh.edges})
                return rng.choice(c) if c and rng.random() < 0.8 else pick_edge(rng, sh)

            def oends():
                e = oedge()
                if e in sh.edges:
                    a, b = sh.edges[e]
                    return (b, a) if rng.random() < 0.25 else (a, b)
                return pick_linked(rng, sh)
            rr = rng.random()
            sp = rng.random()
            if sp < 0.05:
                # a mutator called on a copy of the graph: nothing changes here
                ops.append("gcopy %s %s" % (rng.choice(["ctor", "clone", "assign"]),
                                            rng.choice(["deleteNode %d" % onode(), "unlink %d %d" % oends(), "createNodeOnEdge %d" % oedge(),
                                                        "createNode", "makeUndirected", "link %d %d" % (onode(), onode())])))
                continue
            if sp < 0.075:
                a, b = (oedge(), pick_edge(rng, sh)) if rng.random() < 0.5 else (onode(), pick_node(rng, sh))
                kind = "notifyE" if rng.random() < 0.5 else "notifyN"
                ops.append("%s %d %d" % (kind, a, b))
                for ob in obs.values():
                    m, mi = (ob.e, ob.ei) if kind == "notifyE" else (ob.n, ob.ni)
                    for l in [l for l, v in m.items() if v in (a, b)]:
                        del m[l]; mi.pop(l, None)
                continue
            if sp < 0.085:
                n = rng.randint(0, 4)
                ops.append("gassign %d" % n)
                sh.d = not sh.d
                sh.nodes = set(range(n)); sh.edges = {i: (i, i + 1) for i in range(n - 1)}
                sh.nn = n; sh.ne = max(n - 1, 0)
                for ob in obs.values():
                    ob.n.clear(); ob.e.clear(); ob.ni.clear(); ob.ei.clear()
                continue
            if rr < 0.08 and len(sh.nodes) < MAXN:
                g = "createNode"
            elif rr < 0.22:
                g = "deleteNode %d" % onode()
            elif rr < 0.36:
                g = "unlink %d %d" % oends()
            elif rr < 0.44:
                g = "link %d %d" % (onode(), onode())
            elif rr < 0.49:
                g = "makeDirected"
            elif rr < 0.54:
                g = "makeUndirected"
            elif rr < 0.68 and len(sh.nodes) < MAXN:
                g = "createNodeOnEdge %d" % oedge()
            elif rr < 0.78 and len(sh.nodes) < MAXN - 1:
                g = "createNodeFromEdge %d" % oedge()
            elif rr < 0.84 and len(sh.nodes) < MAXN:
                g = "createNodeFromNode %d" % onode()
            elif rr < 0.91:
                g = "switchNodes %d %d" % oends()
            elif rr < 0.955:
                e = oedge() if rng.random() < 0.4 else sh.ne + rng.randint(0, 2)
                g = "linkE %d %d %d" % (onode(), onode(), e)
            elif rr < 0.98:
                g = "setRoot %d" % onode()
            else:
                g = "orientate"
            ops.append(g); sh.apply(g); forget_edges(); forget_nodes()
            if rng.random() < 0.3:
                ops.append(rng.choice(["qg", "qn %d" % pick_node(rng, sh), "qe %d" % pick_edge(rng, sh)]))
        elif r < 0.90:
            ops.append("o.qn %d %d" % (k, node(o)))
        elif r < 0.93:
            ops.append("o.qe %d %d" % (k, edge(o)))
        elif r < 0.945:
            ops.append("o.qp %d %d %d" % (k, node(o), node(o)))
        elif r < 0.97:
            ops.append("o.qg %d" % k)
        elif r < 0.98:
            ops.append("o.qid %d %d" % (k, rng.randint(0, max(sh.nn, sh.ne) + 1)))
        elif r < 0.985:
            ops.append("o.leavesFrom %d %d %d" % (k, node(o), rng.randint(0, 4)))
        else:
            ops.append("o.qi %d %d" % (k, rng.randint(0, 7)))
    # a null pointer where an object is required (must raise and change nothing): about one such call per case
    for j, l in enumerate(ops):
        t = l.split()
        pos = NULLABLE.get(t[0])
        if pos and rng.random() < 0.04:
            t[rng.choice(pos)] = "-"
            ops[j] = " ".join(t)
    for k in sorted(obs):
        ops.append("o.qg %d" % k)
        for a in sorted(obs[k].n)[:2]:
            ops.append("o.qn %d %d" % (k, a))
        for x in sorted(obs[k].e)[:2]:
            ops.append("o.qe %d %d" % (k, x))
        for i in sorted(set(obs[k].ei.values()))[:2]:
            ops.append("o.qi %d %d" % (k, i))
    ops.append("qg")
    return ["case obs%d_%d %s" % (flavour, i, "dir" if directed else "undir")] + ops


GRAPH_OPS = (["createNode", "makeDirected", "makeUndirected"]
             + ["createNodeOnEdge %d" % e for e in (0, 1, 2, 3, 9)]
             + ["createNodeFromEdge %d" % e for e in (0, 1, 2, 3, 9)]
             + ["createNodeFromNode %d" % n for n in (0, 2, 9)]
             + ["unlink %d %d" % p for p in ((0, 1), (1, 0), (1, 2), (0, 3), (2, 2), (3, 2), (0, 9))]
             + ["deleteNode %d" % n for n in (0, 1, 2, 3, 9)]
             + ["link %d %d" % p for p in ((2, 3), (1, 0), (3, 3), (0, 1), (0, 9))]
             + ["linkE %d %d %d" % t for t in ((2, 3, 9), (3, 1, 0), (1, 3, 4))]
             + ["switchNodes %d %d" % p for p in ((0, 1), (2, 1), (2, 2), (3, 0), (1, 3))]
             + ["setRoot %d" % n for n in (2, 9)] + ["orientate", "gcopy ctor orientate"]
             + ["gcopy ctor deleteNode 0", "gcopy clone createNodeOnEdge 0", "gcopy assign unlink 0 1", "gcopy ctor makeUndirected",
                "gassign 0", "gassign 3", "notifyE 0 1", "notifyE 2 7", "notifyN 1 3", "notifyN 0 9"])

COPY_KINDS = ["o.copy", "o.clone", "o.copyvia", "o.assign"]


def observer_base(directed, eobj, idx, ncopies, copy_kind, loop):
    """observer 0 builds 0->1, 1->2, 0->3 (and the loop 2->2) with or without edge objects, indices set
    explicitly / allocated / absent; then up to two further observers are made from it"""
    x = (lambda l: str(l)) if eobj else (lambda l: "-")
    ops = ["o.createNode 0 0", "o.createNode 0 1", "o.link 0 0 1 %s" % x(5),
           "o.createNodeFrom 0 1 2 %s" % (x(6) if eobj != 2 else "-"), "o.createNodeFrom 0 0 3 %s" % x(7)]
    elabs = [5, 7] + ([6] if eobj == 1 else []) if eobj else []
    if loop:
        ops.append("o.link 0 2 2 %s" % x(8))
        if eobj:
            elabs.append(8)
    if idx == 1:
        ops += ["o.setNodeIndex 0 %d %d" % (a, 3 - a) for a in (0, 1, 3)]
        ops += ["o.setEdgeIndex 0 %d %d" % (l, l - 4) for l in elabs]
    elif idx == 2:
        ops += ["o.addNodeIndex 0 %d" % a for a in (2, 0, 1)]
        ops += ["o.addEdgeIndex 0 %d" % l for l in reversed(elabs)]
    ks = [0]
    for c in range(ncopies):
        kind = COPY_KINDS[(copy_kind + c) % 4]
        if kind == "o.assign":
            ops.append("o.attach %d" % (c + 1))
        ops.append("%s %d %d" % (kind, c, c + 1))
        ks.append(c + 1)
    return ops, ks, elabs


def observer_tail(ks, elabs):
    t = []
    for k in ks:
        t.append("o.qg %d" % k)
        t += ["o.qe %d %d" % (k, l) for l in (5, 6, 7, 8)]
        t += ["o.qi %d %d" % (k, i) for i in range(5)]
        t += ["o.qn %d %d" % (k, a) for a in range(4)]
        t.append("o.qp %d 0 1" % k)
    t.append("qg")
    return t


def observer_matrix_cases(rng, depth2):
    """every mutator of GlobalGraph applied directly to the graph of an observer (and its copies), in
    every combination of directedness x edge objects x indices x number and kind of copies; followed by
    all queries through every observer.  `depth2` further cases apply two such operations (sampled)."""
    out = []
    n = 0
    configs = [(d, eo, ix, nc, lp) for d in (True, False) for eo in (0, 1, 2) for ix in (0, 1, 2) for nc in (0, 1, 2)
               for lp in ((False, True) if d else (False,))]
    for ci, (d, eo, ix, nc, lp) in enumerate(configs):
        base, ks, elabs = observer_base(d, eo, ix, nc, ci, lp)
        for g in GRAPH_OPS:
            mid = [g]
            # afterwards the object of a removed edge can be used again, and an object-level operation follows
            if eo and ci % 2 == 0:
                mid.append("o.link 0 %d %d 5" % (rng.randint(0, 3), rng.randint(0, 3)))
            out.append(["case mx%d %s" % (n, "dir" if d else "undir")] + base + mid + observer_tail(ks, elabs))
            n += 1
    for _ in range(depth2):
        d, eo, ix, nc, lp = rng.choice(configs)
        base, ks, elabs = observer_base(d, eo, ix, nc, rng.randint(0, 3), lp)
        mid = []
        for _ in range(rng.randint(2, 3)):
            mid.append(rng.choice(GRAPH_OPS))
            if rng.random() < 0.3:
                k = rng.choice(ks)
                mid.append(rng.choice(["o.unlink %d %d %d" % (k, rng.randint(0, 3), rng.randint(0, 3)),
                                       "o.deleteNode %d %d" % (k, rng.randint(0, 3)),
                                       "o.link %d %d %d %s" % (k, rng.randint(0, 3), rng.randint(0, 3), rng.choice(["-", "5", "6", "9"])),
                                       "o.addEdgeIndex %d %d" % (k, rng.choice([5, 6, 7, 9])),
                                       "o.%s %d %d" % (rng.choice(["copy", "clone", "copyvia"]), k, (k + 1) % 3 or 1)]))
                if mid[-1].startswith(("o.copy", "o.clone")):
                    kk = int(mid[-1].split()[2])
                    if kk == k:
                        mid.pop()
                    elif kk not in ks:
                        ks = ks + [kk]
        out.append(["case mxx%d %s" % (n, "dir" if d else "undir")] + base + mid + observer_tail(sorted(ks), elabs))
        n += 1
    return out


def exhaustive_cases(length, nn, tag, alphabet_extra=True):
    """all histories of the given length over nn pre-created nodes"""
    ids = range(nn)
    alpha = ["createNode", "makeDirected", "makeUndirected"]
    alpha += ["link %d %d" % (a, b) for a in ids for b in ids]
    alpha += ["unlink %d %d" % (a, b) for a in ids for b in ids]
    alpha += ["deleteNode %d" % a for a in ids]
    if alphabet_extra:
        alpha += ["switchNodes %d %d" % (a, b) for a in ids for b in ids if a <= b]
        alpha += ["createNodeFromNode 0", "createNodeOnEdge 0", "createNodeFromEdge 1", "linkE 0 1 3", "linkE 1 0 0", "orientate", "setRoot 1"]
    tail = ["qg"] + ["qn %d" % a for a in ids] + ["qp 0 1", "qe 0"]
    out = []
    k = 0
    for d in ("dir", "undir"):
        for seq in itertools.product(alpha, repeat=length):
            out.append(["case %s%d %s" % (tag, k, d)] + ["createNode"] * nn + list(seq) + tail)
            k += 1
    return out, len(alpha)


def generate(seed, tier):
    rng = random.Random(seed)
    cases = []
    # 1. exhaustive histories over 2 pre-created nodes (length 3) and 3 nodes (length 2); thorough: length 4 / 3
    if tier == "thorough":
        c, _ = exhaustive_cases(4, 2, "ex2_", alphabet_extra=False); cases += c
        c, _ = exhaustive_cases(3, 2, "ex2x_"); cases += c
        c, _ = exhaustive_cases(3, 3, "ex3_"); cases += c
    else:
        c, _ = exhaustive_cases(3, 2, "ex2_", alphabet_extra=False); cases += c
        c, _ = exhaustive_cases(2, 3, "ex3_"); cases += c
    # 2. random histories up to length 40 over <= 8 nodes
    nrand = 30000 if tier == "thorough" else 2500
    for i in range(nrand):
        cases.append(random_graph_case(rng, i))
    # 3. random histories through the association observers (up to 3 observers of one graph): mostly
    #    object-level operations / many operations made directly on the shared graph / many copies
    nobs = 30000 if tier == "thorough" else 3000
    for i in range(nobs):
        cases.append(random_observer_case(rng, i, flavour=(0, 1, 1, 2)[i % 4]))
    # 4. every graph-level mutator on a graph with observers, in every configuration of
    #    directedness x edge objects x indices x copies; then sampled sequences of two or three
    cases += observer_matrix_cases(rng, 12000 if tier == "thorough" else 1200)
    return cases


GRAPH_MUTATORS = {"createNode", "createNodeFromNode", "createNodeOnEdge", "createNodeFromEdge", "link", "linkE", "unlink",
                  "switchNodes", "deleteNode", "makeDirected", "makeUndirected", "setRoot", "orientate", "gassign"}
COPY_OPS = {"o.copy", "o.clone", "o.copyvia", "o.assign"}


def coverage_extra(cases, answers):
    """distribution of what was generated: lengths, directedness, and in which states the graph-level
    mutators and the copies were exercised"""
    lens = {}
    und = 0
    with_obs = {}        # graph-level mutator -> executions on a graph on which some observer holds an edge object
    with_copies = {}     # ... while two or more observers exist
    copies = {}          # kind of copy -> executions / of a source holding an indexed edge object
    for c in cases:
        n = len(c) - 1
        b = "%d-%d" % (n // 10 * 10, n // 10 * 10 + 9)
        lens[b] = lens.get(b, 0) + 1
        und += c[0].endswith("undir")
        eobj = False; eidx = False; nobs = 1
        for l in c[1:]:
            t = l.split()
            o = t[0]
            if o in ("o.link", "o.createNodeFrom") and t[-1] != "-":
                eobj = True
            elif o in ("o.addEdgeIndex", "o.setEdgeIndex"):
                eidx = True
            elif o in COPY_OPS or o == "o.attach":
                nobs += 1
                if o in COPY_OPS:
                    k = copies.setdefault(o, [0, 0]); k[0] += 1; k[1] += eobj and eidx
            elif o in GRAPH_MUTATORS:
                if eobj:
                    with_obs[o] = with_obs.get(o, 0) + 1
                    if nobs > 1:
                        with_copies[o] = with_copies.get(o, 0) + 1
    return {"history_length_histogram": lens, "undirected_cases": und, "directed_cases": len(cases) - und,
            "graph_mutators_after_an_edge_object_was_linked": with_obs,
            "graph_mutators_with_edge_objects_and_several_observers": with_copies,
            "copies_total_and_after_indexed_edge_object": copies}
