"""Script generator for C08 (RandomTools cumulative / quantile functions).

Three streams:
  1. guard / wrapper layer: grids over special values including the invalid region (negative
     shapes, probabilities outside [0,1], the cut-offs of the argument checks and their
     floating-point neighbours) + random valid points;
  2. pNorm / qNorm bit-exact tie: z in [-40,40] dense around the branch cut-offs, random p;
  3. exploration (ops `x.*`, judged by the driver against tolerances / reference values that are
     embedded in the op line; reference values come from scipy.special in the tooling venv).
"""
import random, struct, itertools, math, os, subprocess, json, sys


def hx(x):
    return "%016x" % struct.unpack("<Q", struct.pack("<d", x))[0]


def unhx(s):
    return struct.unpack("<d", struct.pack("<Q", int(s, 16)))[0]


def nxt(x, n=1):
    """n-th floating-point neighbour of x"""
    for _ in range(abs(n)):
        x = math.nextafter(x, math.inf if n > 0 else -math.inf)
    return x


def around(x):
    return [nxt(x, -1), x, nxt(x, 1)]


def chunks(tag, ops, n=120):
    return [["case %s%d" % (tag, i)] + ops[i:i + n] for i in range(0, len(ops), n)]


# ---------------------------------------------------------------------------------- stream 1
X_SPECIAL = [-1e300, -3.0, -1e-300, -0.0, 0.0, 5e-324, 1e-300, 1e-9, 0.3, 0.5, 0.95, 1.0, 1.5, 7.0, 60.0, 1e5]
SHAPE_SPECIAL = [-2.0, -1e-300, -0.0, 0.0, 1e-300, 0.05, 0.5, 1.0, 2.5, 30.0, 200.0]
RATE_SPECIAL = [-1.0, -1e-300, -0.0, 0.0, 1e-3, 0.5, 1.0, 40.0, 1e3]
P_SPECIAL = [-1.0, -1e-300, -0.0, 0.0, 1e-300, 1e-21] + around(1e-20) + [1e-12, 1e-7] + around(.000002) + [1e-3, 0.25] \
    + around(0.5) + [0.9] + around(.999998) + [1 - 1e-7, nxt(1.0, -1), 1.0, nxt(1.0, 1), 2.0]
X01_SPECIAL = [-1.0, -1e-300, -0.0, 0.0, 1e-300, 1e-5, 0.2, 0.5, 0.94, 0.95, 0.96, nxt(1.0, -1), 1.0, nxt(1.0, 1), 3.0]
BSHAPE_SPECIAL = [-1.0, -1e-300, -0.0, 0.0, 0.1, 0.3, 1.0, 2.5, 40.0, 200.0]
# shapes for which the AS109 iteration is known to be quick (qbeta may need many pBeta calls otherwise)
QBSHAPE_SPECIAL = [-1.0, -1e-300, -0.0, 0.0, 0.3, 1.0, 2.5, 40.0, 200.0]
MU_SPECIAL = [-3.0, 0.0, 0.5, 100.0]
SIGMA_SPECIAL = [0.25, 1.0, 3.0, 1e-3, -2.0]


def guard_grid(rng, tier):
    ops = []
    for x, a in itertools.product(X_SPECIAL, SHAPE_SPECIAL):
        g = math.lgamma(a) if a != 0 and not (a < 0 and a == int(a)) else 0.0
        ops.append("ig %s %s %s" % (hx(x), hx(a), hx(g)))
    for x, a, b in itertools.product(X_SPECIAL, SHAPE_SPECIAL, RATE_SPECIAL):
        ops.append("pgamma %s %s %s" % (hx(x), hx(a), hx(b)))
    for x, v in itertools.product(X_SPECIAL, SHAPE_SPECIAL + [0.1, 400.0]):
        ops.append("pchisq %s %s" % (hx(x), hx(v)))
    for p, v in itertools.product(P_SPECIAL, SHAPE_SPECIAL + [0.1, 400.0]):
        ops.append("qchisq %s %s" % (hx(p), hx(v)))
    for p, a, b in itertools.product(P_SPECIAL, [-2.0, -0.0, 0.0, 0.05, 1.0, 2.5, 200.0], [-1.0, 1e-3, 0.5, 1.0, 1e3]):
        ops.append("qgamma %s %s %s" % (hx(p), hx(a), hx(b)))
    for x, a, b in itertools.product(X01_SPECIAL, BSHAPE_SPECIAL, BSHAPE_SPECIAL):
        ops.append("ibeta %s %s %s" % (hx(x), hx(a), hx(b)))
        if rng.random() < 0.3:
            ops.append("pbeta %s %s %s" % (hx(x), hx(a), hx(b)))
    PQ = [-1.0, -1e-300, -0.0, 0.0, 1e-6, 0.25, 0.5, 0.75, 1 - 1e-6, 1.0, nxt(1.0, 1), 2.0]
    for p, a, b in itertools.product(PQ, QBSHAPE_SPECIAL, QBSHAPE_SPECIAL):
        ops.append("qbeta %s %s %s" % (hx(p), hx(a), hx(b)))
    for a, b in itertools.product([0.1, 0.3, 1.0, 2.5, 200.0], repeat=2):
        ops.append("lnbeta %s %s" % (hx(a), hx(b)))
    for p in P_SPECIAL:
        ops.append("qnorm " + hx(p))
        for mu, s in itertools.product(MU_SPECIAL, SIGMA_SPECIAL):
            ops.append("qnorm3 %s %s %s" % (hx(p), hx(mu), hx(s)))
    for x in [-1e300, -40.0, -37.5193, -8.3, -5.7, -0.67448975, -1e-20, -0.0, 0.0, 1e-21, 0.3, 0.67448975, 5.6, 5.7, 8.2924, 8.3, 37.6, 1e300]:
        for mu, s in itertools.product(MU_SPECIAL, SIGMA_SPECIAL):
            ops.append("pnorm3 %s %s %s" % (hx(x), hx(mu), hx(s)))
    return chunks("guard", ops)


def log_uniform(rng, lo, hi):
    return math.exp(rng.uniform(math.log(lo), math.log(hi)))


def guard_random(rng, n):
    """random points, mostly valid, some with one invalid coordinate"""
    ops = []
    for _ in range(n):
        k = rng.randrange(11)
        bad = rng.random() < 0.2
        a = log_uniform(rng, 0.05, 200)
        b = log_uniform(rng, 1e-3, 1e3)
        p = rng.choice([rng.uniform(1e-6, 1 - 1e-6), log_uniform(rng, 1e-6, 0.5), 1 - log_uniform(rng, 1e-6, 0.5)])
        x = rng.choice([log_uniform(rng, 1e-300, 1e3), rng.uniform(0, 4 * a / b), a / b])
        if bad:
            w = rng.randrange(3)
            if w == 0:
                a = -a if rng.random() < 0.7 else 0.0
            elif w == 1:
                b = -b if rng.random() < 0.7 else 0.0
            else:
                p = rng.choice([-p, 1 + p, 0.0, 1.0, p * 1e-6])
                x = -x
        if k == 0:
            ops.append("pgamma %s %s %s" % (hx(x), hx(a), hx(b)))
        elif k == 1:
            ops.append("pchisq %s %s" % (hx(x * b), hx(2 * a)))
        elif k == 2:
            ops.append("qchisq %s %s" % (hx(p), hx(2 * a)))
        elif k == 3:
            ops.append("qgamma %s %s %s" % (hx(p), hx(a), hx(b)))
        elif k == 4:
            ops.append("ig %s %s %s" % (hx(x * b), hx(a), hx(math.lgamma(a) if a > 0 else 0.0)))
        elif k in (5, 6):
            al, be = log_uniform(rng, 0.1, 200), log_uniform(rng, 0.1, 200)
            xx = rng.choice([rng.random(), log_uniform(rng, 1e-300, 1), 1 - log_uniform(rng, 1e-16, 1)])
            if bad:
                w = rng.randrange(3)
                if w == 0:
                    al = -al if rng.random() < 0.7 else 0.0
                elif w == 1:
                    be = -be if rng.random() < 0.7 else 0.0
                else:
                    xx = rng.choice([-xx, 1 + xx])
            ops.append("%s %s %s %s" % ("ibeta" if k == 5 else "pbeta", hx(xx), hx(al), hx(be)))
        elif k == 7:
            al, be = log_uniform(rng, 0.3, 200), log_uniform(rng, 0.3, 200)
            if bad:
                if rng.random() < 0.5:
                    al = -al
                else:
                    p = rng.choice([-p, 1 + p])
            ops.append("qbeta %s %s %s" % (hx(p), hx(al), hx(be)))
        elif k == 8:
            ops.append("lnbeta %s %s" % (hx(log_uniform(rng, 0.1, 200)), hx(log_uniform(rng, 0.1, 200))))
        elif k == 9:
            ops.append("qnorm3 %s %s %s" % (hx(p), hx(rng.uniform(-50, 50)), hx(log_uniform(rng, 1e-3, 1e3))))
        else:
            mu, s = rng.uniform(-50, 50), log_uniform(rng, 1e-3, 1e3)
            ops.append("pnorm3 %s %s %s" % (hx(mu + s * rng.uniform(-40, 40)), hx(mu), hx(s)))
    return chunks("grnd", ops)


# ---------------------------------------------------------------------------------- stream 2
PNORM_CUTS = [0.0, 1e-20, 0.67448975, math.sqrt(32), 8.2924, 37.5193, 40.0]


def norm_tie(rng, n):
    ops = []
    zs = []
    for c in PNORM_CUTS:
        for s in (-1, 1):
            for k in range(-3, 4):
                zs.append(nxt(s * c, k))
    zs += [i / 16.0 for i in range(-640, 641, 7)]          # exact multiples of 1/16 (trunc)
    zs += [rng.uniform(-40, 40) for _ in range(n)]
    zs += [rng.uniform(-1, 1) for _ in range(n // 4)]
    zs += [rng.choice([-1, 1]) * log_uniform(rng, 1e-300, 1) for _ in range(n // 8)]
    zs += [rng.uniform(-6, 6) for _ in range(n // 4)]
    zs += [float("nan"), float("inf"), float("-inf"), 1e300, -1e300]
    for z in zs:
        ops.append("pnorm " + hx(z))
    ps = [rng.random() for _ in range(n // 2)] + [log_uniform(rng, 1e-25, 0.5) for _ in range(n // 4)] \
        + [1 - log_uniform(rng, 1e-17, 0.5) for _ in range(n // 4)] + [float("nan"), -0.5, 1.5]
    for p in ps:
        ops.append("qnorm " + hx(p))
    return chunks("norm", ops, 400)


def generate(seed, tier):
    rng = random.Random(seed)
    big = tier == "thorough"
    cases = []
    cases += guard_grid(rng, tier)
    cases += guard_random(rng, 20000 if big else 3000)
    cases += norm_tie(rng, 40000 if big else 4000)
    return cases


if __name__ == "__main__":
    cs = generate(int(sys.argv[1]) if len(sys.argv) > 1 else 1, sys.argv[2] if len(sys.argv) > 2 else "quick")
    hist = {}
    for c in cs:
        for l in c[1:]:
            hist[l.split()[0]] = hist.get(l.split()[0], 0) + 1
    print(len(cs), "cases", sum(hist.values()), "ops")
    for k in sorted(hist):
        print("  %-12s %d" % (k, hist[k]))
