"""Script generator for C08 (RandomTools cumulative / quantile functions).

Three streams:
  1. guard / wrapper layer: grids over special values including the invalid region (negative
     shapes, probabilities outside [0,1], the cut-offs of the argument checks and their
     floating-point neighbours) + random valid points;
  2. pNorm / qNorm bit-exact tie: z in [-40,40] dense around the branch cut-offs, random p;
  3. exploration (ops `x.*`, judged by the driver against tolerances / reference values that are
     embedded in the op line; reference values come from scipy.special in the tooling venv).
"""
import random, struct, itertools, math, os, subprocess, json, sys


def hx(x):
    return "%016x" % struct.unpack("<Q", struct.pack("<d", x))[0]


def unhx(s):
    return struct.unpack("<d", struct.pack("<Q", int(s, 16)))[0]


def nxt(x, n=1):
    """n-th floating-point neighbour of x"""
    for _ in range(abs(n)):
        x = math.nextafter(x, math.inf if n > 0 else -math.inf)
    return x


def around(x):
    return [nxt(x, -1), x, nxt(x, 1)]


def chunks(tag, ops, n=120):
    return [["case %s%d" % (tag, i)] + ops[i:i + n] for i in range(0, len(ops), n)]


# ---------------------------------------------------------------------------------- stream 1
X_SPECIAL = [-math.inf, -1e300, -3.0, -1e-300, -0.0, 0.0, 5e-324, 1e-300, 1e-9, 0.3, 0.5, 0.95, 1.0, 1.5, 7.0, 60.0, 1e5, 1e300, math.inf, math.nan]
SHAPE_SPECIAL = [-2.0, -1e-300, -0.0, 0.0, 1e-300, 0.05, 0.5, 1.0, 2.5, 30.0, 200.0]
RATE_SPECIAL = [-1.0, -1e-300, -0.0, 0.0, 1e-3, 0.5, 1.0, 40.0, 1e3]
P_SPECIAL = [-1.0, -1e-300, -0.0, 0.0, 1e-300, 1e-21] + around(1e-20) + [1e-12, 1e-7] + around(.000002) + [1e-3, 0.25] \
    + around(0.5) + [0.9] + around(.999998) + [1 - 1e-7, nxt(1.0, -1), 1.0, nxt(1.0, 1), 2.0]
X01_SPECIAL = [-1.0, -1e-300, -0.0, 0.0, 1e-300, 1e-5, 0.2, 0.5, 0.94, 0.95, 0.96, nxt(1.0, -1), 1.0, nxt(1.0, 1), 3.0]
BSHAPE_SPECIAL = [-1.0, -1e-300, -0.0, 0.0, 0.1, 0.3, 1.0, 2.5, 40.0, 200.0]
# shapes for which the AS109 iteration is known to be quick (qbeta may need many pBeta calls otherwise)
QBSHAPE_SPECIAL = [-1.0, -1e-300, -0.0, 0.0, 0.3, 1.0, 2.5, 40.0, 200.0]
MU_SPECIAL = [-3.0, 0.0, 0.5, 100.0]
SIGMA_SPECIAL = [0.25, 1.0, 3.0, 1e-3, -2.0]


def guard_grid(rng, tier):
    ops = []
    for x, a in itertools.product(X_SPECIAL, SHAPE_SPECIAL):
        g = math.lgamma(a) if a != 0 and not (a < 0 and a == int(a)) else 0.0
        ops.append("ig %s %s %s" % (hx(x), hx(a), hx(g)))
    for x, a, b in itertools.product(X_SPECIAL, SHAPE_SPECIAL, RATE_SPECIAL):
        ops.append("pgamma %s %s %s" % (hx(x), hx(a), hx(b)))
    for x, v in itertools.product(X_SPECIAL, SHAPE_SPECIAL + [0.1, 400.0]):
        ops.append("pchisq %s %s" % (hx(x), hx(v)))
    for p, v in itertools.product(P_SPECIAL, SHAPE_SPECIAL + [0.1, 400.0]):
        ops.append("qchisq %s %s" % (hx(p), hx(v)))
    for p, a, b in itertools.product(P_SPECIAL, [-2.0, -0.0, 0.0, 0.05, 1.0, 2.5, 200.0], [-1.0, 1e-3, 0.5, 1.0, 1e3]):
        ops.append("qgamma %s %s %s" % (hx(p), hx(a), hx(b)))
    for x, a, b in itertools.product(X01_SPECIAL, BSHAPE_SPECIAL, BSHAPE_SPECIAL):
        ops.append("ibeta %s %s %s" % (hx(x), hx(a), hx(b)))
        if rng.random() < 0.3:
            ops.append("pbeta %s %s %s" % (hx(x), hx(a), hx(b)))
    PQ = [-1.0, -1e-300, -0.0, 0.0, 1e-6, 0.25, 0.5, 0.75, 1 - 1e-6, 1.0, nxt(1.0, 1), 2.0]
    for p, a, b in itertools.product(PQ, QBSHAPE_SPECIAL, QBSHAPE_SPECIAL):
        ops.append("qbeta %s %s %s" % (hx(p), hx(a), hx(b)))
    for a, b in itertools.product([0.1, 0.3, 1.0, 2.5, 200.0], repeat=2):
        ops.append("lnbeta %s %s" % (hx(a), hx(b)))
    for p in P_SPECIAL:
        ops.append("qnorm " + hx(p))
        for mu, s in itertools.product(MU_SPECIAL, SIGMA_SPECIAL):
            ops.append("qnorm3 %s %s %s" % (hx(p), hx(mu), hx(s)))
    for x in [-1e300, -40.0, -37.5193, -8.3, -5.7, -0.67448975, -1e-20, -0.0, 0.0, 1e-21, 0.3, 0.67448975, 5.6, 5.7, 8.2924, 8.3, 37.6, 1e300]:
        for mu, s in itertools.product(MU_SPECIAL, SIGMA_SPECIAL):
            ops.append("pnorm3 %s %s %s" % (hx(x), hx(mu), hx(s)))
    return chunks("guard", ops)


def log_uniform(rng, lo, hi):
    return math.exp(rng.uniform(math.log(lo), math.log(hi)))


def guard_random(rng, n):
    """random points, mostly valid, some with one invalid coordinate"""
    ops = []
    for _ in range(n):
        k = rng.randrange(11)
        bad = rng.random() < 0.2
        a = log_uniform(rng, 0.05, 200)
        b = log_uniform(rng, 1e-3, 1e3)
        p = rng.choice([rng.uniform(1e-6, 1 - 1e-6), log_uniform(rng, 1e-6, 0.5), 1 - log_uniform(rng, 1e-6, 0.5)])
        x = rng.choice([log_uniform(rng, 1e-300, 1e3), rng.uniform(0, 4 * a / b), a / b])
        if bad:
            w = rng.randrange(3)
            if w == 0:
                a = -a if rng.random() < 0.7 else 0.0
            elif w == 1:
                b = -b if rng.random() < 0.7 else 0.0
            else:
                p = rng.choice([-p, 1 + p, 0.0, 1.0, p * 1e-6])
                x = -x
        if k == 0:
            ops.append("pgamma %s %s %s" % (hx(x), hx(a), hx(b)))
        elif k == 1:
            ops.append("pchisq %s %s" % (hx(x * b), hx(2 * a)))
        elif k == 2:
            ops.append("qchisq %s %s" % (hx(p), hx(2 * a)))
        elif k == 3:
            ops.append("qgamma %s %s %s" % (hx(p), hx(a), hx(b)))
        elif k == 4:
            ops.append("ig %s %s %s" % (hx(x * b), hx(a), hx(math.lgamma(a) if a > 0 else 0.0)))
        elif k in (5, 6):
            al, be = log_uniform(rng, 0.1, 200), log_uniform(rng, 0.1, 200)
            xx = rng.choice([rng.random(), log_uniform(rng, 1e-300, 1), 1 - log_uniform(rng, 1e-16, 1)])
            if bad:
                w = rng.randrange(3)
                if w == 0:
                    al = -al if rng.random() < 0.7 else 0.0
                elif w == 1:
                    be = -be if rng.random() < 0.7 else 0.0
                else:
                    xx = rng.choice([-xx, 1 + xx])
            ops.append("%s %s %s %s" % ("ibeta" if k == 5 else "pbeta", hx(xx), hx(al), hx(be)))
        elif k == 7:
            al, be = log_uniform(rng, 0.3, 200), log_uniform(rng, 0.3, 200)
            if bad:
                if rng.random() < 0.5:
                    al = -al
                else:
                    p = rng.choice([-p, 1 + p])
            ops.append("qbeta %s %s %s" % (hx(p), hx(al), hx(be)))
        elif k == 8:
            ops.append("lnbeta %s %s" % (hx(log_uniform(rng, 0.1, 200)), hx(log_uniform(rng, 0.1, 200))))
        elif k == 9:
            ops.append("qnorm3 %s %s %s" % (hx(p), hx(rng.uniform(-50, 50)), hx(log_uniform(rng, 1e-3, 1e3))))
        else:
            mu, s = rng.uniform(-50, 50), log_uniform(rng, 1e-3, 1e3)
            ops.append("pnorm3 %s %s %s" % (hx(mu + s * rng.uniform(-40, 40)), hx(mu), hx(s)))
    return chunks("grnd", ops)


# ---------------------------------------------------------------------------------- stream 2
PNORM_CUTS = [0.0, 1e-20, 0.67448975, math.sqrt(32), 8.2924, 37.5193, 40.0]


def norm_tie(rng, n):
    ops = []
    zs = []
    for c in PNORM_CUTS:
        for s in (-1, 1):
            for k in range(-3, 4):
                zs.append(nxt(s * c, k))
    zs += [i / 16.0 for i in range(-640, 641, 7)]          # exact multiples of 1/16 (trunc)
    zs += [rng.uniform(-40, 40) for _ in range(n)]
    zs += [rng.uniform(-1, 1) for _ in range(n // 4)]
    zs += [rng.choice([-1, 1]) * log_uniform(rng, 1e-300, 1) for _ in range(n // 8)]
    zs += [rng.uniform(-6, 6) for _ in range(n // 4)]
    zs += [float("nan"), float("inf"), float("-inf"), 1e300, -1e300]
    for z in zs:
        ops.append("pnorm " + hx(z))
    ps = [rng.random() for _ in range(n // 2)] + [log_uniform(rng, 1e-25, 0.5) for _ in range(n // 4)] \
        + [1 - log_uniform(rng, 1e-17, 0.5) for _ in range(n // 4)] + [float("nan"), -0.5, 1.5]
    for p in ps:
        ops.append("qnorm " + hx(p))
    return chunks("norm", ops, 400)



# ---------------------------------------------------------------------------------- stream 3
TOL_GAMMA = 1e-8      # documented: `accurate = 1e-8` (incompleteGamma), property: 1e-8 gamma-type
TOL_NB = 1e-12        # property: 1e-12 for the normal and beta cdfs
TOL_QNORM_AS70 = 1e-8  # what qNorm (Odeh & Evans, AS70) achieves: measured 6e-9
SLACK_ROUND = 1e-12   # monotonicity: allowance for rounding noise (measured <= 7e-14)
SCIPY_NOTE = {"status": "not-run"}

_SCIPY_SCRIPT = r"""
import sys, json
from scipy import special as S
qs = json.load(sys.stdin); out = []
for fn, a, b, c in qs:
    a, b, c = float.fromhex(a), float.fromhex(b), float.fromhex(c)
    if fn == "pnorm": v = S.ndtr(a)
    elif fn == "pgamma": v = S.gammainc(b, c * a)
    elif fn == "pchisq": v = S.gammainc(b / 2, a / 2)
    elif fn == "pbeta": v = S.betainc(b, c, a)
    else: v = float("nan")
    out.append(float(v).hex())
json.dump(out, sys.stdout)
"""


def scipy_refs(queries):
    """reference values from scipy.special in the tooling venv; None when unavailable"""
    exe = os.environ.get("VERIF_PYTHON_VT", "python3-vt")
    try:
        r = subprocess.run([exe, "-c", _SCIPY_SCRIPT], input=json.dumps([[f, a.hex(), b.hex(), c.hex()] for f, a, b, c in queries]),
                           capture_output=True, text=True, timeout=600)
        if r.returncode != 0:
            SCIPY_NOTE["status"] = "unavailable: " + r.stderr.strip()[-200:]
            return None
        out = [float.fromhex(h) for h in json.loads(r.stdout)]
        SCIPY_NOTE["status"] = "ok: %d reference values from scipy.special" % len(out)
        return out
    except Exception as e:  # missing interpreter, time-out ...
        SCIPY_NOTE["status"] = "unavailable: %r" % (e,)
        return None


def acc(clause, fn, tol, ref, a, b=0.0, c=0.0):
    return "x.acc %s %s %s %s %s %s %s" % (clause, fn, hx(tol), hx(ref), hx(a), hx(b), hx(c))


def lin2(clause, tol, const, c1, f1, a1, c2, f2, a2):
    return "x.lin2 %s %s %s %s %s %s %s %s %s" % (clause, hx(tol), hx(const), hx(c1), f1, " ".join(hx(v) for v in a1),
                                                   hx(c2), f2, " ".join(hx(v) for v in a2))


def mono(fn, slack, a1, a2):
    return "x.mono %s %s %s %s" % (fn, hx(slack), " ".join(hx(v) for v in a1), " ".join(hx(v) for v in a2))


def inv(fam, tol, p, a=0.0, b=0.0):
    return "x.inv %s %s %s %s %s" % (fam, hx(tol), hx(p), hx(a), hx(b))


def gamma_x(rng, a, b):
    """x for a Gamma(shape a, rate b): bulk, both tails, tiny values, the series/continued-fraction switch"""
    m, sd = a / b, math.sqrt(a) / b
    k = rng.randrange(8)
    if k == 0:
        return max(5e-324, rng.uniform(0, 4 * m))
    if k == 1:
        return max(5e-324, m + sd * rng.uniform(-6, 6))
    if k == 2:
        return log_uniform(rng, 1e-300, m)
    if k == 3:
        return m + sd * rng.uniform(6, 40)                      # far upper tail
    if k == 4:
        return m * log_uniform(rng, 1, 1e6)                     # very far tail
    if k == 5:
        return nxt(a / b, rng.randint(-2, 2))                   # beta*x ~ alpha : branch switch
    if k == 6:
        return nxt(1 / b, rng.randint(-2, 2))                   # beta*x ~ 1 : branch switch
    return log_uniform(rng, 1e-3, 1e3) / b


def beta_x(rng, a, b):
    m = a / (a + b); sd = math.sqrt(a * b / ((a + b) ** 2 * (a + b + 1)))
    k = rng.randrange(7)
    if k == 0:
        return rng.random()
    if k == 1:
        return min(max(m + sd * rng.uniform(-6, 6), 5e-324), nxt(1.0, -1))
    if k == 2:
        return log_uniform(rng, 1e-300, 1)
    if k == 3:
        return 1 - log_uniform(rng, 1e-16, 1)
    if k == 4:
        return nxt(0.95, rng.randint(-2, 2))                    # power-series switch
    if k == 5:
        return min(max(nxt(m, rng.randint(-2, 2)), 5e-324), nxt(1.0, -1))   # tail swap
    return min(1 / b, 0.95) * rng.random()                      # b*x <= 1 region


def pq(rng):
    k = rng.randrange(4)
    if k == 0:
        return rng.uniform(1e-6, 1 - 1e-6)
    if k == 1:
        return log_uniform(rng, 1e-6, 0.5)
    if k == 2:
        return 1 - log_uniform(rng, 1e-6, 0.5)
    return rng.choice([1e-6, .000002, 0.5, .999998, 1 - 1e-6, 0.25, 0.75])


def explore(rng, n):
    """returns (ops needing no reference, queries for scipy with a builder each)"""
    ops, want = [], []
    for _ in range(n):
        # ---- accuracy against the independent reference
        z = rng.choice([rng.uniform(-40, 40), rng.uniform(-9, 9), rng.uniform(-1, 1)])
        want.append(("pnorm", z, 0.0, 0.0, TOL_NB))
        a, b = log_uniform(rng, 0.05, 200), log_uniform(rng, 1e-3, 1e3)
        x = gamma_x(rng, a, b)
        want.append(("pgamma", x, a, b, TOL_GAMMA))
        v = log_uniform(rng, 0.1, 400)
        xc = gamma_x(rng, v / 2, 0.5)
        want.append(("pchisq", xc, v, 0.0, TOL_GAMMA))
        al, be = log_uniform(rng, 0.1, 200), log_uniform(rng, 0.1, 200)
        xb = beta_x(rng, al, be)
        want.append(("pbeta", xb, al, be, TOL_NB))
        # ---- special cases with a closed form (reference computed here with math.*)
        ops.append(acc("special", "pgamma", TOL_GAMMA, -math.expm1(-b * x), x, 1.0, b))
        ops.append(acc("special", "pchisq", TOL_GAMMA, -math.expm1(-xc / 2), xc, 2.0))
        ops.append(acc("special", "pbeta", TOL_NB, xb ** al, xb, al, 1.0))
        ops.append(acc("special", "pbeta", TOL_NB, -math.expm1(be * math.log1p(-xb)), xb, 1.0, be))
        ops.append(acc("special", "pbeta", TOL_NB, xb, xb, 1.0, 1.0))
        # ---- end points of the support
        ops.append(acc("ends", "pgamma", 0.0, 0.0, 0.0, a, b))
        ops.append(acc("ends", "pgamma", TOL_GAMMA, 1.0, (a + 40 * math.sqrt(a) + 800) / b * log_uniform(rng, 1, 1e290 * min(b, 1.0)), a, b))
        ops.append(acc("ends", "pgamma", 0.0, 1.0, math.inf, a, b))
        ops.append(acc("ends", "pchisq", 0.0, 1.0, math.inf, v))
        ops.append(acc("ends", "pchisq", 0.0, 0.0, 0.0, v))
        ops.append(acc("ends", "pchisq", TOL_GAMMA, 1.0, (v + 40 * math.sqrt(v) + 1700) * log_uniform(rng, 1, 1e290), v))
        ops.append(acc("ends", "pbeta", 0.0, 0.0, 0.0, al, be))
        ops.append(acc("ends", "pbeta", 0.0, 1.0, 1.0, al, be))
        ops.append(acc("ends", "pnorm", 0.0, 0.0, rng.uniform(-40, -37.6)))
        ops.append(acc("ends", "pnorm", 0.0, 1.0, rng.uniform(8.3, 40)))
        # ---- identities
        ops.append(lin2("reflect_pnorm", 4 * 2.0 ** -53, 1.0, 1.0, "pnorm", (z, 0.0, 0.0), 1.0, "pnorm", (-z, 0.0, 0.0)))
        if 1.0 - (1.0 - xb) == xb:     # only where 1-x is exact (else the test itself perturbs the argument)
            ops.append(lin2("reflect_pbeta", 2 * TOL_NB, 1.0, 1.0, "pbeta", (xb, al, be), 1.0, "pbeta", (1 - xb, be, al)))
        if b * x > 0:
            term = math.exp(a * math.log(b * x) - b * x - math.lgamma(a + 1))
            ops.append(lin2("recur_pgamma", 2 * TOL_GAMMA, -term, 1.0, "pgamma", (x, a + 1, b), -1.0, "pgamma", (x, a, b)))
        if 0 < xb < 1:
            term = math.exp(al * math.log(xb) + be * math.log1p(-xb) - math.log(al) - (math.lgamma(al) + math.lgamma(be) - math.lgamma(al + be)))
            ops.append(lin2("recur_pbeta", 2 * TOL_NB, -term, 1.0, "pbeta", (xb, al + 1, be), -1.0, "pbeta", (xb, al, be)))
        # ---- monotonicity of the cdfs in x (random pairs and floating-point neighbours).
        # Generic pairs: non-decreasing up to SLACK_ROUND (rounding noise of the kernels, measured
        # <= 7e-14; the slack is far below the documented accuracy).  Pairs straddling a switch of
        # formula are labelled `@switch` and asked twice: strictly, and up to twice the accuracy.
        z2 = rng.choice([rng.uniform(-40, 40), nxt(z, rng.randint(1, 3)), z + log_uniform(rng, 1e-12, 1)])
        ops.append(mono("pnorm", SLACK_ROUND, sorted([z, z2])[:1] + [0.0, 0.0], sorted([z, z2])[1:] + [0.0, 0.0]))
        c = rng.choice(PNORM_CUTS[1:5]) * rng.choice([-1, 1])
        ops.append(mono("pnorm@switch", SLACK_ROUND, (nxt(c, -rng.randint(1, 2)), 0.0, 0.0), (nxt(c, rng.randint(0, 2)), 0.0, 0.0)))
        x2 = rng.choice([gamma_x(rng, a, b), nxt(x, rng.randint(1, 3)), x * (1 + log_uniform(rng, 1e-15, 1))])
        lo, hi = sorted([x, x2])
        sw = (b * lo < a <= b * hi) or (b * lo <= 1 < b * hi)
        ops.append(mono("pgamma", 2 * TOL_GAMMA if sw else SLACK_ROUND, (lo, a, b), (hi, a, b)))
        xs = rng.choice([a / b, 1 / b])
        lo, hi = nxt(xs, -rng.randint(1, 3)), nxt(xs, rng.randint(1, 3))
        ops.append(mono("pgamma@switch", 0.0, (lo, a, b), (hi, a, b)))
        ops.append(mono("pgamma@switch", 2 * TOL_GAMMA, (lo, a, b), (hi, a, b)))
        x2 = rng.choice([gamma_x(rng, v / 2, 0.5), nxt(xc, rng.randint(1, 3)), xc * (1 + log_uniform(rng, 1e-15, 1))])
        lo, hi = sorted([xc, x2])
        sw = (lo / 2 < v / 2 <= hi / 2) or (lo / 2 <= 1 < hi / 2)
        ops.append(mono("pchisq", 2 * TOL_GAMMA if sw else SLACK_ROUND, (lo, v, 0.0), (hi, v, 0.0)))
        xs = rng.choice([v, 2.0])
        lo, hi = nxt(xs, -rng.randint(1, 3)), nxt(xs, rng.randint(1, 3))
        ops.append(mono("pchisq@switch", 0.0, (lo, v, 0.0), (hi, v, 0.0)))
        ops.append(mono("pchisq@switch", 2 * TOL_GAMMA, (lo, v, 0.0), (hi, v, 0.0)))
        x2 = min(rng.choice([beta_x(rng, al, be), nxt(xb, rng.randint(1, 3)), xb * (1 + log_uniform(rng, 1e-15, 1))]), 1.0)
        lo, hi = sorted([xb, x2])
        ops.append(mono("pbeta", 2 * TOL_NB, (lo, al, be), (hi, al, be)))
        xs = rng.choice([0.95, al / (al + be), min(1 / be, 0.9)])
        ops.append(mono("pbeta@switch", 2 * TOL_NB, (nxt(xs, -rng.randint(1, 3)), al, be), (nxt(xs, rng.randint(1, 3)), al, be)))
        # ---- quantiles: monotone in p, and inverse of the cdf
        p1, p2 = sorted([pq(rng), pq(rng)])
        if rng.random() < 0.3:
            p2 = min(nxt(p1, rng.randint(1, 3)), 1 - 1e-6)
        ops.append(mono("qnorm", SLACK_ROUND, (p1, 0.0, 0.0), (p2, 0.0, 0.0)))
        # strict (the property's 1e-12) and at the accuracy of the algorithm qNorm cites (AS70)
        ops.append(inv("norm", TOL_NB, p1))
        ops.append(inv("norm", TOL_QNORM_AS70, p1))
        qa, qb = log_uniform(rng, 0.3, 200), log_uniform(rng, 0.3, 200)
        ops.append(mono("qbeta", SLACK_ROUND, (p1, qa, qb), (p2, qa, qb)))
        ops.append(inv("beta", TOL_NB, p1, qa, qb))
        ops.append(inv("beta", TOL_NB, p2, qa, qb))
        # the gamma-type quantiles document 0.000002 < p < 0.999998
        g1, g2 = min(max(p1, .000002), .999998), min(max(p2, .000002), .999998)
        ops.append(mono("qgamma", SLACK_ROUND, (g1, a, b), (g2, a, b)))
        ops.append(inv("gamma", TOL_GAMMA, g1, a, b))
        ops.append(mono("qchisq", SLACK_ROUND, (g1, v, 0.0), (g2, v, 0.0)))
        ops.append(inv("chisq", TOL_GAMMA, g2, v))
    refs = scipy_refs([(f, a, b, c) for (f, a, b, c, _) in want])
    if refs is None:
        # a reported gap, not a silent one: the accuracy clause is not explored in this run
        sys.stderr.write("[gens/C08] GAP: no reference values (%s): the x.acc accuracy ops are not generated, "
                         "the accuracy clause of C08 is NOT explored in this run\n" % SCIPY_NOTE["status"])
    if refs is not None:
        for (f, a, b, c, tol), r in zip(want, refs):
            if r == r:
                ops.append(acc("accuracy", f, tol, r, a, b, c))
    rng.shuffle(ops)
    return chunks("x", ops, 1)



# ---------------------------------------------------------------------------------- stream 4
# transcribed kernels (`k.*`, bit-exact tie) and the exact reflections (`refl.*`).  Every generator
# below is aimed at one decision of the anchored code; props/C08.coverage.md lists which.
def lg(a):
    return math.lgamma(a) if a > 0 else (a if a != a else 0.0)


def clampp(p):
    return min(max(p, .000002), .999998)


def kernel_grid():
    """the guard grids of stream 1, on the transcribed kernels"""
    ops = []
    for x, a in itertools.product(X_SPECIAL, SHAPE_SPECIAL):
        ops.append("k.ig %s %s %s" % (hx(x), hx(a), hx(lg(a))))
    for p, v in itertools.product(P_SPECIAL, SHAPE_SPECIAL + [0.1, 400.0]):
        ops.append("k.qchisq %s %s" % (hx(p), hx(v)))
    for x, a, b in itertools.product(X01_SPECIAL, BSHAPE_SPECIAL, BSHAPE_SPECIAL):
        ops.append("k.ibeta %s %s %s" % (hx(x), hx(a), hx(b)))
    PQ = [-1.0, -1e-300, -0.0, 0.0, 1e-6, 0.25, 0.5, 0.75, 1 - 1e-6, 1.0, nxt(1.0, 1), 2.0]
    for p, a, b in itertools.product(PQ, QBSHAPE_SPECIAL, QBSHAPE_SPECIAL):
        ops.append("k.qbeta %s %s %s" % (hx(p), hx(a), hx(b)))
    return chunks("kgrid", ops)


def ig_point(rng):
    """(x, shape) for incompleteGamma: both branches, the switch and its neighbours, the far-tail
    guard (factor == 0 on the continued-fraction side), factor == 0 on the series side, the
    rescaling of the continued fraction (|pn[4]| >= 1e30), pn[5] == 0"""
    a = log_uniform(rng, 0.05, 200)
    k = rng.randrange(12)
    if rng.random() < 0.02:
        # non-finite arguments: isinf(x) -> 1 (cpp:158), NaN / infinite shape propagate through the series
        x = rng.choice([math.inf, math.inf, math.nan, gamma_x(rng, a, 1.0)])
        a = rng.choice([a, a, math.inf, math.nan, float(rng.randint(1, 5))])
        return x, a
    if k <= 3:
        x = gamma_x(rng, a, 1.0)
    elif k == 4:
        x = nxt(a, rng.randint(-2, 2)) if a > 1 else nxt(1.0, rng.randint(-2, 2))      # the switch
    elif k == 5:
        x = (a + 40 * math.sqrt(a) + 700) * log_uniform(rng, 1, 1e3)                    # factor == 0, CF side
    elif k == 6:
        a = log_uniform(rng, 150, 1e4); x = a * log_uniform(rng, 1e-4, 0.05)            # factor == 0, series side
    elif k == 7:
        x = log_uniform(rng, 30, 600)                                                   # long CF: rescaling
    elif k == 8:
        a = float(rng.randint(1, 6)); x = a + rng.randint(0, 40)                        # integer shape: CF terminates (an == 0)
    elif k == 9:
        a = log_uniform(rng, 1e3, 1e6); x = a * rng.uniform(0.5, 1.5)                   # long loops
    elif k == 10:
        x = log_uniform(rng, 1e-300, 1e-5)
    else:
        a = rng.choice([1.0, 2.0, 0.5, 1.5]); x = rng.choice([1.0, 2.0, 0.5, 1.5, 3.0])
    return x, a


def qchisq_point(rng):
    """(p, v): the three starting values (closed form incl. its early return, v <= .32, Wilson-Hilferty
    incl. its tail correction) and their cut-offs"""
    k = rng.randrange(10)
    p = clampp(pq(rng))
    if k == 0:
        v = log_uniform(rng, 0.1, 400)
    elif k == 1:                                   # closed form, early return ch < 5e-7
        v = log_uniform(rng, 0.1, 1.5); p = clampp(log_uniform(rng, 2e-6, 1e-2))
    elif k == 2:                                   # closed form, refined
        v = log_uniform(rng, 0.5, 20); p = clampp(math.exp(-v / 1.24) * rng.uniform(0.01, 0.99))
    elif k == 3:                                   # v <= .32 iteration
        v = log_uniform(rng, 0.1, 0.32); p = clampp(1 - log_uniform(rng, 2e-6, 0.5) if rng.random() < 0.5 else rng.uniform(0.3, 0.999))
    elif k == 4:                                   # cut-off v = -1.24 log p
        p = clampp(rng.uniform(0.01, 0.99)); v = nxt(-1.24 * math.log(p), rng.randint(-2, 2))
    elif k == 5:                                   # cut-off v = .32
        v = nxt(.32, rng.randint(-2, 2)); p = clampp(rng.uniform(0.8, 0.999998))
    elif k == 6:                                   # Wilson-Hilferty with tail correction ch > 2.2 v + 6
        v = log_uniform(rng, 0.4, 50); p = clampp(1 - log_uniform(rng, 2e-6, 0.02))
    elif k == 7:
        v = log_uniform(rng, 50, 400)
    elif k == 8:
        v = rng.choice([1.0, 2.0, 4.0, 10.0, 100.0])
    else:
        v = log_uniform(rng, 0.1, 400); p = rng.choice([.000002, .999998, 0.5])
    return p, v


def ibeta_point(rng):
    """(x, a, b): every arm of incompleteBeta and of its three sub-kernels"""
    al, be = log_uniform(rng, 0.1, 200), log_uniform(rng, 0.1, 200)
    k = rng.randrange(16)
    if k <= 3:
        x = beta_x(rng, al, be)
    elif k == 4:      # direct power series, logarithmic normalisation (a + b >= maxgam)
        al, be = rng.choice([(log_uniform(rng, 0.1, 8), rng.uniform(172, 200)), (rng.uniform(100, 200), rng.uniform(80, 200))])
        x = min(1 / be, 0.95) * rng.random()
    elif k == 5:      # power series after the swap, logarithmic normalisation
        al, be = rng.uniform(172, 200), log_uniform(rng, 0.1, 8)
        x = 1 - min(1 / al, 0.95) * rng.random()
    elif k == 6:      # power series with |a log x| >= log(VERY_BIG): tiny x
        x = log_uniform(rng, 1e-300, 1e-30); al = log_uniform(rng, 1, 200); be = log_uniform(rng, 0.1, 1 / 0.95)
    elif k == 7:      # power series underflowing: t < log(VERY_TINY) -> 0
        x = log_uniform(rng, 1e-300, 1e-10); al = rng.uniform(50, 200); be = rng.uniform(130, 200)
    elif k == 8:      # continued fraction, logarithmic normalisation (a + b >= maxgam), both sides of the mean
        al, be = rng.uniform(60, 200), rng.uniform(112, 200)
        m = al / (al + be); sd = math.sqrt(al * be / ((al + be) ** 2 * (al + be + 1)))
        x = min(max(m + sd * rng.uniform(-8, 8), 1e-3), 1 - 1e-3)
    elif k == 9:      # continued fraction far in a tail: y < minlog -> 0, and 1 - VERY_TINY on the swapped side
        al, be = rng.uniform(100, 200), rng.uniform(100, 200)
        x = rng.choice([rng.uniform(0.01, 0.15), rng.uniform(0.85, 0.99)])
    elif k == 10:     # direct normalisation, swapped side with t < VERY_TINY: beta log(1/(1-x)) in (40, 53.4)
        al, be = log_uniform(rng, 0.2, 5), rng.uniform(10, 150)
        x = 1 - math.exp(-rng.uniform(40, 53.4) / be)
    elif k == 11:     # between the mode and the mean: fe2
        al = log_uniform(rng, 1.2, 60); be = al * log_uniform(rng, 1.5, 20)
        mode, mean = (al - 1) / (al + be - 2), al / (al + be)
        x = rng.uniform(mode, mean)
        if rng.random() < 0.5:
            x, al, be = 1 - x, be, al
    elif k == 12:     # small shapes (k2 = b - 1 < 0 etc.), x near the ends
        al, be = log_uniform(rng, 0.1, 1), log_uniform(rng, 0.1, 1)
        x = rng.choice([rng.random(), nxt(0.95, rng.randint(-2, 3)), 1 - log_uniform(rng, 1e-16, 0.05)])
    elif k == 13:     # slow continued fraction: 300 rounds without convergence / rescaling
        al, be = log_uniform(rng, 0.1, 200), log_uniform(rng, 0.1, 200)
        x = rng.choice([0.96, 0.99, 0.999, 1 - 1e-6, 1 - 1e-10])
    elif k == 14:     # exactly the mean / x = 0.95 / beta x = 1
        x = rng.choice([al / (al + be), 0.95, min(1 / be, 0.9), nxt(1 / be, 1) if be > 1.1 else 0.95])
    else:
        al, be = rng.choice([1.0, 2.0, 0.5, 3.0]), rng.choice([1.0, 2.0, 0.5, 3.0]); x = rng.choice([0.25, 0.5, 0.75, 0.96])
    return min(max(x, 5e-324), nxt(1.0, -1)), al, be


def qbeta_point(rng):
    """(p, a, b): the four start values, the reset, both tails"""
    k = rng.randrange(10)
    p = pq(rng)
    qa, qb = log_uniform(rng, 0.3, 200), log_uniform(rng, 0.3, 200)
    if k == 0:
        pass
    elif k == 1:      # both shapes > 1
        qa, qb = log_uniform(rng, 1.01, 200), log_uniform(rng, 1.01, 200)
    elif k == 2:      # a shape <= 1, t <= 0 start
        qa, qb = log_uniform(rng, 0.3, 1), log_uniform(rng, 0.3, 0.6); p = rng.uniform(1e-6, 0.1) if rng.random() < 0.5 else 1 - rng.uniform(1e-6, 0.1)
    elif k == 3:      # a shape <= 1, t <= 1 start
        qa, qb = log_uniform(rng, 0.3, 1), log_uniform(rng, 1, 200)
    elif k == 4:      # a shape <= 1, last start
        qa, qb = log_uniform(rng, 0.3, 1), log_uniform(rng, 0.3, 3); p = rng.uniform(0.2, 0.8)
    elif k == 5:      # start outside (lower, upper): reset
        qa, qb = log_uniform(rng, 0.3, 0.5), log_uniform(rng, 50, 200); p = rng.choice([1e-6, 1 - 1e-6, rng.random()])
    elif k == 6:      # very unequal shapes
        qa, qb = log_uniform(rng, 0.3, 5), log_uniform(rng, 80, 200)
        if rng.random() < 0.5:
            qa, qb = qb, qa
    elif k == 7:
        p = rng.choice([0.5, nxt(0.5, 1), nxt(0.5, -1)])
    elif k == 8:
        qa = qb = log_uniform(rng, 0.3, 200)
    else:
        qa, qb = rng.choice([1.0, 2.0, 0.5]), rng.choice([1.0, 2.0, 0.5])
    return p, qa, qb



def kernel_extension(rng, n):
    """beyond the property's parameter ranges but inside the code's domain (bit-exact tie and exact
    reflections only): beta quantile with shapes in [0.02, 0.3) - the `t <= 0` start (cpp:490), the
    reset of a start outside (3e-308, 1 - 2.22e-16) (cpp:512), Newton trial points below 0 or equal
    to 1 (cpp:538, 542); incomplete beta with shapes up to 1e6 - the continued fractions run into
    their cap of 300 rounds (cpp:771, 884) and rescale upwards (cpp:875)"""
    ops, refl = [], []
    for _ in range(n):
        k = rng.randrange(5)
        if k == 0:
            p, qa, qb = pq(rng), log_uniform(rng, 0.02, 0.3), log_uniform(rng, 0.02, 0.3)
        elif k == 1:
            p, qa, qb = pq(rng), log_uniform(rng, 0.02, 0.3), log_uniform(rng, 1, 200)
            if rng.random() < 0.5:
                qa, qb = qb, qa
        if k <= 1:
            ops.append("k.qbeta %s %s %s" % (hx(p), hx(qa), hx(qb)))
            refl.append("refl.qbeta %s %s %s" % (hx(p), hx(qa), hx(qb)))
            continue
        al, be = log_uniform(rng, 1e3, 1e6), log_uniform(rng, 1e3, 1e6)
        if k == 2:      # near the mean: incompletebetafe, cap of 300 rounds
            m = al / (al + be); sd = math.sqrt(al * be / ((al + be) ** 2 * (al + be + 1)))
            x = m + sd * rng.uniform(-8, 8)
        elif k == 3:    # between the mode and the mean: incompletebetafe2
            x = rng.uniform((al - 1) / (al + be - 2), al / (al + be))
            if rng.random() < 0.5:
                x, al, be = 1 - x, be, al
        else:           # shapes just above the range
            al, be = log_uniform(rng, 200, 1e3), log_uniform(rng, 200, 1e3)
            x = beta_x(rng, al, be)
        x = min(max(x, 1e-9), 1 - 1e-9)
        ops.append("k.ibeta %s %s %s" % (hx(x), hx(al), hx(be)))
        refl.append("refl.ibeta %s %s %s" % (hx(x), hx(al), hx(be)))
    return chunks("kext", ops, 200) + chunks("reflext", refl, 100)


def kernel_random(rng, n):
    # the reflections go into cases of their own: a case is judged up to its first issue, and a broken
    # tie on a `k.*` op must not hide a false theorem-backed predicate on a `refl.*` op
    ops, refl = [], []
    for _ in range(n):
        x, a = ig_point(rng)
        ops.append("k.ig %s %s %s" % (hx(x), hx(a), hx(lg(a))))
        p, v = qchisq_point(rng)
        ops.append("k.qchisq %s %s" % (hx(p), hx(v)))
        x, al, be = ibeta_point(rng)
        ops.append("k.ibeta %s %s %s" % (hx(x), hx(al), hx(be)))
        refl.append("refl.ibeta %s %s %s" % (hx(x), hx(al), hx(be)))
        if rng.random() < 0.34:
            p, qa, qb = qbeta_point(rng)
            ops.append("k.qbeta %s %s %s" % (hx(p), hx(qa), hx(qb)))
            refl.append("refl.qbeta %s %s %s" % (hx(p), hx(qa), hx(qb)))
    return chunks("krnd", ops, 200) + chunks("refl", refl, 100)


def generate(seed, tier):
    rng = random.Random(seed)
    big = tier == "thorough"
    cases = []
    cases += guard_grid(rng, tier)
    cases += guard_random(rng, 100000 if big else 10000)
    cases += norm_tie(rng, 200000 if big else 20000)
    # theorem-backed streams first (the check reports the first few distinct failing clauses)
    cases += kernel_grid()
    cases += kernel_random(rng, 60000 if big else 6000)
    cases += kernel_extension(rng, 15000 if big else 1500)
    cases += explore(rng, 40000 if big else 3000)
    return cases


def coverage_extra(cases, answers):
    """exploration statistics for the evidence (supporting search, not proof)"""
    worst, counts, raised = {}, {}, 0
    for c, a in zip(cases, answers):
        ops = [l for l in c if not l.startswith("case")]
        for l, r in zip(ops, a or []):
            t = l.split()
            if not t[0].startswith("x."):
                continue
            key = t[0] + ":" + (t[1] if t[0] != "x.acc" else t[1] + ":" + t[2])
            counts[key] = counts.get(key, 0) + 1
            rt = r.split()
            try:
                if t[0] == "x.acc":
                    err = abs(unhx(rt[0]) - unhx(t[4]))
                elif t[0] == "x.inv":
                    err = abs(unhx(rt[1]) - unhx(t[3]))
                    if not (unhx(rt[2]) <= unhx(t[3]) <= unhx(rt[3])) and err > worst.get(key + ":unbracketed", 0.0):
                        worst[key + ":unbracketed"] = err
                elif t[0] == "x.mono":
                    err = max(0.0, unhx(rt[0]) - unhx(rt[1]))
                else:
                    err = abs(unhx(t[4]) * unhx(rt[0]) + unhx(t[9]) * unhx(rt[1]) - unhx(t[3]))
                if err > worst.get(key, 0.0):
                    worst[key] = err
            except (ValueError, IndexError):
                raised += 1
    out = branch_coverage(cases)
    out.update({"search_ops": counts, "search_worst_deviation": {k: float("%.3g" % v) for k, v in sorted(worst.items())},
            "search_unparsed_or_raised": raised, "search_reference": SCIPY_NOTE["status"],
            "search_reference_gap": not SCIPY_NOTE["status"].startswith("ok"),
            "search_note": "x.* ops are exploration of the numeric kernels on grids/random points (accuracy vs scipy.special, "
                           "closed-form special cases, identities, monotonicity, inverse relations); they support, and are not "
                           "part of, obligations/discharged"})
    return out


# ---------------------------------------------------------------------------------- branch coverage
# outcomes that no generated family executes, with the reason (keyed by routine, source text, gcov branch number)
NOT_EXECUTED = {
    ("incompleteGamma", "if (pn[5] == 0)", 1):
        "pn[5] == 0: the denominators of the convergents are positive for x >= p (the only region where the continued "
        "fraction is entered) and the division by 1e30 keeps them far from underflow; exact cancellation only",
    ("qChisq", "if ((t = incompleteGamma (p1, xx, g)) < 0)", 1):
        "incompleteGamma reports an error only for p1 = ch/2 < 0 (xx = v/2 > 0 after the guard): a negative iterate; "
        "would itself be a violation of guards_total_qChisq (error value inside the domain) - never seen",
    ("qBeta", "for (i_pb = 0; i_pb < niterations; i_pb++)", 1):
        "2000 Newton rounds without convergence: not reached by any family (at most a few dozen rounds are seen)",
    ("qBeta", "for (i_inn = 0, g = 1; i_inn < niterations; i_inn++)", 1):
        "2000 step halvings (g = 3^-2000 underflows to 0 long before, giving tx = xinbta inside (0,1) and a break): "
        "needs a NaN y",
    ("qBeta", "if (tx != 0. && tx != 1.)", 1):
        "trial point exactly 0: xinbta - adj == 0 needs adj == xinbta bit for bit",
    ("qBeta", "if (tx != 0. && tx != 1.)", 3):
        "trial point exactly 1: reached about twice per run by `kext` (a shape < 0.1 against a large one), absent at some seeds",
    ("incompletebetafe", "if (qk != 0)", 1): "qk == 0 exactly: exact cancellation only",
    ("incompletebetafe", "if (r != 0)", 1): "pk == 0 exactly: exact cancellation only",
    ("incompletebetafe", "if (fabs(qk) + fabs(pk) > big)", 0):
        "convergents above 2^52: in every family (shapes 0.1 .. 1e6, > 3e6 rounds observed) the convergents shrink, "
        "only the upward rescaling occurs",
    ("incompletebetafe", "if ((fabs(qk) < biginv) || (fabs(pk) < biginv))", 2):
        "|pk| < 2^-52 while |qk| >= 2^-52: pk/qk converges to a value of order 1, qk falls below first",
    ("incompletebetafe2", "if (qk != 0)", 1): "qk == 0 exactly: exact cancellation only",
    ("incompletebetafe2", "if (r != 0)", 1): "pk == 0 exactly: exact cancellation only",
    ("incompletebetafe2", "if (fabs(qk) + fabs(pk) > big)", 0): "as for incompletebetafe",
    ("incompletebetafe2", "if ((fabs(qk) < biginv) || (fabs(pk) < biginv))", 2): "as for incompletebetafe",
}
# outcomes executed only by the families beyond the property's ranges (`kext`)
ONLY_BEYOND_RANGE = {
    ("qBeta", "if (t <= 0.)", 0): "needs 1 - 1/(9 qq) + y sqrt(1/(9 qq)) <= 0, i.e. a working shape qq < ~0.12; the property's quantile range is [0.3, 200]",
    ("qBeta", "if (xinbta <= lower || xinbta >= upper)", 1): "start value <= 3e-308: shapes < ~0.15",
    ("qBeta", "if (xinbta <= lower || xinbta >= upper)", 2): "start value >= 1 - 2.22e-16: shapes < ~0.15",
    ("qBeta", "if (tx >= 0. && tx <= 1.)", 1): "Newton trial point below 0: shapes < 0.3",
    ("qBeta", "if (tx != 0. && tx != 1.)", 3): "Newton trial point exactly 1: shapes < 0.3 against a large one",
    ("incompletebetafe", "while (n != 300);", 1): "300 rounds without convergence: shapes >= ~1e4",
    ("incompletebetafe2", "while (n != 300);", 1): "300 rounds without convergence: shapes >= ~1e4",
    ("incompletebetafe2", "if ((fabs(qk) < biginv) || (fabs(pk) < biginv))", 1): "upward rescaling in fe2: shapes >= ~300",
}


def _distcov():
    import importlib.util
    spec = importlib.util.spec_from_file_location(
        "gen_distcov", os.path.join(os.path.dirname(os.path.dirname(os.path.abspath(__file__))), "tools", "gen_distcov.py"))
    m = importlib.util.module_from_spec(spec); spec.loader.exec_module(m)
    return m


def branch_coverage(cases):
    """per-routine branch coverage of the anchored code under exactly these scripts (gcov); set
    VERIF_C08_BRANCHCOV=0 to skip"""
    if os.environ.get("VERIF_C08_BRANCHCOV", "1") == "0":
        return {"branch_coverage": {"status": "skipped (VERIF_C08_BRANCHCOV=0)"}}
    try:
        table, missing, rows = _distcov().measure(cases)
    except Exception as e:  # no gcov, no compiler ...
        return {"branch_coverage": {"status": "unavailable: %r" % (e,)}}
    unexplained = []
    for name, fn, line, text, counts in rows:
        for b, n in counts:
            if n == 0 and (name, text, b) not in NOT_EXECUTED:
                unexplained.append("%s %s:%d branch %d: %s" % (name, fn, line, b, text))
    return {"branch_coverage": {k: "%d / %d (%s)" % (v["executed"], v["branch_outcomes"], v["lines"]) for k, v in table.items()},
            "branch_outcomes_total": sum(v["branch_outcomes"] for v in table.values()),
            "branch_outcomes_executed": sum(v["executed"] for v in table.values()),
            "branch_outcomes_not_executed": missing,
            "branch_outcomes_not_executed_unexplained": unexplained,
            "branch_coverage_note": "gcov -b on RandomTools.cpp / RandomTools.h (-O0 --coverage) under exactly the scripts of this run; "
                                    "every outcome not executed is explained in props/C08.coverage.md"}


def write_coverage_md(seed=1):
    """props/C08.coverage.md from real runs of the quick tier (with and without the families beyond the ranges)"""
    D = _distcov()
    rng = random.Random(seed)
    inrange = []
    inrange += guard_grid(rng, "quick"); inrange += guard_random(rng, 10000); inrange += norm_tie(rng, 20000)
    inrange += explore(rng, 3000); inrange += kernel_grid(); inrange += kernel_random(rng, 6000)
    allc = inrange + kernel_extension(rng, 1500)
    old = []
    rng0 = random.Random(seed)
    old += guard_grid(rng0, "quick"); old += guard_random(rng0, 10000); old += norm_tie(rng0, 20000); old += explore(rng0, 3000)
    t_old, _, r_old = D.measure(old)
    t_in, _, r_in = D.measure(inrange)
    t_all, _, r_all = D.measure(allc)
    L = ["# C08 - branch coverage of the anchored routines by the generated scripts", "",
         "Measured with `gcov -b` (RandomTools.cpp and the inline wrappers of RandomTools.h compiled `-O0 --coverage`,",
         "`tools/gen_distcov.py`) under exactly the scripts of the quick tier, seed %d. A *branch outcome* is one `branch N` line" % seed,
         "of gcov: each operand of `&&` / `||` counts with both outcomes; exception edges of calls (`(throw)`) are not counted.",
         "Every run of `tools/check.py C08` repeats the measurement and stores it in `evidence/C08.json`",
         "(`coverage.branch_coverage`, `coverage.branch_outcomes_not_executed`). Written by `python3 gens/C08.py coverage`.", "",
         "Columns: round 1 = the scripts of round 1 (guard grids, pNorm/qNorm tie, exploration); in range = round 2 quick tier",
         "restricted to the property's parameter ranges; all = with the families beyond the ranges (`kext`: beta quantile",
         "shapes in [0.02, 0.3), incomplete beta shapes up to 1e6; bit-exact tie and exact reflections only).", "",
         "## Per routine", "", "| routine | lines | branch outcomes | round 1 | in range | all |", "|---|---|---|---|---|---|"]
    for k in t_all:
        L.append("| %s | %s | %d | %d | %d | %d |" % (k, t_all[k]["lines"], t_all[k]["branch_outcomes"], t_old[k]["executed"], t_in[k]["executed"], t_all[k]["executed"]))
    L.append("| **total** | | %d | %d | %d | %d |" % tuple(sum(t[k][f] for k in t) for t, f in ((t_all, "branch_outcomes"), (t_old, "executed"), (t_in, "executed"), (t_all, "executed"))))
    L += ["", "## Outcomes not executed inside the property's ranges", "",
          "| routine | line | condition | gcov branch | executed by `kext` | why |", "|---|---|---|---|---|---|"]
    for (name, fn, line, text, c_in), (_, _, _, _, c_all) in zip(r_in, r_all):
        for (b, n), (_, na) in zip(c_in, c_all):
            if n == 0:
                why = NOT_EXECUTED.get((name, text, b)) or ONLY_BEYOND_RANGE.get((name, text, b)) or "UNEXPLAINED"
                L.append("| %s | %s:%d | `%s` | %d | %s | %s |" % (name, fn, line, text.replace("|", "\\|"), b, "yes (%d)" % na if na else "no", why.replace("|", "\\|")))
    L += ["", "## Every branch outcome (hits: round 1 / in range / all)", "", "| routine | line | condition | hits per gcov branch |", "|---|---|---|---|"]
    for (name, fn, line, text, c_old), (_, _, _, _, c_in), (_, _, _, _, c_all) in zip(r_old, r_in, r_all):
        L.append("| %s | %s:%d | `%s` | %s |" % (name, fn, line, text.replace("|", "\\|"),
                                                  "; ".join("%d: %d / %d / %d" % (b, o, i_, a) for (b, o), (_, i_), (_, a) in zip(c_old, c_in, c_all))))
    p = os.path.join(os.path.dirname(os.path.dirname(os.path.abspath(__file__))), "props", "C08.coverage.md")
    with open(p, "w") as f:
        f.write("\n".join(L) + "\n")
    return p


if __name__ == "__main__":
    if len(sys.argv) > 1 and sys.argv[1] == "coverage":
        print(write_coverage_md(int(sys.argv[2]) if len(sys.argv) > 2 else 1))
        sys.exit(0)
    cs = generate(int(sys.argv[1]) if len(sys.argv) > 1 else 1, sys.argv[2] if len(sys.argv) > 2 else "quick")
    hist = {}
    for c in cs:
        for l in c[1:]:
            hist[l.split()[0]] = hist.get(l.split()[0], 0) + 1
    print(len(cs), "cases", sum(hist.values()), "ops")
    for k in sorted(hist):
        print("  %-12s %d" % (k, hist[k]))
