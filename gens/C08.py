"""Script generator for C08 (RandomTools cumulative / quantile functions)."""
import random, struct


def hx(x):
    return "%016x" % struct.unpack("<Q", struct.pack("<d", x))[0]


def generate(seed, tier):
    rng = random.Random(seed)
    cases = []
    ops = []
    for i in range(2000):
        ops.append("pnorm " + hx(rng.uniform(-40, 40)))
        ops.append("qnorm " + hx(rng.random()))
    for i in range(0, len(ops), 200):
        cases.append(["case n%d" % i] + ops[i:i + 200])
    return cases
