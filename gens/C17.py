"""Script generator for C17 (round trips and exact grammars).

Streams:  num     - number recognisers / conversions: exhaustive small universe over a number
                    alphabet, a grammar-derived valid stream, a near-miss malformed stream
          int.rt  - toString(int) -> toInt
          dbl.rt  - toString(double, precision) -> toDouble (text compared with the %g model)
          glob, kv.*, vars - wildcard matcher, key-value procedures, variable resolution
          st.rt / nst.rt   - StringTokenizer / NestedStringTokenizer: tokens, recorded separators,
                    unparse before and after k tokens (round 2)
          tbl.rt  - DataTable write -> read (round 2)
          dist.rt - distribution description write -> read, explored (round 2)
All strings are hex-escaped ("-" = empty)."""
import random, itertools, struct, re
from fractions import Fraction


def hx(s):
    return s.encode("latin-1").hex() if s else "-"


def unhx(t):
    return "" if t == "-" else bytes.fromhex(t).decode("latin-1")


def chunk(tag, ops, n=200):
    return [["case %s%d" % (tag, i)] + ops[i:i + n] for i in range(0, len(ops), n)]


# ------------------------------------------------------------------ numbers
def valid_number(rng, dec=".", sci="e"):
    neg = rng.random() < 0.3
    ip = "".join(rng.choice("0123456789") for _ in range(rng.choice([0, 1, 1, 2, 3, 6, 12])))
    has_dec = rng.random() < 0.6
    fp = "".join(rng.choice("0123456789") for _ in range(rng.choice([0, 1, 2, 3, 8, 17]))) if has_dec else ""
    if not ip and not fp:
        ip = rng.choice("0123456789")
    s = ("-" if neg else "") + ip + (dec + fp if has_dec else "")
    if rng.random() < 0.5:
        e = str(rng.choice([0, 1, 2, 5, 10, 22, 23, 100, 300, 308, 309, 330, 400, rng.randint(0, 350)]))
        if rng.random() < 0.2:
            e = "0" + e
        s += sci + rng.choice(["", "+", "-", "-"]) + e
    return s


def valid_integer(rng, sci="e"):
    neg = rng.random() < 0.3
    ip = "".join(rng.choice("0123456789") for _ in range(rng.choice([1, 1, 2, 3, 9, 10, 11, 12])))
    s = ("-" if neg else "") + ip
    if rng.random() < 0.3:
        s += sci + rng.choice(["", "+"]) + str(rng.randint(0, 12))
    return s


def near_miss(rng, s):
    """one structural mutation of a valid numeral"""
    k = rng.randint(0, 7)
    pos = rng.randint(0, len(s))
    junk = "-+.eE 0x,"
    if k == 0 and s:
        p = rng.randrange(len(s)); return s[:p] + s[p + 1:]               # delete a char
    if k == 1:
        return s[:pos] + rng.choice(junk) + s[pos:]                        # insert junk
    if k == 2 and s:
        p = rng.randrange(len(s)); return s[:p] + rng.choice(junk) + s[p + 1:]  # replace
    if k == 3:
        return "".join(c for c in s if not c.isdigit() or rng.random() < 0.3)   # strip most digits
    if k == 4:
        return s + rng.choice(["e", "e+", "e-", ".", "-", " "])
    if k == 5:
        return rng.choice(["-", "+", " ", "."]) + s
    if k == 6 and s:
        p = rng.randrange(len(s)); return s[:p] + s[p] + s[p:]             # duplicate a char
    return s[::-1]


def gen_numbers(rng, tier):
    ops = []
    # exhaustive small universe: every string over the number alphabet up to length L
    alpha = "-+.e05 "
    L = 5 if tier == "thorough" else 4
    for n in range(0, L + 1):
        for t in itertools.product(alpha, repeat=n):
            ops.append("num %s %s %s" % (hx("".join(t)), hx("."), hx("e")))
    nv = 20000 if tier == "thorough" else 2500
    for i in range(nv):
        r = rng.random()
        dec, sci = ".", "e"
        if r < 0.08:
            sci = "E"
        elif r < 0.14:
            dec, sci = rng.choice([(",", "e"), (".", "x"), (",", "E"), ("e", "."), (".", "d")])
        s = valid_integer(rng, sci) if rng.random() < 0.35 else valid_number(rng, dec, sci)
        if i % 3 == 2:
            s = near_miss(rng, s)
        # keep exponents small (the model computes 10^e exactly)
        s = re.sub(r"([eE%s][+-]?[0-9]{3})[0-9]+" % re.escape(sci), r"\1", s)
        ops.append("num %s %s %s" % (hx(s), hx(dec), hx(sci)))
    # ops that hit the known finding C17-toint-ignores-exponent go into one-op cases (check.py
    # stops judging a case at its first issue)
    def hits_known(op):
        t = op.split(); st = unhx(t[1]); sc = unhx(t[3])
        return re.fullmatch(r"-?[0-9]+%s\+?[0-9]+" % re.escape(sc), st) is not None
    def hits_known2(op):
        t = op.split()
        return unhx(t[2]) != "." or unhx(t[3]) not in ("e", "E")
    single = [o for o in ops if hits_known(o) or hits_known2(o)]
    ops = [o for o in ops if not (hits_known(o) or hits_known2(o))]
    cases = chunk("num", ops) + [["case numexp%d" % i, o] for i, o in enumerate(single)]
    # ints: boundaries + random
    iops = []
    vals = [0, 1, -1, 9, 10, 11, 99, 100, 101, -9, -10, -11, 2147483647, -2147483648, 2147483646, -2147483647, 1000000000, -1000000000]
    vals += [rng.randint(-2 ** 31, 2 ** 31 - 1) for _ in range(3000 if tier == "thorough" else 400)]
    vals += [rng.randint(-10 ** k, 10 ** k) for k in range(1, 10) for _ in range(20)]
    for v in vals:
        iops.append("int.rt %d" % v)
    # doubles by bit pattern: toString(d, 17) -> toDouble must give back the same bits (search only:
    # ostream formatting is not modelled); toString(d, p) for p < 17 need not round-trip, it is only
    # required to be in the grammar and to denote a value that rounds to within the printed precision
    dops = []
    nd = 20000 if tier == "thorough" else 2000
    specials = ["0000000000000000", "8000000000000000", "0000000000000001", "000fffffffffffff", "0010000000000000",
                "7fefffffffffffff", "ffefffffffffffff", "3ff0000000000000", "3ff0000000000001", "3fefffffffffffff",
                "4340000000000000", "433fffffffffffff", "3fb999999999999a", "4024000000000000"]
    for h in specials:
        dops.append("dbl.rt %s 17" % h)
    for _ in range(nd):
        r = rng.random()
        if r < 0.5:
            bits = rng.getrandbits(64)
        elif r < 0.8:
            bits = (rng.getrandbits(1) << 63) | (rng.randint(1023 - 60, 1023 + 60) << 52) | rng.getrandbits(52)
        else:
            bits = struct.unpack(">Q", struct.pack(">d", rng.choice([1, -1]) * round(rng.uniform(0, 1000), rng.randint(0, 6))))[0]
        if (bits >> 52) & 0x7ff == 0x7ff:
            continue                                  # inf / nan are not numbers of the grammar
        dops.append("dbl.rt %016x 17" % bits)
    return cases + chunk("int", iops) + chunk("dbl", dops)


# ------------------------------------------------------------------ wildcard matcher
def gen_glob(rng, tier):
    ops = []
    # exhaustive correspondence universe: all patterns x names over {a,b,*} / {a,b}
    LP, LN = (5, 6) if tier == "thorough" else (4, 4)
    pats = ["".join(t) for n in range(LP + 1) for t in itertools.product("ab*", repeat=n)]
    names = ["".join(t) for n in range(LN + 1) for t in itertools.product("ab", repeat=n)]
    for p in pats:
        for n in names:
            ops.append("glob %s %s" % (hx(p), hx(n)))
    # names containing '*' (a parameter may be called so) on a smaller universe
    for p in ["".join(t) for n in range(4) for t in itertools.product("a*", repeat=n)]:
        for n in ["".join(t) for n in range(4) for t in itertools.product("a*", repeat=n)]:
            ops.append("glob %s %s" % (hx(p), hx(n)))
    # random longer ones: the name is built to match the pattern (or nearly)
    nr = 30000 if tier == "thorough" else 3000
    alpha = "abc._"
    for i in range(nr):
        k = rng.randint(0, 4)
        toks = ["".join(rng.choice(alpha) for _ in range(rng.choice([0, 1, 1, 2, 3, 5]))) for _ in range(k + 1)]
        pat = ""
        name = ""
        for j, t in enumerate(toks):
            if j:
                pat += "*" * rng.choice([1, 1, 1, 2])
                name += "".join(rng.choice(alpha) for _ in range(rng.choice([0, 0, 1, 2, 4])))
            pat += t
            name += t
        r = rng.random()
        if r < 0.25 and name:                    # near miss: perturb the name
            q = rng.randrange(len(name))
            name = name[:q] + rng.choice(alpha) + name[q + (rng.random() < 0.5):]
        elif r < 0.35:                           # repeated-suffix shape (the defect of the old code)
            name = name + rng.choice(["", "x"]) + name
        elif r < 0.40:
            name = name[: rng.randint(0, len(name))]
        ops.append("glob %s %s" % (hx(pat), hx(name)))
    return chunk("glob", ops, 400)


# ------------------------------------------------------------------ key-value procedures
WORDS = ["a", "b", "x", "k1", "alpha", "Gamma", "n", "rate", "0.5", "-1e-3", "12", "a b", "p.q", "$(x)", "A_B"]


def simple_value(rng):
    r = rng.random()
    if r < 0.1:
        return ""
    if r < 0.2:
        return rng.choice(WORDS) + "=" + rng.choice(WORDS)       # '=' inside a value is allowed
    return rng.choice(WORDS)


def nested_value(rng, depth):
    """name(k=v,...) with balanced parentheses, any depth up to `depth`"""
    n = rng.randint(0, 3)
    parts = []
    for _ in range(n):
        v = nested_value(rng, depth - 1) if depth > 1 and rng.random() < 0.4 else simple_value(rng)
        parts.append(rng.choice(WORDS) + "=" + v)
    return rng.choice(WORDS) + "(" + ",".join(parts) + ")"


def valid_pairs(rng, n):
    kvs = []
    for _ in range(n):
        k = rng.choice(WORDS[:10]) if rng.random() < 0.9 else ""
        r = rng.random()
        v = simple_value(rng) if r < 0.5 else nested_value(rng, 1) if r < 0.85 else nested_value(rng, 3)
        if k == "" and v == "":
            v = "z"
        kvs.append((k, v))
    return kvs


def perturb(rng, t):
    """break one side condition: structural character, white space, unbalanced parenthesis"""
    k = rng.randint(0, 5)
    pos = rng.randint(0, len(t))
    if k == 0:
        return t[:pos] + rng.choice(",=()") + t[pos:]
    if k == 1:
        return " " + t
    if k == 2:
        return t + rng.choice([" ", "\t"])
    if k == 3:
        return t[:pos] + rng.choice(["(", ")", "((", "))", ")("]) + t[pos:]
    if k == 4:
        return t.replace("(", "", 1) if "(" in t else t + ","
    return ""


def gen_keyval(rng, tier):
    ops = []
    thorough = tier == "thorough"
    # 1. round trips: render -> parseProcedure, render -> changeKeyvals; 0..6 entries
    nrt = 12000 if thorough else 1500
    for i in range(nrt):
        n = rng.choice([0, 1, 1, 2, 2, 3, 4, 5, 6])
        name = rng.choice(["f", "Gamma", "Model ", "my model", "g2", "", "Beta"])
        kvs = valid_pairs(rng, n)
        if i % 4 == 3:              # near miss: one side condition broken somewhere
            j = rng.randint(0, n)
            if j == n:
                name = perturb(rng, name)
            else:
                k, v = kvs[j]
                kvs[j] = (perturb(rng, k), v) if rng.random() < 0.5 else (k, perturb(rng, v))
        flat = " ".join(hx(k) + " " + hx(v) for k, v in kvs)
        ops.append(("kv.rt %s %d %s" % (hx(name), n, flat)).rstrip())
        # substitution: some present keys, some absent ones, arbitrary new values
        m = rng.randint(0, 3)
        news = []
        for _ in range(m):
            nk = rng.choice([k for k, _ in kvs]) if kvs and rng.random() < 0.7 else rng.choice(WORDS)
            news.append((nk, rng.choice(WORDS + ["h(u=1,w=2)", "", "(", "a,b"])))
        nflat = " ".join(hx(k) + " " + hx(v) for k, v in news)
        ops.append(("kv.crt %s %d %s %d %s" % (hx(name), n, flat, m, nflat)).replace("  ", " ").rstrip())
    # 2. exhaustive small universe of raw descriptions
    alpha = "a=,() "
    L = 6 if thorough else 5
    for n in range(0, L + 1):
        for t in itertools.product(alpha, repeat=n):
            d = "".join(t)
            ops.append("kv.parse %s" % hx(d))
    L2 = 5 if thorough else 4
    for n in range(0, L2 + 1):
        for t in itertools.product(alpha, repeat=n):
            d = "".join(t)
            ops.append("kv.multi %s %s %d" % (hx(d), hx(","), n % 2))
            ops.append("kv.multi %s %s %d" % (hx(d), hx(", "), (n + 1) % 2))
            ops.append("kv.change %s %s %d 1 %s %s" % (hx(d), hx(","), n % 2, hx("a"), hx("Z")))
    # the '=' merging loop (tokens "=" arise when white space is a delimiter): all strings over
    # {a,=,space,comma} of length 5 / 6-7, both tokenizers, multipleKeyvals and changeKeyvals
    for n in ([5, 6, 7] if thorough else [5, 6]):
        for t in itertools.product("a= ,", repeat=n):
            d = "".join(t)
            if "=" not in d or (n >= 6 and rng.random() < 0.5):
                continue
            ops.append("kv.multi %s %s %d" % (hx(d), hx(", "), n % 2))
            if n == 5:
                ops.append("kv.change %s %s %d 1 %s %s" % (hx("f(" + d + ")"), hx(", "), (n + 1) % 2, hx("a"), hx("Z")))
    # 3. random longer raw descriptions built from procedure-like pieces
    nraw = 8000 if thorough else 1000
    pieces = ["f(", ")", ",", "=", " ", "a", "b=1", "g(x=2,y=3)", "k = v", " ,", "((", "))", "h()", "==", " = ", "= ="]
    for _ in range(nraw):
        d = "".join(rng.choice(pieces) for _ in range(rng.randint(1, 8)))
        r = rng.random()
        if r < 0.4:
            ops.append("kv.parse %s" % hx(d))
        elif r < 0.6:
            ops.append("kv.multi %s %s %d" % (hx(d), hx(rng.choice([",", ", ", ";", "=,"])), rng.randint(0, 1)))
        elif r < 0.8:
            ops.append("kv.change %s %s %d 2 %s %s %s %s" % (hx(d), hx(rng.choice([",", ", "])), rng.randint(0, 1),
                                                             hx("a"), hx("Z"), hx("k"), hx("w(q=1)")))
        else:
            ops.append("kv.single %s %s" % (hx(d), hx(rng.choice(["=", "=", ",", "= ", "(("]))))
    return chunk("kv", ops, 300)


# ------------------------------------------------------------------ variable resolution
def py_resolve(env, maxsteps=300):
    """the algorithm of AttributesTools::resolveVariables, only used to keep the number of
    non-terminating cases (each costs a watchdog time-out) small; returns 'ok' | 'exc' | 'hang'"""
    am = dict(env)
    for k in sorted(am):
        value = am[k]
        steps = 0
        i1 = value.find("$(")
        while i1 != -1:
            steps += 1
            if steps > maxsteps or len(value) > 100000:
                return "hang"
            i2 = value.find(")", i1)
            if i2 == -1:
                return "exc"
            name = value[i1 + 2:i2]
            vv = am.get(name)
            if vv is None or vv == value:
                vv = ""
            value = value[:i1] + vv + value[i2 + 1:]
            am[k] = value
            i1 = value.find("$(")
    return "ok"


def gen_vars(rng, tier):
    thorough = tier == "thorough"
    envs = []
    # 1. exhaustive small universe: keys a,b; values of up to 2 (quick) / 3 (thorough) tokens
    toks = ["$(a)", "$(b)", "$(c)", "x"]
    L = 3 if thorough else 2
    vals = ["".join(t) for n in range(L + 1) for t in itertools.product(toks, repeat=n)]
    for va in vals:
        for vb in vals:
            envs.append([("a", va), ("b", vb)])
    # 2. random acyclic definitions: a random dependency order unrelated to the key order
    names = ["a", "b", "c", "d", "k1", "zz", "A", "m.x"]
    lits = ["x", "1.5", " ", "f(", ")", "=", ",", "path/", "(y)", ""]
    nr = 6000 if thorough else 700
    for _ in range(nr):
        n = rng.randint(1, 6)
        keys = rng.sample(names, n)
        order = keys[:]
        rng.shuffle(order)                      # order[i] may only refer to order[j], j < i
        env = []
        for i, k in enumerate(order):
            segs = []
            for _ in range(rng.randint(0, 4)):
                r = rng.random()
                if r < 0.45 and i > 0:
                    segs.append("$(%s)" % rng.choice(order[:i]))
                elif r < 0.55:
                    segs.append("$(%s)" % rng.choice(["undef", "q", ""]))
                else:
                    segs.append(rng.choice(lits))
            env.append((k, "".join(segs)))
        envs.append(env)
    # 3. cyclic / malformed definitions
    nc = 1500 if thorough else 250
    for _ in range(nc):
        n = rng.randint(1, 4)
        keys = rng.sample(names, n)
        env = []
        for k in keys:
            segs = []
            for _ in range(rng.randint(0, 3)):
                r = rng.random()
                if r < 0.6:
                    segs.append("$(%s)" % rng.choice(keys))
                elif r < 0.7:
                    segs.append(rng.choice(["$(", "$", "$(a", "$()", "$($(a))"]))
                else:
                    segs.append(rng.choice(lits))
            env.append((k, "".join(segs)))
        envs.append(env)
    # keep every terminating case and a few non-terminating ones
    ops, hangs, maxh = [], 0, (12 if thorough else 4)
    for env in envs:
        r = py_resolve(env)
        if r == "hang":
            hangs += 1
            if hangs > maxh:
                continue
        op = "vars %d %s" % (len(env), " ".join(hx(k) + " " + hx(v) for k, v in env))
        ops.append((r, op))
    normal = [o for r, o in ops if r != "hang"]
    hanging = [o for r, o in ops if r == "hang"]
    # non-terminating cases are known findings: one op per case (check.py stops a case at its first issue)
    return chunk("vars", normal, 200) + [["case varshang%d" % i, o] for i, o in enumerate(hanging)]


# ------------------------------------------------------------------ tokenizer round trips (round 2)
TOK_ALPHA = "ab ,;()=\t:"


def rich_string(rng, delims, maxlen=24):
    """a string of up to `maxlen` characters that is rich in the delimiters: runs of delimiters at
    both ends and inside, the delimiter string itself (solid mode) repeated, empty fields"""
    n = rng.randint(0, maxlen)
    out = ""
    while len(out) < n:
        r = rng.random()
        if r < 0.35 and delims:
            out += rng.choice(delims) * rng.choice([1, 1, 1, 2, 3])
        elif r < 0.50 and delims:
            out += delims * rng.choice([1, 1, 2, 3])
        elif r < 0.58 and delims:
            out += delims[:-1] if len(delims) > 1 else delims       # a partial solid delimiter
        else:
            out += "".join(rng.choice(TOK_ALPHA) for _ in range(rng.choice([1, 1, 2, 3, 5])))
    return out[:maxlen]


def gen_tok(rng, tier):
    thorough = tier == "thorough"
    ops = []
    # exhaustive: every string over {a , ;} up to length 5 / 7, three delimiter strings, the four
    # option combinations; unparse after 0 / 1 / 2 / all tokens
    L = 7 if thorough else 5
    for n in range(L + 1):
        for t in itertools.product("a,;", repeat=n):
            st = "".join(t)
            for d in (",", ",;", ",,"):
                for solid in (0, 1):
                    for ae in (0, 1):
                        k = (n + solid + 2 * ae + len(d)) % 4
                        ops.append("st.rt %s %s %d %d %d" % (hx(st), hx(d), solid, ae, 99 if k == 3 else k))
    # random delimiter-rich strings up to length 24 over the property's alphabet
    nr = 30000 if thorough else 4000
    dsets = [",", " ", ", ", ",;", " \t", "::", "=", "ab", "()", ";;;", ":", "a", ""]
    for _ in range(nr):
        d = rng.choice(dsets)
        st = rich_string(rng, d)
        ops.append("st.rt %s %s %d %d %d" % (hx(st), hx(d), rng.randint(0, 1), rng.randint(0, 1),
                                            rng.choice([0, 1, 2, 3, 5, 99])))
    return chunk("tok", ops, 400)


def nested_string(rng, delims, o, c, maxlen=24):
    """mostly balanced bracket structure with delimiters inside and outside the brackets"""
    out = ""
    depth = 0
    n = rng.randint(0, maxlen)
    while len(out) < n:
        r = rng.random()
        if r < 0.22:
            out += o; depth += 1
        elif r < 0.42 and depth > 0:
            out += c; depth -= 1
        elif r < 0.65 and delims:
            out += rng.choice([rng.choice(delims), delims, rng.choice(delims) * 2])
        else:
            out += rng.choice("abxy=")
    r = rng.random()
    if r < 0.75:
        out += c * depth                      # close what is open
    elif r < 0.85:
        out = c + out                         # a negative depth
    return out[:maxlen + 6]


def gen_nested(rng, tier):
    thorough = tier == "thorough"
    ops = []
    # exhaustive: every string over {a ( ) ,} up to length 5 / 6, both modes, delimiters "," and ",,"
    L = 6 if thorough else 5
    for n in range(L + 1):
        for t in itertools.product("a(),", repeat=n):
            st = "".join(t)
            for d in (",", ",,"):
                for solid in (0, 1):
                    ops.append("nst.rt %s %s %s %s %d %d" % (hx(st), hx("("), hx(")"), hx(d), solid, (n + solid) % 3))
    # random: every (open, close, delimiter, solid) combination of a list
    brs = [("(", ")"), ("[", "]"), ("{", "}"), ("<", ">"), ("(", "("), ("<<", ">>"), ("begin", "end"), ("", ")"),
           ("(", ""), (",", ")")]
    dsets = [",", " ", ", ", ",;", " \t", "::", "=", ";;;", "", "()", "a"]
    nr = 20000 if thorough else 3000
    for _ in range(nr):
        o, c = rng.choice(brs) if rng.random() < 0.5 else brs[0]
        d = rng.choice(dsets)
        st = nested_string(rng, d, o, c)
        ops.append("nst.rt %s %s %s %s %d %d" % (hx(st), hx(o), hx(c), hx(d), rng.randint(0, 1),
                                                rng.choice([0, 1, 2, 3, 99])))
    return chunk("nst", ops, 400)


# ------------------------------------------------------------------ tables (round 2)
def tbl_op(sep, align, ncol, colnames, rownames, rows):
    items = []
    if colnames is not None:
        items += [hx(x) for x in colnames]
    for i, r in enumerate(rows):
        if rownames is not None:
            items.append(hx(rownames[i]))
        items += [hx(x) for x in r]
    return ("tbl.rt %s %d %d %d %d %d %s" % (hx(sep), align, ncol, colnames is not None, rownames is not None,
                                            len(rows), " ".join(items))).rstrip()


def gen_table(rng, tier):
    thorough = tier == "thorough"
    ops = []
    seps = ["\t", ",", ";", " ", "|", ":"]
    words = ["a", "b", "1.5", "-3", "x y", "NA", "A_1", "é".encode("utf-8").decode("latin-1"), "0", "gene", "v=2", "(q)"]

    def cell(rng, sep, kind):
        r = rng.random()
        if kind == "valid":
            w = rng.choice(words)
            if r < 0.08:
                w = ""                                   # empty cell (fine except at the start of a line)
            elif r < 0.16:
                w = " " + w if rng.random() < 0.5 else w + " "   # blanks around: kept by the reader
            elif r < 0.20:
                w = " "
            return w.replace(sep, "_")
        # malformed: separator / newline / blank inside
        w = rng.choice(words)
        return rng.choice([w + sep + "z", w + "\n" + "z", "", " ", sep, "\n", w + "\r", "\t"])

    def names(rng, k, prefix, sep):
        base = [prefix + str(i) for i in range(k)]
        if rng.random() < 0.3:
            base = [rng.choice(words).replace(sep, "_") + str(i) for i in range(k)]
        return base

    # every shape up to 6x6 (quick: up to 4x4 + a sample), with/without row and column names, all
    # separators, both header alignments
    shapes = [(r, c) for r in range(0, 7) for c in range(0, 7)]
    if not thorough:
        shapes = [(r, c) for (r, c) in shapes if (r <= 4 and c <= 4) or rng.random() < 0.4]
    for (nr, nc) in shapes:
        for hascol in (0, 1):
            for hasrow in (0, 1):
                for rep in range(3 if thorough else 1):
                    sep = rng.choice(seps)
                    align = rng.randint(0, 1)
                    rows = [[cell(rng, sep, "valid") for _ in range(nc)] for _ in range(nr)]
                    if rng.random() < 0.7:               # make most tables satisfy "first item non-empty"
                        for r in rows:
                            if r and r[0].strip() == "":
                                r[0] = "c"
                    cn = names(rng, nc, "C", sep) if hascol else None
                    rn = names(rng, nr, "r", sep) if hasrow else None
                    ops.append(tbl_op(sep, align, nc, cn, rn, rows))
    # random tables, one side condition broken in a third of them
    n = 6000 if thorough else 900
    for i in range(n):
        nr, nc = rng.randint(0, 6), rng.randint(1, 6)
        sep = rng.choice(seps) if rng.random() < 0.9 else rng.choice([", ", "ab", "", "\n", "\t\t"])
        hascol, hasrow = rng.random() < 0.6, rng.random() < 0.5
        rows = [[cell(rng, sep if sep else ",", "valid") for _ in range(nc)] for _ in range(nr)]
        for r in rows:
            if r[0].strip() == "" and rng.random() < 0.8:
                r[0] = "c"
        cn = names(rng, nc, "C", sep if sep else ",") if hascol else None
        rn = names(rng, nr, "r", sep if sep else ",") if hasrow else None
        if i % 3 == 2:
            k = rng.randint(0, 4)
            if k == 0 and nr:
                rows[rng.randrange(nr)][rng.randrange(nc)] = cell(rng, sep if sep else ",", "bad")
            elif k == 1 and cn:
                cn[rng.randrange(nc)] = rng.choice([cell(rng, sep if sep else ",", "bad"), cn[0]])
            elif k == 2 and rn:
                rn[rng.randrange(nr)] = rng.choice([cell(rng, sep if sep else ",", "bad"), rn[0]])
            elif k == 3 and nr:
                rows[rng.randrange(nr)][0] = rng.choice(["", " ", "\t"])
            elif nr:
                rows = rows[:1]
        ops.append(tbl_op(sep, rng.randint(0, 1), nc, cn, rn, rows))
    return chunk("tbl", ops, 200)


# ------------------------------------------------------------------ distribution descriptions (round 2)
def dh(x):
    return struct.pack(">d", float(x)).hex()


def short_dec(rng, lo, hi, digits):
    """a double that is the nearest to a decimal with at most `digits` decimals: the fixed-notation
    text written with >= digits decimals is that decimal, and it parses back to the same double"""
    k = 10 ** digits
    return rng.randint(int(lo * k), int(hi * k)) / k


def dyadic_probs(rng, k):
    """k positive probabilities that are multiples of 1/64 and sum to exactly 1"""
    cuts = sorted(rng.sample(range(1, 64), k - 1)) if k > 1 else []
    parts = [b - a for a, b in zip([0] + cuts, cuts + [64])]
    return [p / 64.0 for p in parts]


def gen_dist_tree(rng, depth, digits, exact=True, pos=False):
    """prefix-notation tokens of a random distribution (class counts 1..8).  Parameters are kept in
    the well-conditioned range of the discretisation (shape parameters >= 0.5) and, below an
    Invariant node (`pos`), class values stay away from the invariant class at 1e-6: the class
    values of ill-conditioned cases depend on the construction history (C09's subject), which is
    not what this stream is about."""
    def num(lo, hi):
        return dh(short_dec(rng, lo, hi, digits) if exact else rng.uniform(lo, hi))
    fams = ["G", "B", "E", "N", "T", "U", "C", "S", "Go"]
    if depth > 0:
        fams += ["I", "I", "M", "M"]
    f = rng.choice(fams)
    n = rng.randint(1, 8)
    if f == "G":
        return ["G", str(n), num(0.5, 6), num(0.5, 6)]
    if f == "Go":
        return ["Go", str(n), num(0.5, 6), num(0.5, 6), num(0.1, 3)]
    if f == "B":
        return ["B", str(n), num(0.5, 5), num(0.5, 5)]
    if f == "E":
        return ["E", str(n), num(0.1, 8)]
    if f == "N":
        return ["N", str(n), num(3, 6), num(0.1, 0.5)] if pos else ["N", str(n), num(-5, 5), num(0.1, 4)]
    if f == "T":
        return ["T", str(n), num(0.1, 4), num(0.5, 20)]
    if f == "U":
        a = short_dec(rng, 0.1 if pos else -5, 5, min(digits, 6)); b = a + short_dec(rng, 0.1, 6, min(digits, 3))
        return ["U", str(n), dh(a), dh(round(b, 6))]
    if f == "C":
        return ["C", num(0.1 if pos else -3, 9)]
    if f == "S":
        k = rng.randint(1, 8)
        vals = sorted(set(short_dec(rng, 0.1 if pos else -2, 9, min(digits, 3)) for _ in range(k)))
        k = len(vals)
        return ["S", str(k)] + [dh(v) for v in vals] + [dh(p) for p in dyadic_probs(rng, k)]
    if f == "I":
        return ["I", num(0.01, 0.9)] + gen_dist_tree(rng, depth - 1, digits, exact, True)
    k = rng.randint(1, 3)
    toks = ["M", str(k)] + [dh(p) for p in dyadic_probs(rng, k)]
    for _ in range(k):
        toks += gen_dist_tree(rng, depth - 1, digits, exact, True)
    return toks


def gen_dist(rng, tier):
    thorough = tier == "thorough"
    ops = []
    # every family x class count 1..8 with fixed parameters
    for n in range(1, 9):
        for toks in (["G", str(n), dh(0.5), dh(1.25)], ["Go", str(n), dh(2), dh(0.5), dh(0.75)], ["B", str(n), dh(1.5), dh(2)],
                     ["E", str(n), dh(2)], ["N", str(n), dh(1), dh(2)], ["T", str(n), dh(1), dh(5)],
                     ["U", str(n), dh(0.5), dh(2.5)],
                     ["S", str(n)] + [dh(i + 0.5) for i in range(n)] + [dh(p) for p in dyadic_probs(rng, n)],
                     ["I", dh(0.125), "G", str(n), dh(0.5), dh(1)],
                     ["M", "2", dh(0.25), dh(0.75), "G", str(n), dh(0.5), dh(1), "E", str(max(1, n - 1)), dh(2)]):
            ops.append("dist.rt 6 " + " ".join(toks))
    ops.append("dist.rt 6 C " + dh(1.5))
    # random trees, parameters that are exactly representable in the text (bit-for-bit round trip expected)
    n = 6000 if thorough else 800
    for _ in range(n):
        prec = rng.choice([6, 6, 6, 8, 12])
        digits = rng.choice([1, 2, 3, min(prec, 6)])
        ops.append("dist.rt %d %s" % (prec, " ".join(gen_dist_tree(rng, 2, digits))))
    # arbitrary doubles: the text rounds them (12 decimals for parameters, the stream's precision for
    # values and probabilities): class values / probabilities come back approximately
    m = 2000 if thorough else 250
    for _ in range(m):
        ops.append("dist.rt %d %s" % (rng.choice([6, 9, 12]), " ".join(gen_dist_tree(rng, 1, 6, exact=False))))
    return chunk("dist", ops, 100)


def gen_dist_options(rng, tier):
    """audit round 2: distributions built with non-default constructor options, which the
    description language is asked to carry too — a FIXED offset of a Gamma (`Gf`), the
    discretisation scheme of a Beta (`Bi` equal intervals, `Bp` equal probabilities), class values
    that are medians (`Md <dist>`); and (`dist.rtp`) parameters / class values the fixed notation
    of the writer cannot carry (more decimals than are written, magnitudes below the last decimal)"""
    ops = []
    for n in range(1, 9):
        ops.append("dist.rt 6 Gf %d %s %s %s" % (n, dh(2), dh(0.5), dh(0.75)))
        ops.append("dist.rt 6 Bi %d %s %s" % (n, dh(1.5), dh(2)))
        ops.append("dist.rt 6 Bp %d %s %s" % (n, dh(1.5), dh(2)))
        ops.append("dist.rt 6 Md E %d %s" % (n, dh(2)))
        ops.append("dist.rt 6 Md T %d %s %s" % (n, dh(1), dh(5)))
        ops.append("dist.rt 6 Md G %d %s %s" % (n, dh(0.5), dh(1.25)))
    k = 600 if tier == "thorough" else 80
    for _ in range(k):
        r = rng.random()
        n = rng.randint(1, 8)
        if r < 0.3:
            toks = ["Gf", str(n), dh(short_dec(rng, 0.5, 6, 3)), dh(short_dec(rng, 0.5, 6, 3)), dh(short_dec(rng, 0.1, 3, 3))]
        elif r < 0.55:
            toks = [rng.choice(["Bi", "Bp"]), str(n), dh(short_dec(rng, 0.5, 5, 3)), dh(short_dec(rng, 0.5, 5, 3))]
        elif r < 0.85:
            toks = ["Md"] + gen_dist_tree(rng, 0, 3)
        else:
            toks = ["I", dh(0.25), "Md"] + gen_dist_tree(rng, 0, 3, True, True)
        ops.append("dist.rt 6 " + " ".join(toks))
    # what the text cannot carry
    m = 400 if tier == "thorough" else 60
    for _ in range(m):
        r = rng.random()
        prec = rng.choice([6, 6, 8])
        if r < 0.35:                                   # Simple: values with many decimals / tiny / huge
            kk = rng.randint(1, 5)
            vals = sorted(set(rng.choice([rng.uniform(0, 1e-5), rng.uniform(0, 10), rng.uniform(1e3, 1e7)]) for _ in range(kk)))
            toks = ["S", str(len(vals))] + [dh(v) for v in vals] + [dh(p) for p in dyadic_probs(rng, len(vals))]
        elif r < 0.55:                                 # probabilities that are not short decimals
            kk = rng.randint(2, 4)
            w = [rng.random() + 0.05 for _ in range(kk)]
            tot = sum(w); pr = [x / tot for x in w]
            pr[-1] = 1.0 - sum(pr[:-1])
            toks = ["S", str(kk)] + [dh(i + 0.5) for i in range(kk)] + [dh(p) for p in pr]
        elif r < 0.75:                                 # a rate below the 12th decimal
            toks = ["E", str(rng.randint(1, 8)), dh(rng.uniform(1e-15, 1e-12))]
        elif r < 0.9:
            toks = ["C", dh(rng.choice([1, -1]) * rng.uniform(1e-16, 1e-13))]
        else:
            toks = ["U", str(rng.randint(1, 6)), dh(rng.uniform(0, 1e-7)), dh(rng.uniform(2e-7, 1e-6))]
        ops.append("dist.rtp %d %s" % (prec, " ".join(toks)))
    return chunk("distopt", ops, 50)


# ------------------------------------------------------------------ number formatting (round 2)
def gen_numfmt(rng, tier):
    """toString(d, precision) for every precision 0..20: doubles by bit pattern, short decimals
    (k / 10^j, which have many more binary than decimal digits), dyadic values (exact in few decimal
    digits), powers of ten and their neighbours (where the notation switches), ties of the rounding"""
    ops = []
    n = 12000 if tier == "thorough" else 1500
    vals = []
    for _ in range(n):
        r = rng.random()
        if r < 0.25:
            bits = rng.getrandbits(64)
            if (bits >> 52) & 0x7ff == 0x7ff:
                continue
            vals.append("%016x" % bits)
        elif r < 0.5:
            v = rng.choice([1, -1]) * rng.randint(0, 10 ** rng.randint(1, 8)) / 10 ** rng.randint(0, 9)
            vals.append(dh(v))
        elif r < 0.7:
            v = rng.choice([1, -1]) * rng.randint(0, 2 ** rng.randint(1, 30)) / 2 ** rng.randint(0, 20)
            vals.append(dh(v))
        elif r < 0.85:
            e = rng.randint(-12, 22)
            v = 10.0 ** e
            k = rng.choice([-2, -1, 0, 0, 1, 2])
            bits = struct.unpack(">Q", struct.pack(">d", v))[0] + k
            vals.append("%016x" % bits)
        else:
            # a tie of the rounding to p digits: d.ddd5 with an exactly representable 5
            m = rng.randint(1, 10 ** rng.randint(1, 6)) * 10 + 5
            v = m / 2 ** rng.randint(1, 4) if rng.random() < 0.5 else m * 0.5
            vals.append(dh(v))
    for h in vals:
        ops.append("dbl.rt %s %d" % (h, rng.choice([0, 1, 2, 3, 5, 6, 6, 6, 8, 10, 12, 15, 16, 17, 17, 18, 20])))
    for h in ["0000000000000000", "8000000000000000", "3ff0000000000000", "4024000000000000", "40c3880000000000",
              "412e848000000000", "3f1a36e2eb1c432d", "3f847ae147ae147b", "3fb999999999999a"]:
        for p in (0, 1, 5, 6, 7, 17):
            ops.append("dbl.rt %s %d" % (h, p))
    return chunk("fmt", ops, 300)


# ------------------------------------------------------------------ entry points
def generate(seed, tier):
    rng = random.Random(seed)
    cases = []
    cases += gen_numbers(rng, tier)
    cases += gen_glob(rng, tier)
    cases += gen_keyval(rng, tier)
    cases += gen_vars(rng, tier)
    rng2 = random.Random(seed * 7919 + 17)          # round 2 streams: the earlier ones are unchanged
    cases += gen_tok(rng2, tier)
    cases += gen_nested(rng2, tier)
    cases += gen_table(rng2, tier)
    cases += gen_dist(rng2, tier)
    cases += gen_numfmt(rng2, tier)
    rng3 = random.Random(seed * 104729 + 31)        # audit round 2 streams: the earlier ones are unchanged
    cases += gen_dist_options(rng3, tier)
    return cases


DBL_MAX = struct.unpack(">d", bytes.fromhex("7fefffffffffffff"))[0]


def same_double(impl_hex, model_q):
    """the model's exact rational, correctly rounded (round-half-even, glibc strtod), must be the
    implementation's double; libstdc++ stores +-DBL_MAX when strtod overflows"""
    if not model_q.startswith("q:") or len(impl_hex) != 16:
        return impl_hex == model_q
    num, den = model_q[2:].split("/")
    q = Fraction(int(num), int(den))
    d = struct.unpack(">d", bytes.fromhex(impl_hex))[0]
    try:
        want = q.numerator / q.denominator       # int/int true division is correctly rounded
    except OverflowError:
        want = DBL_MAX if q > 0 else -DBL_MAX
    if want in (float("inf"), float("-inf")):
        want = DBL_MAX if q > 0 else -DBL_MAX
    if want == 0.0 and d == 0.0:
        return True                               # sign of zero: "-0" reads as -0.0, value 0
    return want == d


def compare(op_line, impl, model):
    op = op_line.split()[0]
    if op == "vars" and impl == "hang" and model == "hang":
        return True
    if op == "num":
        a, b = impl.split(), model.split()
        if len(a) != 4 or len(b) != 4:
            return False
        return a[0] == b[0] and a[1] == b[1] and same_double(a[2], b[2]) and a[3] == b[3]
    if op == "dbl.rt":
        a, b = impl.split(), model.split()
        if len(a) != 2 or len(b) != 2:
            return False
        return (b[0] == "*" or a[0] == b[0]) and a[1] == b[1]     # the text is modelled; the double read back at 17 digits
    if op in ("dist.rt", "dist.rtp"):
        return True                               # explored: the model has no answer of its own ("?")
    return " ".join(impl.split()) == " ".join(model.split())


def coverage_extra(cases, answers):
    """distribution of the generated inputs (what the quality bar asks to see)"""
    st = {"num_accepted_decimal": 0, "num_accepted_integer": 0, "num_rejected": 0, "num_total": 0}
    lens = {}
    for c, a in zip(cases, answers):
        ops = [l for l in c if l.strip() and not l.startswith(("case", "#", "="))]
        for l, r in zip(ops, a):
            t = l.split()
            if t[0] == "num":
                st["num_total"] += 1
                rr = r.split()
                if rr and rr[0] == "1":
                    st["num_accepted_decimal"] += 1
                if len(rr) > 1 and rr[1] == "1":
                    st["num_accepted_integer"] += 1
                if rr and rr[0] == "0":
                    st["num_rejected"] += 1
                n = len(unhx(t[1]))
                lens[min(n, 30)] = lens.get(min(n, 30), 0) + 1
    st["num_length_histogram"] = {str(k): v for k, v in sorted(lens.items())}
    g = {"glob_total": 0, "glob_matched": 0, "glob_star_free_patterns": 0, "glob_stars_histogram": {}}
    for c, a in zip(cases, answers):
        ops = [l for l in c if l.strip() and not l.startswith(("case", "#", "="))]
        for l, r in zip(ops, a):
            t = l.split()
            if t[0] == "glob":
                g["glob_total"] += 1
                if r.startswith("1"):
                    g["glob_matched"] += 1
                k = unhx(t[1]).count("*")
                if k == 0:
                    g["glob_star_free_patterns"] += 1
                g["glob_stars_histogram"][str(k)] = g["glob_stars_histogram"].get(str(k), 0) + 1
    st.update(g)
    kv = {"kv_rt_total": 0, "kv_rt_parsed": 0, "kv_rt_raised": 0, "kv_args_histogram": {}, "kv_raw_total": 0, "kv_raw_raised": 0}
    vs = {"vars_total": 0, "vars_ok": 0, "vars_raised": 0, "vars_hang": 0, "vars_entries_histogram": {}, "vars_with_reference": 0}
    dbl = {"dbl_rt_total": 0}
    for c, a in zip(cases, answers):
        ops = [l for l in c if l.strip() and not l.startswith(("case", "#", "="))]
        for l, r in zip(ops, a):
            t = l.split()
            if t[0] in ("kv.rt", "kv.crt"):
                kv["kv_rt_total"] += 1
                kv["kv_rt_raised" if r.startswith("exc") else "kv_rt_parsed"] += 1
                kv["kv_args_histogram"][t[2]] = kv["kv_args_histogram"].get(t[2], 0) + 1
            elif t[0].startswith("kv."):
                kv["kv_raw_total"] += 1
                if r.startswith("exc"):
                    kv["kv_raw_raised"] += 1
            elif t[0] == "vars":
                vs["vars_total"] += 1
                vs["vars_raised" if r.startswith("exc") else "vars_hang" if r == "hang" else "vars_ok"] += 1
                vs["vars_entries_histogram"][t[1]] = vs["vars_entries_histogram"].get(t[1], 0) + 1
                if any("2428" in x for x in t[2:]):
                    vs["vars_with_reference"] += 1
            elif t[0] == "dbl.rt":
                dbl["dbl_rt_total"] += 1
    ds = {"dist_total": 0, "dist_build_refused": 0, "dist_write_raised": 0, "dist_read_back": 0, "dist_read_raised": 0}
    for c, a in zip(cases, answers):
        ops = [l for l in c if l.strip() and not l.startswith(("case", "#", "="))]
        for l, r in zip(ops, a):
            if l.startswith("dist.rt"):
                ds["dist_total"] += 1
                if r.startswith("build:"):
                    ds["dist_build_refused"] += 1
                elif r.startswith("write:"):
                    ds["dist_write_raised"] += 1
                elif r.rstrip().endswith("exc:bpp"):
                    ds["dist_read_raised"] += 1
                else:
                    ds["dist_read_back"] += 1
    st.update(kv); st.update(vs); st.update(dbl); st.update(ds)
    return {"distribution": st}
