"""Script generator for C17 (round trips and exact grammars).

Streams:  num    - number recognisers / conversions: exhaustive small universe over a number
                   alphabet, a grammar-derived valid stream, a near-miss malformed stream
          int.rt - toString(int) -> toInt
All strings are hex-escaped ("-" = empty)."""
import random, itertools, struct, re
from fractions import Fraction


def hx(s):
    return s.encode("latin-1").hex() if s else "-"


def unhx(t):
    return "" if t == "-" else bytes.fromhex(t).decode("latin-1")


def chunk(tag, ops, n=200):
    return [["case %s%d" % (tag, i)] + ops[i:i + n] for i in range(0, len(ops), n)]


# ------------------------------------------------------------------ numbers
def valid_number(rng, dec=".", sci="e"):
    neg = rng.random() < 0.3
    ip = "".join(rng.choice("0123456789") for _ in range(rng.choice([0, 1, 1, 2, 3, 6, 12])))
    has_dec = rng.random() < 0.6
    fp = "".join(rng.choice("0123456789") for _ in range(rng.choice([0, 1, 2, 3, 8, 17]))) if has_dec else ""
    if not ip and not fp:
        ip = rng.choice("0123456789")
    s = ("-" if neg else "") + ip + (dec + fp if has_dec else "")
    if rng.random() < 0.5:
        e = str(rng.choice([0, 1, 2, 5, 10, 22, 23, 100, 300, 308, 309, 330, 400, rng.randint(0, 350)]))
        if rng.random() < 0.2:
            e = "0" + e
        s += sci + rng.choice(["", "+", "-", "-"]) + e
    return s


def valid_integer(rng, sci="e"):
    neg = rng.random() < 0.3
    ip = "".join(rng.choice("0123456789") for _ in range(rng.choice([1, 1, 2, 3, 9, 10, 11, 12])))
    s = ("-" if neg else "") + ip
    if rng.random() < 0.3:
        s += sci + rng.choice(["", "+"]) + str(rng.randint(0, 12))
    return s


def near_miss(rng, s):
    """one structural mutation of a valid numeral"""
    k = rng.randint(0, 7)
    pos = rng.randint(0, len(s))
    junk = "-+.eE 0x,"
    if k == 0 and s:
        p = rng.randrange(len(s)); return s[:p] + s[p + 1:]               # delete a char
    if k == 1:
        return s[:pos] + rng.choice(junk) + s[pos:]                        # insert junk
    if k == 2 and s:
        p = rng.randrange(len(s)); return s[:p] + rng.choice(junk) + s[p + 1:]  # replace
    if k == 3:
        return "".join(c for c in s if not c.isdigit() or rng.random() < 0.3)   # strip most digits
    if k == 4:
        return s + rng.choice(["e", "e+", "e-", ".", "-", " "])
    if k == 5:
        return rng.choice(["-", "+", " ", "."]) + s
    if k == 6 and s:
        p = rng.randrange(len(s)); return s[:p] + s[p] + s[p:]             # duplicate a char
    return s[::-1]


def gen_numbers(rng, tier):
    ops = []
    # exhaustive small universe: every string over the number alphabet up to length L
    alpha = "-+.e05 "
    L = 5 if tier == "thorough" else 4
    for n in range(0, L + 1):
        for t in itertools.product(alpha, repeat=n):
            ops.append("num %s %s %s" % (hx("".join(t)), hx("."), hx("e")))
    nv = 20000 if tier == "thorough" else 2500
    for i in range(nv):
        r = rng.random()
        dec, sci = ".", "e"
        if r < 0.08:
            sci = "E"
        elif r < 0.14:
            dec, sci = rng.choice([(",", "e"), (".", "x"), (",", "E"), ("e", "."), (".", "d")])
        s = valid_integer(rng, sci) if rng.random() < 0.35 else valid_number(rng, dec, sci)
        if i % 3 == 2:
            s = near_miss(rng, s)
        # keep exponents small (the model computes 10^e exactly)
        s = re.sub(r"([eE%s][+-]?[0-9]{3})[0-9]+" % re.escape(sci), r"\1", s)
        ops.append("num %s %s %s" % (hx(s), hx(dec), hx(sci)))
    # ops that hit the known finding C17-toint-ignores-exponent go into one-op cases (check.py
    # stops judging a case at its first issue)
    def hits_known(op):
        t = op.split(); st = unhx(t[1]); sc = unhx(t[3])
        return re.fullmatch(r"-?[0-9]+%s\+?[0-9]+" % re.escape(sc), st) is not None
    single = [o for o in ops if hits_known(o)]
    ops = [o for o in ops if not hits_known(o)]
    cases = chunk("num", ops) + [["case numexp%d" % i, o] for i, o in enumerate(single)]
    # ints: boundaries + random
    iops = []
    vals = [0, 1, -1, 9, 10, 11, 99, 100, 101, -9, -10, -11, 2147483647, -2147483648, 2147483646, -2147483647, 1000000000, -1000000000]
    vals += [rng.randint(-2 ** 31, 2 ** 31 - 1) for _ in range(3000 if tier == "thorough" else 400)]
    vals += [rng.randint(-10 ** k, 10 ** k) for k in range(1, 10) for _ in range(20)]
    for v in vals:
        iops.append("int.rt %d" % v)
    return cases + chunk("int", iops)


# ------------------------------------------------------------------ wildcard matcher
def gen_glob(rng, tier):
    ops = []
    # exhaustive correspondence universe: all patterns x names over {a,b,*} / {a,b}
    LP, LN = (5, 6) if tier == "thorough" else (4, 4)
    pats = ["".join(t) for n in range(LP + 1) for t in itertools.product("ab*", repeat=n)]
    names = ["".join(t) for n in range(LN + 1) for t in itertools.product("ab", repeat=n)]
    for p in pats:
        for n in names:
            ops.append("glob %s %s" % (hx(p), hx(n)))
    # names containing '*' (a parameter may be called so) on a smaller universe
    for p in ["".join(t) for n in range(4) for t in itertools.product("a*", repeat=n)]:
        for n in ["".join(t) for n in range(4) for t in itertools.product("a*", repeat=n)]:
            ops.append("glob %s %s" % (hx(p), hx(n)))
    # random longer ones: the name is built to match the pattern (or nearly)
    nr = 30000 if tier == "thorough" else 3000
    alpha = "abc._"
    for i in range(nr):
        k = rng.randint(0, 4)
        toks = ["".join(rng.choice(alpha) for _ in range(rng.choice([0, 1, 1, 2, 3, 5]))) for _ in range(k + 1)]
        pat = ""
        name = ""
        for j, t in enumerate(toks):
            if j:
                pat += "*" * rng.choice([1, 1, 1, 2])
                name += "".join(rng.choice(alpha) for _ in range(rng.choice([0, 0, 1, 2, 4])))
            pat += t
            name += t
        r = rng.random()
        if r < 0.25 and name:                    # near miss: perturb the name
            q = rng.randrange(len(name))
            name = name[:q] + rng.choice(alpha) + name[q + (rng.random() < 0.5):]
        elif r < 0.35:                           # repeated-suffix shape (the defect of the old code)
            name = name + rng.choice(["", "x"]) + name
        elif r < 0.40:
            name = name[: rng.randint(0, len(name))]
        ops.append("glob %s %s" % (hx(pat), hx(name)))
    return chunk("glob", ops, 400)


# ------------------------------------------------------------------ entry points
def generate(seed, tier):
    rng = random.Random(seed)
    cases = []
    cases += gen_numbers(rng, tier)
    cases += gen_glob(rng, tier)
    return cases


DBL_MAX = struct.unpack(">d", bytes.fromhex("7fefffffffffffff"))[0]


def same_double(impl_hex, model_q):
    """the model's exact rational, correctly rounded (round-half-even, glibc strtod), must be the
    implementation's double; libstdc++ stores +-DBL_MAX when strtod overflows"""
    if not model_q.startswith("q:") or len(impl_hex) != 16:
        return impl_hex == model_q
    num, den = model_q[2:].split("/")
    q = Fraction(int(num), int(den))
    d = struct.unpack(">d", bytes.fromhex(impl_hex))[0]
    try:
        want = q.numerator / q.denominator       # int/int true division is correctly rounded
    except OverflowError:
        want = DBL_MAX if q > 0 else -DBL_MAX
    if want in (float("inf"), float("-inf")):
        want = DBL_MAX if q > 0 else -DBL_MAX
    if want == 0.0 and d == 0.0:
        return True                               # sign of zero: "-0" reads as -0.0, value 0
    return want == d


def compare(op_line, impl, model):
    op = op_line.split()[0]
    if op == "num":
        a, b = impl.split(), model.split()
        if len(a) != 4 or len(b) != 4:
            return False
        return a[0] == b[0] and a[1] == b[1] and same_double(a[2], b[2]) and a[3] == b[3]
    return " ".join(impl.split()) == " ".join(model.split())


def coverage_extra(cases, answers):
    """distribution of the generated inputs (what the quality bar asks to see)"""
    st = {"num_accepted_decimal": 0, "num_accepted_integer": 0, "num_rejected": 0, "num_total": 0}
    lens = {}
    for c, a in zip(cases, answers):
        ops = [l for l in c if l.strip() and not l.startswith(("case", "#", "="))]
        for l, r in zip(ops, a):
            t = l.split()
            if t[0] == "num":
                st["num_total"] += 1
                rr = r.split()
                if rr and rr[0] == "1":
                    st["num_accepted_decimal"] += 1
                if len(rr) > 1 and rr[1] == "1":
                    st["num_accepted_integer"] += 1
                if rr and rr[0] == "0":
                    st["num_rejected"] += 1
                n = len(unhx(t[1]))
                lens[min(n, 30)] = lens.get(min(n, 30), 0) + 1
    st["num_length_histogram"] = {str(k): v for k, v in sorted(lens.items())}
    g = {"glob_total": 0, "glob_matched": 0, "glob_star_free_patterns": 0, "glob_stars_histogram": {}}
    for c, a in zip(cases, answers):
        ops = [l for l in c if l.strip() and not l.startswith(("case", "#", "="))]
        for l, r in zip(ops, a):
            t = l.split()
            if t[0] == "glob":
                g["glob_total"] += 1
                if r.startswith("1"):
                    g["glob_matched"] += 1
                k = unhx(t[1]).count("*")
                if k == 0:
                    g["glob_star_free_patterns"] += 1
                g["glob_stars_histogram"][str(k)] = g["glob_stars_histogram"].get(str(k), 0) + 1
    st.update(g)
    return {"distribution": st}
