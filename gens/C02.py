"""Script generator for C02 (ParameterList / AbstractParametrizable).

Registers 0..3 are plain lists, 4..5 are owned by an AbstractParametrizable.  Values and
bounds are integers meaning quarters.  A light shadow (names, values, constraints per
register; object sharing is ignored) is kept only to *bias* the choices: ≈1/3 of the
operations are meant to raise (duplicate add, missing name, index out of range, value
rejected by the target's constraint at every position of the source).
"""
import random

NAMES = list("abcdefgh")
NAME_W = [6, 6, 5, 4, 3, 2, 1, 1]
NREG, NPLAIN = 6, 4
CONS = ["-", "-", "c:1:-8:8:1", "c:0:-8:8:0", "c:1:0:+inf:0", "c:0:0:+inf:0", "c:0:-inf:4:1", "c:1:-4:12:0", "c:0:-2:2:1"]


TINY = 2.0 ** -28      # a nudged value token `n'` is n/4 + 2^-30, i.e. n + 2^-28 in quarter units


def fmtq(q):
    """value token: an integer number of quarters, or `n'` for a nudged one"""
    return "%d" % q if isinstance(q, int) else "%d'" % int(q // 1)


def accepts(con, q):
    if con == "-":
        return True
    _, il, lo, hi, ih = con.split(":")
    lo_ok = True if lo == "-inf" else (q >= int(lo) if il == "1" else q > int(lo))
    hi_ok = True if hi == "+inf" else (q <= int(hi) if ih == "1" else q < int(hi))
    return lo_ok and hi_ok


def inside(rng, con):
    for _ in range(50):
        q = rng.randint(-12, 16)
        if accepts(con, q):
            return q
    return 1


def pick(rng, pred):
    cands = [q for q in range(-16, 21) if pred(q)]
    return rng.choice(cands) if cands else None


def outside(rng, con):
    for _ in range(50):
        q = rng.randint(-16, 20)
        if not accepts(con, q):
            return q
    return None


class Shadow:
    def __init__(self):
        self.l = [[] for _ in range(NREG)]   # entries [name, q, con]
        self.pre = [""] * NREG

    def names(self, k):
        return [e[0] for e in self.l[k]]

    def find(self, k, n):
        for e in self.l[k]:
            if e[0] == n:
                return e
        return None


def gen_case(rng, tag, length, raise_p=0.5, soup=False):
    sh = Shadow()
    ops = []

    def reg(): return rng.randrange(NREG)
    def plain(): return rng.randrange(NPLAIN)
    def apreg(): return NPLAIN + rng.randrange(NREG - NPLAIN)
    def nonempty(default=None):
        ks = [k for k in range(NREG) if sh.l[k]]
        return rng.choice(ks) if ks else (reg() if default is None else default)
    def pname(k): return sh.pre[k] + rng.choice(NAMES)

    def op_add(k=None, want_raise=None):
        k = reg() if k is None else k
        want_raise = (rng.random() < raise_p * 1.2) if want_raise is None else want_raise
        have = sh.names(k)
        con = rng.choice(CONS)
        if want_raise and have:
            n = rng.choice(have)
        else:
            free = [x for x in NAMES if sh.pre[k] + x not in have]
            # low letters are favoured so that lists overlap
            n = sh.pre[k] + rng.choices(free, [NAME_W[NAMES.index(x)] for x in free])[0] if free else pname(k)
        q = inside(rng, con)
        if rng.random() < 0.04:
            o = outside(rng, con)
            if o is not None and o != 0:
                q = o   # the Parameter constructor raises (never 0: that is C01's constructor defect)
        kind = "add" if rng.random() < 0.7 else "addp"
        ops.append("%s %d %s %d %s" % (kind, k, n, q, con))
        if n not in have and accepts(con, q):
            sh.l[k].append([n, q, con])

    def fill(k, m):
        for _ in range(m):
            op_add(k, False)
            if rng.random() < 0.35:
                op_add(k, True)   # a refused duplicate in between

    def make_source(k, j, reject_at=None, subset=False):
        """(re)build register j as a source for a bulk update of register k"""
        ops.append("reset %d" % j)
        sh.l[j] = []
        tgt = list(sh.l[k])
        rng.shuffle(tgt)
        names = [e[0] for e in tgt]
        if subset and names:
            names = names[: rng.randint(0, len(names))]
        extra = [x for x in NAMES if x not in sh.names(k)]
        rng.shuffle(extra)
        names += extra[: rng.randint(0, 2)]
        rng.shuffle(names)
        pos = 0
        for n in names:
            t = sh.find(k, n)
            con = rng.choice(CONS) if rng.random() < 0.3 else "-"
            q = None
            if t is not None:
                if reject_at is not None and pos == reject_at:
                    q = outside(rng, t[2])
                    if q is not None and not accepts(con, q):
                        con = "-"
                if q is None:
                    q = t[1] if rng.random() < 0.3 else inside(rng, t[2])
                    if not accepts(con, q):
                        con = "-"
                pos += 1
            else:
                q = inside(rng, con)
            ops.append("add %d %s %d %s" % (j, n, q, con))
            sh.l[j].append([n, q, con])

    def bulk(kind=None):
        k = nonempty()
        if kind is None:
            kind = rng.choice(["setvs", "setvs", "matchvs", "matchvs", "matchvs0", "testvs", "setallv", "setallv",
                               "ap.setvs", "ap.matchvs", "ap.setallv", "setallp", "setps", "matchps"])
        if kind.startswith("ap."):
            k = apreg()
            if not sh.l[k]:
                fill(k, rng.randint(1, 4))
        others = [x for x in range(NREG) if x != k]
        r = rng.random()
        if r < 0.88:
            # an existing register as source (overlap of names by chance; self-source sometimes)
            cands = [x for x in others if sh.l[x]] or others
            j = k if rng.random() < 0.05 else rng.choice(cands)
            # tune the source: either one matching value is made unacceptable for its target
            # (at a random position), or all of them are made acceptable
            matching = [e for e in sh.l[j] if sh.find(k, e[0]) is not None]
            if j != k and matching:
                if rng.random() < raise_p * 1.3:
                    rng.shuffle(matching)
                    e, q = matching[0], None
                    for e in matching:
                        tc = sh.find(k, e[0])[2]
                        q = pick(rng, lambda x: accepts(e[2], x) and not accepts(tc, x))
                        if q is not None:
                            break
                    if q is not None:
                        ops.append("setv %d %s %d" % (j, e[0], q))
                        if accepts(e[2], q):
                            e[1] = q
                else:
                    for e in matching:
                        t = sh.find(k, e[0])
                        if not accepts(t[2], e[1]) or rng.random() < 0.25:
                            q = t[1] if rng.random() < 0.3 else pick(rng, lambda x: accepts(e[2], x) and accepts(t[2], x))
                            if q is None:
                                q = t[1]
                            ops.append("setv %d %s %d" % (j, e[0], q))
                            if accepts(e[2], q):
                                e[1] = q
            # a value that differs from the target's by 2^-30 only: it *is* a different value
            if j != k and matching and rng.random() < 0.15:
                e = rng.choice(matching)
                t = sh.find(k, e[0])
                if isinstance(t[1], int):
                    q = t[1] + TINY
                    ops.append("setv %d %s %s" % (j, e[0], fmtq(q)))
                    if accepts(e[2], q):
                        e[1] = q
        else:
            j = rng.choice(others)
            n_match = len(sh.l[k])
            rej = rng.randrange(max(1, n_match)) if rng.random() < raise_p else None
            subset = kind not in ("setallv", "ap.setallv", "setallp") or rng.random() < 0.25
            if len(sh.l[k]) > 4:
                subset = True if "all" not in kind else subset
            make_source(k, j, rej, subset)
        ops.append("%s %d %d" % (kind, k, j))
        # shadow (approximate: applies when nothing is rejected)
        ok = all(accepts(sh.find(k, e[0])[2], e[1]) for e in sh.l[j] if sh.find(k, e[0]))
        if ok and kind in ("setvs", "matchvs", "matchvs0", "setallv", "ap.setvs", "ap.matchvs", "ap.setallv"):
            if "setallv" in kind and any(sh.find(j, n) is None for n in sh.names(k)):
                return
            for e in sh.l[j]:
                t = sh.find(k, e[0])
                if t:
                    t[1] = e[1]

    def op_setv():
        k = nonempty()
        ap = k >= NPLAIN and rng.random() < 0.6
        if sh.l[k] and rng.random() > raise_p * 0.4:
            e = rng.choice(sh.l[k])
            n = e[0]
            if rng.random() < raise_p * 1.1:
                q = outside(rng, e[2])
                if q is None:
                    q = inside(rng, e[2])
            else:
                q = inside(rng, e[2])
            if accepts(e[2], q):
                e[1] = q
        else:
            n, q = pname(k), rng.randint(-8, 8)
        if ap:
            short = n[len(sh.pre[k]):] if sh.pre[k] and n.startswith(sh.pre[k]) else n
            ops.append("ap.setv %d %s %d" % (k, short if short else "-", q))
        else:
            ops.append("setv %d %s %d" % (k, n, q))

    def some_names(k, allow_bad=True):
        have = sh.names(k)
        m = rng.randint(0, min(4, len(have))) if have else 0
        ns = rng.sample(have, m)
        if allow_bad and rng.random() < raise_p * 0.5:
            ns.insert(rng.randint(0, len(ns)), rng.choice(NAMES) + "z")
        if allow_bad and ns and rng.random() < 0.12:
            ns.insert(rng.randint(0, len(ns)), rng.choice(ns))
        return ns

    def some_idx(k, allow_bad=True, allow_dup=True):
        n = len(sh.l[k])
        m = rng.randint(0, min(4, n)) if n else 0
        idx = rng.sample(range(n), m)
        if allow_bad and rng.random() < raise_p * 0.6:
            idx.insert(rng.randint(0, len(idx)), n + rng.randint(0, 2))
        if allow_dup and idx and rng.random() < 0.12:
            idx.insert(rng.randint(0, len(idx)), rng.choice(idx))
        return idx

    def op_del():
        k = nonempty()
        r = rng.random()
        have = sh.names(k)
        if r < 0.3:
            n = rng.choice(have) if have and rng.random() > raise_p * 0.7 else rng.choice(NAMES) + "z"
            ops.append("del %d %s" % (k, n))
            if n in have:
                sh.l[k] = [e for e in sh.l[k] if e[0] != n]
        elif r < 0.5:
            ns = some_names(k)
            must = rng.choice([0, 1])
            ops.append("dels %d %d %s" % (k, must, " ".join(ns)))
            for n in ns:
                if n in sh.names(k):
                    sh.l[k] = [e for e in sh.l[k] if e[0] != n]
                elif must:
                    break
        elif r < 0.7:
            n = len(sh.l[k])
            i = rng.randrange(n) if n and rng.random() > raise_p * 0.7 else n + rng.randint(0, 1)
            ops.append("deli %d %d" % (k, i))
            if i < n:
                del sh.l[k][i]
        else:
            idx = some_idx(k)
            ops.append("delis %d %s" % (k, " ".join(map(str, idx))))
            n = len(sh.l[k])
            if all(i < n for i in idx) and len(set(idx)) == len(idx):
                sh.l[k] = [e for i, e in enumerate(sh.l[k]) if i not in idx]
            else:
                sh.l[k] = [e for i, e in enumerate(sh.l[k]) if i not in idx][:n]  # approximate

    def op_sub():
        k = nonempty()
        j = plain()
        r = rng.random()
        if r < 0.2:
            ns = some_names(k)
            ops.append("subn %d %d %s" % (k, j, " ".join(ns)))
            if all(n in sh.names(k) for n in ns) and len(set(ns)) == len(ns):
                sh.l[j] = [list(sh.find(k, n)) for n in ns]
        elif r < 0.3:
            have = sh.names(k)
            n = rng.choice(have) if have and rng.random() > raise_p * 0.5 else "zz"
            ops.append("sub1 %d %d %s" % (k, j, n))
            if n in have:
                sh.l[j] = [list(sh.find(k, n))]
        elif r < 0.5:
            idx = some_idx(k)
            ops.append("subi %d %d %s" % (k, j, " ".join(map(str, idx))))
            sh.l[j] = [list(sh.l[k][i]) for i in idx if i < len(sh.l[k])]
        elif r < 0.58:
            n = len(sh.l[k])
            i = rng.randrange(n + 1)
            ops.append("subi1 %d %d %d" % (k, j, i))
            sh.l[j] = [list(sh.l[k][i])] if i < n else []
        elif r < 0.8:
            ns = some_names(k)
            ops.append("shsubn %d %d %s" % (k, j, " ".join(ns)))
            if all(n in sh.names(k) for n in ns):
                out = []
                for n in ns:
                    if n not in [e[0] for e in out]:
                        out.append(list(sh.find(k, n)))
                sh.l[j] = out
        else:
            idx = some_idx(k)
            ops.append("shsubi %d %d %s" % (k, j, " ".join(map(str, idx))))
            out = []
            for i in idx:
                if i < len(sh.l[k]) and sh.l[k][i][0] not in [e[0] for e in out]:
                    out.append(list(sh.l[k][i]))
            sh.l[j] = out

    def op_merge():
        k, j = reg(), nonempty()
        r = rng.random()
        if rng.random() < 0.06:
            j = k
        if r < 0.55 and j != k and rng.random() < raise_p * 0.9:
            coll = [e for e in sh.l[j] if sh.find(k, e[0]) is not None]
            if coll:
                e = rng.choice(coll)
                tc = sh.find(k, e[0])[2]
                q = pick(rng, lambda x: accepts(e[2], x) and not accepts(tc, x))
                if q is not None:
                    ops.append("setv %d %s %d" % (j, e[0], q))
                    if accepts(e[2], q):
                        e[1] = q
        if r < 0.3:
            ops.append("include %d %d" % (k, j))
            for e in list(sh.l[j]):
                t = sh.find(k, e[0])
                if t:
                    if accepts(t[2], e[1]):
                        t[1] = e[1]
                    else:
                        break
                else:
                    sh.l[k].append(list(e))
        elif r < 0.55:
            ops.append("shareall %d %d" % (k, j))
            for e in list(sh.l[j]):
                t = sh.find(k, e[0])
                if t:
                    if accepts(t[2], e[1]):
                        t[1] = e[1]
                    else:
                        break
                else:
                    sh.l[k].append(list(e))
        elif r < 0.75:
            have = sh.names(j)
            n = rng.choice(have) if have and rng.random() > raise_p * 0.4 else "zz"
            ops.append("share %d %d %s" % (k, j, n))
            e = sh.find(j, n)
            if e:
                t = sh.find(k, n)
                if t:
                    if accepts(t[2], e[1]):
                        t[1] = e[1]
                elif k != j:
                    sh.l[k].append(list(e))
        elif r < 0.9:
            ops.append("addall %d %d" % (k, j))
            for e in list(sh.l[j]):
                if sh.find(k, e[0]):
                    break
                sh.l[k].append(list(e))
        else:
            m = plain()
            ops.append("common %d %d %d" % (k, j, m))
            sh.l[m] = [list(e) for e in sh.l[j] if sh.find(k, e[0])]

    def op_copy():
        k = nonempty()
        r = rng.random()
        if r < 0.35:
            j = plain()
            ops.append("copy %d %d" % (k, j))
        elif r < 0.5:
            j = plain()
            ops.append("clone %d %d" % (k, j))
        else:
            j = reg()
            ops.append("assign %d %d" % (k, j))
        sh.l[j] = [list(e) for e in sh.l[k]]
        # mutate one side afterwards so that independence is observable
        if sh.l[j] and rng.random() < 0.8:
            side = rng.choice([k, j])
            e = rng.choice(sh.l[side])
            q = inside(rng, e[2])
            ops.append("setv %d %s %d" % (side, e[0], q))
            e[1] = q

    def op_setp():
        k = nonempty()
        n = len(sh.l[k])
        i = rng.randrange(n) if n and rng.random() > raise_p * 0.5 else n + rng.randint(0, 1)
        con = rng.choice(CONS)
        if i < n and rng.random() < 0.6:
            name = sh.l[k][i][0]
        else:
            name = pname(k)
        q = inside(rng, con)
        ops.append("setp %d %d %s %d %s" % (k, i, name, q, con))
        if i < n:
            sh.l[k][i] = [name, q, con]

    def op_query():
        k = nonempty()
        have = sh.names(k)
        n = rng.choice(have) if have and rng.random() > raise_p * 0.6 else rng.choice(NAMES)
        r = rng.random()
        if r < 0.3:
            ops.append("which %d %s" % (k, n))
        elif r < 0.5:
            ops.append("has %d %s" % (k, n))
        elif r < 0.7:
            ops.append("getv %d %s" % (k, n))
        elif r < 0.78:
            ops.append("names %d" % k)
        elif r < 0.84:
            ops.append("size %d" % k)
        elif r < 0.92:
            ops.append("param %d %s" % (k, n))
        else:
            ops.append("at %d %d" % (k, rng.randrange(len(have) + 2)))

    def short_of(k, n):
        return n[len(sh.pre[k]):] if sh.pre[k] and n.startswith(sh.pre[k]) else n

    def op_apquery():
        k = apreg()
        have = sh.names(k)
        full = rng.choice(have) if have and rng.random() > raise_p * 0.5 else sh.pre[k] + rng.choice(NAMES)
        # the owner prepends its prefix: mostly ask with the short name, sometimes with the full one
        n = short_of(k, full) if rng.random() < 0.8 else full
        n = n if n else "-"
        r = rng.random()
        if r < 0.2:
            ops.append("ap.has %d %s" % (k, n))
        elif r < 0.4:
            ops.append("ap.param %d %s" % (k, n))
        elif r < 0.55:
            ops.append("ap.getv %d %s" % (k, n))
        elif r < 0.7:
            ops.append("ap.at %d %d" % (k, rng.randrange(len(have) + 2)))
        elif r < 0.88:
            ops.append("ap.nons %d %s" % (k, full if rng.random() < 0.7 else rng.choice(NAMES)))
        elif r < 0.94:
            ops.append("ap.size %d" % k)
        else:
            ops.append("ap.names %d" % k)

    def op_apmut():
        """the protected forwarders of the owner (addParameter_ & co)"""
        k = apreg()
        r = rng.random()
        have = sh.names(k)
        if r < 0.3:
            con = rng.choice(CONS)
            if have and rng.random() < raise_p * 0.6:
                n = rng.choice(have)
            else:
                # mostly under the namespace; sometimes a bare name (the class does not enforce the prefix)
                n = (sh.pre[k] if rng.random() < 0.8 else "") + rng.choice(NAMES)
            q = inside(rng, con)
            ops.append("ap.addp %d %s %d %s" % (k, n, q, con))
            if n not in have:
                sh.l[k].append([n, q, con])
        elif r < 0.34:
            ops.append("ap.addnull %d" % k)
        elif r < 0.44:
            j = nonempty()
            ops.append("ap.addall %d %d" % (k, j))
            for e in list(sh.l[j]):
                if sh.find(k, e[0]):
                    break
                sh.l[k].append(list(e))
        elif r < 0.56:
            j = nonempty()
            hj = sh.names(j)
            n = rng.choice(hj) if hj and rng.random() > raise_p * 0.3 else "zz"
            ops.append("ap.share %d %d %s" % (k, j, n))
            e = sh.find(j, n)
            if e:
                t = sh.find(k, n)
                if t:
                    if accepts(t[2], e[1]):
                        t[1] = e[1]
                elif k != j:
                    sh.l[k].append(list(e))
        elif r < 0.64:
            j = nonempty()
            kind = rng.choice(["ap.shareall", "ap.include"])
            ops.append("%s %d %d" % (kind, k, j))
            for e in list(sh.l[j]):
                t = sh.find(k, e[0])
                if t:
                    if accepts(t[2], e[1]):
                        t[1] = e[1]
                    else:
                        break
                else:
                    sh.l[k].append(list(e))
        elif r < 0.74:
            n = len(sh.l[k])
            i = rng.randrange(n) if n and rng.random() > raise_p * 0.7 else n + rng.randint(0, 1)
            ops.append("ap.deli %d %d" % (k, i))
            if i < n:
                del sh.l[k][i]
        elif r < 0.84:
            n = rng.choice(have) if have and rng.random() > raise_p * 0.6 else rng.choice(NAMES) + "z"
            ops.append("ap.del %d %s" % (k, n))
            if n in have:
                sh.l[k] = [e for e in sh.l[k] if e[0] != n]
        elif r < 0.94:
            ns = some_names(k)
            ops.append("ap.dels %d %s" % (k, " ".join(ns)))
            for n in ns:
                if n in sh.names(k):
                    sh.l[k] = [e for e in sh.l[k] if e[0] != n]
                else:
                    break
        elif r < 0.975:
            ops.append("ap.reset %d" % k)
            sh.l[k] = []
        else:
            j = apreg()
            ops.append("%s %d %d" % (rng.choice(["ap.copy", "ap.assign"]), k, j))
            sh.l[j] = [list(e) for e in sh.l[k]]
            sh.pre[j] = sh.pre[k]

    def op_ns():
        k = apreg()
        p = rng.choice(["-", "p.", "q.", "p.q."])
        ops.append("ap.ns %d %s" % (k, p))
        old = sh.pre[k]
        new = "" if p == "-" else p
        for e in sh.l[k]:
            e[0] = new + (e[0][len(old):] if e[0].startswith(old) else e[0])
        sh.pre[k] = new

    def op_reset():
        k = reg()
        ops.append("reset %d" % k)
        sh.l[k] = []

    # start with a few populated registers
    for k in rng.sample(range(NREG), 2):
        fill(k, rng.randint(2, 5))
    table = [(op_add, 12), (bulk, 30), (op_setv, 9), (op_del, 12), (op_sub, 10), (op_merge, 12), (op_copy, 6),
             (op_setp, 4), (op_query, 8), (op_ns, 1.5), (op_reset, 1.0), (op_apquery, 4), (op_apmut, 6)]
    fns = [f for f, _ in table]
    wts = [w for _, w in table]
    while len(ops) < length:
        rng.choices(fns, wts)[0]()
    return ["case %s" % tag] + ops


def directed(rng):
    """every position of the rejected entry, for every two-pass setter"""
    cases = []
    n = 0
    for kind in ["setvs", "matchvs", "matchvs0", "testvs", "setallv", "ap.setvs", "ap.matchvs", "ap.setallv"]:
        for size in range(1, 6):
            for rej in list(range(size)) + [None]:
                k = 4 if kind.startswith("ap.") else 0
                ops = []
                names = rng.sample(NAMES, size)
                cons = [rng.choice(CONS[2:]) for _ in names]
                vals = [inside(rng, c) for c in cons]
                for nm, c, v in zip(names, cons, vals):
                    ops.append("add %d %s %d %s" % (k, nm, v, c))
                # an alias of the target list and an independent copy, to see who observes the update
                ops.append("shareall 1 %d" % k)
                ops.append("copy %d 2" % k)
                order = list(range(size))
                rng.shuffle(order)
                for p, i in enumerate(order):
                    q = inside(rng, cons[i])
                    if rej is not None and p == rej:
                        o = outside(rng, cons[i])
                        q = o if o is not None else q
                    elif rng.random() < 0.3:
                        q = vals[i]
                        if rng.random() < 0.4 and accepts(cons[i], q + TINY):
                            q = q + TINY      # next to the target's value, not equal to it
                    ops.append("add 3 %s %s -" % (names[i], fmtq(q)))
                if "setallv" not in kind and rng.random() < 0.5:
                    ops.append("add 3 %s 1 -" % rng.choice([x for x in NAMES if x not in names] or ["zz"]))
                ops.append("%s %d 3" % (kind, k))
                ops.append("names %d" % k)
                cases.append(["case dir%d" % n] + ops)
                n += 1
    return cases


def directed_assign(rng):
    """whole-parameter setters: the name without a partner at every position (first / middle / last)
    or nowhere; an alias and a copy of the target alive; the call is repeated after the source has
    been mended (a state reached after an earlier raise)"""
    cases = []
    n = 0
    for kind in ["setps", "setallp", "matchps"]:
        for size in range(1, 6):
            for miss in list(range(size)) + [None]:
                ops = []
                names = rng.sample(NAMES, size)
                cons = [rng.choice(CONS) for _ in names]
                for nm, c in zip(names, cons):
                    ops.append("add 0 %s %d %s" % (nm, inside(rng, c), c))
                ops.append("shareall 1 0")
                ops.append("copy 0 2")
                order = list(range(size))
                rng.shuffle(order)
                stranger = rng.choice([x for x in NAMES if x not in names] or ["zz"]) + "z"
                mend = None
                for p_, i in enumerate(order):
                    c2 = rng.choice(CONS)
                    line = "add 3 %s %d %s" % (names[i], inside(rng, c2), c2)
                    if miss is not None and p_ == miss:
                        if kind == "setallp":
                            mend = line          # this target name is left out of the source
                            continue
                        ops.append("add 3 %s 4 -" % stranger)   # a source name the target does not have
                        mend = "del 3 %s" % stranger
                    ops.append(line)
                if kind != "setallp" and miss is None and rng.random() < 0.3:
                    pass
                ops.append("%s 0 3" % kind)
                ops.append("names 0")
                if mend and kind != "matchps":
                    ops.append(mend)
                    ops.append("%s 0 3" % kind)
                ops.append("param 1 %s" % names[0])
                ops.append("getv 2 %s" % names[0])
                cases.append(["case assign%d %s size=%d miss=%s" % (n, kind, size, miss)] + ops)
                n += 1
    return cases


def directed_owner(rng):
    """the owner-level routes under a non-empty namespace: every position of the rejected entry for
    the three bulk setters; setParameterValue accepted / rejected / unknown; the read routes"""
    cases = []
    n = 0
    for pre in ["p.", "p.q."]:
        for kind in ["ap.setvs", "ap.matchvs", "ap.setallv"]:
            for size in range(1, 5):
                for rej in list(range(size)) + [None]:
                    ops = ["ap.ns 4 %s" % pre]
                    shorts = rng.sample(NAMES, size)
                    cons = [rng.choice(CONS[2:]) for _ in shorts]
                    vals = [inside(rng, c) for c in cons]
                    for nm, c, v in zip(shorts, cons, vals):
                        ops.append("ap.addp 4 %s%s %d %s" % (pre, nm, v, c))
                    ops.append("shareall 1 4")
                    ops.append("clone 4 2")
                    order = list(range(size))
                    rng.shuffle(order)
                    for p_, i in enumerate(order):
                        q = inside(rng, cons[i])
                        if rej is not None and p_ == rej:
                            o = outside(rng, cons[i])
                            q = o if o is not None else q
                        elif rng.random() < 0.3:
                            q = vals[i]
                        ops.append("add 3 %s%s %d -" % (pre, shorts[i], q))
                    if "setallv" not in kind and rng.random() < 0.5:
                        ops.append("add 3 %s 1 -" % shorts[0])     # the short name: not a parameter of the owner
                    ops.append("%s 4 3" % kind)
                    ops.append("ap.names 4")
                    ops.append("ap.getv 4 %s" % shorts[0])
                    if rej is not None:
                        # mend the offending value and call again
                        i = order[rej]
                        ops.append("setv 3 %s%s %d" % (pre, shorts[i], inside(rng, cons[i])))
                        ops.append("%s 4 3" % kind)
                    cases.append(["case owner%d %s pre=%s size=%d rej=%s" % (n, kind, pre, size, rej)] + ops)
                    n += 1
        # single values and read routes
        for _ in range(6):
            ops = ["ap.ns 5 %s" % pre]
            shorts = rng.sample(NAMES, 3)
            cons = [rng.choice(CONS[2:]) for _ in shorts]
            for nm, c in zip(shorts, cons):
                ops.append("ap.addp 5 %s%s %d %s" % (pre, nm, inside(rng, c), c))
            ops.append("ap.addp 5 %s 1 -" % shorts[0])       # a bare name next to the prefixed one
            ops.append("ap.addnull 5")
            for nm, c in zip(shorts, cons):
                o = outside(rng, c)
                ops.append("ap.setv 5 %s %d" % (nm, inside(rng, c)))
                if o is not None:
                    ops.append("ap.setv 5 %s %d" % (nm, o))
                ops.append("ap.setv 5 %s%s 1" % (pre, nm))  # the full name is not what the owner expects
                ops.append("ap.has 5 %s" % nm)
                ops.append("ap.has 5 %s%s" % (pre, nm))
                ops.append("ap.param 5 %s" % nm)
                ops.append("ap.getv 5 %s" % nm)
                ops.append("ap.nons 5 %s%s" % (pre, nm))
                ops.append("ap.nons 5 %s" % nm)
            for i in range(6):
                ops.append("ap.at 5 %d" % i)
            ops.append("ap.size 5")
            # a copy of the owner (copy constructor, then assignment back): independent, same prefix
            ops.append("ap.copy 5 4")
            ops.append("ap.setv 4 %s %d" % (shorts[1], inside(rng, cons[1])))
            ops.append("ap.getv 5 %s" % shorts[1])
            ops.append("ap.setv 5 %s %d" % (shorts[2], inside(rng, cons[2])))
            ops.append("ap.assign 5 4")
            ops.append("ap.names 4")
            ops.append("ap.deli 5 %d" % rng.randrange(6))
            ops.append("ap.del 5 %s%s" % (pre, shorts[1]))
            ops.append("ap.dels 5 %s%s zz %s" % (pre, shorts[2], shorts[0]))
            ops.append("ap.names 5")
            cases.append(["case ownerread%d pre=%s" % (n, pre)] + ops)
            n += 1
    return cases


def directed_delis(rng):
    """index vectors: subsets in every order, an out-of-range index first / in the middle / last,
    a repeated index (outside the property: modelled, clause delete_indices_general)"""
    cases = []
    n = 0
    for size in range(1, 6):
        for variant in ["subset", "subset", "oob-first", "oob-mid", "oob-last", "repeat", "repeat-oob", "all", "empty"]:
            ops = []
            names = rng.sample(NAMES, size)
            for nm in names:
                ops.append("add 0 %s %d -" % (nm, rng.randint(-8, 8)))
            ops.append("shsubi 0 1 %s" % " ".join(map(str, range(size))))
            idx = rng.sample(range(size), rng.randint(1, size))
            if variant == "all":
                idx = list(range(size)); rng.shuffle(idx)
            elif variant == "empty":
                idx = []
            elif variant == "oob-first":
                idx = [size + rng.randint(0, 2)] + idx
            elif variant == "oob-mid":
                idx.insert(len(idx) // 2, size + rng.randint(0, 2))
            elif variant == "oob-last":
                idx = idx + [size]
            elif variant == "repeat":
                idx.insert(rng.randint(0, len(idx)), rng.choice(idx))
            elif variant == "repeat-oob":
                idx = idx + [idx[0], size + 1]
            ops.append("delis 0 %s" % " ".join(map(str, idx)))
            ops.append("names 0")
            ops.append("names 1")
            # the same on an owner's list through deleteParameter_ / deleteParameters_
            ops.append("ap.shareall 4 1")
            ops.append("ap.deli 4 %d" % rng.randrange(size + 1))
            ops.append("ap.names 4")
            cases.append(["case delis%d size=%d %s" % (n, size, variant)] + ops)
            n += 1
    return cases


def directed_ns(rng):
    """setNamespace: guarded states (every name under the prefix, nothing shared: names must stay
    unique — clause names_unique_namespace_partial), bare names and shared objects without a
    collision, and the two colliding situations of the known finding"""
    cases = []
    n = 0
    pres = ["-", "p.", "q.", "p.q.", "pp."]
    for _ in range(24):
        ops = []
        p0 = rng.choice(pres[1:])
        ops.append("ap.ns 4 %s" % p0)
        shorts = rng.sample(NAMES, rng.randint(1, 5))
        for nm in shorts:
            c = rng.choice(CONS)
            ops.append("ap.addp 4 %s%s %d %s" % (p0, nm, inside(rng, c), c))
        ops.append("copy 4 0")
        for _ in range(rng.randint(1, 4)):
            ops.append("ap.ns 4 %s" % rng.choice(pres))
            ops.append("ap.names 4")
            ops.append("ap.has 4 %s" % shorts[0])
            ops.append("ap.nons 4 %s%s" % (p0, shorts[0]))
        ops.append("names 0")
        cases.append(["case ns-guarded%d" % n] + ops); n += 1
    for _ in range(12):
        # bare names / shared objects, no collision
        ops = ["ap.ns 4 p."]
        shorts = rng.sample(NAMES, 3)
        ops.append("ap.addp 4 p.%s 1 -" % shorts[0])
        ops.append("ap.addp 4 %s 2 -" % shorts[1])             # bare, no collision with p.<shorts[0]>
        ops.append("add 0 %s 3 -" % shorts[2])
        ops.append("ap.share 4 0 %s" % shorts[2])              # shared with register 0
        ops.append("ap.ns 4 %s" % rng.choice(["q.", "-", "p.q."]))
        ops.append("names 0")
        ops.append("ap.names 4")
        ops.append("ap.ns 4 %s" % rng.choice(["q.", "-", "p."]))
        ops.append("names 0")
        cases.append(["case ns-bare-shared%d" % n] + ops); n += 1
    for _ in range(6):
        a = rng.choice(NAMES)
        ops = ["ap.ns 4 p.", "ap.addp 4 %s 8 -" % a, "ap.addp 4 p.%s 12 -" % a, "ap.ns 4 %s" % rng.choice(["q.", "-", "p."]),
               "ap.names 4", "ap.getv 4 %s" % a, "ap.setv 4 %s 5" % a, "ap.names 4"]
        cases.append(["case ns-collision-own%d" % n] + ops); n += 1
        ops = ["add 0 %s 4 -" % a, "add 0 p.%s 8 -" % a, "ap.share 4 0 %s" % a, "ap.ns 4 p.", "names 0",
               "setv 0 p.%s 1" % a, "names 0"]
        cases.append(["case ns-collision-shared%d" % n] + ops); n += 1
    return cases


def directed_misc(rng):
    """clone, positional / by-name accessors at every position, getCommonParametersWith with
    overlapping name sets and constrained entries, sub-lists after an earlier raise"""
    cases = []
    for n in range(30):
        ops = []
        size = rng.randint(1, 6)
        names = rng.sample(NAMES, size)
        for nm in names:
            c = rng.choice(CONS)
            ops.append("add 0 %s %d %s" % (nm, inside(rng, c), c))
        ops.append("clone 0 1")
        ops.append("shareall 2 0")
        for i in range(size + 1):
            ops.append("at %d %d" % (rng.choice([0, 1, 2]), i))
        for nm in names[:3] + ["zz"]:
            ops.append("param %d %s" % (rng.choice([0, 1, 2]), nm))
        e = rng.randrange(size)
        ops.append("setv 1 %s %d" % (names[e], rng.randint(-2, 2)))
        ops.append("param 0 %s" % names[e])
        other = rng.sample(NAMES, rng.randint(1, 5))
        for nm in other:
            c = rng.choice(CONS)
            ops.append("add 3 %s %d %s" % (nm, inside(rng, c), c))
        ops.append("common 0 3 1")
        ops.append("common 3 0 2")
        ops.append("common 0 0 1")
        ops.append("subn 0 1 %s zz" % names[0])            # raises: register 1 keeps its list
        ops.append("names 1")
        ops.append("subn 0 1 %s" % " ".join(rng.sample(names, rng.randint(1, size))))
        ops.append("testvs 0 3")
        cases.append(["case misc%d" % n] + ops)
    return cases


def directed_listeners(rng, count):
    """parameters that carry listeners (audit F1): a list with 1-3 mirror listeners between its own
    parameters (chains and cycles included), then copies / sub-lists / assignments of it and writes
    through the original and through the copies, single and bulk; only the operations that have a
    listener-aware model step are used after the first `listen`"""
    cases = []
    for n in range(count):
        ops = []
        size = rng.randint(2, 5)
        names = rng.sample(NAMES, size)
        cons = [rng.choice(CONS) if rng.random() < 0.5 else "-" for _ in names]
        for nm, c in zip(names, cons):
            ops.append("add 0 %s %d %s" % (nm, inside(rng, c), c))
        if rng.random() < 0.3:
            ops.append("copy 0 2")                    # a copy taken *before* any listener exists
        for _ in range(rng.randint(1, 3)):
            a, b = rng.sample(names, 2)
            ops.append("listen 0 %s %s" % (a, b))
        if rng.random() < 0.1:
            ops.append("listen 0 %s zz" % names[0])   # unknown target
        held = {0: list(names)}
        if ops.count("copy 0 2"):
            held[2] = list(names)
        for _ in range(rng.randint(4, 14)):
            r = rng.random()
            k = rng.choice(sorted(held))
            if r < 0.3 and held[k]:
                nm = rng.choice(held[k])
                c = cons[names.index(nm)] if nm in names else "-"
                q = inside(rng, c) if rng.random() < 0.8 else rng.randint(-16, 20)
                ops.append("setv %d %s %d" % (k, nm, q))
            elif r < 0.45:
                j = rng.choice([1, 2, 3])
                ops.append("%s %d %d" % (rng.choice(["copy", "clone", "assign"]), k, j))
                held[j] = list(held[k])
            elif r < 0.55 and held[k]:
                j = rng.choice([1, 2, 3])
                ns = rng.sample(held[k], rng.randint(1, len(held[k])))
                if rng.random() < 0.15:
                    ns.append("zz")
                ops.append("subn %d %d %s" % (k, j, " ".join(ns)))
                if "zz" not in ns:
                    held[j] = ns
            elif r < 0.75 and held[k]:
                # a bulk update from a fresh source in register 4
                ops.append("reset 4")
                for nm in rng.sample(held[k], rng.randint(1, len(held[k]))):
                    c = cons[names.index(nm)] if nm in names else "-"
                    q = inside(rng, c) if rng.random() < 0.85 else rng.randint(-16, 20)
                    ops.append("add 4 %s %d -" % (nm, q))
                ops.append("setvs %d 4" % k)
            elif r < 0.85 and held[k]:
                nm = rng.choice(held[k])
                ops.append(rng.choice(["getv %d %s", "param %d %s", "which %d %s"]) % (k, nm))
            elif r < 0.92 and held[k]:
                nm = rng.choice(held[k])
                ops.append("del %d %s" % (k, nm))
                held[k] = [x for x in held[k] if x != nm]
            else:
                ops.append("names %d" % k)
        cases.append(["case listeners%d" % n] + ops)
    return cases


def generate(seed, tier):
    rng = random.Random(seed)
    cases = directed(rng)
    cases += directed_assign(rng) + directed_owner(rng) + directed_delis(rng) + directed_ns(rng) + directed_misc(rng)
    cases += directed_listeners(rng, 600 if tier == "thorough" else 120)
    nrand = 30000 if tier == "thorough" else 2500
    for i in range(nrand):
        cases.append(gen_case(rng, "rnd%d" % i, rng.randint(12, 60)))
    return cases


def _parse_state(ans):
    """answer line -> list of registers, each a list of (name, q, con, obj); None when unparsable"""
    segs = ans.split(" ;")
    if len(segs) != NREG + 2:
        return None
    regs = []
    for sg in segs[2:]:
        es = []
        for t in sg.split():
            if t.startswith("pre="):
                continue
            f = t.rsplit(",", 3)
            if len(f) != 4:
                return None
            try:
                es.append((f[0], int(f[1][:-1]) + TINY if f[1].endswith("'") else int(f[1]), f[2], f[3]))
            except ValueError:
                return None
        regs.append(es)
    return regs


_SRC_ITER = ("setvs", "matchvs", "matchvs0", "testvs", "ap.setvs", "ap.matchvs")
_TWO_REG = _SRC_ITER + ("setallv", "ap.setallv", "setps", "setallp", "matchps", "include", "shareall", "addall",
                        "common", "ap.addall", "ap.shareall", "ap.include")


def _culprit(op, tgt, src):
    """position class (first / middle / last / only) of the entry that makes the call raise, in the
    order the routine iterates; None when nothing makes it raise"""
    def find(l, n):
        for e in l:
            if e[0] == n:
                return e
        return None
    if op in _SRC_ITER:
        seq = [(e, find(tgt, e[0])) for e in src]
        seq = [(e, t) for e, t in seq if t is not None]
        bad = [i for i, (e, t) in enumerate(seq) if not accepts(t[2], e[1])]
    elif op in ("setallv", "ap.setallv"):
        seq = [(t, find(src, t[0])) for t in tgt]
        bad = [i for i, (t, e) in enumerate(seq) if e is None or not accepts(t[2], e[1])]
    elif op == "setps":
        seq = list(src)
        bad = [i for i, e in enumerate(seq) if find(tgt, e[0]) is None]
    elif op == "setallp":
        seq = list(tgt)
        bad = [i for i, t in enumerate(seq) if find(src, t[0]) is None]
    else:
        return None
    if not bad:
        return None
    i, m = bad[0], len(seq)
    return "only" if m == 1 else "first" if i == 0 else "last" if i == m - 1 else "middle"


def coverage_extra(cases, answers):
    kinds = {}
    sizes = {}
    shared = 0
    total = 0
    per_op = {}
    ante = {}

    def hit(key):
        ante[key] = ante.get(key, 0) + 1

    for c, a in zip(cases, answers):
        prev = [[] for _ in range(NREG)]
        prev_pre = [""] * NREG
        raised_before = False
        k = 0
        for line in c[1:]:
            if not line.strip() or line.startswith(("#", "=")):
                continue
            r = (a or [])[k] if a and k < len(a) else ""
            k += 1
            total += 1
            head = r.split(" ;")[0].strip()
            is_exc = head.startswith("exc:")
            if is_exc or head in ("bad-op",):
                kinds[head] = kinds.get(head, 0) + 1
            st = _parse_state(r)
            objs = []
            for es in (st or []):
                sizes[len(es)] = sizes.get(len(es), 0) + 1
                objs += [e[3] for e in es]
            if len(objs) != len(set(objs)):
                shared += 1
            t = line.split()
            op = t[0]
            d = per_op.setdefault(op, {"n": 0, "raised": 0})
            d["n"] += 1
            d["raised"] += 1 if is_exc else 0
            def bump(key):
                d[key] = d.get(key, 0) + 1
            if raised_before:
                bump("after_an_earlier_raise")
            try:
                kk = int(t[1])
            except (IndexError, ValueError):
                kk = None
            if kk is not None and kk < NREG:
                tgt = prev[kk]
                if any(e[2] != "-" for e in tgt):
                    bump("target_constrained")
                elif tgt:
                    bump("target_unconstrained")
                others = set(e[3] for j, es in enumerate(prev) if j != kk for e in es)
                if any(e[3] in others for e in tgt):
                    bump("target_shares_objects")
                if op in _TWO_REG and len(t) > 2:
                    try:
                        jj = int(t[2])
                    except ValueError:
                        jj = None
                    if jj is not None and jj < NREG:
                        src = prev[jj]
                        tn, sn = set(e[0] for e in tgt), set(e[0] for e in src)
                        if tn & sn and (tn - sn or sn - tn):
                            bump("names_overlap_partially")
                        elif tn & sn:
                            bump("names_equal")
                        elif tn or sn:
                            bump("names_disjoint")
                        if jj == kk:
                            bump("self_source")
                        cl = _culprit(op, tgt, src)
                        if cl:
                            bump("culprit_" + cl)
            # --- how often the antecedent of a guarded clause was true (audit F4)
            uniq = [len(set(e[0] for e in es)) == len(es) for es in prev]
            if not all(uniq):
                hit("ops_executed_while_some_register_has_duplicated_names")
            if kk is not None and kk < NREG:
                if op == "ap.ns":
                    hit("ap.ns")
                    others = set(e[3] for j, es in enumerate(prev) if j != kk for e in es)
                    guard = all(e[0].startswith(prev_pre[kk]) for e in prev[kk]) and not any(e[3] in others for e in prev[kk])
                    if guard and all(uniq):
                        hit("ap.ns: nsGuard true (names_unique_namespace_partial judged)")
                    if st is not None and not all(len(set(e[0] for e in es)) == len(es) for es in st) and all(uniq):
                        hit("ap.ns: names duplicated by the call (known finding)")
                if op in ("subi", "shsubi", "delis"):
                    idx = t[3:] if op != "delis" else t[2:]
                    if len(set(idx)) == len(idx) and uniq[kk]:
                        hit(op + ": repeated-free indices, unique names (exactness judged)")
                    else:
                        hit(op + ": repeated index or duplicated names (only the general clauses judged)")
                if op in ("subn", "shsubn", "dels", "ap.dels"):
                    ns = t[3:] if op in ("subn", "shsubn", "dels") else t[2:]
                    hit(op + (": repeated-free names" if len(set(ns)) == len(ns) else ": repeated name"))
                if op in ("ap.matchvs", "matchvs", "matchvs0", "setvs", "ap.setvs", "testvs", "setps", "matchps") and len(t) > 2:
                    try:
                        jj = int(t[2])
                    except ValueError:
                        jj = None
                    if jj is not None and jj < NREG:
                        if not uniq[jj]:
                            hit(op + ": source names duplicated (exactness not judged)")
                        elif is_exc:
                            hit(op + ": raised")
                        elif op == "ap.matchvs":
                            fired = r.split(" ;")[1].strip() if len(r.split(" ;")) > 1 else "-"
                            hit("ap.matchvs: succeeded, " + ("nothing to notify" if fired == "-" else "non-empty notification judged"))
                        else:
                            hit(op + ": succeeded, exact effect judged")
            if st is not None:
                prev = st
                segs = r.split(" ;")[2:]
                for j, sg in enumerate(segs):
                    for tok in sg.split():
                        if tok.startswith("pre="):
                            prev_pre[j] = "" if tok[4:] == "-" else tok[4:]
            raised_before = raised_before or is_exc
    return {"raised_by_kind": kinds, "list_size_histogram": {str(k): v for k, v in sorted(sizes.items())},
            "answers_with_shared_objects_fraction": round(shared / total, 4) if total else 0.0,
            "op_states": {k: per_op[k] for k in sorted(per_op)},
            "clause_antecedents": {k: ante[k] for k in sorted(ante)}}
