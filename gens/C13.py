"""Script generator for C13 (HMM likelihoods).

Case families (the `case` tag names the family):
  enum   small instances (n^T <= 3000): every subset of break points for T <= 5, random subsets
         otherwise; exact path enumeration in the driver
  chunk  every chunk size 1..T+1 of the low-memory class against the rescaled class
  long   lengths up to 2000: cross-algorithm agreement, random break points and chunk sizes
  hist   interleaved parameter updates / break-point changes / queries on the three classes
  bad    malformed stream: negative entries, unknown parameters, invalid break points, chunk 0
"""
import random, struct, itertools, math


def h(x):
    return "%016x" % struct.unpack("<Q", struct.pack("<d", float(x)))[0]


def unh(s):
    return struct.unpack("<d", struct.pack("<Q", int(s, 16)))[0]


def rand_row(rng, n, sparse):
    r = [rng.random() for _ in range(n)]
    if sparse:
        for k in range(n):
            if rng.random() < 0.3:
                r[k] = 0.0
        if sum(r) == 0 and rng.random() < 0.8:
            r[rng.randrange(n)] = 1.0
    s = sum(r)
    if s > 0 and rng.random() < 0.9:
        r = [x / s for x in r]
    return r


def rand_emission(rng, kind):
    u = rng.random()
    if kind == "pos":
        return 10.0 ** (-rng.uniform(0, 3))
    if u < 0.03:
        return 0.0
    if u < 0.14:
        return 1.0
    if u < 0.45:
        return 10.0 ** (-rng.uniform(0, 200))
    if u < 0.6:
        return 2.0 ** (-rng.randint(0, 30))       # dyadic
    return 10.0 ** (-rng.uniform(0, 4))


def tables(rng, n, T, kind):
    """kind: pos (all entries > 0), sparse, any"""
    sparse = kind == "sparse" or (kind == "any" and rng.random() < 0.4)
    P = []
    for _ in range(n):
        r = rand_row(rng, n, sparse)
        if kind == "pos":
            r = [max(x, 1e-3) for x in r]
        P += r
    F = rand_row(rng, n, sparse and rng.random() < 0.5)
    if kind == "pos":
        F = [max(x, 1e-3) for x in F]
    E = [rand_emission(rng, kind) for _ in range(n * T)]
    if kind != "pos" and rng.random() < 0.75:
        # emissions spanning 1e-200..1 *between positions* (the usual situation: one factor per position
        # times moderate per-state factors); independent per-state extremes (above) make single scale
        # factors underflow the double range
        for t in range(T):
            mag = 10.0 ** (-rng.uniform(0, 200)) if rng.random() < 0.5 else 1.0
            for j in range(n):
                u = rng.random()
                E[t * n + j] = 0.0 if u < 0.03 else mag * (1.0 if u < 0.1 else 10.0 ** (-rng.uniform(0, 3)))
    if kind != "pos" and rng.random() < 0.04:
        # a whole position with probability zero
        t = rng.randrange(T)
        for j in range(n):
            E[t * n + j] = 0.0
    return P, F, E


def stationary_tables(rng, n, T):
    """row-stochastic positive P with its stationary vector (power iteration): the situation the
    HmmTransitionMatrix interface promises; the derivative predicates are judged on these"""
    P = []
    for _ in range(n):
        r = [rng.random() + 0.05 for _ in range(n)]
        s = sum(r)
        P += [x / s for x in r]
    pi = [1.0 / n] * n
    for _ in range(2000):
        nxt = [sum(pi[k] * P[k * n + j] for k in range(n)) for j in range(n)]
        s = sum(nxt)
        nxt = [x / s for x in nxt]
        if max(abs(a - b) for a, b in zip(nxt, pi)) == 0:
            break
        pi = nxt
    E = [10.0 ** (-rng.uniform(0, 3)) for _ in range(n * T)]
    return P, pi, E


def stage(n, P, F, E):
    ops = ["states %d" % n, "trans " + " ".join(h(x) for x in P), "eq " + " ".join(h(x) for x in F)]
    per = 200 * n
    for i in range(0, len(E), per):
        ops.append("emis " + " ".join(h(x) for x in E[i:i + per]))
    return ops


def rand_breaks(rng, T):
    if T <= 1:
        return []
    k = rng.choice([0, 1, 1, 2, 3, max(1, T // 4)])
    return sorted(rng.sample(range(1, T), min(k, T - 1)))


def edge_site(rng, T, bps):
    """a position, preferably at / next to a break point or at an end"""
    cand = [0, T - 1]
    for b in bps:
        cand += [b, b - 1, b + 1]
    cand = [c for c in cand if 0 <= c < T]
    return rng.choice(cand) if cand and rng.random() < 0.75 else rng.randrange(T)


def posterior_ops(rng, T, bps, objs):
    """posterior accessors in every form: all sites (fresh target vector / named target vector with and
    without append, also a vector filled by another object), single site, per-site likelihoods"""
    ops = []
    for _ in range(rng.randint(1, 4)):
        o = rng.choice(objs)
        u = rng.random()
        if u < 0.45:
            b = rng.choice(["A", "A", "B"])
            ops.append("postb %s %s %d" % (o, b, 1 if rng.random() < 0.65 else 0))
        elif u < 0.6:
            ops.append("post %s" % o)
        elif u < 0.78:
            ops.append("post1 %s %d" % (o, edge_site(rng, T, bps)))
        elif u < 0.92:
            ops.append("sl %s %d" % (o, edge_site(rng, T, bps)))
        else:
            ops.append("sls %s" % o)
    return ops


def generate(seed, tier):
    rng = random.Random(seed)
    thorough = tier == "thorough"
    cases = []
    # ---- enum
    n_enum = 260 if thorough else 60
    for i in range(n_enum):
        n = rng.choice([1, 2, 2, 3, 3, 4, 5])
        maxT = {1: 12, 2: 11, 3: 7, 4: 5, 5: 4}[n]
        T = rng.randint(1, maxT)
        kind = rng.choice(["pos", "sparse", "any", "any"])
        P, F, E = tables(rng, n, T, kind)
        ops = stage(n, P, F, E)
        c = rng.randint(1, T + 1)
        ops += ["build r resc 0", "build l low 0 %d" % c, "build g log 0", "agree r l g"]
        if T <= 5:
            subsets = [list(s) for k in range(T) for s in itertools.combinations(range(1, T), k)]
        else:
            subsets = [rand_breaks(rng, T) for _ in range(6)]
        for b in subsets:
            bs = " ".join(map(str, b))
            ops += ["brk r " + bs, "brk l " + bs, "brk g " + bs, "agree r l g"]
            if rng.random() < 0.5:
                ops += ["post r", "post g"]
            if rng.random() < 0.3:
                ops += posterior_ops(rng, T, b, ["r", "g"])
        cases.append(["case enum%d n=%d T=%d %s" % (i, n, T, kind)] + ops)
    # ---- chunk
    n_chunk = 120 if thorough else 30
    for i in range(n_chunk):
        n = rng.randint(1, 5)
        T = rng.randint(1, 24)
        kind = rng.choice(["pos", "sparse", "any"])
        P, F, E = tables(rng, n, T, kind)
        ops = stage(n, P, F, E)
        b = rand_breaks(rng, T)
        ops += ["build r resc 0", "brk r " + " ".join(map(str, b))]
        for c in range(1, T + 2):
            ops += ["build l low 0 %d" % c, "brk l " + " ".join(map(str, b)), "agree r l"]
        cases.append(["case chunk%d n=%d T=%d %s" % (i, n, T, kind)] + ops)
    # ---- long
    n_long = 60 if thorough else 14
    for i in range(n_long):
        n = rng.randint(1, 5)
        T = rng.choice([65, 100, 257, 500, 1000, 2000] + ([5000] if thorough else [])) if i % 2 else rng.randint(13, 64)
        kind = rng.choice(["pos", "sparse", "any"])
        P, F, E = tables(rng, n, T, kind)
        ops = stage(n, P, F, E)
        c = rng.choice([1, 2, 3, 7, T // 2, T - 1, T, T + 1, rng.randint(1, T + 1)])
        c = max(1, c)
        ops += ["build r resc 0", "build l low 0 %d" % c, "build g log 0", "agree r l g"]
        for _ in range(3):
            bs = " ".join(map(str, rand_breaks(rng, T)))
            ops += ["brk r " + bs, "brk l " + bs, "brk g " + bs, "agree r l g"]
        lastb = [int(x) for x in bs.split()]
        if T <= 300:
            ops += ["post r", "post g", "sls r", "postb g A 1", "postb g A 1"]
        else:
            ops += ["post1 r %d" % edge_site(rng, T, lastb), "post1 g %d" % edge_site(rng, T, lastb), "sl r %d" % edge_site(rng, T, lastb)]
        cases.append(["case long%d n=%d T=%d %s c=%d" % (i, n, T, kind, c)] + ops)
    # ---- hist
    n_hist = 400 if thorough else 90
    for i in range(n_hist):
        n = rng.choice([1, 2, 2, 3, 3, 4, 5])
        T = rng.randint(1, {1: 10, 2: 8, 3: 6, 4: 5, 5: 4}[n] if i % 3 else 14)
        kind = rng.choice(["pos", "sparse", "any", "stat"])
        P, F, E = stationary_tables(rng, n, T) if kind == "stat" else tables(rng, n, T, kind)
        ops = stage(n, P, F, E)
        c = rng.randint(1, T + 1)
        objs = ["r", "l", "g"]
        ops += ["build r resc 1", "build l low 1 %d" % c, "build g log 1"]
        cur_b = []
        made = set()
        pre = ""
        for _ in range(rng.randint(3, 14)):
            u = rng.random()
            if rng.random() < 0.06:
                # setNamespace on the three objects: full parameter names (setParameters, derivative variables) change
                pre = rng.choice(["x.", "hmm_", "a.b.", ""])
                for o in objs:
                    ops.append("ns %s %s" % (o, pre))
                if rng.random() < 0.5:
                    ops.append("names %s" % rng.choice(objs))
            if u < 0.35:
                # one parameter, same update on all objects
                which = rng.random() if kind != "stat" else 0.9
                if which < 0.4:
                    name = "p%d_%d" % (rng.randrange(n), rng.randrange(n))
                    v = rng.choice([0.0, rng.random(), rng.random()])
                elif which < 0.55:
                    name = "f%d" % rng.randrange(n)
                    v = rng.choice([0.0, rng.random(), rng.random()])
                else:
                    name = "e%d_%d" % (rng.randrange(T), rng.randrange(n))
                    v = rand_emission(rng, kind)
                if kind in ("pos", "stat"):
                    v = max(v, 1e-3)
                for o in (objs if rng.random() < 0.8 else [rng.choice(objs)]):
                    ops.append("setp %s %s %s" % (o, name, h(v)))
            elif u < 0.5:
                names = set()
                for _ in range(rng.randint(1, 5)):
                    w = rng.random() if kind != "stat" else 0.9
                    names.add("p%d_%d" % (rng.randrange(n), rng.randrange(n)) if w < 0.4 else
                              "f%d" % rng.randrange(n) if w < 0.5 else "e%d_%d" % (rng.randrange(T), rng.randrange(n)))
                if rng.random() < 0.1:
                    names.add("zz")
                pairs = []
                for nm in sorted(names):
                    v = rand_emission(rng, kind) if nm[0] == "e" else rng.choice([0.0, rng.random()])
                    if kind in ("pos", "stat"):
                        v = max(v, 1e-3)
                    pairs += [(pre if rng.random() < 0.95 else "") + nm, h(v)]
                for o in objs:
                    ops.append("setps %s %s" % (o, " ".join(pairs)))
            elif u < 0.65:
                cur_b = rand_breaks(rng, T)
                bs = " ".join(map(str, cur_b))
                for o in objs:
                    ops.append("brk %s %s" % (o, bs))
            elif u < 0.72:
                ops.append("agree r l g")
            elif u < 0.76:
                ops.append("post %s" % rng.choice(["r", "g", "r", "g", "l"]))
            elif u < 0.89:
                ops += posterior_ops(rng, T, cur_b, ["r", "g", "r", "g", "l"])
            elif u < 0.96:
                var = "e%d_%d" % (rng.randrange(T), rng.randrange(n)) if rng.random() < 0.85 else rng.choice(["p0_0", "f0", "zz"])
                var = (pre if rng.random() < 0.9 else "") + var
                o = rng.choice(["r", "r", "r", "g", "g", "l"])
                dd = rng.choice(["d1", "d1", "d2"])
                ops.append("%s %s %s" % (dd, o, var))
                if rng.random() < 0.5:
                    # same variable again (served from the cache), or the other order
                    ops.append("%s %s %s" % (rng.choice([dd, "d1", "d2"]), o, var))
            elif u < 0.98:
                # deep copy: the copy and the original then evolve independently
                src = rng.choice(["r", "l", "g"])
                dst = src + "2"
                if dst in made and rng.random() < 0.6:
                    # operator= onto an existing object of the same class (which has its own tables, break
                    # points and caches), in either direction
                    if rng.random() < 0.3:
                        src, dst = dst, src
                    ops.append("assign %s %s" % (src, dst))
                else:
                    ops.append("clone %s %s" % (src, dst))
                    made.add(dst)
                nm = "e%d_%d" % (rng.randrange(T), rng.randrange(n))
                v = max(rand_emission(rng, kind), 1e-3) if kind in ("pos", "stat") else rand_emission(rng, kind)
                ops += ["setp %s %s %s" % (dst, nm, h(v)), "brk %s %s" % (src, " ".join(map(str, rand_breaks(rng, T)))),
                        "ll %s" % src, "ll %s" % dst]
                if src != "l":
                    ops += ["post %s" % dst, "post %s" % src]
            else:
                ops.append("%s %s" % (rng.choice(["ll", "val"]), rng.choice(objs)))
        ops.append("agree r l g")
        cases.append(["case hist%d n=%d T=%d %s" % (i, n, T, kind)] + ops)
    # ---- copy: copy constructor (clone) and operator= between objects of different sizes, with filled caches
    n_copy = 120 if thorough else 30
    for i in range(n_copy):
        ops = []
        dims = []
        for tag in ("1", "2"):
            n = rng.choice([1, 2, 2, 3, 4])
            T = rng.randint(1, {1: 8, 2: 7, 3: 5, 4: 4}[n])
            kind = rng.choice(["pos", "stat", "any"])
            P, F, E = stationary_tables(rng, n, T) if kind == "stat" else tables(rng, n, T, kind)
            dims.append((n, T, kind))
            ops += stage(n, P, F, E)
            ops += ["build r%s resc 1" % tag, "build g%s log 1" % tag, "build l%s low 1 %d" % (tag, rng.randint(1, T + 1))]
            for o in ("r", "g", "l"):
                ops.append("brk %s%s %s" % (o, tag, " ".join(map(str, rand_breaks(rng, T)))))
            # fill some caches: backward arrays, derivative arrays
            for _ in range(rng.randint(0, 3)):
                o = rng.choice(["r", "g"]) + tag
                ops.append(rng.choice(["post %s" % o, "d1 %s e%d_%d" % (o, rng.randrange(T), rng.randrange(n)),
                                       "d2 %s e%d_%d" % (o, rng.randrange(T), rng.randrange(n)), "postb %s A 1" % o]))
        for _ in range(rng.randint(2, 6)):
            cls = rng.choice(["r", "g", "l", "r", "g"])
            a, b = rng.choice([("1", "2"), ("2", "1"), ("1", "3"), ("2", "3"), ("3", "1")])
            src, dst = cls + a, cls + b
            if cls != "l" and b != "3":
                # the two objects differ in what is cached: backward arrays / derivative arrays computed or not,
                # up to date or not, when the assignment copies some of them
                if rng.random() < 0.6:
                    ops.append(rng.choice(["post %s", "post1 %s 0", "d1 %s e0_0", "d2 %s e0_0"]) % dst)
                if rng.random() < 0.5:
                    n_, T_, k_ = dims[0] if a == "1" else dims[1] if a == "2" else dims[0]
                    v = max(rand_emission(rng, k_), 1e-3)
                    ops.append("setp %s e%d_%d %s" % (src, rng.randrange(T_), rng.randrange(n_), h(v)))
                elif rng.random() < 0.5:
                    ops.append(rng.choice(["post %s", "d1 %s e0_0"]) % src)
            elif cls != "l" and rng.random() < 0.7:
                # the source of a copy has derivative arrays of some order for some variable
                ops.append(rng.choice(["d1 %s e0_0", "d2 %s e0_0", "d1 %s e0_0", "post %s"]) % src)
            if b == "3":
                ops.append("clone %s %s" % (src, dst))
            elif rng.random() < 0.1:
                ops.append("assign %s %s" % (src, rng.choice(["r", "g", "l"]) + b))      # possibly another class
            else:
                ops.append("assign %s %s" % (src, dst))
            if cls != "l" and rng.random() < 0.7:
                # queried at once: what the copy answers from the copied caches
                ops.append(rng.choice(["post %s", "postb %s A 1", "post1 %s 0", "sl %s 0", "sls %s", "d1 %s e0_0", "d2 %s e0_0",
                                       "d2 %s e0_0", "dsite %s 0", "d2site %s 0"]) % dst)
            # both evolve independently afterwards
            for o in (dst, src):
                tag = o[1]
                for _ in range(rng.randint(1, 3)):
                    n, T, kind = dims[0] if tag == "1" else dims[1] if tag == "2" else dims[0]
                    u = rng.random()
                    # (names of another object's size are harmless: unknown parameters / sites are refused alike)
                    if u < 0.3:
                        v = max(rand_emission(rng, kind), 1e-3) if kind in ("pos", "stat") else rand_emission(rng, kind)
                        ops.append("setp %s e%d_%d %s" % (o, rng.randrange(T), rng.randrange(n), h(v)))
                    elif u < 0.45:
                        ops.append("brk %s %s" % (o, " ".join(map(str, rand_breaks(rng, T)))))
                    elif u < 0.6:
                        ops.append("ll %s" % o)
                    elif u < 0.8 and cls != "l":
                        ops += posterior_ops(rng, T, [], [o])
                    elif cls != "l":
                        var = "e%d_%d" % (rng.randrange(T), rng.randrange(n))
                        ops.append("%s %s %s" % (rng.choice(["d1", "d2"]), o, var))
                    else:
                        ops.append("val %s" % o)
        cases.append(["case copy%d" % i] + ops)
    # ---- xtr: the double-range regimes inside the quantifier (emissions spanning 1e-200..1, zero transition entries):
    # identity / triangular / sparse matrices with alternating extreme emissions (a state nobody feeds underflows in
    # the rescaled classes), dense tables with tiny scale factors (derivatives divide by their squares / cubes),
    # zero transition / equilibrium entries (log-sum derivatives), derivatives with respect to transition parameters
    n_xtr = 60 if thorough else 16
    for i in range(n_xtr):
        n = rng.choice([2, 2, 3])
        T = rng.randint(3, 8)
        shape = rng.choice(["ident", "tri", "dense", "zeropi"])
        if shape == "ident":
            P = [1.0 if a == b else 0.0 for a in range(n) for b in range(n)]
            F = [1.0 / n] * n
        elif shape == "tri":
            P = []
            for a in range(n):
                r = [0.0 if b < a else 1.0 for b in range(n)]
                sm = sum(r); P += [x / sm for x in r]
            F = [1.0 / n] * n
        elif shape == "zeropi":
            P = []
            for a in range(n):
                r = [0.0 if b < a else 1.0 for b in range(n)]
                sm = sum(r); P += [x / sm for x in r]
            F = [0.0] * (n - 1) + [1.0]
        else:
            P = []
            for a in range(n):
                r = [rng.random() + 0.05 for _ in range(n)]
                sm = sum(r); P += [x / sm for x in r]
            F = [1.0 / n] * n
        E = []
        tiny = 10.0 ** (-rng.uniform(150, 200))
        if shape == "dense":
            for t in range(T):
                mag = tiny if rng.random() < 0.4 else 1.0
                E += [mag * (0.2 + rng.random()) for _ in range(n)]
        else:
            cut = rng.randint(1, T - 1)
            for t in range(T):
                fav = 0 if t >= cut else n - 1          # the favoured state changes once
                E += [1.0 if j == fav else tiny for j in range(n)] if rng.random() < 0.85 else [0.5] * n
        ops = stage(n, P, F, E)
        ops += ["build r resc 1", "build l low 1 %d" % rng.randint(1, T + 1), "build g log 1", "ll r", "ll l", "ll g", "agree r l g"]
        for _ in range(rng.randint(2, 6)):
            u = rng.random()
            var = "e%d_%d" % (rng.randrange(T), rng.randrange(n))
            if u < 0.3:
                ops += [rng.choice(["post r", "post g", "sls r", "sls g", "post1 r %d" % rng.randrange(T), "sl g %d" % rng.randrange(T)])]
            elif u < 0.6:
                dd = rng.choice(["d1", "d2"])
                ops += ["%s r %s" % (dd, var), "%s g %s" % (dd, var)]
            elif u < 0.75:
                ops += ["d1 %s %s" % (rng.choice(["r", "g"]), rng.choice(["p0_0", "p0_%d" % (n - 1), "f0", "f%d" % (n - 1)]))]
            elif u < 0.88:
                bs = " ".join(map(str, rand_breaks(rng, T)))
                ops += ["brk r " + bs, "brk l " + bs, "brk g " + bs, "agree r l g"]
            else:
                ops += ["dsite r %d" % rng.randrange(T), "dsite g %d" % rng.randrange(T)]
        cases.append(["case xtr%d %s n=%d T=%d" % (i, shape, n, T)] + ops)
    # ---- bad
    n_bad = 80 if thorough else 20
    for i in range(n_bad):
        n = rng.randint(1, 4)
        T = rng.randint(1, 8)
        P, F, E = tables(rng, n, T, "any")
        w = rng.random()
        if w < 0.3:
            P[rng.randrange(len(P))] = -rng.random()
        elif w < 0.4:
            E[rng.randrange(len(E))] = -rng.random()
        elif w < 0.5:
            F[rng.randrange(len(F))] = -rng.random()
        ops = stage(n, P, F, E)
        ops += ["build r resc 1", "build l low 1 %d" % rng.randint(0, 3), "build g log 1", "ll r", "ll l", "ll g"]
        for _ in range(rng.randint(1, 6)):
            u = rng.random()
            o = rng.choice(["r", "l", "g"])
            if u < 0.3:
                ops.append("setp %s %s %s" % (o, rng.choice(["q1", "p9_9", "e99_0", "f7", "p0_0", "e0_0"]), h(rng.choice([-0.5, 0.5, float("inf"), 0.0]))))
            elif u < 0.6:
                bs = [rng.randint(0, T + 2) for _ in range(rng.randint(1, 4))]
                ops.append("brk %s %s" % (o, " ".join(map(str, bs))))
            elif u < 0.8:
                ops.append("setp %s p%d_%d %s" % (o, rng.randrange(n), rng.randrange(n), h(rng.choice([-0.25, 0.25]))))
            elif u < 0.9:
                ops.append("post r")
            else:
                ops.append("ll %s" % o)
        cases.append(["case bad%d n=%d T=%d" % (i, n, T)] + ops)
    # ---- deriv: first/second derivatives against the exact derivative (stationary positive tables)
    n_der = 150 if thorough else 30
    for i in range(n_der):
        n = rng.randint(1, 4)
        T = rng.randint(1, 12)
        P, F, E = stationary_tables(rng, n, T)
        ops = stage(n, P, F, E) + ["build r resc 1", "build g log 1"]
        last = None     # (order, variable) of the last derivative asked: asked again right after an update
        cur_b = []
        for _ in range(rng.randint(4, 12)):
            u = rng.random()
            var = "e%d_%d" % (rng.randrange(T), rng.randrange(n))
            if u < 0.5:
                dd = rng.choice(["d1", "d2"])
                ops += ["%s r %s" % (dd, var), "%s g %s" % (dd, var)]
                last = (dd, var)
                if rng.random() < 0.5:
                    # per-site terms of the derivative just asked (the accessors have no variable argument)
                    acc = "dsite" if dd == "d1" or rng.random() < 0.3 else "d2site"
                    for _k in range(rng.randint(1, 3)):
                        ops.append("%s r %d" % (acc, edge_site(rng, T, cur_b)))
                        ops.append("%s g %d" % (acc, edge_site(rng, T, cur_b)))
            elif u < 0.62:
                o = rng.choice(["r", "g"])
                ops += ["d2 %s %s" % (o, var), "d1 %s %s" % (o, var)]
                last = ("d1", var)
            else:
                if u < 0.82:
                    v = h(10.0 ** (-rng.uniform(0, 3)))
                    ops += ["setp r %s %s" % (var, v), "setp g %s %s" % (var, v)]
                else:
                    cur_b = rand_breaks(rng, T)
                    bs = " ".join(map(str, cur_b))
                    ops += ["brk r " + bs, "brk g " + bs]
                if last and rng.random() < 0.8:
                    ops += ["%s r %s" % last, "%s g %s" % last]
        cases.append(["case deriv%d n=%d T=%d stat" % (i, n, T)] + ops)
    # ---- ltm: likelihood objects whose transition matrix is a built-in model (derivatives read getPij(), the forward
    # recursion Pij(i,j) and getEquilibriumFrequencies()); updates of the model's parameters through the likelihood
    n_ltm = 160 if thorough else 40
    for i in range(n_ltm):
        kind = "auto" if i % 2 == 0 else "full"
        n = rng.choice([1, 2, 2, 3, 3, 4])
        T = rng.randint(1, {1: 8, 2: 7, 3: 5, 4: 4}[n])
        ops = ["tm a %s %d" % (kind, n)]

        def tm_update():
            if kind == "auto":
                w = rng.random()
                v = rng.choice([0.0, 1.0, -0.1, 0.95]) if w < 0.08 else rng.uniform(0.05, 0.95)
                return "lambda%d" % rng.randint(1, n) if rng.random() < 0.95 else "lambda%d" % (n + 1), v
            w = rng.random()
            v = rng.choice([0.0, 1.0, 0.5]) if w < 0.08 else rng.uniform(0.1, 0.9)
            return ("%d.theta%d" % (rng.randint(1, n), rng.randint(1, max(1, n - 1))) if rng.random() < 0.95 else "%d.theta1" % (n + 1)), v

        for _ in range(rng.randint(0, 2)):
            nm, v = tm_update()
            ops.append("tmset a %s %s" % (nm, h(v)))
        if rng.random() < 0.5:
            ops.append(rng.choice(["tmpij a", "tmeq a", "tmall a pe"]))       # the copy is taken with filled caches
        E = [10.0 ** (-rng.uniform(0, 3)) for _ in range(n * T)]
        ops += ["states %d" % n, "emis " + " ".join(h(x) for x in E)]
        c = rng.randint(1, T + 1)
        ops += ["buildtm r resc 1 a", "buildtm g log 1 a", "buildtm l low 1 a %d" % c, "agree r l g"]
        objs = ["r", "g", "l"]
        pre = ""
        cur_b = []
        for _ in range(rng.randint(3, 12)):
            u = rng.random()
            if u < 0.3:
                nm, v = tm_update()
                for o in objs:
                    ops.append("setp %s %s %s" % (o, nm, h(v)))
            elif u < 0.4:
                nm = "e%d_%d" % (rng.randrange(T), rng.randrange(n))
                v = 10.0 ** (-rng.uniform(0, 3))
                for o in objs:
                    ops.append("setp %s %s %s" % (o, nm, h(v)))
            elif u < 0.62:
                var = pre + "e%d_%d" % (rng.randrange(T), rng.randrange(n))
                dd = rng.choice(["d1", "d2"])
                ops += ["%s r %s" % (dd, var), "%s g %s" % (dd, var)]
                if rng.random() < 0.3:
                    ops.append("%s %s %d" % ("dsite" if dd == "d1" else "d2site", rng.choice(["r", "g"]), edge_site(rng, T, cur_b)))
            elif u < 0.7:
                cur_b = rand_breaks(rng, T)
                for o in objs:
                    ops.append("brk %s %s" % (o, " ".join(map(str, cur_b))))
            elif u < 0.8:
                ops += posterior_ops(rng, T, cur_b, ["r", "g"])
            elif u < 0.86:
                ops.append("agree r l g")
            elif u < 0.91:
                pre = rng.choice(["x.", "m_", ""])
                for o in objs:
                    ops.append("ns %s %s" % (o, pre))
                ops.append("names %s" % rng.choice(objs))
            elif u < 0.96:
                # the objects hold copies: the original model moves on alone
                nm, v = tm_update()
                ops += ["tmset a %s %s" % (nm, h(v)), "ll r", "tmall a ep"]
            else:
                src = rng.choice(["r", "g"])
                ops += ["clone %s %s2" % (src, src)]
                nm, v = tm_update()
                ops += ["setp %s2 %s %s" % (src, nm, h(v)), "ll %s" % src, "ll %s2" % src, "d1 %s2 %se0_0" % (src, pre)]
        ops.append("agree r l g")
        cases.append(["case ltm%d %s n=%d T=%d" % (i, kind, n, T)] + ops)
    # ---- tm: the built-in transition models; every query (getPij, Pij, getEquilibriumFrequencies, all three at
    # once in both orders) interleaved with updates that move one / several / the last / no parameter, clones and
    # assignments
    n_tm = 240 if thorough else 60
    for i in range(n_tm):
        kind = "auto" if i % 2 == 0 else "full"
        n = rng.choice([1, 2, 2, 3, 3, 4, 5])
        ops = ["tm a %s %d" % (kind, n), "tm c %s %d" % (kind, rng.randint(1, 4))]

        def query(o):
            u = rng.random()
            if u < 0.3:
                return "tmpij %s" % o
            if u < 0.5:
                return "tmeq %s" % o
            if u < 0.85:
                return "tmall %s %s" % (o, rng.choice(["pe", "ep"]))
            return "tmPij %s %d %d" % (o, rng.randrange(n), rng.randrange(n))

        def update(o):
            if kind == "auto":
                w = rng.random()
                v = rng.choice([0.0, 1.0, 1.5, -0.1, 0.95]) if w < 0.12 else rng.uniform(0.01, 0.99) if w < 0.9 else 1 - 10.0 ** (-rng.uniform(3, 12))
                name = "lambda%d" % rng.randint(1, n) if rng.random() < 0.93 else rng.choice(["lambda0", "lambda%d" % (n + 1), "mu1"])
                return "tmset %s %s %s" % (o, name, h(v))
            if rng.random() < 0.5:
                P = []
                slow = rng.random() < 0.35      # a slowly mixing chain: nearly the identity / nearly reducible
                for _r in range(n):
                    r = [rng.random() + 0.05 for _ in range(n)]
                    if slow:
                        eps = 10.0 ** (-rng.uniform(2, 7))
                        r = [eps * (0.5 + rng.random()) for _ in range(n)]
                        r[_r if rng.random() < 0.8 else rng.randrange(n)] = 1.0
                    if rng.random() < 0.05:
                        r[rng.randrange(n)] = 0.0          # a zero entry: theta = 0 or 1 is refused by the constraint
                    sm = (sum(r) or 1.0) * (1.0 if rng.random() < 0.95 else 1.01)   # not summing to one: refused
                    P += [x / sm for x in r]
                return "tmsetP %s %s" % (o, " ".join(h(x) for x in P))
            w = rng.random()
            v = rng.choice([0.0, 1.0, 1.5, -0.1, 0.5]) if w < 0.1 else rng.uniform(0.05, 0.95)
            if w > 0.8:
                v = rng.choice([1 - 10.0 ** (-rng.uniform(2, 6)), 10.0 ** (-rng.uniform(2, 6))])
            name = "%d.theta%d" % (rng.randint(1, n), rng.randint(1, max(1, n - 1))) if rng.random() < 0.93 else rng.choice(["1.theta%d" % n, "%d.theta1" % (n + 1), "theta1"])
            return "tmset %s %s %s" % (o, name, h(v))

        for _ in range(rng.randint(3, 14)):
            u = rng.random()
            if u < 0.35:
                ops.append(update("a"))
                if rng.random() < 0.5:
                    ops.append(query("a"))
            elif u < 0.8:
                ops.append(query("a"))
            elif u < 0.9:
                ops += ["tmclone a b", query("b"), update("a"), query("b"), query("a")]
            else:
                # operator= onto an object of another size with its own caches, then both move on
                ops += [query("c"), "tmassign a c", query("c"), update("c"), query("c"), query("a")]
        ops += ["tmpij a", "tmeq a"] if rng.random() < 0.5 else ["tmeq a", "tmpij a"]
        cases.append(["case tm%d %s n=%d" % (i, kind, n)] + ops)
    return cases


def coverage_extra(cases, answers):
    fam, lens, states, zero_ll, nan_ll, brk_sizes = {}, {}, {}, 0, 0, {}
    for c, a in zip(cases, answers):
        tag = c[0].split()
        f = "".join(ch for ch in tag[1] if not ch.isdigit()) if len(tag) > 1 else "?"
        fam[f] = fam.get(f, 0) + 1
        for w in tag[2:]:
            if w.startswith("T="):
                T = int(w[2:]); b = "1-4" if T <= 4 else "5-12" if T <= 12 else "13-64" if T <= 64 else "65-2000"
                lens[b] = lens.get(b, 0) + 1
            if w.startswith("n="):
                states[w[2:]] = states.get(w[2:], 0) + 1
        ops = [l for l in c if l.strip() and not l.startswith(("case", "#", "="))]
        for l, r in zip(ops, a or []):
            if l.startswith("brk"):
                k = str(min(len(l.split()) - 2, 4)); brk_sizes[k] = brk_sizes.get(k, 0) + 1
            for w in r.split():
                if w == "fff0000000000000":
                    zero_ll += 1
                elif w == "nan":
                    nan_ll += 1
    return {"case_families": fam, "length_histogram": lens, "states_histogram": states,
            "break_point_count_histogram(4=4+)": brk_sizes, "answers_minus_infinity": zero_ll, "answers_nan": nan_ll}
