"""Script generator for C18 (random draws).

Every case starts with `seed <s>` (RandomTools::setSeed); seeds are the run seed and 15 derived
ones.  Deterministic ops carry their inputs; the implementation's answer carries the recorded
primitive draws, from which the Lean model recomputes the answer.  `ks`/`chi2*`/`repro` are the
statistical exploration (answers judged by the driver against fixed tail bounds)."""
import random, struct, itertools, math, re


def hx(x):
    return "%016x" % struct.unpack(">Q", struct.pack(">d", float(x)))[0]


def unhx(s):
    return struct.unpack(">d", struct.pack(">Q", int(s, 16)))[0]


def seeds_of(seed):
    return [seed] + [(seed * 1000003 + 7919 * j + 12345) % (2 ** 31) for j in range(1, 16)]


GRID = [0.1, 0.5, 1.0, 2.0, 5.0, 20.0]
# the routines `repro1` knows (harness/C18.cpp: reproCall)
REPRO_ROUTINES = ["giveRandomNumberBetweenZeroAndEntry", "giveIntRandomNumberBetweenZeroAndEntry", "flipCoin", "randGaussian", "randGamma1",
                  "randGamma2", "randBeta", "randExponential", "pickOne", "pickOneConst", "pickOneW", "pickOneWConst", "getSample",
                  "getSampleRepl", "getSampleW", "getSampleWRepl", "pickFromCumSum", "randMultinomial", "rcont2", "ContingencyTableTest",
                  "discreteRand", "Gamma::randC", "Gaussian::randC", "Exponential::randC", "TruncExponential::randC", "Beta::randC",
                  "Uniform::randC", "hmmSample"]
STAT_OPS = ("ks", "chi2", "chi2d", "chi2rc", "chi2rc3")


def weights(rng, n, allow_all_zero=False):
    if allow_all_zero and n > 0 and rng.random() < 0.5:
        return [0.0] * n          # 0/0: every comparison is false, the code falls back to the last element
    style = rng.random()
    if style < 0.3:
        w = [float(rng.randint(0, 4)) for _ in range(n)]
    elif style < 0.6:
        w = [rng.choice([0.0, rng.random(), rng.random() * 10]) for _ in range(n)]
    else:
        w = [rng.random() for _ in range(n)]
    if not allow_all_zero and sum(w) == 0:
        w[rng.randrange(n)] = 1.0
    return w


def values(rng, n):
    # duplicates on purpose in a third of the cases
    if rng.random() < 0.35:
        return [rng.randint(0, 3) for _ in range(n)]
    v = list(range(10, 10 + n))
    rng.shuffle(v)
    return v


def pick_k(rng, n):
    r = rng.random()
    if r < 0.6:
        return rng.randint(0, n)
    if r < 0.8:
        return n
    return rng.randint(0, 14)


def margins(rng, maxtot):
    nr, nc = rng.randint(2, 5), rng.randint(2, 5)
    tot = rng.randint(0, maxtot)
    def split(t, k):
        if rng.random() < 0.3:   # uneven, with zeros
            cuts = sorted(rng.randint(0, t) for _ in range(k - 1))
        else:
            cuts = sorted(rng.randint(0, t) for _ in range(k - 1))
            if rng.random() < 0.5:
                base = t // k
                out = [base] * k
                out[0] += t - base * k
                rng.shuffle(out)
                return out
        pts = [0] + cuts + [t]
        return [pts[i + 1] - pts[i] for i in range(k)]
    return split(tot, nr), split(tot, nc)


def compositions(total, k):
    if k == 1:
        yield (total,)
        return
    for x in range(total + 1):
        for rest in compositions(total - x, k - 1):
            yield (x,) + rest


def det_ops(rng):
    """one deterministic-tie operation (mostly valid, structured)"""
    r = rng.random()
    n = rng.randint(0, 12) if rng.random() < 0.9 else 0
    if r < 0.10:
        return "pick1 %d %s" % (rng.randint(0, 1), " ".join(map(str, values(rng, n))))
    if r < 0.16:
        return "pick1c %s" % " ".join(map(str, values(rng, n)))
    if r < 0.28:
        w = weights(rng, n, allow_all_zero=rng.random() < 0.1) if n else []
        return "pickw %d %s ; %s" % (rng.randint(0, 1), " ".join(map(str, values(rng, n))), " ".join(map(hx, w)))
    if r < 0.34:
        w = weights(rng, n, allow_all_zero=rng.random() < 0.1) if n else []
        return "pickwc %s ; %s" % (" ".join(map(str, values(rng, n))), " ".join(map(hx, w)))
    if r < 0.50:
        k = pick_k(rng, n)
        return "sample %d %d %s" % (rng.randint(0, 1), k, " ".join(map(str, values(rng, n))))
    if r < 0.64:
        k = pick_k(rng, n)
        w = weights(rng, n, allow_all_zero=rng.random() < 0.1) if n else []
        return "samplew %d %d %s ; %s" % (rng.randint(0, 1), k, " ".join(map(str, values(rng, n))), " ".join(map(hx, w)))
    if r < 0.72:
        if n == 0:
            return "cumsum"
        if rng.random() < 0.05:
            return "cumsum %s" % " ".join([hx(0.0)] * n)      # all-zero cumulative vector: only the last index is left
        w = weights(rng, n)
        c, s = [], 0.0
        for x in w:
            s += x
            c.append(s)
        if rng.random() < 0.8:
            c = [x / s for x in c]
            c[-1] = 1.0
        return "cumsum %s" % " ".join(map(hx, c))
    if r < 0.80:
        n = max(n, 1)
        # incl. all-zero probabilities (no positive sum: a non-empty request must be refused) and, rarely, none at all
        if rng.random() < 0.03:
            return "multinom %d" % rng.randint(0, 3)
        return "multinom %d %s" % (rng.randint(0, 14), " ".join(map(hx, weights(rng, n, allow_all_zero=rng.random() < 0.15))))
    if r < 0.86:
        n = max(n, 1)
        parts = [0] + sorted(rng.randint(0, 64) for _ in range(n - 1)) + [64]
        pr = [(parts[i + 1] - parts[i]) / 64.0 for i in range(n)]
        vals = sorted(rng.sample(range(-20, 40), n))
        return "drand %s ; %s" % (" ".join(map(hx, vals)), " ".join(map(hx, pr)))
    if r < 0.89:
        k = rng.randint(1, 5)
        rowsm = []
        for _ in range(k):
            parts = [0] + sorted(rng.randint(0, 32) for _ in range(k - 1)) + [32]
            rowsm += [(parts[i + 1] - parts[i]) / 32.0 for i in range(k)]
        if k > 1 and rng.random() < 0.7:     # strictly positive rows (the simplex coding needs them) most of the time
            rowsm = []
            for _ in range(k):
                raw = [rng.randint(1, 8) for _ in range(k)]
                t = float(sum(raw))
                rowsm += [x / t for x in raw]
        return "hmm %d %d ; %s" % (k, rng.randint(0, 10), " ".join(map(hx, rowsm)))
    if r < 0.95:
        rows, cols = margins(rng, rng.choice([6, 30, 200]))
        if rng.random() < 0.05:
            rows[0] += 1          # totals differ: must be refused
        return "rcont2 %s ; %s" % (" ".join(map(str, rows)), " ".join(map(str, cols)))
    nr, nc = rng.randint(2, 5), rng.randint(2, 5)
    cells = [rng.randint(0, 15) if rng.random() < 0.9 else 0 for _ in range(nr * nc)]
    return "ctest %d %d %d %s" % (rng.choice([0, 1, 5, 40]), nr, nc, " ".join(map(str, cells)))


def stat_cases(rng, seeds, tier):
    cases = []
    big = tier == "thorough"
    n_ks = 50000 if big else 4000
    n_chi = 400000 if big else 20000
    grid = GRID if big else [0.1, 1.0, 5.0, 20.0]
    fams = []
    for a in grid:
        fams.append(("unif", [a]))
        fams.append(("expo", [a]))
        fams.append(("gamma1", [a]))
        fams.append(("dExpo", [a]))
        fams.append(("dTExpo", [a, rng.choice([0.5, 3.0, 10.0])]))      # lambda, truncation point
    pair_grid = list(itertools.product(grid, grid)) if big else [(0.1, 5.0), (0.5, 0.5), (1.0, 20.0), (2.0, 0.1), (5.0, 2.0), (20.0, 1.0)]
    for a, b in pair_grid:
        fams.append(("gauss", [rng.choice([-3.0, 0.0, 7.5]), b]))       # mean, variance
        fams.append(("gamma2", [a, b]))
        # Beta(a, b) with b < 0.27 has more than 1e-4 of its mass within one ulp of 1 (for a = 1 and
        # b = 0.1: 2.7%), where doubles cannot resolve the cdf (and qBeta caps its result): the harness
        # compares the beta samples with the cdf conditionally on x < 1 - 1e-9 (see `ks` in harness/C18.cpp)
        fams.append(("beta", [a, b]))
        fams.append(("dGamma", [a, b]))
        # offset + Gamma(alpha, beta): with alpha = 0.1 several per cent of the mass lie within one ulp of the
        # offset (x + offset rounds to the offset: an atom that doubles cannot avoid), so alpha >= 0.5 here
        fams.append(("dGammaOff", [max(a, 0.5), b, rng.choice([-2.0, 0.5, 3.0])]))   # alpha, beta, offset
        fams.append(("dGauss", [rng.choice([-3.0, 0.0, 7.5]), b]))      # mu, sigma
        fams.append(("dBeta", [a, b]))
    # the corner of the beta law (mass piling up at 1) at every seed
    for a, b in ([] if big else [(20.0, 0.1), (0.1, 0.1), (1.0, 0.1)]):
        fams.append(("beta", [a, b]))
        fams.append(("dBeta", [a, b]))
    # restricted distributions: randC against the own cdf conditioned on the restricted domain
    fams += [("rGamma", [2.0, 1.0, 0.5, 3.0]), ("rGamma", [0.5, 2.0, 0.1, 1.0]), ("rExpo", [2.0, 0.2, 1.5]), ("rGauss", [1.0, 2.0, 0.0, 2.5]),
             ("rGauss", [0.0, 1.0, -0.5, 4.0]), ("rBeta", [2.0, 3.0, 0.2, 0.7]), ("rUnif", [-1.0, 3.0, 0.0, 2.0])]
    for lo, hi in [(0.0, 1.0), (-3.0, 2.0), (2.0, 2.5)] + ([(0.1, 20.0), (-20.0, -0.1)] if big else []):
        fams.append(("dUnif", [lo, hi]))
    for i, (fam, ps) in enumerate(fams):
        s = seeds[i % len(seeds)]
        cases.append(["case ks-%s-%d" % (fam, i), "seed %d" % s, "ks %s %d %s" % (fam, n_ks, " ".join(map(hx, ps)))])
    kinds = ["pickwc", "pickw", "pick1c", "cumsum", "multinom", "samplew", "samplewfull", "samplewr", "samplewe", "shuffle", "drand"]
    wsets = [[1.0], [1.0, 3.0], [1.0, 0.0, 3.0], [0.0, 2.0, 2.0, 0.0, 4.0], [0.05, 0.9, 0.05], [float(i + 1) for i in range(12)]]
    wsets += [weights(rng, rng.randint(2, 12)) for _ in range(6 if big else 2)]
    i = 0
    for j, pr in enumerate([0.5, 0.3, 0.01, 0.999, 0.0, 1.0]):
        cases.append(["case chi2-coin-%d" % j, "seed %d" % seeds[j % len(seeds)], "chi2 coin %d %s %s" % (n_chi, hx(pr), hx(1.0 - pr))])
    for j, k in enumerate([1, 2, 7, 12]):
        cases.append(["case chi2-uint-%d" % j, "seed %d" % seeds[(j + 5) % len(seeds)], "chi2 uint %d %s" % (n_chi, " ".join([hx(1.0)] * k))])
    for kind in kinds:
        for w in wsets:
            s = seeds[i % len(seeds)]; i += 1
            cases.append(["case chi2-%s-%d" % (kind, i), "seed %d" % s, "chi2 %s %d %s" % (kind, n_chi, " ".join(map(hx, w)))])
    for kind in ["pairs", "pairsw"]:
        for w in [[1.0, 3.0], [1.0, 0.0, 3.0], [2.0, 1.0, 1.0, 4.0]]:
            s = seeds[i % len(seeds)]; i += 1
            cases.append(["case chi2-%s-%d" % (kind, i), "seed %d" % s, "chi2 %s %d %s" % (kind, n_chi, " ".join(map(hx, w)))])
    for fam, ps in [("dGamma", [0.5, 2.0]), ("dGamma", [5.0, 1.0]), ("dGauss", [1.0, 2.0]), ("dExpo", [3.0]), ("dBeta", [2.0, 3.0])]:
        for ncat in ([2, 4, 7] if big else [4]):
            s = seeds[i % len(seeds)]; i += 1
            cases.append(["case chi2d-%s-%d" % (fam, i), "seed %d" % s, "chi2d %s %d %d %s" % (fam, n_chi, ncat, " ".join(map(hx, ps)))])
    for mat in [[0.9, 0.1, 0.2, 0.8], [0.5, 0.25, 0.25, 0.1, 0.8, 0.1, 0.3, 0.3, 0.4], [0.25, 0.75, 0.75, 0.25]]:
        n = int(round(math.sqrt(len(mat))))
        s = seeds[i % len(seeds)]; i += 1
        cases.append(["case chi2d-hmm-%d" % i, "seed %d" % s, "chi2d hmm %d %d %s" % (n_chi // 4, n, " ".join(map(hx, mat)))])
    for (r0, r1, c0) in [(5, 1, 3), (3, 3, 3), (10, 7, 6), (1, 1, 1), (20, 30, 25), (2, 9, 4)] + ([(50, 50, 50), (7, 3, 9)] if big else []):
        s = seeds[i % len(seeds)]; i += 1
        cases.append(["case chi2rc-%d" % i, "seed %d" % s, "chi2rc %d %d %d %d %d" % (n_chi // 4, r0, r1, c0, r0 + r1 - c0)])
    for (sh, a0, a1, b0, b1, b2) in [("r", 4, 5, 3, 3, 3), ("c", 4, 5, 3, 3, 3), ("r", 6, 2, 1, 4, 3), ("c", 3, 9, 5, 2, 5)] + ([("r", 10, 12, 8, 7, 7), ("c", 2, 2, 1, 1, 2)] if big else []):
        s = seeds[i % len(seeds)]; i += 1
        cases.append(["case chi2rc3-%d" % i, "seed %d" % s, "chi2rc3 %d %s %d %d %d %d %d" % (n_chi // 4, sh, a0, a1, b0, b1, b2)])
    for s in seeds:
        cases.append(["case repro-%d" % s, "repro %d" % s])
    # every modelled routine on its own: same seed, different histories before it (even and odd numbers of
    # earlier calls: a cached second value of a pair-producing sampler shows after an odd number)
    for j, r in enumerate(REPRO_ROUTINES):
        ops = ["repro1 %s %d %d %d" % (r, seeds[(j + q) % len(seeds)], a, b) for q, (a, b) in enumerate([(0, 1), (1, 2), (2, 5), (0, 4)])]
        cases.append(["case repro1-%s" % r] + ops)
    return cases


def generate(seed, tier):
    rng = random.Random(seed)
    seeds = seeds_of(seed)
    cases = []
    # 1. rcont2 over all margin vectors with small totals (zeros included), every shape up to 5 rows/columns
    if tier == "thorough":
        shapes = {(2, 2): 9, (2, 3): 8, (3, 2): 8, (3, 3): 8, (2, 4): 6, (4, 2): 6, (3, 4): 5, (4, 3): 5, (4, 4): 4, (2, 5): 5, (5, 2): 5, (5, 5): 2, (3, 5): 3, (5, 3): 3}
    else:
        shapes = {(2, 2): 5, (2, 3): 4, (3, 2): 4, (3, 3): 4, (2, 4): 3, (4, 2): 3, (4, 4): 2, (2, 5): 2, (5, 2): 2}
    k = 0
    for (nr, nc), maxtot in shapes.items():
        for tot in range(0, maxtot + 1):
            ops = []
            for rows in compositions(tot, nr):
                for cols in compositions(tot, nc):
                    ops.append("rcont2 %s ; %s" % (" ".join(map(str, rows)), " ".join(map(str, cols))))
            for j in range(0, len(ops), 200):
                cases.append(["case rc-ex-%dx%d-%d-%d" % (nr, nc, tot, j), "seed %d" % seeds[k % 16]] + ops[j:j + 200])
                k += 1
    # 2. the known witnesses of the repaired defects, under every seed
    for s in seeds:
        cases.append(["case rc-w-%d" % s, "seed %d" % s] + ["rcont2 5 1 ; 3 3"] * 20 + ["rcont2 9 2 1 ; 4 4 4"] * 10)
    # 3. random deterministic-tie scripts
    nrand = 100000 if tier == "thorough" else 4000
    for i in range(nrand):
        L = rng.randint(4, 14)
        cases.append(["case det-%d" % i, "seed %d" % seeds[i % 16]] + [det_ops(rng) for _ in range(L)])
    # 4. malformed / boundary stream
    bad = ["pick1 0", "pick1 1", "pick1c", "pickw 0 ;", "pickw 1 ;", "pickwc ;", "sample 0 1", "sample 1 1", "sample 1 0", "sample 0 0",
           "samplew 0 1 ;", "samplew 1 1 ;", "samplew 1 0 ;", "sample 0 5 1 2 3", "samplew 0 5 1 2 3 ; %s %s %s" % (hx(1), hx(1), hx(1)),
           "samplew 0 0 ;", "sample 0 0 1 2", "samplew 1 0 1 2 ; %s %s" % (hx(1), hx(2)), "multinom 4 %s %s %s" % (hx(0), hx(0), hx(0)), "multinom 0 %s %s" % (hx(0), hx(0)), "multinom 2", "multinom 0",
           "cumsum %s %s %s" % (hx(0), hx(0), hx(0)), "cumsum", "cumsum %s" % hx(1.0), "cumsum %s %s" % (hx(0.0), hx(1.0)), "multinom 0 %s" % hx(1.0), "multinom 3 %s" % hx(2.0),
           "rcont2 3 ; 1 2", "rcont2 1 2 ; 3", "rcont2 ; ", "rcont2 1 2 ; 2 2", "rcont2 0 0 ; 0 0", "rcont2 0 5 ; 5 0", "rcont2 0 0 0 ; 0 0 0 0",
           "ctest 0 2 2 0 0 1 1", "ctest 5 2 2 0 1 0 1", "ctest 5 1 2 3 4", "ctest 0 2 2 1 1 1 1", "ctest 3 2 2 1 1 1 1", "ctest 5 2 2 1 0 0 1", "ctest 40 2 2 0 1 1 0", "ctest 1 2 2 1 0 0 1",
           "pickw 0 1 2 3 ; %s %s %s" % (hx(0), hx(0), hx(0)), "samplew 0 3 1 2 3 ; %s %s %s" % (hx(0), hx(0), hx(0)),
           "pickwc 1 2 3 ; %s %s %s" % (hx(0), hx(0), hx(0)), "samplew 1 4 1 2 3 ; %s %s %s" % (hx(0), hx(0), hx(0)), "pickw 1 1 2 3 ; %s %s %s" % (hx(0), hx(0), hx(0))]
    for j, s in enumerate(seeds[:4]):
        cases.append(["case edge-%d" % j, "seed %d" % s] + bad)
    # 5. statistical exploration
    cases += stat_cases(rng, seeds, tier)
    return cases


def _close(a, b, rel=1e-9):
    try:
        x, y = unhx(a), unhx(b)
    except Exception:
        return False
    if x == y:
        return True
    return abs(x - y) <= rel * max(abs(x), abs(y), 1e-300)


def compare(op_line, impl, model):
    op = op_line.split()[0]
    if op in STAT_OPS:
        # the model cannot predict a statistic; the driver judges the implementation's value
        return model.strip() == "stat" and re.match(r"^[0-9a-fn ;]+$", impl.strip()) is not None
    if op == "ctest" and not impl.startswith("exc:"):
        a, b = impl.split(), model.split()
        # the C++ accumulates the statistic through long double: compared to 1e-9 relative; everything else
        # (p-value, degrees of freedom, margins, replicate statistics, generator-state flag) exactly
        return len(a) >= 3 and len(a) == len(b) and _close(a[0], b[0]) and a[1:] == b[1:]
    return " ".join(impl.split()) == " ".join(model.split())


def coverage_extra(cases, answers):
    fam = {}
    worst = {}
    sizes = {}
    seeds = set()
    draws = 0
    rc_tot = {}
    for c, a in zip(cases, answers):
        ops = [l for l in c if l.strip() and not l.startswith(("case", "#", "="))]
        for l, r in zip(ops, a or []):
            t = l.split()
            if t[0] == "seed":
                seeds.add(t[1])
            if t[0] == "ks":
                try:
                    n = int(r.split()[1]); d = unhx(r.split()[0])      # n' reported by the harness (beta: points below the censoring point)
                    bound = math.sqrt((math.log(1e9) + math.log(2)) / (2 * n))
                    worst[t[1]] = max(worst.get(t[1], 0.0), round(d / bound, 3))
                except Exception:
                    worst[t[1]] = "nan"
            if t[0] in STAT_OPS:
                key = t[0] + ":" + t[1] if t[0] not in ("chi2rc", "chi2rc3") else t[0]
                fam[key] = fam.get(key, 0) + 1
            if t[0] in ("sample", "samplew"):
                k = int(t[2]); n = len(l.split(";")[0].split()) - 3
                b = "k<n" if k < n else "k=n" if k == n else "k>n"
                sizes[t[0] + t[1] + ":" + b] = sizes.get(t[0] + t[1] + ":" + b, 0) + 1
            if t[0] == "rcont2":
                try:
                    tot = sum(int(x) for x in l.split(";")[0].split()[1:])
                    b = "0" if tot == 0 else "1-6" if tot <= 6 else "7-30" if tot <= 30 else "31-200"
                    rc_tot[b] = rc_tot.get(b, 0) + 1
                except Exception:
                    pass
            if ";" in r:
                draws += len([x for x in r.split(";")[-1].split() if ":" in x])
    return {"seeds_used": sorted(seeds, key=int), "statistical_tests": fam, "ks_worst_D_over_bound": worst,
            "sample_size_classes": sizes, "rcont2_total_classes": rc_tot, "primitive_draws_replayed_by_model": draws,
            "statistical_note": "ks/chi2 ops are supporting statistical tests (per-test false-alarm bound 1e-9 by DKW / Laurent-Massart; < 1e-6 over the run); they are not proofs"}
