"""Script generator for C16 (text and option parsing never crashes, corrupts memory or hangs).

One operation = one call of an entry point on hex-escaped byte strings, with every boolean /
character option drawn too.  Inputs come from three streams per entry point:
  * grammar-aware seeds (the library's tests and doc comments) and structural mutations of them
    (insert / delete / duplicate / swap of dictionary tokens: delimiters, brackets, '=', '$(', '\\',
    quotes, comment marks, digits, signs, NUL and bytes >= 0x80),
  * an exhaustive small universe over the entry point's special characters,
  * a byte-level random stream.
Lengths up to 4 KiB in the thorough tier (256, a few 1 KiB, in quick).
Operations whose implementation is not modelled (dd.read, nc.vec, nc.seq, ct.parse) are
compared by outcome class only (the model answers `?`)."""
import random, itertools, os, sys, importlib.util

UNMODELLED = ("nc.vec", "nc.seq", "ct.parse", "dt.edit", "at.opts", "ap.vec")        # dd.read: see compare()


def _load_tool(name):
    here = os.path.dirname(os.path.dirname(os.path.abspath(__file__)))
    spec = importlib.util.spec_from_file_location(name, os.path.join(here, "tools", name + ".py"))
    m = importlib.util.module_from_spec(spec)
    spec.loader.exec_module(m)
    return m


# every literal the search-only readers compare their input with, collected from the current sources
# of $VERIF_REPO on every run (tools/gen_c16_dict.py): a new argument name enters the grammar by itself
try:
    RD = _load_tool("gen_c16_dict").scan()
except Exception as _e:          # the translator reports that itself (props/C16.json "translator")
    RD = {}
for _k, _v in (("dist_names", ["Gamma"]), ("dist_args", {}), ("dist_all_args", ["n"]), ("dist_numbered", ["dist"]), ("dist_item_chars", ["[", ";", "]"]),
               ("vec_keys", ["from", "to", "step", "size"]), ("vec_scales", ["log"]), ("vec_prefixes", ["seq("]), ("formula_chars", ["+", "(", ")"]),
               ("formula_funcs", ["exp"])):
    RD.setdefault(_k, _v)
    if not RD[_k]:
        RD[_k] = _v
READER_DICT = sorted(set([a + "=" for a in RD["dist_all_args"]] + [a + "1=" for a in RD["dist_numbered"]] + [d + "(" for d in RD["dist_names"]] +
                         [k + "=" for k in RD["vec_keys"]] + ["scale=" + v for v in RD["vec_scales"]] + RD["vec_prefixes"] + [f + "(" for f in RD["formula_funcs"]] +
                         RD["dist_item_chars"] + RD["formula_chars"]))


def hx(s):
    if isinstance(s, str):
        s = s.encode("latin-1")
    return s.hex() if s else "-"


def chunk(tag, ops, n=150):
    return [["case %s%d" % (tag, i)] + ops[i:i + n] for i in range(0, len(ops), n)]


DICT = [" ", "\t", "\n", "\r", "\f", "\v", ",", ";", ":", "=", "(", ")", "[", "]", "{", "}", "$(", "$", ")", "\\", "\"", "'",
        "*", "/", ".", "#", "//", "/*", "*/", "-inf", "+inf", "inf", "e", "E", "-", "+", "0", "1", "9", "12", ".5", "1e3",
        "\x00", "\x7f", "\x80", "\xff", "a", "b", "ab", "abc", "=(", "),", ",,", "((", "))", "\\\n", "  ", "$()", "$(a)", "$(b)"]


def rand_bytes(rng, n):
    return "".join(chr(rng.randrange(256)) for _ in range(n))


def mutate(rng, s, extra=(), maxlen=256, n=None):
    """a few structural mutations"""
    d = DICT + list(extra)
    for _ in range(n or rng.choice([1, 1, 2, 3, 5])):
        k = rng.randrange(9)
        pos = rng.randint(0, len(s))
        if k == 0:
            s = s[:pos] + rng.choice(d) + s[pos:]
        elif k == 1 and s:
            a = rng.randrange(len(s)); b = min(len(s), a + rng.choice([1, 1, 2, 4])); s = s[:a] + s[b:]
        elif k == 2 and s:
            a = rng.randrange(len(s)); b = min(len(s), a + rng.choice([1, 2, 4, 8])); s = s[:b] + s[a:b] + s[b:]
        elif k == 3 and s:
            a = rng.randrange(len(s)); s = s[:a] + rng.choice(d) + s[a + 1:]
        elif k == 4:
            s = s[pos:] + s[:pos]
        elif k == 5:
            s = s[:pos]
        elif k == 6:
            s = s + rng.choice(d) * rng.choice([1, 2, 3])
        elif k == 7:
            s = rng.choice(d) + s
        else:
            s = s[:pos] + rand_bytes(rng, rng.choice([1, 1, 2, 3])) + s[pos:]
    return s[:maxlen]


def grow(rng, s, target, extra=()):
    """repeat / splice a seed up to about `target` characters"""
    d = DICT + list(extra)
    out = s
    while len(out) < target:
        k = rng.randrange(4)
        if k == 0:
            out += rng.choice(d) + s
        elif k == 1:
            out += out[rng.randrange(len(out) + 1):][:64] if out else "a"
        elif k == 2:
            out += rng.choice(d) * rng.choice([1, 2, 8])
        else:
            out += mutate(rng, s, extra, 512)
        if not out:
            out = "a"
    return out[:target]


def sizes(rng, tier):
    """target length of one input"""
    r = rng.random()
    if tier == "thorough":
        if r < 0.55: return None                  # seed / mutated seed as is
        if r < 0.80: return rng.choice([64, 128, 256, 300])
        if r < 0.93: return rng.choice([512, 1000, 1024, 2048])
        return rng.choice([4000, 4095, 4096])
    if r < 0.75: return None
    if r < 0.95: return rng.choice([64, 128, 200, 256])
    return rng.choice([512, 1024])


def pick(rng, tier, seeds, extra=()):
    """one input string: seed, mutated seed, grown seed, or random bytes"""
    r = rng.random()
    s = rng.choice(seeds)
    if r < 0.30:
        pass
    elif r < 0.55:
        s = mutate(rng, s, extra, n=1)
    elif r < 0.85:
        s = mutate(rng, s, extra)
    elif r < 0.93:
        s = "".join(rng.choice(DICT + list(extra)) for _ in range(rng.randint(0, 12)))
    else:
        s = rand_bytes(rng, rng.randint(0, 24))
    t = sizes(rng, tier)
    if t is not None:
        s = grow(rng, s, t, extra)
    return s


# ------------------------------------------------------------------ seeds
TEXT = ["", " ", " \t\n", "abc def", "  abc def", "abc def  ", "  abc def  ", "aBcDEF ", "hello world", "hello world!",
        "hello world world !", "\n\r\n", "line1\nline2\r\n", "a\x00b", "\xe9t\xe9 \xff", "x" * 40]
NUMS = ["0", "123", "-123", "-123.456", "123456", "-7890", "-123.456e-5", "-123.456e-5.8", "-123e6", "-123.456e5", "-123e-6",
        "aazz", "-aazz", "-3.45z", "1e", "1e+", "e5", "-", ".", "-.e5", "+1", "1.", ".5", "1e+5", "1E5", "2147483648", "1,5", "1x2"]
TOKS = ["a b c", "a,b,,c", ",a,b,", "  a  b  ", "   ", "", ",,,", "a", "a**b*c", "*a*", "**", "key = value", "a, b, c", "a,  b", "ab--cd--", "--",
        "a--b----c", "x y\tz\nw", "a;b;c;", "1-5,7,9-12"]
DELIMS = [" \t\n\f\r", ",", ", ", ";", "*", "", "--", "ab", " ", "=", ",;", "\x00", "aa"]
NESTED = ["a,b(c,d),e", "f(a=1,b=g(x,y)),h", "a(b", "a)b", "(a,b),(c,d)", "a{b,c}d,e", "((,)),(,)", ")(", "a,(b,(c,d)),e", "", ",", "(", "a,b)",
          "dist=Gamma(n=4,alpha=0.5),p=0.1", "a((b,c))d,e"]
BRACKETS = [("(", ")"), ("{", "}"), ("[", "]"), ("((", "))"), ("", ")"), ("(", ""), ("", ""), ("a", "a"), ("<", ">"), ("(", "(")]
KV = ["name(a=1,b=2)", "Gamma(n=4, alpha=0.5)", "f(a=1,b=g(x=2,y=3), c = 4)", "f()", "f", "f(", "f)", ")(", "f(a)", "f(=)", "f(a=)", "f(=1)",
      "f(a==1)", "f(a=1,,b=2)", "f(a=1) x", "f(a=1)  ", "  f (a = 1 , b = (1,2,3))", "a=1,b=2", "a = 1, b = 2", "=", "a=", "=b", "a=b=c",
      "Simple(values=(1,2),probas=(0.5,0.5))", "Mixture(probas=(0.3,0.7),dist1=Gamma(n=2),dist2=Constant(value=1))", "f(a=1,b=2))", "f((a=1)",
      "=,b", "a,=,b", "=,=", "a,=", "f(=,b)", "f(a,=,b)", "f(a , = , b)", "f(=, =)", "a=1,=,2", "f(a=1,=,2)"]
GLOBP = ["*", "a*", "*a", "a*b", "*a*", "ab", "", "**", "a**b", "*.kappa", "HKY85.*", "T92.theta_*", "a*a", "*ab*ab", "a*b*c"]
GLOBN = ["", "a", "ab", "abab", "aab", "ba", "HKY85.kappa", "T92.theta_1", "abc", "aXbXc", "a*b", "*"]
COMMENTS = ["a=1 # comment", "a=1 // c", "a = /* c */ 1", "/* a */ b /* c */", "a /* unterminated", "# only", "//", "/*/", "/**/", "a*/b/*c",
            "a # b # c\nd # e\nf", "x//y\nz//w", "a/*b*/c/*d*/e", "/*/*/", "#\n#\n", "", "*/ /*", "a /* b // c */ d", "u#v/*w\n*/x"]
LINES = ["a=1", "b = 2 # comment", "c=hello\\", "world", "", "# full comment", "d=$(a)", "e=1 // c", "f = /* x */ 3", "\\", "g", "=", "h=",
         "=i", "j=k=l", "long=\\", "\\", "a b c", "x\\\\", "\\\\\\", "param=file.bpp", "z = 1 \\ ", "/* multi", "line */ y=2"]
VARS = [("a", "1"), ("b", "$(a)"), ("c", "$(b)$(a)"), ("d", "x$(c)y"), ("e", "$(e)"), ("f", "$(g)"), ("g", "$(f)"), ("h", "$(undefined)"),
        ("i", "$(a"), ("j", "$()"), ("k", "$($(a))"), ("l", "$(a))"), ("m", ")$("), ("n", "$"), ("o", "(a)"), ("a", "$(b)"), ("b", "$(b)$(b)"),
        ("a", "$(b)y"), ("", "x"), ("p", "$(q)$(q)"), ("q", "$(a)$(a)")]
MARKS = [("$", "(", ")")] * 8 + [("%", "{", "}"), ("$", "(", "("), ("$", "$", ")"), ("$", "(", "$"), ("a", "b", "c"), ("$", "$", "$")]
PATHS = ["/home/user/file.txt", "file.txt", "abc", "/abc", "abc/", "a/b/c", "a.b.c", ".hidden", "dir.d/file", "", "/", ".", "..", "a/.b", "a./b",
         "C:\\dir\\file.ext", "dir/file.tar.gz", "//", "a/b.c/d"]
INTERVALS = ["[0;1]", "]0;1[", "[ 0; 1] ", "]-inf; +inf[", "[-inf;inf]", "[1e-3;1e3]", "[0,1]", "0;1]", "[0;1", "[;]", "[a;b]", "[];", "];[", "", "[",
             "[0;1;2]", "[1;0]", "[[0;1]]", " [0;1]", "[0 ;1 ]", "[-1.5e-2;+3]", "[0;]", "[;1]"]
TABLES = ["a,b,c\n1,2,3\n4,5,6\n", "a,b\nr1,1,2\nr2,3,4\n", "1,2\n3,4\n", "", "\n", "a\n", "a,b\n1\n", "a,b\nr1,1,2\n,,\n", "a,b\nr1,1,2\nr1,3,4\n",
          "a,a\n1,2\n", ",\n,\n", "a,b\n1,2\n\n3,4\n", "a\tb\n1\t2\n", "a,b\nr,1,2\nr2,3\n", "a,b\nr,1,2\nr2,3,4,5\n", "x\n1\n2\n3", "a,b,c\n1,2\n"]
DISTS = ["Gamma(n=4,alpha=0.5)", "Gamma(n=4)", "Gamma(n=2,alpha=1,beta=1,offset=0.1)", "Gaussian(n=3,mu=0,sigma=1)", "Beta(n=3,alpha=2,beta=2)",
         "Exponential(n=3,lambda=2)", "Exponential(n=3,lambda=2,median=1)", "TruncExponential(n=3,lambda=1,tp=2)", "Uniform(n=3,begin=0,end=1)",
         "Constant(value=1)", "Constant()", "Simple(values=(1,2),probas=(0.5,0.5))", "Simple(values=(1,2,3),probas=(0.2,0.3,0.5),ranges=(V1[0;2],V2[1;3]))",
         "Simple(values=,probas=)", "Simple(values=(),probas=())", "Invariant(dist=Gamma(n=4),p=0.1)", "InvariantMixed(dist=Constant(value=1))",
         "Invariant()", "Mixture(probas=(0.3,0.7),dist1=Gamma(n=2),dist2=Constant(value=1))", "Mixture(probas=(1),dist1=Mixture(probas=(1),dist1=Constant(value=2)))",
         "Gamma", "Gamma()", "Gamma(n=0)", "Gamma(n=-1)", "Gamma(n=x)", "Unknown(n=3)", "Uniform(n=3,begin=1,end=0)", "Gamma(n=1,alpha=-1)", "Simple(values=(1),probas=(2))",
         "Simple(values=(1,1),probas=(0.5,0.5))", "Simple(values=(1,2),probas=(0.5,0.5),ranges=(V1[0;2))"]
VECS = ["1,2,3", "0.1, 0.2", "seq(from=0,to=1,step=0.1)", "seq(from=0,to=1,size=5)", "seq(from=1,to=10,step=1,scale=log)", "seq(from=0,to=2,step=0.5,scale=exp)",
        "seq(from=0,to=2,size=3,scale=10^)", "seq", "seq(", "seq()", "seq(from=0)", "seq(from=0,to=1)", "seq(from=0,to=1,step=x)", "seq(from=1,to=0,step=1)",
        "seq(from=0,to=1,size=0)", "seq(from=0,to=1,size=-3)", "seq(from=0,to=1,step=0.1,scale=foo)", "", ",", "a,b", "seqfrom=0,to=1,step=1", "seq(from=0,to=1,size=1)"]
SEQS = ["1-5,7,9-12", "1", "1,2,3", "3-1", "a-b", "1-", "-1", "", ",", "1--3", "1-2-3", "0-20", "5-5"]
FORMULAS = ["a+b", "a+b*(c-2)", "(a)", "((a+b))", "1.5*x", "-x", "a/b/c", "a-(b", "a+)", "", "()", "+", "a**b", "2*(3+4)*(5-6)", "exp(x)+log(y)", "f(a,b)",
            "a + b", "1e-3*x", "((((1))))", ")(", "a+(b*(c+(d*e)))", "1/0", "x^2", "sin(x)*cos(y)"]


# ------------------------------------------------------------------ per entry point
def g_tt(rng, tier):
    f = rng.choice(["isEmpty", "upper", "lower", "ws", "rmws", "rmfirst", "rmlast", "trim", "rmnl", "rmlastnl", "num", "num", "resizeR", "resizeL",
                    "split", "split", "rmsub", "rmsub", "rmsub5", "rmsub5", "rmsub5", "rmchar", "count", "starts", "ends", "has", "replace", "replace"])
    if f in ("isEmpty", "upper", "lower", "rmws", "rmfirst", "rmlast", "trim", "rmnl", "rmlastnl"):
        return "tt.%s %s" % (f, hx(pick(rng, tier, TEXT)))
    if f == "ws":
        return "tt.ws %s" % hx(chr(rng.choice([32, 9, 10, 11, 12, 13, 0, 65, 160, 133, 255, rng.randrange(256)])))
    if f == "num" and rng.random() < 0.5:
        dec, sci = rng.choice([(".", "e")] * 5 + [(".", "E"), (",", "e"), (".", "x")])
        return "tt.num %s %s %s" % (hx(numeral(rng, dec, sci)), hx(dec), hx(sci))
    if f == "num":
        dec, sci = rng.choice([(".", "e")] * 6 + [(".", "E"), (",", "e"), (".", "x"), ("e", "."), (".", "."), ("-", "e"), ("0", "e"), (".", "-"), ("\x00", "e")])
        return "tt.num %s %s %s" % (hx(pick(rng, tier, NUMS, ["e", ".", "-", "+", "5"])), hx(dec), hx(sci))
    if f in ("resizeR", "resizeL"):
        s = pick(rng, tier, TEXT)
        n = rng.choice([0, 1, 2, len(s), max(0, len(s) - 1), len(s) + 1, len(s) + 7, 4, 80, rng.randint(0, 300)])
        return "tt.%s %s %d %s" % (f, hx(s), n, hx(rng.choice(" .0\x00")))
    if f == "split":
        s = pick(rng, tier, TEXT)
        n = rng.choice([0, 1, 1, 2, 3, 4, 4, 7, len(s), len(s) + 1, max(1, len(s) - 1), max(1, len(s) // 2), 2 ** 64 - 1, 2 ** 63, 2 ** 64 - max(1, len(s)), 2 ** 32])
        return "tt.split %s %d" % (hx(s), n)
    if f == "rmsub":
        b, e = rng.choice([("(", ")"), ("[", "]"), ("{", "}"), ("(", "("), ("a", "b"), ("\x00", "\xff")])
        return "tt.rmsub %s %s %s" % (hx(pick(rng, tier, NESTED, [b, e])), hx(b), hx(e))
    if f == "rmsub5":
        b, e = rng.choice([("(", ")"), ("[", "]"), ("<", ">"), ("(", "("), ("a", "b")])
        # the output of this overload is quadratic in the input (an unclosed nest copies the text before
        # it once per opening character): inputs are kept to 1 KiB so that answers stay printable
        s = pick(rng, tier, NESTED + ["f(x) = <a> (b) c", "a(b)c(d)e", "x(y(z)w)v", "(a)", "((", "a)b(c"], [b, e])[:1024]
        def exc(m):
            if rng.random() < 0.5:
                n = rng.randint(1, 4); k = rng.randrange(n)
                return "".join(rng.choice("abx") for _ in range(k)) + m + "".join(rng.choice("abx" + b + e) for _ in range(n - 1 - k))
            return rng.choice(["x" + m, m + "y", "ab" + m + "c", m, "no", "", m + m, "zz" + m, "(a", "f(", "a)", ")c", "-->", "xyz)"])
        xb = [exc(b) for _ in range(rng.choice([0, 0, 1, 1, 2, 3]))]
        xe = [exc(e) for _ in range(rng.choice([0, 0, 1, 1, 2, 3]))]
        if rng.random() < 0.3 and (xb or xe):          # the text contains an exception string
            pos = rng.randint(0, min(len(s), 12)); s = (s[:pos] + rng.choice(xb + xe) + s[pos:])[:1024]
        return "tt.rmsub5 %s %s %s %d %s%d %s" % (hx(s), hx(b), hx(e), len(xb), "".join(hx(x) + " " for x in xb), len(xe), " ".join(hx(x) for x in xe))
    if f == "rmchar":
        s = pick(rng, tier, TEXT)
        return "tt.rmchar %s %s" % (hx(s), hx(rng.choice(list(s) + [" ", "a", "\x00"])))
    s = pick(rng, tier, TEXT)
    if rng.random() < 0.5 and s:
        a = rng.randrange(len(s)); p = s[a:a + rng.choice([0, 1, 2, 3, 5])]
    else:
        p = rng.choice(["", "a", "world", "hello", " ", "ll", "o w", "blah", s, s + "x"])
    if f == "replace":
        return "tt.replace %s %s %s" % (hx(s), hx(p), hx(rng.choice(["", "X", p, p + p, "longer replacement", s[:8]])))
    return "tt.%s %s %s" % (f, hx(s), hx(p))


INT_EDGES = ["2147483647", "2147483648", "2147483649", "2147483646", "214748364", "21474836470", "4294967296", "9223372036854775807",
             "9223372036854775808", "18446744073709551616", "0", "00", "1", "9", "10", "99999999999", "123456789012345678901234567890"]


def digits(rng, n):
    return "".join(rng.choice("0123456789") for _ in range(n))


def numeral(rng, dec=".", sci="e"):
    """sign? digits (dec digits)? (sci sign? digits)?  with mantissas at the limits of int and exponents of 1..25 digits"""
    sign = rng.choice(["", "", "-", "-", "+"])
    r = rng.random()
    if r < 0.45:
        mant = rng.choice(INT_EDGES)
    elif r < 0.6:
        mant = "0" * rng.choice([1, 2, 12])
    else:
        mant = digits(rng, rng.choice([1, 1, 2, 3, 9, 10, 11, 19, 20]))
    if rng.random() < 0.25:
        mant += dec + digits(rng, rng.choice([0, 1, 3, 20]))
    out = sign + mant
    r = rng.random()
    if r < 0.75:
        n = rng.choice(list(range(1, 26)) + [1, 1, 2, 11, 12, 18, 19, 20])
        k = rng.random()
        if k < 0.3:
            e = "9" * n
        elif k < 0.45:
            e = "0" * (n - 1) + rng.choice("0123456789")          # leading zeros: the value stays small
        elif k < 0.6:
            e = "1" + "0" * (n - 1)
        else:
            e = rng.choice("123456789") + digits(rng, n - 1)
        out += sci + rng.choice(["", "", "+", "-"]) + e
    elif r < 0.8:
        out += sci + rng.choice(["", "+", "-"])
    return out


def rmsub5_universe():
    """the 5-argument removeSubstrings: exception strings of length 1..4 with the block character at every
    offset, texts in which a block opens / closes before, at and after that offset, with and without a tail
    long enough for the `right < size - 1` test, and texts that contain the exception itself"""
    ops = []
    fill = "xyzw"
    exc = {}
    for mark in "()":
        exc[mark] = []
        for n in range(1, 5):
            for k in range(n):
                exc[mark].append(fill[:k] + mark + fill[k:n - 1])
    texts = []
    for n in range(0, 4):
        for t in itertools.product("(x)", repeat=n):
            texts.append("".join(t))
    def line(s, xb, xe):
        return "tt.rmsub5 %s %s %s %d %s%d %s" % (hx(s), hx("("), hx(")"), len(xb), "".join(hx(x) + " " for x in xb), len(xe), " ".join(hx(x) for x in xe))
    for x in exc[")"]:
        for t in texts:
            for tail in ("", "bcdefgh"):
                if "(" in t and ")" in t:
                    ops.append(line(t + tail, [], [x]))
        for t in ("(" + x, "(a" + x + "b", "((" + x + ")", x + "(" + x):
            ops.append(line(t, [], [x])); ops.append(line(t + "bcdefgh", [], [x]))
    for x in exc["("]:
        for t in texts:
            for tail in ("", "bcdefgh"):
                if "(" in t:
                    ops.append(line(t + tail, [x], []))
        for t in (x + ")", "a" + x + "b)", x + x + "))", "(" + x + ")"):
            ops.append(line(t, [x], [])); ops.append(line(t + "bcdefgh", [x], []))
    for xb in exc["("][::2]:
        for xe in exc[")"][1::2]:
            for t in ("(x)", "x(x)x", xb + "x" + xe, "(" + xb + xe + ")", "()" + xe + xb + "()"):
                ops.append(line(t + "bcdefgh", [xb, "no"], ["no", xe]))
    return ops


def script(rng, gets=True):
    n = rng.choice([0, 1, 2, 3, 4, 6, 10])
    calls = []
    for _ in range(n):
        c = rng.choice(["n", "n", "n", "h", "r", "e", "u", "u", "g"])
        if c == "g":
            if not gets:
                c = "n"
            else:
                c = "g%d" % rng.choice([0, 0, 1, 2, 3, 5, 100, 2 ** 64 - 1])
        calls.append(c)
    return ".".join(calls) if calls else "-"


def g_st(rng, tier):
    d = rng.choice(DELIMS)
    s = pick(rng, tier, TOKS, list(d) + [d])
    sc = script(rng)
    if rng.random() < 0.3:
        sc = rng.choice(["u", "e.u", "n.u", "n.n.n.n.n.n.u", "u.n.u.n.u", "e.n.u", "r.h.n.r.h", "n.e.u.n.e.u"])
    return "st %s %s %d %d %s" % (hx(s), hx(d), rng.randint(0, 1), rng.randint(0, 1), sc)


def g_nst(rng, tier):
    o, e = rng.choice(BRACKETS)
    d = rng.choice([",", ",", ", ", " \t\n\f\r", ";", "", "--", "(", ")"])
    s = pick(rng, tier, NESTED, [o, e, d])
    return "nst %s %s %s %s %d %s" % (hx(s), hx(o), hx(e), hx(d), rng.randint(0, 1), script(rng))


def g_kv(rng, tier):
    k = rng.randrange(4)
    d = pick(rng, tier, KV, ["=", ",", "(", ")"])
    sp = rng.choice([",", ",", ",", ", ", ";", "", " ", "=", "(", "=,"])
    if k == 0:
        return "kv.single %s %s" % (hx(d), hx(rng.choice(["=", "=", "=", ",", "= ", "((", "", "==", d[:2]])))
    if k == 1:
        return "kv.multi %s %s %d" % (hx(d), hx(sp), rng.randint(0, 1))
    if k == 2:
        return "kv.parse %s" % hx(d)
    news = [(rng.choice(["a", "b", "n", "alpha", "", " a", "x"]), rng.choice(["Z", "", "w(q=1)", "1,2", ")", "("])) for _ in range(rng.randint(0, 3))]
    return "kv.change %s %s %d %d%s" % (hx(d), hx(sp), rng.randint(0, 1), len(news), "".join(" %s %s" % (hx(a), hx(b)) for a, b in news))


def g_glob(rng, tier):
    return "glob %s %s" % (hx(pick(rng, tier, GLOBP, ["*", "**"])), hx(pick(rng, tier, GLOBN, ["*"])))


def g_at(rng, tier):
    k = rng.randrange(3)
    if k == 0:
        b, e = rng.choice([("#", "\n"), ("//", "\n"), ("/*", "*/")] * 3 + [("#", "#"), ("", "\n"), ("#", ""), ("", ""), ("/*", "/"), ("/", "/*"), ("ab", "a"), ("a", "b"),
                           ("//", "/*"), ("*/", "/*"), ("\n", "\n"), ("aa", "a"), ("ab", "ba"), ("\x00", "\xff")])
        return "at.rmc %s %s %s" % (hx(pick(rng, tier, COMMENTS, ["#", "//", "/*", "*/", "\n", "/", "*"])), hx(b), hx(e))
    if k == 1:
        n = rng.choice([0, 1, 1, 2, 3, 4, 6, 10])
        lines = []
        for _ in range(n):
            l = rng.choice(LINES)
            if rng.random() < 0.5:
                l = mutate(rng, l, ["\\", "=", "#", "//", "/*", "*/"], 200)
            if rng.random() < 0.25:
                l += "\\"
            lines.append(l)
        if lines and rng.random() < 0.3:
            lines[-1] = rng.choice(["\\", "a=b\\", "x\\\\", "\\ ", "\\ # c", "a\\//"])
        if tier == "thorough" and rng.random() < 0.05:
            lines = [grow(rng, l or "a", rng.choice([200, 1000])) for l in lines[:4]]
        return "at.map %s %d%s" % (hx(rng.choice(["=", "=", "=", "=", ":", "", "==", "\\", " "])), len(lines), "".join(" " + hx(l) for l in lines))
    c, b, e = rng.choice(MARKS)
    n = rng.choice([1, 2, 2, 3, 4, 6])
    m = {}
    for _ in range(n):
        kk, vv = rng.choice(VARS)
        if rng.random() < 0.4:
            vv = mutate(rng, vv, ["$(", ")", "$(a)", "$(b)", "$(c)", "$"], 64)
        if (c, b, e) != ("$", "(", ")"):
            vv = vv.replace("$", c).replace("(", b).replace(")", e) if rng.random() < 0.8 else vv
        m[kk] = vv
    return "%s %s %s %s %d%s" % (rng.choice(["at.vars", "at.vars", "at.varsE"]), hx(c), hx(b), hx(e), len(m), "".join(" %s %s" % (hx(a), hx(v)) for a, v in sorted(m.items())))


def doubling_chain(n, width=2, seed_text="x", reverse=False):
    """acyclic definitions whose expansion doubles at every step: v00=x, v01=$(v00)$(v00), ... (2^n characters);
    `reverse`: the keys sort the other way round, so that every entry is resolved before the one it refers to"""
    key = (lambda i: "v%02d" % (99 - i)) if reverse else (lambda i: "v%02d" % i)
    m = {key(0): seed_text}
    for i in range(1, n + 1):
        m[key(i)] = ("$(%s)" % key(i - 1)) * width
    return m


def vars_line(m, op="at.vars"):
    return "%s %s %s %s %d%s" % (op, hx("$"), hx("("), hx(")"), len(m), "".join(" %s %s" % (hx(a), hx(v)) for a, v in sorted(m.items())))


def g_chain(rng, tier):
    """resolveVariables on doubling / tripling chains of 12-16 definitions (outputs of 4 KiB .. 64 KiB from inputs of
    a few hundred bytes: the allocation is exponential in the number of definitions)"""
    n = rng.choice([12, 13, 14, 15, 16]); w = 2
    if rng.random() < 0.25:
        n, w = rng.choice([8, 9, 10]), 3
    if rng.random() < 0.3:
        # resolved in the unfavourable order (every entry before the ones it refers to): w^n substitutions in the
        # first entry — kept below the model's fuel of 400 rounds per entry
        n, w = rng.choice([(5, 2), (6, 2), (7, 2), (3, 3), (4, 3)])          # 2^(n+1) - 2 resp. (3^(n+1) - 3) / 2 substitutions: at most 254
        return vars_line(doubling_chain(n, w, rng.choice(["x", "", "ab"]), True), rng.choice(["at.vars", "at.varsE"]))
    return vars_line(doubling_chain(n, w, rng.choice(["x", "", "ab"])), rng.choice(["at.vars", "at.varsE"]))


def g_ft(rng, tier):
    k = rng.randrange(3)
    sep = rng.choice(["/", "/", "/", "\\", ".", "a"])
    p = pick(rng, tier, PATHS, ["/", ".", "\\", sep])
    if k == 0:
        return "ft.name %s %s" % (hx(p), hx(sep))
    if k == 1:
        return "ft.parent %s %s" % (hx(p), hx(sep))
    return "ft.ext %s" % hx(p)


def g_ic(rng, tier):
    return "ic.read %s" % hx(pick(rng, tier, INTERVALS, ["[", "]", ";", "inf", "-inf", "+inf", "1", "e"]))


def small_numbers(s):
    """keep numerals short: a count / range / step in the text is not an input *length*"""
    import re
    return re.sub(r"[0-9]{4,}", lambda m: m.group(0)[:3], s)


def dd_numbers(s):
    """numerals of a distribution description: at most 3 digits in a row (a class count `n=…` allocates and
    computes in its value) and, with a positive exponent, one mantissa digit and an exponent of at most 2: the
    cost of the discretisations grows with the magnitude of the shape parameters too (`Gamma(n=999,alpha=999e9)`
    takes minutes) — that is the numeric kernels' business, not the reader's"""
    import re
    s = small_numbers(s)
    def fix(m):
        ip, frac, e = m.group(1), m.group(2) or "", m.group(3)
        return ip[:1] + frac + m.group(0)[len(ip) + len(frac)] + str(min(int(e), 2))
    return re.sub(r"([0-9]+)(\.[0-9]*)?[eE]\+?([0-9]+)", fix, s)


def rand_table(rng, sep):
    """a well-formed table text: optional header, optional row names, r x c cells"""
    c = rng.randint(1, 5); r = rng.randint(1, 6)
    cell = lambda: rng.choice(["1", "2.5", "x", "abc", "", " ", "a b", "-1e3", "NA"])
    names = rng.random() < 0.5
    lines = []
    if names or rng.random() < 0.6:
        lines.append(sep.join("c%d" % j for j in range(c)))
    for i in range(r):
        row = [cell() for _ in range(c)]
        if names:
            row = [rng.choice(["r%d" % i, "r%d" % i, "r0", ""])] + row
        lines.append(sep.join(row))
    eol = rng.choice(["\n", "\n", "\n\n", "\r\n"])
    return eol.join(lines) + rng.choice(["", "\n", "\n\n", "\n \n"])


def g_dt(rng, tier):
    sep = rng.choice([",", ",", ",", "\t", ";", " ", "", ",;", "a"])
    if rng.random() < 0.5:
        txt = rand_table(rng, sep[:1] or ",")
        if rng.random() < 0.4:
            txt = mutate(rng, txt, [",", "\n", sep, ",,", "\n,\n"], 400, n=1)
        t = sizes(rng, tier)
        if t is not None and rng.random() < 0.3:
            txt = grow(rng, txt, t, [",", "\n", sep])
    else:
        txt = pick(rng, tier, TABLES, [",", "\n", "\t", sep])
    return "dt.read %s %s %d %d" % (hx(txt), hx(sep), rng.randint(0, 1), rng.choice([-1, -1, -1, 0, 1, 2, 5]))


# ------------------------------------------------------------------ the readers (grammar-complete from RD)
NUMV = ["0", "1", "2", "0.5", "0.25", "-1", "1e-3", "1.5", "10", "+3", "0.1", "100", "1e2", ".5", "5."]
BADV = ["", " ", "x", "inf", "-inf", "nan", "1e400", "1e-400", "--1", "1,5", "1e", "e", ".", "-", "1 2", "0x10", "\x00", "(", ")", "()", "=", "2147483648",
        "-2147483649", "1e99999999999", "9" * 30]
BLANKS = ["", "", "", " ", "  ", "\t", " \t "]


def pad(rng, x):
    return rng.choice(BLANKS) + x + rng.choice(BLANKS)


def num_list(rng, n=None, probas=False):
    """`(v1,v2,...)` with the variations a list argument meets: blanks, empty and blank-only items, missing parentheses, non-numbers"""
    n = rng.choice([1, 2, 2, 3, 4]) if n is None else n
    if probas:
        items = {1: ["1"], 2: ["0.5", "0.5"], 3: ["0.2", "0.3", "0.5"], 4: ["0.25"] * 4}.get(n, ["0.1"] * n)
    else:
        items = [str(i + 1) if rng.random() < 0.7 else rng.choice(NUMV) for i in range(n)]
    return wrap_list(rng, items)


def wrap_list(rng, items):
    r = rng.random()
    if r < 0.25:
        items = [pad(rng, x) for x in items]
    if rng.random() < 0.2 and items:
        k = rng.randrange(len(items) + 1)
        items = items[:k] + [rng.choice(["", " ", "  ", "\t", "x", rng.choice(BADV)])] + items[k:]
    body = ",".join(items)
    r = rng.random()
    if r < 0.82: return "(" + body + ")"
    if r < 0.86: return body
    if r < 0.89: return "(" + body
    if r < 0.92: return body + ")"
    if r < 0.94: return "((" + body + "))"
    if r < 0.96: return "[" + body + "]"
    if r < 0.98: return ""
    return "("


def range_item(rng, k):
    o, sc, c = "[", ";", "]"
    r = rng.random()
    if r < 0.6:
        return "V%d%s%s%s%s%s" % (k, o, rng.choice(NUMV), sc, rng.choice(NUMV), c)
    parts = ["V", rng.choice([str(k), "", "0", "99", "-1", "x", "1e1", "4294967296", "2147483647"]), o, rng.choice(NUMV + BADV[:6]), sc, rng.choice(NUMV + BADV[:6]), c]
    for _ in range(rng.choice([1, 1, 2])):
        j = rng.randrange(len(parts))
        parts[j] = rng.choice(["", "", parts[j] * 2, " ", rng.choice(RD["dist_item_chars"]), "x"])
    return "".join(parts)


def range_list(rng, n):
    return wrap_list(rng, [range_item(rng, k + 1) for k in range(rng.choice([1, n, n, max(1, n - 1)]))])


def dist_value(rng, key, depth, n_items):
    """a value for the argument `key`; what the name suggests most of the time, anything otherwise
    (an argument name the table below does not know gets every kind of value)"""
    kind = {"n": "count", "values": "nums", "probas": "probas", "ranges": "ranges", "dist": "dist", "median": "flag", "ParamOffset": "flag"}.get(key)
    if key in RD["dist_numbered"] or any(key.startswith(f) and key[len(f):].isdigit() for f in RD["dist_numbered"]):
        kind = "dist"
    if kind is None:
        kind = "num" if key in RD["dist_all_args"] else rng.choice(["num", "nums", "ranges", "dist", "count", "flag"])
    if rng.random() < 0.06:
        kind = rng.choice(["num", "nums", "ranges", "dist", "count", "bad"])
    if kind == "count":
        return rng.choice(["1", "2", "3", "4", "4", "5", "10", "0", "-1", "x", "", "1e1", "2.0", "007", "999", " 3", "3 ", "+2", "1e0", "0e5", "2147483648", "1e99999999999"])
    if kind == "nums":
        return num_list(rng, n_items)
    if kind == "probas":
        return num_list(rng, n_items if rng.random() < 0.85 else None, probas=True)
    if kind == "ranges":
        return range_list(rng, n_items)
    if kind == "dist":
        return dist_desc(rng, depth + 1) if depth < 2 else rng.choice(["Constant(value=1)", "Gamma(n=2)", ""])
    if kind == "flag":
        return rng.choice(["1", "true", "", "0", "yes"])
    if kind == "bad":
        return rng.choice(BADV)
    return rng.choice(NUMV) if rng.random() < 0.85 else rng.choice(BADV)


def dist_desc(rng, depth=0):
    """Name(arg=value,...) over the names and arguments found in the reader's source"""
    name = rng.choice(RD["dist_names"] + RD["dist_names"] + ["Unknown", "", "gamma", "Simple "])
    if depth == 0 and rng.random() < 0.25:
        name = "Simple"
    own = list(RD["dist_args"].get(name, []))
    args = []
    n_items = rng.choice([1, 2, 2, 3, 4])
    if "n" in RD["dist_all_args"] and "n" not in own and name not in ("Simple", "Constant", "Invariant", "InvariantMixed", "Mixture"):
        own = ["n"] + own
    optional = {"ranges": 0.6, "median": 0.3, "ParamOffset": 0.3, "offset": 0.4}
    for k in own:
        if rng.random() < optional.get(k, 0.9):
            args.append((k, dist_value(rng, k, depth, n_items)))
    for fam in RD["dist_numbered"]:
        if name == "Mixture" or rng.random() < 0.03:
            m = n_items if rng.random() < 0.85 else rng.choice([0, 1, 5])
            for i in range(1, m + 1):
                if rng.random() < 0.95:
                    args.append(("%s%d" % (fam, i), dist_value(rng, fam, depth, n_items)))
    for k in RD["dist_all_args"]:
        if rng.random() < 0.04:
            args.append((k, dist_value(rng, k, depth, n_items)))
    if rng.random() < 0.05:
        args.append((rng.choice(["foo", "N", "", " n", "values "]), rng.choice(NUMV)))
    if rng.random() < 0.3:
        rng.shuffle(args)
    if rng.random() < 0.05 and args:
        args.append(rng.choice(args))                      # an argument given twice
    sep = "," if rng.random() < 0.8 else rng.choice([", ", " ,", " , "])
    eq = "=" if rng.random() < 0.85 else rng.choice([" = ", "= ", " ="])
    body = sep.join(k + eq + v for k, v in args)
    r = rng.random()
    if r < 0.9: return name + "(" + body + ")"
    if r < 0.93: return name + " (" + body + ") "
    if r < 0.95: return name + "(" + body
    if r < 0.97: return name
    return name + "(" + body + "))"


def g_dte(rng, tier):
    """table editing (DataTable.cpp:95-545): a table read from a well-formed text (or built without names), then a
    script of editing calls with indexes at and beyond the limits and names that exist, are duplicated or missing"""
    sep = ","
    if rng.random() < 0.12:
        txt, hdr, rn = "\x00", 0, rng.choice([0, 1, 3])          # DataTable(nRow, 2): no row names, no column names
        r, c, names, cols = rn, 2, [], []
    else:
        c = rng.randint(1, 4); r = rng.randint(1, 4)
        withnames = rng.random() < 0.5
        hdr = 1 if (withnames or rng.random() < 0.6) else 0
        lines = []
        if hdr:
            lines.append(sep.join("c%d" % j for j in range(c)))
        for i in range(r):
            row = ["%d%d" % (i, j) for j in range(c)]
            if withnames:
                row = ["r%d" % i] + row
            lines.append(sep.join(row))
        txt = "\n".join(lines) + "\n"
        rn = rng.choice([-1, -1, -1, 0, 1]) if not withnames else -1
        names = ["r%d" % i for i in range(r)] if withnames else []
        cols = ["c%d" % j for j in range(c)] if hdr else []
        if not hdr:
            r = r                                                 # first line is a row
    idx = lambda n: rng.choice([0, 0, 1, 2, max(0, n - 1), n, n + 1, 7, 100, 2 ** 32, 2 ** 63, 2 ** 64 - 1])
    nm = lambda pool: hx(rng.choice(pool + ["r0", "r1", "c0", "c1", "R0", "C0", "", "x", "new"]))
    calls = []
    for _ in range(rng.choice([1, 2, 3, 4, 6, 8])):
        k = rng.choice(["srn", "srn", "srn", "srns", "srnd", "scns", "grn", "gcn", "grns", "gcns", "gc", "gcN", "hc", "hr", "dc", "dcN", "ac", "acN", "gr", "grN",
                        "dr", "dr", "drN", "ar", "arN", "sr", "cell", "cellN", "cellRN", "cellCN", "cp", "w"])
        if k == "srn": calls.append("srn:%d:%s" % (idx(r), nm(names)))
        elif k in ("srns", "srnd"): calls.append("%s:%d" % (k, rng.choice([r, r, r + 1, max(0, r - 1), 0, 2])))
        elif k == "scns": calls.append("scns:%d" % rng.choice([c, c, c + 1, max(0, c - 1), 0]))
        elif k in ("grn", "gr", "dr"): calls.append("%s:%d" % (k, idx(r)))
        elif k in ("gcn", "gc", "dc"): calls.append("%s:%d" % (k, idx(c)))
        elif k in ("grns", "gcns", "cp", "w"): calls.append(k)
        elif k in ("gcN", "hc", "dcN"): calls.append("%s:%s" % (k, nm(cols)))
        elif k in ("hr", "grN", "drN"): calls.append("%s:%s" % (k, nm(names)))
        elif k == "ac": calls.append("ac:%d" % rng.choice([r, r, r + 1, 0]))
        elif k == "acN": calls.append("acN:%s:%d" % (nm(cols), rng.choice([r, r, r + 1, 0])))
        elif k == "ar": calls.append("ar:%d" % rng.choice([c, c, c + 1, 0]))
        elif k == "arN": calls.append("arN:%s:%d" % (nm(names), rng.choice([c, c, c + 1, 0])))
        elif k == "sr": calls.append("sr:%d:%d" % (idx(r), rng.choice([c, c, c + 1, 0])))
        elif k == "cell": calls.append("cell:%d:%d" % (idx(r), idx(c)))
        elif k == "cellN": calls.append("cellN:%s:%s" % (nm(names), nm(cols)))
        elif k == "cellRN": calls.append("cellRN:%s:%d" % (nm(names), idx(c)))
        else: calls.append("cellCN:%d:%s" % (idx(r), nm(cols)))
    return "dt.edit %s %s %d %d %s" % (hx(txt), hx(sep), hdr, rn, ".".join(calls))


OPT_LINES = ["a=1", "b = 2", "c=$(a)", "d=x$(a)y$(b)", "e=$(undefined)", "f=$(a", "g", "=h", "i=", "# comment", "j=1 // c", "k=/* x */2", "l=long\\", "continued", "\\",
             "param=p0", "param=p1", "param=p0,p1", "param=p2", "param=missing", "param=", "param=p0,p0", "param=,", "param=.", "m=$(param)", "n==", "a=2", "o=$()", "p=$(a)$(a)"]


def g_opts(rng, tier):
    """AttributesTools::parseOptions: a command line and up to three parameter files p0, p1, p2 (which may name each other:
    a file already seen is skipped).  Variable references are acyclic here: the non-termination of resolveVariables on cyclic
    definitions (known finding) is exercised through at.vars, the same routine"""
    def text(k):
        ls = [rng.choice(OPT_LINES) for _ in range(rng.choice([0, 1, 2, 3, 5]))]
        if rng.random() < 0.3:
            ls = [mutate(rng, l, ["=", "#", "//", "param=", "p0", ","], 80, n=1).replace("$", "") if rng.random() < 0.5 else l for l in ls]
        return rng.choice(["\n", "\n", "\r\n"]).join(ls) + rng.choice(["", "\n"])
    args = [rng.choice(OPT_LINES) for _ in range(rng.choice([0, 1, 1, 2, 3]))]
    if rng.random() < 0.6:
        args.append(rng.choice(["param=p0", "param=p0,p1", "param=p1,p0,p2", "param=p0,missing", "param=p2"]))
    if rng.random() < 0.15:
        args = [mutate(rng, a, ["=", "param=", ",", "p0"], 60, n=1).replace("$", "").replace("\x00", "0") for a in args]
    args = [a.replace("\x00", "0") for a in args]
    m = rng.choice([0, 1, 2, 3, 3])
    files = [text(i) for i in range(m)]
    return "at.opts %d%s %d%s" % (len(args), "".join(" " + hx(a) for a in args), m, "".join(" " + hx(f) for f in files))


AP_INT = ["1", "5", "0", "12", "-3", "100", "2147483647", "2147483646", "-2147483648", "2000000000", "4294967296", "x", "", "1e3", "1.5", " 7"]
AP_DBL = ["1", "2.5", "0", "-1", "10", "1e3", "1e16", "10000000000000100", "1e300", "-1e300", "inf", "nan", "x", "", "1e-300", "0.1"]


def g_apvec(rng, tier):
    """ApplicationTools::getVectorParameter<T> with the range operator: plain values and ranges a-b, bounds at the limits of T
    (a range above 10^7 values is refused since the audit-round-2 repair; one that reaches the cap costs 10^7 rounds: rare)"""
    ty = rng.choice("iud")
    pool = AP_DBL if ty == "d" else AP_INT
    sep, rop = rng.choice([(",", "-"), (",", ":"), (";", "-"), (" ", ":"), (",", ",")])
    items = []
    for _ in range(rng.choice([0, 1, 1, 2, 3, 5])):
        small = rng.random() < 0.85
        a = rng.choice(pool[:6] if small else pool)
        if rng.random() < 0.5:
            items.append(a)
        else:
            items.append(a + rop + rng.choice(pool[:6] if small else pool))
    txt = sep.join(items)
    r = rng.random()
    if r < 0.3: txt = "(" + txt + ")"
    elif r < 0.35: txt = "(" + txt
    elif r < 0.4: txt = mutate(rng, txt, [sep, rop, "(", ")"], 120, n=1)
    return "ap.vec %s %s %s %s" % (ty, hx(txt), hx(sep), hx(rop))


def g_dd(rng, tier):
    r = rng.random()
    if r < 0.7:
        d = dist_desc(rng)
        if rng.random() < 0.25:
            d = mutate(rng, d, READER_DICT, 400, n=rng.choice([1, 1, 2]))
    else:
        d = pick(rng, tier, DISTS, READER_DICT)
    return "dd.read %s %d" % (hx(dd_numbers(d)), rng.choice([0, 1, 1, 3, 2]))      # bit 0: parseArguments, bit 1: verbose


VEC_NUM = {"from": ["0", "0", "1", "-1", "0.5", "10", "-0.5", "1e-3", "1e16", "1e18", "-1e18", "1e300", "x", ""],
           "to": ["1", "2", "10", "1", "5", "0", "-1", "100", "1e16", "1e18", "1e300", "10000000000000100", "x", ""],
           "step": ["0.1", "0.5", "1", "0.25", "2", "0.01", "0", "-1", "1e-30", "1e-3", "1e300", "x", "", "1e-320"],
           "size": ["5", "2", "1", "3", "10", "0", "-3", "x", "", "1e2", "2147483647", "-2147483648", "2147483648", "10000000", "10000001", "1e7", "1e9", "999999999999", "2.5"]}


def vec_desc(rng):
    keys = list(RD["vec_keys"])
    chosen = []
    for k in keys:
        p = {"from": 0.95, "to": 0.95, "step": 0.5, "size": 0.5, "scale": 0.3}.get(k, 0.5)
        if rng.random() < p:
            chosen.append(k)
    if rng.random() < 0.05:
        chosen.append(rng.choice(["foo", "", "From", "step "]))
    args = []
    extreme = rng.random() < 0.12          # extremes are refused at once or after 10^7 rounds (0.3 s): kept rare
    for k in chosen:
        if k == "scale":
            v = rng.choice(RD["vec_scales"] + RD["vec_scales"] + ["foo", "", "LOG", "10"])
        else:
            pool = VEC_NUM.get(k, NUMV + BADV)
            v = rng.choice(pool) if extreme else rng.choice(pool[:6])
        args.append((k, v))
    if rng.random() < 0.2:
        rng.shuffle(args)
    body = rng.choice([",", ",", ",", ", "]).join(k + rng.choice(["=", "=", "=", " = "]) + v for k, v in args)
    pre = rng.choice(RD["vec_prefixes"]) if rng.random() < 0.93 else rng.choice(["seq", "seq (", "Seq(", "se", ""])
    return pre + body + (")" if rng.random() < 0.92 else rng.choice(["", "))", " )", ") "]))


def g_vec(rng, tier):
    r = rng.random()
    if r < 0.55:
        v = vec_desc(rng)
        if rng.random() < 0.2:
            v = mutate(rng, v, READER_DICT, 300, n=1)
            v = small_numbers(v)
    elif r < 0.75:
        v = ",".join(pad(rng, rng.choice(NUMV + BADV[:8])) for _ in range(rng.choice([0, 1, 2, 3, 5])))
    else:
        v = small_numbers(pick(rng, tier, VECS, READER_DICT))
        import re
        v = re.sub(r"(?<=[0-9.])[eE](?=[-+0-9])", "", v)      # mutated free text: no accidental 1e-30 steps (each costs 10^7 rounds)
        v = re.sub(r"\.0+", ".", v)
    return "nc.vec %s" % hx(v)


SEQ_INT = ["1", "5", "7", "12", "0", "3", "20", "-1", "-5", "100", "2147483647", "2147483646", "-2147483648", "-2147483647", "2147483648", "1e1", "1e3", "x", "",
           "1e99999999999", "007", "+4"]


def g_seq(rng, tier):
    delim = rng.choice([",", ",", ",", ";", " ", ", "])
    sd = rng.choice(["-", "-", "-", ":", "..", "--"])
    r = rng.random()
    if r < 0.7:
        items = []
        for _ in range(rng.choice([0, 1, 1, 2, 3, 5])):
            pool = SEQ_INT if rng.random() < 0.3 else SEQ_INT[:10]
            a = rng.choice(pool)
            k = rng.random()
            if k < 0.45:
                items.append(a)
            elif k < 0.9:
                b = rng.choice(pool)
                items.append(a + sd + b)
            else:
                items.append(a + sd + rng.choice(pool) + sd + rng.choice(pool))
        s = delim.join(items)
        if rng.random() < 0.15:
            s = mutate(rng, s, [sd, delim, "-", ","], 200, n=1)
            s = small_numbers(s)
    else:
        s = small_numbers(pick(rng, tier, SEQS, ["-", ",", sd, delim]))
    return "nc.seq %s %s %s" % (hx(s), hx(delim), hx(sd))


CT_NAMES = ["a", "b", "x", "y", "f", "g", "h"]           # the functions the harness registers (f, g, h: plain / first / second order)


def formula(rng, depth=0):
    ops = [c for c in RD["formula_chars"] if c not in "()"] or ["+"]
    def factor(d):
        r = rng.random()
        if d > 3 or r < 0.35:
            return rng.choice(CT_NAMES + ["1", "2.5", "1e-3", "0", "10", "z", "1e", ".", ""])
        if r < 0.55:
            return "(" + expr(d + 1) + ")"
        if r < 0.7:
            return "-" + factor(d + 1)
        if r < 0.9:
            return rng.choice(RD["formula_funcs"] + RD["formula_funcs"] + ["sin", "f", ""]) + "(" + expr(d + 1) + ")"
        return "((" + expr(d + 1) + "))"
    def expr(d):
        out = factor(d)
        for _ in range(rng.choice([0, 0, 1, 1, 2, 3])):
            out += rng.choice(ops) + factor(d)
        return out
    return expr(depth)


def g_ct(rng, tier):
    r = rng.random()
    if r < 0.6:
        f = formula(rng)
        if rng.random() < 0.3:
            f = mutate(rng, f, RD["formula_chars"] + [x + "(" for x in RD["formula_funcs"]] + [" "], 300, n=rng.choice([1, 1, 2]))
        if rng.random() < 0.2:
            f = " ".join(f)
    elif r < 0.7:
        n = rng.choice([10, 50, 200, 800, 4000] if tier == "thorough" else [10, 50, 200])
        f = rng.choice(["(" * (n // 2) + "a" + ")" * (n // 2), "-" * n + "a", "+".join(["a"] * (n // 2)), "*".join(["b"] * (n // 2)), "exp(" * (n // 5) + "1" + ")" * (n // 5),
                        "(" * n, ")" * n, "a" + "+(" * (n // 2)])[:4096]          # nesting as deep as 4 KiB allow
    else:
        f = pick(rng, tier, FORMULAS, RD["formula_chars"] + ["x", "1", "exp(", "log("])
    return "ct.parse %s" % hx(f)


def readers_universe():
    """small exhaustive universes for the list grammars of the readers"""
    ops = []
    head = "Simple(values=(1,2),probas=(0.5,0.5),ranges=("
    toks = ["V1[0;2]", "V2[1;3]", ",", " ", "V", "[", ";", "]", "1"]
    for n in range(0, 4):
        for t in itertools.product(toks, repeat=n):
            if n == 3 and t.count(",") == 0 and " " not in t:
                continue
            ops.append("dd.read %s 1" % hx(head + "".join(t) + "))"))
    for arg in ("values", "probas"):
        for n in range(0, 5):
            for t in itertools.product("1, .", repeat=n):
                other = "probas=(1)" if arg == "values" else "values=(1)"
                ops.append("dd.read %s 0" % hx("Simple(%s=(%s),%s)" % (arg, "".join(t), other)))
    for n in range(0, 4):
        for t in itertools.product(["1", "0.5", ",", " ", "x"], repeat=n):
            ops.append("dd.read %s 1" % hx("Mixture(probas=(%s),dist1=Constant(value=1),dist2=Constant(value=2))" % "".join(t)))
    # list arguments of one character (listContent_ needs two), the other arguments being valid
    for v in ("x", "1", " ", "[", "V"):
        ops.append("dd.read %s 1" % hx("Simple(values=(1,2),probas=(0.5,0.5),ranges=%s)" % v))
        ops.append("dd.read %s 1" % hx("Simple(values=%s,probas=(1))" % v))
        ops.append("dd.read %s 1" % hx("Simple(values=(1),probas=%s)" % v))
        ops.append("dd.read %s 1" % hx("Mixture(probas=%s,dist1=Constant(value=1))" % v))
    # every argument name of the reader once with every distribution name, alone and with n
    for d in RD["dist_names"]:
        for k in RD["dist_all_args"] + [f + "1" for f in RD["dist_numbered"]]:
            for v in ("1", "", "(1)", "Constant(value=1)"):
                ops.append("dd.read %s 1" % hx("%s(%s=%s)" % (d, k, v)))
                ops.append("dd.read %s 1" % hx("%s(n=2,%s=%s)" % (d, k, v)))
    # sequences and vectors at the limits (a handful: each one that reaches the cap costs 10^7 rounds)
    for a, b in (("2147483646", "2147483647"), ("-2147483648", "-2147483647"), ("2147483647", "2147483646"), ("-2147483648", "2147483647"),
                 ("2147483647", "-2147483648"), ("0", "2147483647"), ("-2147483648", "5"), ("0", "9999999"), ("0", "10000000"), ("1", "10000000"), ("5", "5")):
        ops.append("nc.seq %s %s %s" % (hx(a + ":" + b), hx(","), hx(":")))
    ops.append("nc.seq %s %s %s" % (hx("0:9999998,1,2"), hx(","), hx(":")))
    ops.append("nc.seq %s %s %s" % (hx("0:9999998,1:2"), hx(","), hx(":")))
    for v in ("seq(from=0,to=1e18,step=1)", "seq(from=0,to=1,size=2147483647)", "seq(from=0,to=1,size=10000001)", "seq(from=0,to=1,size=10000000)",
              "seq(from=1e16,to=10000000000000100,step=1)", "seq(from=0,to=1,step=1e-30)", "seq(from=0,to=9999999,step=1)", "seq(from=0,to=10000000,step=1)",
              "seq(from=0,to=1,size=-2147483648)", "seq(from=1e300,to=-1e300,size=3)", "seq(from=-1e300,to=1e300,size=3,scale=exp)"):
        ops.append("nc.vec %s" % hx(v))
    for sc in RD["vec_scales"] + ["foo"]:
        ops.append("nc.vec %s" % hx("seq(from=1,to=3,step=1,scale=%s)" % sc))
        ops.append("nc.vec %s" % hx("seq(from=1,to=3,size=3,scale=%s)" % sc))
    for ks in itertools.product([0, 1], repeat=len(RD["vec_keys"])):
        args = [k + "=" + {"scale": RD["vec_scales"][0]}.get(k, "2") for k, on in zip(RD["vec_keys"], ks) if on]
        ops.append("nc.vec %s" % hx("seq(" + ",".join(args) + ")"))
    return ops


def exhaustive(tier):
    """small universes around the special characters of each entry point"""
    ops = []
    L = 5 if tier == "thorough" else 4
    for n in range(L + 1):
        for t in itertools.product("a, ", repeat=n):
            s = "".join(t)
            for solid in (0, 1):
                for allow in (0, 1):
                    ops.append("st %s %s %d %d n.u.e.u" % (hx(s), hx(","), solid, allow))
    for n in range(L + 1):
        for t in itertools.product("a,()", repeat=n):
            s = "".join(t)
            ops.append("nst %s %s %s %s 0 n.n" % (hx(s), hx("("), hx(")"), hx(",")))
            ops.append("nst %s %s %s %s 1 n.n" % (hx(s), hx("("), hx(")"), hx(",")))
            ops.append("kv.parse %s" % hx(s))
            ops.append("tt.rmsub %s %s %s" % (hx(s), hx("("), hx(")")))
            ops.append("tt.rmsub5 %s %s %s 1 %s 1 %s" % (hx(s), hx("("), hx(")"), hx("a("), hx(")a")))
    for n in range(L + 1):
        for t in itertools.product("a=, ", repeat=n):
            s = "".join(t)
            ops.append("kv.multi %s %s 0" % (hx(s), hx(",")))
            ops.append("kv.multi %s %s 1" % (hx(s), hx(",")))
            ops.append("kv.change %s %s 1 1 %s %s" % (hx("f(" + s + ")"), hx(","), hx("a"), hx("Z")))
    for n in range(L + 1):
        for t in itertools.product("a/.", repeat=n):
            s = "".join(t)
            ops += ["ft.name %s %s" % (hx(s), hx("/")), "ft.parent %s %s" % (hx(s), hx("/")), "ft.ext %s" % hx(s)]
    for n in range(L + 1):
        for t in itertools.product("a#/*\n", repeat=n):
            s = "".join(t)
            for b, e in (("#", "\n"), ("//", "\n"), ("/*", "*/")):
                ops.append("at.rmc %s %s %s" % (hx(s), hx(b), hx(e)))
    # every pair of marks over a small alphabet (refused when one starts with the other), on a few texts
    marks = ["".join(t) for n in range(0, 3) for t in itertools.product("a/*", repeat=n)]
    for b in marks:
        for e in marks:
            for s in ("", "a", "a/*a*/a", "/*/", "*//*a", "aa/a*a/*"):
                ops.append("at.rmc %s %s %s" % (hx(s), hx(b), hx(e)))
    for n in range(3):
        for t in itertools.product(["a=b", "\\", "", "c\\", "#x"], repeat=n):
            ops.append("at.map %s %d%s" % (hx("="), len(t), "".join(" " + hx(l) for l in t)))
    for n in range(L + 1):
        for t in itertools.product("[;1]", repeat=n):
            ops.append("ic.read %s" % hx("".join(t)))
    for n in range(L + 3):
        for t in itertools.product("a,\n", repeat=n):
            s = "".join(t)
            if n <= L or s.count("\n") >= 2:
                ops.append("dt.read %s %s %d %d" % (hx(s), hx(","), n % 2, (n % 3) - 1))
    ops += rmsub5_universe()
    ops += readers_universe()
    for m in INT_EDGES + ["0", "1", "5", "000"]:
        for sg in ("", "-"):
            for e in ("", "e0", "e1", "e+1", "e9", "e10", "e11", "e12", "e010", "e0000000000000000000000001", "e99999999999", "e9999999999999999999",
                      "e99999999999999999999", "e" + "9" * 25, "e-1", "e+", "e"):
                ops.append("tt.num %s %s %s" % (hx(sg + m + e), hx("."), hx("e")))
    for t in itertools.product(["a", "=", ",", "a=1"], repeat=5):
        if t.count("=") >= 2 and t.count(",") >= 1:
            ops.append("kv.multi %s %s %d" % (hx("".join(t)), hx(","), len(t[0]) % 2))
            ops.append("kv.change %s %s %d 1 %s %s" % (hx("f(" + "".join(t) + ")"), hx(","), len(t[1]) % 2, hx("a"), hx("Z")))
    for n in range(0, 9):
        for k in (0, 1, 2, 3, 4, 5, 8, 9):
            ops.append("tt.split %s %d" % (hx("abcdefgh"[:n]), k))
            ops.append("tt.resizeL %s %d %s" % (hx("abcdefgh"[:n]), k, hx(".")))
            ops.append("tt.resizeR %s %d %s" % (hx("abcdefgh"[:n]), k, hx(".")))
    return ops


TRUNCEXP = "TruncExponential".encode().hex()


FUZZ_INFO = {}


def fuzz_cases(seed, tier):
    """thorough tier: the coverage-guided stage (tools/gen_c16_fuzz.py) — what libFuzzer found is
    replayed as ordinary operations"""
    import os, sys, importlib.util
    if tier != "thorough":
        FUZZ_INFO.update({"fuzz_status": "quick tier: not run"})
        return []
    secs = int(os.environ.get("VERIF_C16_FUZZ_S", "150"))
    here = os.path.dirname(os.path.dirname(os.path.abspath(__file__)))
    spec = importlib.util.spec_from_file_location("gen_c16_fuzz", os.path.join(here, "tools", "gen_c16_fuzz.py"))
    fz = importlib.util.module_from_spec(spec)
    spec.loader.exec_module(fz)
    try:
        import types
        ops, info = fz.run(types.SimpleNamespace(**{k: v for k, v in globals().items() if k.isupper()}), seed, secs)
    except Exception as e:          # the search stage must never break the check
        ops, info = [], {"fuzz_status": "error: %r" % (e,)}
    FUZZ_INFO.clear(); FUZZ_INFO.update(info)
    alone = [l for k, l in ops if k == "artifact" or l.startswith("at.vars")]
    rest = [l for k, l in ops if not (k == "artifact" or l.startswith("at.vars"))]
    return [["case fuzz-single%d" % i, l] for i, l in enumerate(alone)] + chunk("fuzz", rest, 150)


def generate(seed, tier):
    rng = random.Random(seed)
    n = 50000 if tier == "thorough" else 20000
    fams = [(g_tt, 5), (g_st, 4), (g_nst, 3), (g_kv, 3), (g_glob, 1), (g_at, 3), (g_ft, 1), (g_ic, 1), (g_dt, 2), (g_dd, 2), (g_vec, 1), (g_seq, 1), (g_ct, 1), (g_dte, 2), (g_opts, 1), (g_apvec, 1)]
    tot = sum(w for _, w in fams)
    cases = []
    # the extra batches of check.py's directed search (seed * 1000 + k) do not repeat the fixed universes
    if seed < 1000:
        cases += chunk("exh", exhaustive(tier), 250)
    for f, w in fams:
        ops = [f(rng, tier) for _ in range(n * w // tot)]
        # at.vars can hit the known non-termination finding: one op per case (a case is judged up to its first issue)
        def alone(o):
            return o.startswith("at.vars") or (o.startswith("dd.read") and TRUNCEXP in o)
        single = [o for o in ops if alone(o)]
        ops = [o for o in ops if not alone(o)]
        cases += chunk(f.__name__[2:], ops, 150)
        cases += [["case %s-single%d" % (f.__name__[2:], i), o] for i, o in enumerate(single)]
    # doubling chains (audit round 2): a handful per run, each alone (their answers are tens of KiB)
    crng = random.Random(seed * 7919 + 13)
    for i in range(6):
        cases.append(["case chain%d" % i, g_chain(crng, tier)])
    for i, n in enumerate((12, 14)):
        m = doubling_chain(n)
        f = "\n".join("%s=%s" % kv for kv in sorted(m.items())) + "\n"
        cases.append(["case chain-opts%d" % i, "at.opts 1 %s 1 %s" % (hx("param=p0"), hx(f))])
    for a, b, ty in (("1", "2000000000", "i"), ("-2147483648", "2147483647", "i"), ("1e16", "10000000000000100", "d"), ("0", "10000000", "u"), ("0", "9999998", "i"), ("5", "1", "i")):
        cases.append(["case apvec-limit-%s-%s" % (a, b), "ap.vec %s %s %s %s" % (ty, hx(a + ":" + b), hx(","), hx(":"))])
    # the extra batches of check.py's directed search (seed * 1000 + k) do not re-run the fuzzer
    if seed < 1000:
        cases += fuzz_cases(seed, tier)
    return cases


def compare(op_line, impl, model):
    o = op_line.split()[0]
    if o in UNMODELLED:
        return True
    if o in ("at.vars", "at.varsE") and model.startswith("big"):
        return True          # acyclic definitions with an exponentially large expansion: the model is not run (Drive/C16.lean)
    if o == "dd.read":
        # the text stage of the reader is modelled: when the model says it raises, the call must raise the
        # library's exception; when it passes (`?…`) the unmodelled constructors decide (value or exception)
        if model.startswith("?"):
            return True
        return impl.split()[:1] == model.split()[:1]
    return " ".join(impl.split()) == " ".join(model.split())


def coverage_extra(cases, answers):
    cls = {}
    lens = {"<=16": 0, "<=256": 0, "<=1024": 0, "<=4096": 0}
    for c, a in zip(cases, answers):
        ops = [l for l in c if not l.startswith("case")]
        for l, r in zip(ops, a or []):
            fam = l.split()[0].split(".")[0]
            k = r.split()[0] if r.split() else ""
            k = k if k in ("exc:bpp", "exc:std", "ub", "hang", "skipped") else "value"
            cls.setdefault(fam, {}).setdefault(k, 0)
            cls[fam][k] += 1
            t = l.split()
            m = max((len(x) // 2 for x in t[1:] if x != "-"), default=0)
            for key, lim in (("<=16", 16), ("<=256", 256), ("<=1024", 1024), ("<=4096", 4096)):
                if m <= lim:
                    lens[key] += 1
                    break
    out = {"outcome_classes_by_family": cls, "longest_argument_length_histogram": lens}
    out.update(FUZZ_INFO)
    out["reader_dictionary"] = RD
    # guard coverage of every routine on the real C++ by the scripts that have just been run
    # (tools/c16_coverage.py: clang source-based coverage; evidence only, never the verdict)
    if os.environ.get("VERIF_C16_COV", "1") != "0" and len(cases) >= 50:
        try:
            cov = _load_tool("c16_coverage")
            res = cov.analyse(cov.run(cases))
            out["guard_coverage"] = {"summary": cov.summary(res), "per_routine": {
                label: {"status": v["status"], "calls": v["calls"], "guards": v["guards"], "two_sided": v["two_sided"],
                        "conditions_outcomes_taken": "%d/%d" % (v["outcomes_taken"], v["branch_outcomes"]),
                        "one_sided_open": ["%s [%s]" % (m["at"], m["missing"]) for m in v["one_sided"]],
                        "one_sided_unreachable": [m["at"] for m in v["one_sided_unreachable"]]}
                for label, v in res.items()}}
        except Exception as e:
            out["guard_coverage"] = {"status": "not measured: %r" % (e,)}
    return out
