"""Script generator for C06 (EigenValue.h, MatrixTools::pow(A,double)/exp).

Families follow the property's quantifier: random dense, symmetric, triangular, companion with
prescribed real / complex-pair spectra, rotation blocks, repeated eigenvalues (diagonalisable and
defective), graded (1e-6..1e6), zero / identity, plus near-symmetric (one ulp off), cyclic shifts
(the exceptional-shift path of hqr2) and Hessenberg inputs; n = 1..12; three storage classes.
Round 2 (driven by the branch counters of the kernels, see BRANCHES / props/C06.coverage.md): direct sums
and block-triangular compositions of all families, shifted cyclic blocks (single and repeated, c != 0),
defective and nearly defective matrices (Jordan blocks, nilpotent lower Jordan blocks, clustered
diagonals, sparse integer triangular), adjacent complex pairs with bit-identical imaginary parts,
reducible / strongly graded symmetric tridiagonal forms, sparse symmetric patterns, and a
permutation-similar variant of each.  Every decomposition is followed by `trace` (branch counters and the
records of the bookkeeping steps, replayed by the model).
All randomness comes from random.Random(seed)."""
import random, struct, math, re

STORAGE = ["row", "col", "lin"]


def hx(x):
    if x != x:
        return "nan"
    return "%016x" % struct.unpack("<Q", struct.pack("<d", float(x)))[0]


def dy(rng, bits=6, lim=64):
    """small dyadic number k / 2^bits, |k| <= lim"""
    return rng.randint(-lim, lim) / float(1 << bits)


def matmul(a, b):
    n, m, p = len(a), len(b), len(b[0])
    return [[sum(a[i][k] * b[k][j] for k in range(m)) for j in range(p)] for i in range(n)]


def eye(n):
    return [[1.0 if i == j else 0.0 for j in range(n)] for i in range(n)]


def transpose(a):
    return [list(r) for r in zip(*a)]


def unit_lower(rng, n, bits=3, lim=4):
    """unit lower triangular with small dyadic entries, and its exact inverse (also dyadic)"""
    L = eye(n)
    for i in range(n):
        for j in range(i):
            L[i][j] = dy(rng, bits, lim) if rng.random() < 0.5 else 0.0
    # inverse by forward substitution (exact in doubles: small dyadics)
    Li = eye(n)
    for j in range(n):
        for i in range(j + 1, n):
            Li[i][j] = -sum(L[i][k] * Li[k][j] for k in range(j, i))
    return L, Li


def perm_similarity(rng, a):
    n = len(a)
    p = list(range(n)); rng.shuffle(p)
    return [[a[p[i]][p[j]] for j in range(n)] for i in range(n)]


def poly_from_roots(real_roots, pairs):
    """coefficients (monic, highest first) of prod (x - r) * prod ((x-a)^2 + b^2)"""
    c = [1.0]
    def mul(c, q):
        out = [0.0] * (len(c) + len(q) - 1)
        for i, x in enumerate(c):
            for j, y in enumerate(q):
                out[i + j] += x * y
        return out
    for r in real_roots:
        c = mul(c, [1.0, -r])
    for (a, b) in pairs:
        c = mul(c, [1.0, -2 * a, a * a + b * b])
    return c


def companion(c):
    """companion matrix of the monic polynomial with coefficients c (highest first)"""
    n = len(c) - 1
    m = [[0.0] * n for _ in range(n)]
    for j in range(n):
        m[0][j] = -c[j + 1]
    for i in range(1, n):
        m[i][i - 1] = 1.0
    return m


# ---------------------------------------------------------------- families
def fam_dense(rng, n):
    if rng.random() < 0.5:
        return [[dy(rng) for _ in range(n)] for _ in range(n)]
    return [[rng.uniform(-1, 1) * 10 ** rng.randint(-1, 1) for _ in range(n)] for _ in range(n)]


def fam_symmetric(rng, n):
    full = rng.random() < 0.5
    a = [[0.0] * n for _ in range(n)]
    for i in range(n):
        for j in range(i, n):
            a[i][j] = a[j][i] = rng.uniform(-2, 2) if full else dy(rng)
    k = rng.random()
    if k < 0.15 and n > 2:      # tridiagonal symmetric
        for i in range(n):
            for j in range(n):
                if abs(i - j) > 1:
                    a[i][j] = 0.0
    elif k < 0.3 and n > 1:     # low rank + repeated eigenvalues: u u^T
        u = [dy(rng, 2, 8) for _ in range(n)]
        a = [[u[i] * u[j] for j in range(n)] for i in range(n)]
    elif k < 0.4:               # decoupled blocks (a zero off-diagonal row: the scale == 0 branch of tred2)
        h = n // 2
        for i in range(n):
            for j in range(n):
                if (i < h) != (j < h):
                    a[i][j] = 0.0
    return a


def fam_triangular(rng, n):
    up = rng.random() < 0.5
    a = [[0.0] * n for _ in range(n)]
    for i in range(n):
        for j in range(n):
            if i == j or (j > i) == up:
                a[i][j] = dy(rng) if rng.random() < 0.7 else rng.uniform(-3, 3)
    if rng.random() < 0.3:      # repeated diagonal entries
        v = dy(rng)
        for i in range(0, n, 2):
            a[i][i] = v
    return a


def fam_companion(rng, n):
    npairs = rng.randint(0, n // 2)
    nreal = n - 2 * npairs
    reals = [rng.choice([-1, 1]) * rng.uniform(0.3, 2.0) for _ in range(nreal)]
    pairs = [(rng.uniform(-1.5, 1.5), rng.uniform(0.2, 1.5)) for _ in range(npairs)]
    a = companion(poly_from_roots(reals, pairs))
    if rng.random() < 0.5:
        a = transpose(a)
    return a


def fam_rotation(rng, n):
    a = [[0.0] * n for _ in range(n)]
    i = 0
    while i < n:
        if i + 1 < n and rng.random() < 0.75:
            th = rng.uniform(0.05, 3.1); r = rng.choice([1.0, 1.0, 0.5, 2.0, rng.uniform(0.2, 3)])
            c, s = r * math.cos(th), r * math.sin(th)
            if rng.random() < 0.5:
                s = -s
            a[i][i] = c; a[i][i + 1] = -s; a[i + 1][i] = s; a[i + 1][i + 1] = c
            i += 2
        else:
            a[i][i] = dy(rng); i += 1
    k = rng.random()
    if k < 0.4:
        a = perm_similarity(rng, a)
    elif k < 0.8:
        L, Li = unit_lower(rng, n)
        a = matmul(matmul(L, a), Li)
    return a


def fam_repeated(rng, n):
    k = rng.random()
    lam = dy(rng, 2, 12)
    if k < 0.3:
        # diagonalisable: L diag(lam, lam, mu, mu, ...) L^-1
        vals = []
        while len(vals) < n:
            v = dy(rng, 2, 12); vals += [v] * rng.randint(2, 3)
        vals = vals[:n]
        L, Li = unit_lower(rng, n)
        d = [[vals[i] if i == j else 0.0 for j in range(n)] for i in range(n)]
        return matmul(matmul(L, d), Li)
    if k < 0.6:
        # defective: Jordan blocks
        a = [[0.0] * n for _ in range(n)]
        for i in range(n):
            a[i][i] = lam
            if i + 1 < n and rng.random() < 0.7:
                a[i][i + 1] = 1.0
        return a if rng.random() < 0.5 else perm_similarity(rng, a)
    if k < 0.8:
        # scalar multiple of the identity plus a nilpotent similarity
        a = [[lam if i == j else 0.0 for j in range(n)] for i in range(n)]
        if n > 1:
            a[rng.randrange(n)][rng.randrange(n)] += dy(rng, 3, 8)
        return a
    # all-ones (rank one, eigenvalue n and n-1 zeros), possibly scaled
    s = rng.choice([1.0, 0.5, -2.0])
    return [[s for _ in range(n)] for _ in range(n)]


def fam_graded(rng, n):
    # entries spanning 1e-6 .. 1e6
    k = rng.random()
    g = [10.0 ** (-6 + 12.0 * i / max(1, n - 1)) for i in range(n)]
    if rng.random() < 0.5:
        g.reverse()
    b = [[rng.uniform(-1, 1) for _ in range(n)] for _ in range(n)]
    if k < 0.35:      # row graded
        return [[g[i] * b[i][j] for j in range(n)] for i in range(n)]
    if k < 0.7:       # two-sided sqrt grading (symmetric when b is)
        for i in range(n):
            for j in range(i):
                b[i][j] = b[j][i]
        return [[math.sqrt(g[i]) * b[i][j] * math.sqrt(g[j]) for j in range(n)] for i in range(n)]
    # similarity grading D b D^-1 (same spectrum, badly scaled vectors)
    h = [10.0 ** (-3 + 6.0 * i / max(1, n - 1)) for i in range(n)]
    return [[h[i] * b[i][j] / h[j] for j in range(n)] for i in range(n)]


def fam_trivial(rng, n):
    k = rng.randrange(5)
    if k == 0:
        return [[0.0] * n for _ in range(n)]
    if k == 1:
        return eye(n)
    if k == 2:
        v = dy(rng)
        return [[v if i == j else 0.0 for j in range(n)] for i in range(n)]
    if k == 3:
        return [[dy(rng) if i == j else 0.0 for j in range(n)] for i in range(n)]
    # negative zero entries must not disturb the symmetry test
    return [[(-0.0 if (i + j) % 2 else 0.0) for j in range(n)] for i in range(n)]


def fam_nearsym(rng, n):
    a = fam_symmetric(rng, n)
    if n > 1:
        i = rng.randrange(1, n); j = rng.randrange(0, i)
        # perturb one entry by one ulp: the dispatch must go to orthes/hqr2
        x = a[i][j]
        bits = struct.unpack("<Q", struct.pack("<d", x))[0]
        # (a zero entry becomes 2^-200, not the subnormal 2^-1074: subnormal entries make orthes
        # overflow — recorded as known finding C06-subnormal-entry, witness in corpus/C06/)
        a[i][j] = struct.unpack("<d", struct.pack("<Q", bits + 1))[0] if x != 0 else 2.0 ** -200
    return a


def fam_cyclic(rng, n):
    # cyclic shift / permutation matrices: spectrum on the unit circle, hqr2 needs its ad hoc shifts
    p = list(range(n))
    if rng.random() < 0.5:
        p = p[1:] + p[:1]
    else:
        rng.shuffle(p)
    s = rng.choice([1.0, 1.0, 2.0, -0.5])
    return [[s if p[i] == j else 0.0 for j in range(n)] for i in range(n)]


def fam_hessenberg(rng, n):
    a = [[(dy(rng) if j >= i - 1 else 0.0) for j in range(n)] for i in range(n)]
    if rng.random() < 0.4 and n > 2:
        a[rng.randrange(1, n)][rng.randrange(0, n - 1)] = 0.0    # a zero sub-diagonal: deflation at start
    return a


def fam_skewblock(rng, n):
    """quasi upper triangular: 2x2 blocks [[a, b], [-c, a]] (b*c > 0: complex pair a +- i sqrt(bc)) with
    |b|/|c| spanning 1e-8..1e8, some pairs sharing their real part, real eigenvalues in between and
    below, random coupling above the blocks: the back-substitution of hqr2 crosses badly scaled
    blocks (its pivot choices matter)"""
    a = [[0.0] * n for _ in range(n)]
    i = 0
    shared = dy(rng, 3, 16)
    while i < n:
        if i + 1 < n and rng.random() < 0.6:
            re = shared if rng.random() < 0.5 else dy(rng, 3, 16)
            im = rng.uniform(0.2, 2.0)
            mode = rng.random()
            if mode < 0.4:       # |b| / |c| skewed, |b c| = im^2 (one huge entry)
                k = 10.0 ** rng.choice([-8, -6, -4, -2, 0, 0, 2, 4, 6, 8])
                b, c = im * k, im / k
            elif mode < 0.7:     # a tiny super-diagonal entry, everything else O(1)
                b, c = im * 10.0 ** -rng.randint(2, 9), im
            else:                # a tiny sub-diagonal entry
                b, c = im, im * 10.0 ** -rng.randint(2, 9)
            if rng.random() < 0.5:
                b, c = -b, -c
            a[i][i] = re; a[i][i + 1] = b; a[i + 1][i] = -c; a[i + 1][i + 1] = re
            i += 2
        else:
            a[i][i] = shared if rng.random() < 0.3 else dy(rng, 3, 16); i += 1
    for r in range(n):
        for c2 in range(r + 1, n):
            if a[r][c2] == 0.0 and not (c2 == r + 1 and a[c2][r] != 0.0):
                a[r][c2] = rng.uniform(-1, 1) if rng.random() < 0.8 else 0.0
    return a


def fam_weakcoupled(rng, n):
    """symmetric, the last row/column coupled to the rest only through entries of size 1e-7..1e-14
    (tred2's scale is tiny but not zero), possibly with a small overall norm"""
    a = fam_symmetric(rng, n)
    if n > 1:
        t = 10.0 ** -rng.randint(7, 14)
        for j in range(n - 1):
            v = t * rng.uniform(-1, 1)
            a[n - 1][j] = v; a[j][n - 1] = v
    return a


# ---------------------------------------------------------------- round-2 families (compositions)
def blockdiag(blocks):
    n = sum(len(b) for b in blocks)
    a = [[0.0] * n for _ in range(n)]
    o = 0
    for b in blocks:
        k = len(b)
        for i in range(k):
            for j in range(k):
                a[o + i][o + j] = b[i][j]
        o += k
    return a


def split_sizes(rng, n, parts, least=1):
    """n = k1 + .. + kp with every ki >= least (fewer parts when n is too small)"""
    parts = max(1, min(parts, n // least if least else parts))
    ks = [least] * parts
    for _ in range(n - least * parts):
        ks[rng.randrange(parts)] += 1
    return ks


def couple_upper(rng, a, ks, density=0.7, small=False):
    """fill the blocks above the block diagonal (sizes ks) with coupling entries"""
    starts = [sum(ks[:i]) for i in range(len(ks))]
    blk = []
    for b, k in enumerate(ks):
        blk += [b] * k
    n = len(a)
    for i in range(n):
        for j in range(n):
            if blk[j] > blk[i] and rng.random() < density:
                a[i][j] = dy(rng, 3, 16) if small else rng.choice([dy(rng), rng.uniform(-1, 1), 1.0, -0.5])
    return a


def cyc_block(k, c, s=1.0):
    """c I + s P, P the cyclic shift of size k (the companion matrix of x^k - 1)"""
    a = [[0.0] * k for _ in range(k)]
    for i in range(k):
        a[i][i] += c
        a[i][(i + 1) % k] += s
    return a


NONSYM_PARTS = None     # filled below (needs the family functions)
SYM_PARTS = None


def fam_dsum(rng, n):
    """direct sum of blocks drawn from all the families (non-symmetric unless every block is)"""
    ks = split_sizes(rng, n, rng.choice([2, 2, 3]))
    blocks = [rng.choice(NONSYM_PARTS)(rng, k) for k in ks]
    return blockdiag(blocks)


def fam_btri(rng, n):
    """block upper / lower triangular composition of the families with dense or sparse coupling"""
    ks = split_sizes(rng, n, rng.choice([2, 2, 3]))
    blocks = [rng.choice(NONSYM_PARTS)(rng, k) for k in ks]
    a = couple_upper(rng, blockdiag(blocks), ks, rng.choice([0.2, 0.7, 1.0]))
    return a if rng.random() < 0.6 else transpose(a)


def fam_symdsum(rng, n):
    """reducible symmetric matrices: direct sums of symmetric blocks (dense, tridiagonal, graded,
    weakly coupled, diagonal), a coupled pair followed / preceded by isolated diagonal entries"""
    k = rng.random()
    if k < 0.3 and n >= 3:
        # pair + isolated entries
        a = [[0.0] * n for _ in range(n)]
        for i in range(n):
            a[i][i] = dy(rng) if rng.random() < 0.6 else rng.uniform(-3, 3)
        p = rng.randrange(0, n - 1)
        a[p][p + 1] = a[p + 1][p] = rng.choice([1.0, dy(rng, 3, 16) or 0.5, rng.uniform(-2, 2)])
        if rng.random() < 0.4 and n >= 5:
            q = rng.choice([x for x in range(0, n - 1) if abs(x - p) >= 2])
            a[q][q + 1] = a[q + 1][q] = rng.uniform(-2, 2)
        return a
    ks = split_sizes(rng, n, rng.choice([2, 2, 3, 4]))
    return blockdiag([rng.choice(SYM_PARTS)(rng, kk) for kk in ks])


def sym_tridiag(rng, n):
    a = [[0.0] * n for _ in range(n)]
    for i in range(n):
        a[i][i] = rng.choice([dy(rng), rng.uniform(-2, 2), 2.0])
        if i + 1 < n:
            a[i][i + 1] = a[i + 1][i] = rng.choice([dy(rng) or 1.0, rng.uniform(-2, 2), -1.0])
    return a


def sym_graded(rng, n):
    """strongly graded symmetric (dense or tridiagonal): entries sqrt(g_i g_j) b_ij, g spanning up to
    1e-6..1e6 — the coupling of the tridiagonal form falls below eps * tst1 inside the matrix"""
    span = rng.choice([6.0, 9.0, 12.0])
    g = [10.0 ** (-span / 2 + span * i / max(1, n - 1)) for i in range(n)]
    if rng.random() < 0.5:
        g.reverse()
    tri = rng.random() < 0.4
    a = [[0.0] * n for _ in range(n)]
    for i in range(n):
        for j in range(i, n):
            if tri and j - i > 1:
                continue
            a[i][j] = a[j][i] = math.sqrt(g[i]) * rng.uniform(-1, 1) * math.sqrt(g[j])
    return a


def fam_redtridiag(rng, n):
    """reducible / nearly reducible symmetric tridiagonal forms: direct sums of tridiagonal blocks, zero
    and negligible (1e-17 .. 1e-20 relative) couplings strictly inside, strongly graded"""
    k = rng.random()
    if k < 0.35:
        return sym_graded(rng, n)
    a = sym_tridiag(rng, n)
    if n >= 3:
        for _ in range(rng.choice([1, 1, 2])):
            i = rng.randrange(0, n - 1)
            v = 0.0 if rng.random() < 0.6 else rng.choice([1e-17, 1e-18, 1e-20, -1e-19])
            a[i][i + 1] = a[i + 1][i] = v
    return a


def fam_sparsesym(rng, n):
    """sparse, exactly representable symmetric patterns on which a Householder step of tred2 meets an
    exactly zero sub-row after an earlier non-trivial step: X-shaped (diagonal + anti-diagonal),
    second-neighbour coupling (two interleaved chains), random 0/1 patterns, arrow matrices,
    adjacency-like matrices with an interleaved isolated 2x2 block"""
    k = rng.randrange(6)
    a = [[0.0] * n for _ in range(n)]
    if k == 0:      # X-shaped
        for i in range(n):
            a[i][i] = float(rng.randint(-3, 3))
            a[i][n - 1 - i] = a[n - 1 - i][i] = float(rng.choice([1, 2, -1])) if i != n - 1 - i else a[i][i]
    elif k == 1:    # second-neighbour coupling
        for i in range(n):
            a[i][i] = float(rng.randint(-2, 2))
            if i + 2 < n:
                a[i][i + 2] = a[i + 2][i] = float(rng.choice([1, 1, 2, -1]))
    elif k == 2:    # random sparse 0/1 (sometimes with a small integer diagonal)
        dens = rng.choice([0.15, 0.25, 0.4])
        for i in range(n):
            if rng.random() < 0.5:
                a[i][i] = float(rng.randint(-2, 2))
            for j in range(i + 1, n):
                if rng.random() < dens:
                    a[i][j] = a[j][i] = 1.0
    elif k == 3:    # arrow: diagonal + last (or first) row/column
        r = n - 1 if rng.random() < 0.5 else 0
        for i in range(n):
            a[i][i] = float(rng.randint(-3, 3))
            if i != r and rng.random() < 0.8:
                a[i][r] = a[r][i] = float(rng.choice([1, -1, 2]))
    elif k == 4:    # a chain with an interleaved isolated 2x2 block
        idx = list(range(n))
        if n >= 4:
            p, q = sorted(rng.sample(range(n), 2))
            rest = [i for i in idx if i not in (p, q)]
            a[p][q] = a[q][p] = 1.0
            for u, v in zip(rest, rest[1:]):
                a[u][v] = a[v][u] = 1.0
        for i in range(n):
            a[i][i] = float(rng.randint(-1, 1))
    else:           # sparse with dyadic weights
        for i in range(n):
            a[i][i] = dy(rng, 2, 8)
            for j in range(i + 1, n):
                if rng.random() < 0.2:
                    a[i][j] = a[j][i] = dy(rng, 2, 8)
    return a


def fam_shiftcyc(rng, n):
    """shifted cyclic blocks c I + s P (P = companion matrix of x^k - 1): the QR iteration of hqr2
    stagnates on them and takes its exceptional shifts; one block, or two / three blocks of size >= 3
    with non-zero c on the diagonal of a block-diagonal or block-triangular matrix (several exceptional
    shifts in ONE decomposition: the running total `exshift` matters)"""
    cs = [0.5, 1.0, 1.5, -0.75, 2.0, 0.25, -1.0, 3.0]
    if n < 6 or rng.random() < 0.25:
        a = cyc_block(n, rng.choice(cs + [0.0]), rng.choice([1.0, 1.0, 2.0, -0.5])) if n >= 2 else [[dy(rng)]]
        if n >= 3 and rng.random() < 0.3:
            a = transpose(a)
        return a
    parts = 3 if (n >= 9 and rng.random() < 0.4) else 2
    ks = split_sizes(rng, n, parts, 3)
    blocks = []
    for kk in ks:
        b = cyc_block(kk, rng.choice(cs), rng.choice([1.0, 1.0, 1.0, 2.0, -0.5]))
        if rng.random() < 0.2:
            b = transpose(b)
        blocks.append(b)
    a = blockdiag(blocks)
    r = rng.random()
    if r < 0.4:
        a = couple_upper(rng, a, ks, rng.choice([0.3, 1.0]))
    elif r < 0.5:
        a = transpose(couple_upper(rng, a, ks, 0.5))
    return a


def fam_defective(rng, n):
    """defective and nearly defective matrices: upper / lower Jordan blocks (also nilpotent ones and
    direct sums of them), triangular matrices whose diagonal entries are repeated or 1e-9 .. 1e-14 apart,
    sparse lower triangular small-integer matrices (hqr2 reaches its second exceptional shift, iter == 30)"""
    k = rng.random()
    a = [[0.0] * n for _ in range(n)]
    if k < 0.08 and n >= 3:
        # a nilpotent (or singular) lower Jordan block of size >= 3 next to a diagonal / triangular rest
        # (the trailing diagonal entry of the Hessenberg form is exactly 0: the shift x = H(n,n) is 0)
        kk = rng.randint(3, n)
        off = rng.choice([1.0, -1.0, 0.5, 3.0, 2.0])
        o = rng.choice([0, n - kk])
        for t in range(kk - 1):
            a[o + t + 1][o + t] = off
        for i in range(n):
            if not (o <= i < o + kk):
                a[i][i] = rng.choice([1.0, -1.0, 2.0, dy(rng, 2, 12)])
                for j in range(i):
                    if not (o <= j < o + kk) and rng.random() < 0.4:
                        a[i][j] = float(rng.choice([-1, 1]))
        if n == kk and rng.random() < 0.3:
            a[0][0] = rng.choice([1.0, -1.0])
        return a
    if k < 0.3 and n >= 3:
        # multiple roots in Hessenberg form: the QR iteration converges only linearly on a defective
        # eigenvalue, 30 iterations pass without a deflation and hqr2 takes its second exceptional shift
        # (iter == 30).  Companion matrices of (x - a)^k (x - b)^(n-k), and L J L^-1 for a Jordan matrix J
        if n >= 6 and rng.random() < 0.65:
            # (x^2 - r^2)^k times a few simple roots: k-fold roots r and -r
            kk = rng.randint(3, n // 2)
            r0 = rng.choice([1.0, 0.5, 2.0, 1.5, 0.75, 3.0])
            extra = [rng.choice([0.0, 2.5, -0.5, 0.0]) for _ in range(n - 2 * kk)]
            c = companion(poly_from_roots([r0] * kk + [-r0] * kk + extra, []))
            return c if rng.random() < 0.6 else transpose(c)
        if rng.random() < 0.3:
            kk = rng.randint(1, n - 1)
            ra, rb = rng.choice([(1.0, -1.0), (0.5, -1.0), (2.0, 1.0), (1.0, 0.5)])
            c = companion(poly_from_roots([ra] * kk + [rb] * (n - kk), []))
            return c if rng.random() < 0.7 else transpose(c)
        lam = rng.choice([1.0, 0.5, -1.0, 2.0, 0.0])
        for i in range(n):
            a[i][i] = lam
            if i + 1 < n:
                a[i][i + 1] = 1.0
        L, Li = unit_lower(rng, n)
        return matmul(matmul(L, a), Li)
    if k < 0.4:
        # Jordan blocks, upper or lower, eigenvalues from a small set (0 included)
        lower = rng.random() < 0.5
        i = 0
        while i < n:
            kk = min(n - i, rng.choice([1, 2, 3, 4, n]))
            lam = rng.choice([0.0, 0.0, 1.0, -1.0, 0.5, 2.0, dy(rng, 2, 12)])
            off = rng.choice([1.0, 1.0, -1.0, 0.5])
            for t in range(kk):
                a[i + t][i + t] = lam
                if t + 1 < kk:
                    if lower:
                        a[i + t + 1][i + t] = off
                    else:
                        a[i + t][i + t + 1] = off
            i += kk
        return a
    if k < 0.6:
        # triangular, diagonal entries repeated or nearly repeated
        base = [dy(rng, 2, 12) for _ in range(max(1, n // 2))]
        up = rng.random() < 0.6
        for i in range(n):
            v = rng.choice(base)
            if rng.random() < 0.5:
                v = v + rng.choice([1e-9, 1e-10, 1e-12, 1e-14, -1e-11]) * (1.0 + abs(v))
            a[i][i] = v
            for j in range(n):
                if (j > i) == up and j != i and rng.random() < 0.7:
                    a[i][j] = rng.choice([dy(rng), rng.uniform(-2, 2), 1.0])
        return a
    if k < 0.85:
        # sparse lower triangular with entries in {-1, 0, 1}
        z = rng.choice([0.5, 0.6, 0.75])
        for i in range(n):
            for j in range(i + 1):
                if rng.random() > z:
                    a[i][j] = float(rng.choice([-1, 1]))
        if all(a[i][j] == a[j][i] for i in range(n) for j in range(n)) and n > 1:
            a[n - 1][0] = 1.0
        return a
    # small integer Hessenberg / companion matrices
    if rng.random() < 0.5:
        c = [float(rng.randint(-2, 2)) for _ in range(n)]
        for j in range(n):
            a[0][j] = c[j]
        for i in range(1, n):
            a[i][i - 1] = 1.0
    else:
        a = [[float(rng.randint(-2, 2)) if j >= i - 1 else 0.0 for j in range(n)] for i in range(n)]
    return a


def fam_eqpairs(rng, n):
    """adjacent complex-conjugate pairs with bit-identical imaginary parts: rotation blocks with a common
    angle, blocks [a_k -b; b a_k] with a common b (real parts equal or not), the real representation
    [aI -bI; bI aI] of a complex scalar matrix; decoupled, coupled above the blocks (defective complex
    pairs when the blocks are identical), a real eigenvalue before / after / never between them"""
    m = n // 2
    if m == 0:
        return [[dy(rng)]]
    k = rng.random()
    dyadic = rng.random() < 0.6
    b = (abs(dy(rng, 3, 16)) + 0.125) if dyadic else rng.uniform(0.2, 2.0)
    if k < 0.25 and n % 2 == 0:
        # real representation of (a + i b) I_m
        a0 = dy(rng, 3, 16) if dyadic else rng.uniform(-1.5, 1.5)
        a = [[0.0] * n for _ in range(n)]
        for i in range(m):
            a[i][i] = a0; a[m + i][m + i] = a0
            a[i][m + i] = -b; a[m + i][i] = b
        return a
    blocks = []
    same_re = rng.random() < 0.5
    a0 = dy(rng, 3, 16) if dyadic else rng.uniform(-1.5, 1.5)
    if k < 0.5:
        # common angle: r_k (cos t, sin t) with r_k = 1 (bit-identical blocks) or the same block repeated
        th = rng.uniform(0.1, 3.0)
        c0, s0 = math.cos(th), math.sin(th)
        for _ in range(m):
            blocks.append([[c0, -s0], [s0, c0]])
    else:
        for _ in range(m):
            ak = a0 if same_re else (dy(rng, 3, 16) if dyadic else rng.uniform(-1.5, 1.5))
            sg = 1.0 if rng.random() < 0.8 else -1.0
            blocks.append([[ak, -sg * b], [sg * b, ak]])
    ks = [2] * m
    if n % 2 == 1:
        one = [[dy(rng, 3, 16)]]
        if rng.random() < 0.5:
            blocks.append(one); ks.append(1)
        else:
            blocks.insert(0, one); ks.insert(0, 1)
    a = blockdiag(blocks)
    r = rng.random()
    if r < 0.45:
        a = couple_upper(rng, a, ks, rng.choice([0.3, 0.8, 1.0]), small=dyadic)
    elif r < 0.55:
        a = transpose(couple_upper(rng, a, ks, 0.5, small=dyadic))
    return a


def fam_skew(rng, n):
    """skew-symmetric matrices (dense, tridiagonal, sparse) and matrices with an identically zero diagonal
    built from quarter-turn blocks [[0, -b], [b, 0]]: their diagonal stays zero under orthogonal
    similarities, so hqr2 works with the shift x = H(n,n) = 0 throughout (fixed finding: the unrepaired
    double QR step skipped every sweep with x == 0 and did not terminate)"""
    k = rng.random()
    a = [[0.0] * n for _ in range(n)]
    if k < 0.6:
        tri = rng.random() < 0.4
        dens = rng.choice([0.4, 0.7, 1.0])
        for i in range(n):
            for j in range(i + 1, n):
                if (tri and j - i > 1) or rng.random() > dens:
                    continue
                v = rng.choice([1.0, -1.0, 2.0, dy(rng, 3, 16), rng.uniform(-2, 2)])
                a[i][j] = v; a[j][i] = -v
        if rng.random() < 0.25 and n > 1:
            a[rng.randrange(n)][rng.randrange(n)] += dy(rng, 3, 8)     # one entry off skew-symmetry
        return a
    # quarter-turn blocks, possibly repeated, with coupling and isolated real eigenvalues, permuted
    blocks = []
    r = n
    bs = [rng.choice([1.0, 1.375, 0.5, 2.0]) for _ in range(2)]
    while r > 0:
        if r >= 2 and rng.random() < 0.65:
            b = rng.choice(bs) * rng.choice([1, -1])
            blocks.append([[0.0, -b], [b, 0.0]]); r -= 2
        else:
            blocks.append([[rng.choice([0.0, 0.0, 0.375, 1.5, -1.0])]]); r -= 1
    ks = [len(b) for b in blocks]
    a = blockdiag(blocks)
    if rng.random() < 0.7:
        a = couple_upper(rng, a, ks, rng.choice([0.3, 0.6]))
    return perm_similarity(rng, a)


def fam_slowconv(rng, n):
    """matrices on which the QR iteration of hqr2 goes 30 iterations without a deflation (its second,
    'MATLAB' exceptional shift): companion matrices of (x^2 - r^2)^k q(x) (k-fold roots r and -r),
    L J L^-1 for a Jordan block J, identical complex pairs with coupling"""
    a = [[0.0] * n for _ in range(n)]
    k = rng.random()
    if n >= 6 and k < 0.5:
        kk = rng.randint(3, n // 2)
        r0 = rng.choice([1.0, 0.5, 2.0, 1.5, 0.75, 3.0])
        extra = [rng.choice([0.0, 2.5, -0.5, 0.0]) for _ in range(n - 2 * kk)]
        c = companion(poly_from_roots([r0] * kk + [-r0] * kk + extra, []))
        return c if rng.random() < 0.6 else transpose(c)
    if n >= 3 and k < 0.7:
        lam = rng.choice([1.0, 0.5, -1.0, 2.0, 0.0])
        for i in range(n):
            a[i][i] = lam
            if i + 1 < n:
                a[i][i + 1] = 1.0
        L, Li = unit_lower(rng, n)
        return matmul(matmul(L, a), Li)
    return perm_similarity(rng, fam_eqpairs(rng, n)) if rng.random() < 0.5 else fam_skew(rng, n)


def permuted(fn):
    """a permutation-similar variant P^T A P of the family (symmetry is preserved)"""
    def g(rng, n):
        return perm_similarity(rng, fn(rng, n))
    return g


def gen_scales(rng, big):
    """(audit round 2, F1) the scale of the input.  `widescale`: the families under an overall factor
    10^k, 7 <= |k| <= 140, and O(1) matrices with one entry of size 1e±(20..140): inside the range stated in
    props/C06.json `assumptions`, judged like every other decomposition.  `extreme`: factors 10^±(150..307)
    and single entries of that size: products of two entries overflow / underflow in the kernels; the
    library hangs, returns NaN or a wrong spectrum there (known findings C06-extreme-scale-*); few cases,
    each may cost the watchdog's timeout.  Only `mat`, `eig` (no trace / getD after a NaN or a hang)."""
    cases = []
    base = [fam_dense, fam_symmetric, sym_tridiag, fam_triangular, fam_companion, fam_rotation, fam_hessenberg]
    nw = 300 if big else 36
    for i in range(nw):
        n = pick_n(rng)
        a = rng.choice(base)(rng, n)
        if i % 3 == 2 and n > 1:
            r, c = rng.randrange(n), rng.randrange(n)
            v = 10.0 ** (rng.choice([-1, 1]) * rng.randint(20, 140)) * rng.uniform(1, 2)
            a[r][c] = v
            if all(a[x][y] == a[y][x] for x in range(n) for y in range(n) if (x, y) not in ((r, c), (c, r))) and rng.random() < 0.5:
                a[c][r] = v
        else:
            sc = 10.0 ** (rng.choice([-1, 1]) * rng.randint(7, 140))
            a = [[x * sc for x in row] for row in a]
        cases.append(["case widescale-%d-%d %s" % (n, i, STORAGE[i % 3]), mat_line(a), "eig", "trace", "getD"])
    ne = 30 if big else 12
    for i in range(ne):
        n = rng.choice([2, 3, 3, 4, 5, 6])
        a = rng.choice([fam_dense, fam_symmetric, sym_tridiag])(rng, n)
        kind = i % 4
        if kind == 0:
            sc = 10.0 ** rng.randint(153, 307)
            a = [[x * sc for x in row] for row in a]
        elif kind == 1:
            sc = 10.0 ** -rng.randint(160, 300)
            a = [[x * sc for x in row] for row in a]
        elif kind == 2:
            a[rng.randrange(n)][rng.randrange(n)] = 10.0 ** rng.randint(155, 300)
        else:
            sc = 10.0 ** rng.choice([155, 200, 307])
            a = [[x * sc for x in row] for row in sym_tridiag(rng, n)]
        cases.append(["case extreme-%d-%d %s" % (n, i, STORAGE[i % 3]), mat_line(a), "eig"])
    return cases


def rescaled(fn):
    """the same family under an overall scaling 10^k, k in -6..6 (half of the time)"""
    def g(rng, n):
        a = fn(rng, n)
        if rng.random() < 0.5:
            s = 10.0 ** rng.randint(-6, 6)
            a = [[x * s for x in r] for r in a]
        return a
    return g


FAMILIES = [("dense", fam_dense, 3), ("symmetric", fam_symmetric, 3), ("triangular", fam_triangular, 1),
            ("companion", fam_companion, 2), ("rotation", fam_rotation, 2), ("repeated", fam_repeated, 2),
            ("graded", fam_graded, 2), ("trivial", fam_trivial, 1), ("nearsym", fam_nearsym, 1),
            ("cyclic", fam_cyclic, 1), ("hessenberg", fam_hessenberg, 1),
            ("skewblock", fam_skewblock, 2), ("weakcoupled", fam_weakcoupled, 1),
            ("scaleddense", rescaled(fam_dense), 1), ("scaledrepeated", rescaled(fam_repeated), 1),
            ("scaledtriangular", rescaled(fam_triangular), 1), ("scaledsymmetric", rescaled(fam_symmetric), 1),
            ("scaledweakcoupled", rescaled(fam_weakcoupled), 1),
            # round 2: compositions and the structures the kernels' rare branches need
            ("dsum", fam_dsum, 2), ("btri", fam_btri, 2), ("symdsum", fam_symdsum, 2),
            ("redtridiag", fam_redtridiag, 2), ("sparsesym", fam_sparsesym, 2),
            ("shiftcyc", fam_shiftcyc, 2), ("defective", fam_defective, 2), ("eqpairs", fam_eqpairs, 2),
            ("permdsum", permuted(fam_dsum), 1), ("permbtri", permuted(fam_btri), 1),
            ("permsymdsum", permuted(fam_symdsum), 1), ("permredtridiag", permuted(fam_redtridiag), 1),
            ("permsparsesym", permuted(fam_sparsesym), 1), ("permshiftcyc", permuted(fam_shiftcyc), 1),
            ("permdefective", permuted(fam_defective), 1), ("permeqpairs", permuted(fam_eqpairs), 1),
            ("scaledshiftcyc", rescaled(fam_shiftcyc), 1), ("scaledeqpairs", rescaled(fam_eqpairs), 1),
            ("skew", fam_skew, 2), ("scaledskew", rescaled(fam_skew), 1), ("slowconv", fam_slowconv, 2)]

# the blocks of the compositions: every family above (the symmetric ones are listed separately: a direct
# sum is symmetric iff all its blocks are)
SYM_PARTS = [fam_symmetric, fam_symmetric, sym_tridiag, sym_tridiag, sym_graded, fam_weakcoupled, fam_sparsesym,
             lambda rng, n: [[(dy(rng) if i == j else 0.0) for j in range(n)] for i in range(n)]]
NONSYM_PARTS = [fam_dense, fam_symmetric, fam_triangular, fam_companion, fam_rotation, fam_repeated, fam_graded,
                fam_trivial, fam_cyclic, fam_hessenberg, fam_skewblock, fam_shiftcyc, fam_defective, fam_eqpairs,
                sym_tridiag, fam_sparsesym, fam_skew]


# matrices on which pow / exp are in the property's scope: diagonalisable with real spectrum
def glue_matrix(rng, n):
    k = rng.random()
    if k < 0.45:
        # symmetric positive definite with small dyadic entries: B B^T / 8 + I/2
        b = [[float(rng.randint(-2, 2)) for _ in range(n)] for _ in range(n)]
        bt = transpose(b)
        m = matmul(b, bt)
        return "spd", [[m[i][j] / 8.0 + (0.5 if i == j else 0.0) for j in range(n)] for i in range(n)]
    if k < 0.65:
        return "symdy", [[x / 4.0 for x in row] for row in _sym_small(rng, n)]
    # L diag(distinct positive dyadics) L^-1
    vals = rng.sample([x / 4.0 for x in range(1, 17)], n) if n <= 16 else None
    L, Li = unit_lower(rng, n, 1, 1)
    d = [[vals[i] if i == j else 0.0 for j in range(n)] for i in range(n)]
    return "simdiag", matmul(matmul(L, d), Li)


def _sym_small(rng, n):
    a = [[0.0] * n for _ in range(n)]
    for i in range(n):
        for j in range(i, n):
            a[i][j] = a[j][i] = float(rng.randint(-3, 3))
    return a


def mat_line(a):
    nr = len(a); nc = len(a[0]) if nr else 0
    return "mat %d %d " % (nr, nc) + " ".join(hx(x) for r in a for x in r)


def pick_n(rng):
    # all of 1..12, small sizes a little more often
    return rng.choice([1, 2, 2, 3, 3, 4, 4, 5, 5, 6, 6, 7, 8, 8, 9, 10, 11, 12, 12])


def rand_double(rng, wide):
    m = rng.uniform(1, 2) * rng.choice([-1, 1])
    e = rng.randint(-60, 60) if wide else rng.randint(-3, 3)
    return m * 2.0 ** e


def gen_cdiv(rng, count):
    ops = []
    specials = [0.0, -0.0, 1.0, -1.0, 0.5, 2.0, 3.0]
    for i in range(count):
        r = rng.random()
        if r < 0.15:
            v = [rng.choice(specials) for _ in range(4)]
        elif r < 0.3:
            # |yr| == |yi| exactly: the boundary between the two branches
            y = rand_double(rng, False)
            v = [rand_double(rng, False), rand_double(rng, False), y, y * rng.choice([-1, 1])]
        elif r < 0.4:
            # y == 0: outside cdiv_spec's hypothesis, still tied bit-for-bit (NaN / inf answers)
            v = [rand_double(rng, False), rand_double(rng, False), rng.choice([0.0, -0.0]), rng.choice([0.0, -0.0])]
        elif r < 0.5:
            v = [float(rng.randint(-9, 9)) for _ in range(4)]
        else:
            w = rng.random() < 0.3
            v = [rand_double(rng, w) for _ in range(4)]
        ops.append("cdiv " + " ".join(hx(x) for x in v))
    return ops


def wf_spectrum(rng, n):
    d, e = [], []
    while len(d) < n:
        if len(d) + 1 < n and rng.random() < 0.45:
            a, b = dy(rng), abs(dy(rng)) + 1.0 / 64
            d += [a, a]; e += [b, -b]
        else:
            d.append(dy(rng)); e.append(rng.choice([0.0, 0.0, -0.0]))
    return d, e


def generate(seed, tier):
    rng = random.Random(seed)
    big = tier == "thorough"
    cases = []
    # 1. cdiv
    ncd = 30000 if big else 3000
    ops = gen_cdiv(rng, ncd)
    for i in range(0, len(ops), 300):
        cases.append(["case cdiv-%d row" % i] + ops[i:i + 300])
    # 2. decompositions over the families of the quantifier
    per_weight = 400 if big else 36
    k = 0
    for name, fn, w in FAMILIES:
        for i in range(per_weight * w):
            n = pick_n(rng)
            st = STORAGE[k % 3]; k += 1
            a = fn(rng, n)
            ops = [mat_line(a), "eig", "trace", "getD"]
            if rng.random() < 0.12:
                ops.append("getD")      # getD is idempotent (D_ is a mutable cache)
            cases.append(["case %s-%d-%d %s" % (name, n, i, st)] + ops)
    # every size for the two main routes, every storage class
    for n in range(1, 13):
        for st in STORAGE:
            cases.append(["case dense-%d-all %s" % (n, st), mat_line(fam_dense(rng, n)), "eig", "trace", "getD"])
            cases.append(["case symmetric-%d-all %s" % (n, st), mat_line(fam_symmetric(rng, n)), "eig", "trace", "getD"])
    cases += gen_scales(rng, big)
    # 3. pow / exp on diagonalisable matrices with real spectrum; dimension check on non-square input
    ng = 2000 if big else 200
    for i in range(ng):
        n = rng.choice([1, 2, 2, 3, 3, 4, 4, 5, 6, 6, 7, 8]) if not big or i % 4 else rng.randint(9, 12)
        st = STORAGE[i % 3]
        kind, a = glue_matrix(rng, n)
        ops = [mat_line(a), "eig"]
        for _ in range(2):
            r = rng.random()
            if r < 0.3:
                ops.append("exp")
            else:
                if kind == "symdy":
                    p = float(rng.choice([0, 1, 2, 3, 4, 5]))
                else:
                    p = rng.choice([0.0, 1.0, 2.0, 3.0, 5.0, 8.0, -1.0, -2.0, 0.5, 0.5, 1.5, -0.5])
                ops.append("pow " + hx(p))
        cases.append(["case glue%s-%d-%d %s" % (kind, n, i, st)] + ops)
    for i in range(12 if big else 6):
        nr, nc = rng.randint(1, 4), rng.randint(1, 4)
        if nr == nc:
            nc += 1
        a = [[dy(rng) for _ in range(nc)] for _ in range(nr)]
        cases.append(["case nonsquare-%dx%d-%d %s" % (nr, nc, i, STORAGE[i % 3]), mat_line(a), "pow " + hx(2.0), "exp"])
    # complex spectra are outside pow/exp's scope (the code drops the imaginary parts): still tied
    for i in range(10 if big else 4):
        n = rng.randint(2, 6)
        cases.append(["case gluecomplex-%d-%d %s" % (n, i, STORAGE[i % 3]), mat_line(fam_rotation(rng, n)), "pow " + hx(2.0), "exp"])
    # 4. getD on prescribed (d, e) through the hook: well-formed lists
    for i in range(1000 if big else 120):
        n = pick_n(rng)
        d, e = wf_spectrum(rng, n)
        cases.append(["case setde-%d-%d %s" % (n, i, STORAGE[i % 3]), mat_line(eye(n)), "eig",
                      "setde " + " ".join(hx(x) for x in d) + " ; " + " ".join(hx(x) for x in e)])
    # ... and malformed ones (a positive imaginary part in the last position, a negative one in the
    # first): the model answers `ub`, the sanitised implementation aborts (a few only: each costs a re-run)
    for i in range(6 if big else 3):
        n = rng.randint(1, 6)
        d, e = wf_spectrum(rng, n)
        if i % 2 == 0:
            e[n - 1] = 0.5
        else:
            e[0] = -0.5
        cases.append(["case setdebad-%d-%d row" % (n, i), mat_line(eye(n)), "eig",
                      "setde " + " ".join(hx(x) for x in d) + " ; " + " ".join(hx(x) for x in e)])
    return cases


# ---------------------------------------------------------------- comparison
STATS = {}          # clause -> [count, max, family-of-max]
_RTOK = re.compile(r"^r\.([a-z_]+)=(.*)$")


def _strip(model):
    """split the model's answer into its value tokens and its r.* report tokens"""
    vals, reps = [], []
    for t in model.split():
        m = _RTOK.match(t)
        if m:
            reps.append((m.group(1), m.group(2)))
        else:
            vals.append(t)
    return vals, reps


def compare(op_line, impl, model):
    op = op_line.split()[0]
    vals, reps = _strip(model)
    for name, v in reps:
        try:
            x = float(v)
        except ValueError:
            continue
        s = STATS.setdefault(name, [0, 0.0])
        s[0] += 1
        if x == x and x > s[1]:
            s[1] = x
    it = impl.split()
    if op == "trace":
        return it == vals
    if op == "eig":
        # only the symmetry flag is modelled; the lists and V are explored by the driver's predicates
        return bool(it) and bool(vals) and it[0] == vals[0]
    if op in ("pow", "exp"):
        if impl.startswith("exc:zerodiv"):
            return vals == ["hole"]          # the LU inverse is not part of this model
        if impl.startswith("exc:") or (vals and vals[0].startswith("exc:")):
            return it == vals
        # implementation: d ; V ; W ; O  — the model computes O from the implementation's d, V, W
        segs = impl.split(";")
        return len(segs) == 4 and segs[3].split() == vals
    if op in ("setde", "getD"):
        if vals == ["ub"]:
            return impl.startswith("crash")  # sanitizer / libstdc++ assertion abort
        return it == vals
    return it == vals


def _constants():
    """the constants of the explored bounds, read from the driver's source"""
    import os
    p = os.path.join(os.path.dirname(os.path.dirname(os.path.abspath(__file__))), "lean", "BppModel", "Drive", "C06.lean")
    out = {}
    try:
        for m in re.finditer(r"^def (c[A-Z]\w*|condGate) : Rat := (\d+)\s*--\s*(.*)$", open(p).read(), re.M):
            out[m.group(1)] = {"value": int(m.group(2)), "bound": m.group(3).strip()}
    except OSError:
        pass
    out["unit"] = "bounds are in units of machine epsilon 2^-52; norms are exact rationals of the returned doubles"
    return out


# ---------------------------------------------------------------- branch coverage (guarded counters)
# k -> (routine, condition, reachable-when-false, reachable-when-true); `None` = this outcome has no counter
# (the counter sits inside the branch); a string = why the outcome cannot occur inside the quantifier.
BRANCHES = {
    0: ("tred2", "scale == 0.0 (row already zero left of the diagonal)", True, True),
    1: ("tred2", "f > 0 (sign of the Householder vector)", True, True),
    2: ("tred2", "h != 0.0 (accumulation: non-trivial reflector)", True, True),
    3: ("tred2", "scale == 0.0 and the updated lower row differs from the stale upper column", True, True),
    5: ("tql2", "m > l (iterate)", True, True),
    6: ("tql2", "m > l and the tridiagonal form splits strictly inside (m < n-1)", True, True),
    7: ("tql2", "p < 0 (sign of hypot)", True, True),
    8: ("tql2", "|e[l]| > eps*tst1 (another pass of the do-loop)", True, True),
    9: ("tql2", "sort: d[j] < p", True, True),
    10: ("tql2", "sort: k != i (swap)", True, True),
    11: ("orthes", "scale != 0.0", True, True),
    12: ("orthes", "ort[m] > 0", True, True),
    13: ("orthes", "accumulation: H(m,m-1) != 0.0", True, True),
    14: ("cdiv", "|yr| > |yi| (calls from hqr2)", True, True),
    15: ("hqr2", "s == 0.0 (s = norm)", True, True),
    16: ("hqr2", "small sub-diagonal element found", True, True),
    17: ("hqr2", "one root found", None, True),
    18: ("hqr2", "two roots found", None, True),
    19: ("hqr2", "two roots: q >= 0 (real pair)", True, True),
    20: ("hqr2", "two roots: p >= 0", True, True),
    21: ("hqr2", "two roots: z != 0.0", True, True),
    22: ("hqr2", "no convergence yet (a QR sweep)", None, True),
    23: ("hqr2", "iter == 10 (Wilkinson's exceptional shift)", None, True),
    24: ("hqr2", "iter == 30 (MATLAB's exceptional shift)", True, True),
    25: ("hqr2", "iter == 30: s > 0", True, True),
    26: ("hqr2", "iter == 30: y < x", True, True),
    27: ("hqr2", "two consecutive small: m == l", True, True),
    28: ("hqr2", "two consecutive small: m--", None, True),
    29: ("hqr2", "two consecutive small: test satisfied (break)", None, True),
    30: ("hqr2", "double QR step: k != m", True, True),
    31: ("hqr2", "double QR step: x != 0.0 (k != m)", True, True),
    32: ("hqr2", "double QR step: k != m and x == 0.0 (break)", True, True),
    33: ("hqr2", "double QR step: p < 0", True, True),
    34: ("hqr2", "double QR step: s != 0", "s = sqrt(p^2+q^2+r^2) of a vector normalised to |p|+|q|+|r| = 1 (or NaN): never 0", True),
    35: ("hqr2", "double QR step: k == m and l != m", True, True),
    36: ("hqr2", "double QR step: notlast", True, True),
    37: ("hqr2", "norm == 0.0 (return before back-substitution)", True, "a non-symmetric matrix has a non-zero entry; its Hessenberg form is orthogonally similar"),
    38: ("hqr2", "back-substitution: q == 0 (real vector)", True, True),
    39: ("hqr2", "back-substitution: q < 0 (complex vector)", None, True),
    40: ("hqr2", "back-substitution: q > 0 (first member of a pair: skipped)", True, True),
    41: ("hqr2", "real vector: e[i] < 0", True, True),
    42: ("hqr2", "real vector: e[i] == 0", True, True),
    43: ("hqr2", "real vector: w != 0.0", True, True),
    44: ("hqr2", "real vector, 2x2 block: |x| > |z|", True, True),
    45: ("hqr2", "real vector: overflow control", None, True),
    46: ("hqr2", "complex vector: |H(n,n-1)| > |H(n-1,n)|", True, True),
    47: ("hqr2", "complex vector: e[i] < 0", True, True),
    48: ("hqr2", "complex vector: e[i] == 0", True, True),
    49: ("hqr2", "complex vector, 2x2 block: vr == 0 and vi == 0", True, True),
    50: ("hqr2", "complex vector, 2x2 block: |x| > |z| + |q|", True, True),
    51: ("hqr2", "complex vector: overflow control", True, True),
    53: ("constructor", "issymmetric_ (dispatch to tred2+tql2)", True, True),
}
# branches of the anchored code without a counter: dead code, stated here so that the table is complete
DEAD = [
    ("orthes", "n_ == 0", "n >= 1 in the quantifier"),
    ("hqr2", "(i < low) || (i > high) (twice: roots isolated by balanc, vectors of isolated roots)", "low = 0, high = n-1: the port has no balancing"),
    ("hqr2", "l < n after 'No convergence yet'", "l <= n-2 there"),
    ("hqr2", "while (m >= l) leaves by its condition", "m == l breaks first"),
    ("constructor", "n_ > INT_MAX", "n <= 12"),
]


# conditionals of the kernels that have no counter although both outcomes occur (audit round 1, F5): they are
# executed by every non-trivial decomposition; listed so that "every branch outcome" is read as "every outcome
# of the 52 instrumented sites"
UNCOUNTED = [
    ("tql2", "while (m + 1 < n_) left by its condition (repaired bound, fix c934db9)", "whenever no negligible e[m] lies before the last row: every irreducible tridiagonal form"),
    ("tql2", "inner test |e[m]| <= eps*tst1 of the search for a small sub-diagonal element", "its outcomes are those of counter 5 (m > l) and of the loop increment"),
    ("hqr2", "while (l > low) left by its condition (no small sub-diagonal element down to row 0)", "true for every sweep on an unreduced window starting at row 0"),
    ("hqr2", "if (i > m + 2) inside the clearing of H(i,i-2), H(i,i-3) before a double QR step", "false for i = m+2, true for the later i of every window of size >= 4"),
]


def _parse_trace(r):
    """(hits dict index -> count, log as list of floats) of a `trace` answer"""
    segs = r.split(";")
    hits = {}
    for t in segs[0].split()[1:]:
        k, v = t.split(":")
        hits[int(k)] = int(v)
    log = [struct.unpack("<d", struct.pack("<Q", int(x, 16)))[0] if x != "nan" else float("nan") for x in segs[1].split()] if len(segs) > 1 else []
    recs = []
    j = 0
    while j + 1 < len(log):
        code, ln = int(log[j]), int(log[j + 1])
        recs.append((code, log[j + 2:j + 2 + ln]))
        j += 2 + ln
    return hits, recs


def coverage_extra(cases, answers):
    fam, sizes, storage = {}, {}, {}
    routes = {"symmetric(tred2+tql2)": 0, "nonsymmetric(orthes+hqr2)": 0}
    pairs = 0; realonly = 0
    hit_total, hit_decs, hit_fams = {}, {}, {}
    ex_hist = {}
    derived = {"hqr2: >= 2 exceptional shifts in one decomposition": 0,
               "hqr2: >= 2 exceptional shifts, the first one non-zero (a later deflation needs the running total)": 0,
               "hqr2: a deflation after an exceptional shift with exshift != 0": 0,
               "tql2: a shift with eigenvalues beyond the split (m < n-1)": 0,
               "tql2: sort swaps a column": 0,
               "getD: row with e > 0": 0, "getD: row with e < 0": 0, "getD: row with e == 0": 0,
               "getD: adjacent conjugate pairs with bit-identical imaginary parts": 0,
               "pow/exp: dimension check raises": 0, "pow/exp: dimension check passes": 0,
               "cdiv (direct, tied bit for bit): |yr| > |yi|": 0, "cdiv (direct): |yr| <= |yi|": 0}
    traced = 0
    for c, a in zip(cases, answers):
        head = c[0].split()
        tag = head[1].split("-")[0]
        fam[tag] = fam.get(tag, 0) + 1
        if len(head) > 2:
            storage[head[2]] = storage.get(head[2], 0) + 1
        ops = [l for l in c if not l.startswith("case")]
        for l, r in zip(ops, a or []):
            if l.startswith("mat "):
                n = l.split()[1]
                sizes[n] = sizes.get(n, 0) + 1
            if l == "eig" and r and r[0] in "01":
                routes["symmetric(tred2+tql2)" if r[0] == "1" else "nonsymmetric(orthes+hqr2)"] += 1
                segs = r.split(";")
                if len(segs) == 4:
                    es = segs[2].split()
                    if any(t not in ("0000000000000000", "8000000000000000") for t in es):
                        pairs += 1
                    else:
                        realonly += 1
                    pos = [i for i, t in enumerate(es) if t not in ("0000000000000000", "8000000000000000") and t[0] in "01234567"]
                    derived["getD: row with e > 0"] += len(pos)
                    derived["getD: row with e < 0"] += sum(1 for t in es if t[0] in "89abcdef" and t != "8000000000000000")
                    derived["getD: row with e == 0"] += sum(1 for t in es if t in ("0000000000000000", "8000000000000000"))
                    derived["getD: adjacent conjugate pairs with bit-identical imaginary parts"] += sum(
                        1 for i in pos if i + 2 in pos and es[i] == es[i + 2])
            if l.split()[0] in ("pow", "exp") and r:
                derived["pow/exp: dimension check raises" if r.startswith("exc:dimension") else "pow/exp: dimension check passes"] += 1
            if l.startswith("cdiv ") and r:
                t = l.split()
                try:
                    yr, yi = (struct.unpack("<d", struct.pack("<Q", int(x, 16)))[0] for x in t[3:5])
                    derived["cdiv (direct, tied bit for bit): |yr| > |yi|" if abs(yr) > abs(yi) else "cdiv (direct): |yr| <= |yi|"] += 1
                except ValueError:
                    pass
            if l == "trace" and r and r.startswith("hits"):
                traced += 1
                try:
                    hits, recs = _parse_trace(r)
                except (ValueError, struct.error):
                    continue
                for k, v in hits.items():
                    hit_total[k] = hit_total.get(k, 0) + v
                    hit_decs[k] = hit_decs.get(k, 0) + 1
                    hit_fams.setdefault(k, {})
                    hit_fams[k][tag] = hit_fams[k].get(tag, 0) + 1
                ex = [p[1] if code == 4 else p[4] for code, p in recs if code in (4, 5)]
                ex_hist[len(ex)] = ex_hist.get(len(ex), 0) + 1
                if len(ex) >= 2:
                    derived["hqr2: >= 2 exceptional shifts in one decomposition"] += 1
                    if ex[0] != 0.0:
                        derived["hqr2: >= 2 exceptional shifts, the first one non-zero (a later deflation needs the running total)"] += 1
                if any(code in (6, 7) and (p[2] if code == 6 else p[5]) != 0.0 for code, p in recs):
                    derived["hqr2: a deflation after an exceptional shift with exshift != 0"] += 1
                if hits.get(2 * 6 + 1):
                    derived["tql2: a shift with eigenvalues beyond the split (m < n-1)"] += 1
                if hits.get(2 * 10 + 1):
                    derived["tql2: sort swaps a column"] += 1
    branches = {}
    per_routine = {}
    for k, (routine, cond, rf, rt) in sorted(BRANCHES.items()):
        for o, reach in ((0, rf), (1, rt)):
            if reach is None:
                continue
            idx = 2 * k + o
            name = "%s: %s -> %s" % (routine, cond, "true" if o else "false")
            ent = {"hits": hit_total.get(idx, 0), "decompositions": hit_decs.get(idx, 0)}
            if isinstance(reach, str):
                ent["unreachable"] = reach
            else:
                top = sorted(hit_fams.get(idx, {}).items(), key=lambda kv: -kv[1])[:3]
                ent["top_families"] = dict(top)
            branches[name] = ent
            pr = per_routine.setdefault(routine, {"reachable_outcomes": 0, "executed": 0, "executed_in_at_least_5_decompositions": 0, "unreachable_outcomes": 0})
            if isinstance(reach, str):
                pr["unreachable_outcomes"] += 1
            else:
                pr["reachable_outcomes"] += 1
                pr["executed"] += 1 if ent["hits"] else 0
                pr["executed_in_at_least_5_decompositions"] += 1 if ent["decompositions"] >= 5 else 0
    return {
        "families": fam, "matrix_sizes": dict(sorted(sizes.items(), key=lambda kv: int(kv[0]))), "storage_classes": storage,
        "routes": routes, "decompositions_with_complex_pairs": pairs, "decompositions_real_spectrum": realonly,
        "branch_coverage_per_routine": per_routine,
        "branch_coverage": branches,
        "branch_coverage_dead_code": [{"routine": r, "branch": b, "why": w} for r, b, w in DEAD],
        "branch_coverage_not_instrumented": [{"routine": r, "branch": b, "why": w} for r, b, w in UNCOUNTED],
        "branch_coverage_derived_conditions": derived,
        "exceptional_shifts_per_decomposition": {str(k): v for k, v in sorted(ex_hist.items())},
        "decompositions_traced": traced,
        "explored_bounds_observed_max": {k: {"evaluations": v[0], "max_in_units_of_bound_without_constant": v[1]} for k, v in sorted(STATS.items())},
        "explored_bounds_constants": _constants(),
    }


def write_coverage_md(paths, out):
    """props/C06.coverage.md from evidence files (one per tier): python3 gens/C06.py coverage <quick.json> <thorough.json>"""
    import json
    evs = [json.load(open(p)) for p in paths]
    L = ["# C06 — branch coverage of the iteration kernels by the generated matrix families", "",
         "Counters: guarded instrumentation of `EigenValue.h` (`BPP_EIGENVALUE_VERIF_BR/HIT`, hook commit in",
         "`props/hooks.d/C06.json`), read back by the harness op `trace` after every decomposition of the",
         "generated families. `hits` = executions of the outcome, `decs` = decompositions in which it occurred.",
         "Written by `python3 gens/C06.py coverage <evidence files>` from real runs (seed %s)." % ", ".join(str(e["seed"]) for e in evs), ""]
    L.append("## Per routine")
    L.append("")
    L.append("| routine | reachable outcomes | " + " | ".join("%s: executed / in >= 5 decompositions" % e["tier"] for e in evs) + " | unreachable |")
    L.append("|---|---|" + "---|" * len(evs) + "---|")
    routines = list(evs[0]["coverage"]["branch_coverage_per_routine"].keys())
    for r in routines:
        row = [r, str(evs[0]["coverage"]["branch_coverage_per_routine"][r]["reachable_outcomes"])]
        for e in evs:
            pr = e["coverage"]["branch_coverage_per_routine"][r]
            row.append("%d / %d" % (pr["executed"], pr["executed_in_at_least_5_decompositions"]))
        row.append(str(evs[0]["coverage"]["branch_coverage_per_routine"][r]["unreachable_outcomes"]))
        L.append("| " + " | ".join(row) + " |")
    L += ["", "## Every branch outcome", "",
          "| branch outcome | " + " | ".join("%s hits / decs" % e["tier"] for e in evs) + " | families (quick) / why unreachable |",
          "|---|" + "---|" * len(evs) + "---|"]
    for name, ent in evs[0]["coverage"]["branch_coverage"].items():
        row = [name.replace("|", "\\|")]
        for e in evs:
            x = e["coverage"]["branch_coverage"][name]
            row.append("%d / %d" % (x["hits"], x["decompositions"]))
        row.append(("unreachable: " + ent["unreachable"]) if "unreachable" in ent else ", ".join("%s %d" % kv for kv in ent.get("top_families", {}).items()))
        L.append("| " + " | ".join(row) + " |")
    L += ["", "## Conditions beyond single branches (what the seeded changes needed)", "",
          "| condition | " + " | ".join(e["tier"] for e in evs) + " |", "|---|" + "---|" * len(evs)]
    for name in evs[0]["coverage"]["branch_coverage_derived_conditions"]:
        L.append("| " + name.replace("|", "\\|") + " | " + " | ".join(str(e["coverage"]["branch_coverage_derived_conditions"][name]) for e in evs) + " |")
    L += ["", "Exceptional shifts per decomposition (count -> decompositions): " +
          "; ".join("%s: %s" % (e["tier"], e["coverage"]["exceptional_shifts_per_decomposition"]) for e in evs), "",
          "## Branches without a counter (dead code in this port)", ""]
    for d in evs[0]["coverage"]["branch_coverage_dead_code"]:
        L.append("* `%s`: %s — %s" % (d["routine"], d["branch"], d["why"]))
    L += ["", "## Conditionals without a counter whose outcomes both occur", ""]
    for d in evs[0]["coverage"].get("branch_coverage_not_instrumented", []):
        L.append("* `%s`: %s — %s" % (d["routine"], d["branch"], d["why"]))
    L += ["", "`getD`, the symmetry dispatch, `cdiv` and the `pow`/`exp` wrappers are transcribed in the model and tied",
          "bit for bit; their branch outcomes are counted from the answers (table above).", ""]
    open(out, "w").write("\n".join(L))


if __name__ == "__main__":
    import sys, os
    if len(sys.argv) >= 3 and sys.argv[1] == "coverage":
        write_coverage_md(sys.argv[2:], os.path.join(os.path.dirname(os.path.dirname(os.path.abspath(__file__))), "props", "C06.coverage.md"))
