"""Script generator for C06 (EigenValue.h, MatrixTools::pow(A,double)/exp).

Families follow the property's quantifier: random dense, symmetric, triangular, companion with
prescribed real / complex-pair spectra, rotation blocks, repeated eigenvalues (diagonalisable and
defective), graded (1e-6..1e6), zero / identity, plus near-symmetric (one ulp off), cyclic shifts
(the exceptional-shift path of hqr2) and Hessenberg inputs; n = 1..12; three storage classes.
All randomness comes from random.Random(seed)."""
import random, struct, math, re

STORAGE = ["row", "col", "lin"]


def hx(x):
    if x != x:
        return "nan"
    return "%016x" % struct.unpack("<Q", struct.pack("<d", float(x)))[0]


def dy(rng, bits=6, lim=64):
    """small dyadic number k / 2^bits, |k| <= lim"""
    return rng.randint(-lim, lim) / float(1 << bits)


def matmul(a, b):
    n, m, p = len(a), len(b), len(b[0])
    return [[sum(a[i][k] * b[k][j] for k in range(m)) for j in range(p)] for i in range(n)]


def eye(n):
    return [[1.0 if i == j else 0.0 for j in range(n)] for i in range(n)]


def transpose(a):
    return [list(r) for r in zip(*a)]


def unit_lower(rng, n, bits=3, lim=4):
    """unit lower triangular with small dyadic entries, and its exact inverse (also dyadic)"""
    L = eye(n)
    for i in range(n):
        for j in range(i):
            L[i][j] = dy(rng, bits, lim) if rng.random() < 0.5 else 0.0
    # inverse by forward substitution (exact in doubles: small dyadics)
    Li = eye(n)
    for j in range(n):
        for i in range(j + 1, n):
            Li[i][j] = -sum(L[i][k] * Li[k][j] for k in range(j, i))
    return L, Li


def perm_similarity(rng, a):
    n = len(a)
    p = list(range(n)); rng.shuffle(p)
    return [[a[p[i]][p[j]] for j in range(n)] for i in range(n)]


def poly_from_roots(real_roots, pairs):
    """coefficients (monic, highest first) of prod (x - r) * prod ((x-a)^2 + b^2)"""
    c = [1.0]
    def mul(c, q):
        out = [0.0] * (len(c) + len(q) - 1)
        for i, x in enumerate(c):
            for j, y in enumerate(q):
                out[i + j] += x * y
        return out
    for r in real_roots:
        c = mul(c, [1.0, -r])
    for (a, b) in pairs:
        c = mul(c, [1.0, -2 * a, a * a + b * b])
    return c


def companion(c):
    """companion matrix of the monic polynomial with coefficients c (highest first)"""
    n = len(c) - 1
    m = [[0.0] * n for _ in range(n)]
    for j in range(n):
        m[0][j] = -c[j + 1]
    for i in range(1, n):
        m[i][i - 1] = 1.0
    return m


# ---------------------------------------------------------------- families
def fam_dense(rng, n):
    if rng.random() < 0.5:
        return [[dy(rng) for _ in range(n)] for _ in range(n)]
    return [[rng.uniform(-1, 1) * 10 ** rng.randint(-1, 1) for _ in range(n)] for _ in range(n)]


def fam_symmetric(rng, n):
    full = rng.random() < 0.5
    a = [[0.0] * n for _ in range(n)]
    for i in range(n):
        for j in range(i, n):
            a[i][j] = a[j][i] = rng.uniform(-2, 2) if full else dy(rng)
    k = rng.random()
    if k < 0.15 and n > 2:      # tridiagonal symmetric
        for i in range(n):
            for j in range(n):
                if abs(i - j) > 1:
                    a[i][j] = 0.0
    elif k < 0.3 and n > 1:     # low rank + repeated eigenvalues: u u^T
        u = [dy(rng, 2, 8) for _ in range(n)]
        a = [[u[i] * u[j] for j in range(n)] for i in range(n)]
    elif k < 0.4:               # decoupled blocks (a zero off-diagonal row: the scale == 0 branch of tred2)
        h = n // 2
        for i in range(n):
            for j in range(n):
                if (i < h) != (j < h):
                    a[i][j] = 0.0
    return a


def fam_triangular(rng, n):
    up = rng.random() < 0.5
    a = [[0.0] * n for _ in range(n)]
    for i in range(n):
        for j in range(n):
            if i == j or (j > i) == up:
                a[i][j] = dy(rng) if rng.random() < 0.7 else rng.uniform(-3, 3)
    if rng.random() < 0.3:      # repeated diagonal entries
        v = dy(rng)
        for i in range(0, n, 2):
            a[i][i] = v
    return a


def fam_companion(rng, n):
    npairs = rng.randint(0, n // 2)
    nreal = n - 2 * npairs
    reals = [rng.choice([-1, 1]) * rng.uniform(0.3, 2.0) for _ in range(nreal)]
    pairs = [(rng.uniform(-1.5, 1.5), rng.uniform(0.2, 1.5)) for _ in range(npairs)]
    a = companion(poly_from_roots(reals, pairs))
    if rng.random() < 0.5:
        a = transpose(a)
    return a


def fam_rotation(rng, n):
    a = [[0.0] * n for _ in range(n)]
    i = 0
    while i < n:
        if i + 1 < n and rng.random() < 0.75:
            th = rng.uniform(0.05, 3.1); r = rng.choice([1.0, 1.0, 0.5, 2.0, rng.uniform(0.2, 3)])
            c, s = r * math.cos(th), r * math.sin(th)
            if rng.random() < 0.5:
                s = -s
            a[i][i] = c; a[i][i + 1] = -s; a[i + 1][i] = s; a[i + 1][i + 1] = c
            i += 2
        else:
            a[i][i] = dy(rng); i += 1
    k = rng.random()
    if k < 0.4:
        a = perm_similarity(rng, a)
    elif k < 0.8:
        L, Li = unit_lower(rng, n)
        a = matmul(matmul(L, a), Li)
    return a


def fam_repeated(rng, n):
    k = rng.random()
    lam = dy(rng, 2, 12)
    if k < 0.3:
        # diagonalisable: L diag(lam, lam, mu, mu, ...) L^-1
        vals = []
        while len(vals) < n:
            v = dy(rng, 2, 12); vals += [v] * rng.randint(2, 3)
        vals = vals[:n]
        L, Li = unit_lower(rng, n)
        d = [[vals[i] if i == j else 0.0 for j in range(n)] for i in range(n)]
        return matmul(matmul(L, d), Li)
    if k < 0.6:
        # defective: Jordan blocks
        a = [[0.0] * n for _ in range(n)]
        for i in range(n):
            a[i][i] = lam
            if i + 1 < n and rng.random() < 0.7:
                a[i][i + 1] = 1.0
        return a if rng.random() < 0.5 else perm_similarity(rng, a)
    if k < 0.8:
        # scalar multiple of the identity plus a nilpotent similarity
        a = [[lam if i == j else 0.0 for j in range(n)] for i in range(n)]
        if n > 1:
            a[rng.randrange(n)][rng.randrange(n)] += dy(rng, 3, 8)
        return a
    # all-ones (rank one, eigenvalue n and n-1 zeros), possibly scaled
    s = rng.choice([1.0, 0.5, -2.0])
    return [[s for _ in range(n)] for _ in range(n)]


def fam_graded(rng, n):
    # entries spanning 1e-6 .. 1e6
    k = rng.random()
    g = [10.0 ** (-6 + 12.0 * i / max(1, n - 1)) for i in range(n)]
    if rng.random() < 0.5:
        g.reverse()
    b = [[rng.uniform(-1, 1) for _ in range(n)] for _ in range(n)]
    if k < 0.35:      # row graded
        return [[g[i] * b[i][j] for j in range(n)] for i in range(n)]
    if k < 0.7:       # two-sided sqrt grading (symmetric when b is)
        for i in range(n):
            for j in range(i):
                b[i][j] = b[j][i]
        return [[math.sqrt(g[i]) * b[i][j] * math.sqrt(g[j]) for j in range(n)] for i in range(n)]
    # similarity grading D b D^-1 (same spectrum, badly scaled vectors)
    h = [10.0 ** (-3 + 6.0 * i / max(1, n - 1)) for i in range(n)]
    return [[h[i] * b[i][j] / h[j] for j in range(n)] for i in range(n)]


def fam_trivial(rng, n):
    k = rng.randrange(5)
    if k == 0:
        return [[0.0] * n for _ in range(n)]
    if k == 1:
        return eye(n)
    if k == 2:
        v = dy(rng)
        return [[v if i == j else 0.0 for j in range(n)] for i in range(n)]
    if k == 3:
        return [[dy(rng) if i == j else 0.0 for j in range(n)] for i in range(n)]
    # negative zero entries must not disturb the symmetry test
    return [[(-0.0 if (i + j) % 2 else 0.0) for j in range(n)] for i in range(n)]


def fam_nearsym(rng, n):
    a = fam_symmetric(rng, n)
    if n > 1:
        i = rng.randrange(1, n); j = rng.randrange(0, i)
        # perturb one entry by one ulp: the dispatch must go to orthes/hqr2
        x = a[i][j]
        bits = struct.unpack("<Q", struct.pack("<d", x))[0]
        # (a zero entry becomes 2^-200, not the subnormal 2^-1074: subnormal entries make orthes
        # overflow — recorded as known finding C06-subnormal-entry, witness in corpus/C06/)
        a[i][j] = struct.unpack("<d", struct.pack("<Q", bits + 1))[0] if x != 0 else 2.0 ** -200
    return a


def fam_cyclic(rng, n):
    # cyclic shift / permutation matrices: spectrum on the unit circle, hqr2 needs its ad hoc shifts
    p = list(range(n))
    if rng.random() < 0.5:
        p = p[1:] + p[:1]
    else:
        rng.shuffle(p)
    s = rng.choice([1.0, 1.0, 2.0, -0.5])
    return [[s if p[i] == j else 0.0 for j in range(n)] for i in range(n)]


def fam_hessenberg(rng, n):
    a = [[(dy(rng) if j >= i - 1 else 0.0) for j in range(n)] for i in range(n)]
    if rng.random() < 0.4 and n > 2:
        a[rng.randrange(1, n)][rng.randrange(0, n - 1)] = 0.0    # a zero sub-diagonal: deflation at start
    return a


def fam_skewblock(rng, n):
    """quasi upper triangular: 2x2 blocks [[a, b], [-c, a]] (b*c > 0: complex pair a +- i sqrt(bc)) with
    |b|/|c| spanning 1e-8..1e8, some pairs sharing their real part, real eigenvalues in between and
    below, random coupling above the blocks: the back-substitution of hqr2 crosses badly scaled
    blocks (its pivot choices matter)"""
    a = [[0.0] * n for _ in range(n)]
    i = 0
    shared = dy(rng, 3, 16)
    while i < n:
        if i + 1 < n and rng.random() < 0.6:
            re = shared if rng.random() < 0.5 else dy(rng, 3, 16)
            im = rng.uniform(0.2, 2.0)
            mode = rng.random()
            if mode < 0.4:       # |b| / |c| skewed, |b c| = im^2 (one huge entry)
                k = 10.0 ** rng.choice([-8, -6, -4, -2, 0, 0, 2, 4, 6, 8])
                b, c = im * k, im / k
            elif mode < 0.7:     # a tiny super-diagonal entry, everything else O(1)
                b, c = im * 10.0 ** -rng.randint(2, 9), im
            else:                # a tiny sub-diagonal entry
                b, c = im, im * 10.0 ** -rng.randint(2, 9)
            if rng.random() < 0.5:
                b, c = -b, -c
            a[i][i] = re; a[i][i + 1] = b; a[i + 1][i] = -c; a[i + 1][i + 1] = re
            i += 2
        else:
            a[i][i] = shared if rng.random() < 0.3 else dy(rng, 3, 16); i += 1
    for r in range(n):
        for c2 in range(r + 1, n):
            if a[r][c2] == 0.0 and not (c2 == r + 1 and a[c2][r] != 0.0):
                a[r][c2] = rng.uniform(-1, 1) if rng.random() < 0.8 else 0.0
    return a


def fam_weakcoupled(rng, n):
    """symmetric, the last row/column coupled to the rest only through entries of size 1e-7..1e-14
    (tred2's scale is tiny but not zero), possibly with a small overall norm"""
    a = fam_symmetric(rng, n)
    if n > 1:
        t = 10.0 ** -rng.randint(7, 14)
        for j in range(n - 1):
            v = t * rng.uniform(-1, 1)
            a[n - 1][j] = v; a[j][n - 1] = v
    return a


def rescaled(fn):
    """the same family under an overall scaling 10^k, k in -6..6 (half of the time)"""
    def g(rng, n):
        a = fn(rng, n)
        if rng.random() < 0.5:
            s = 10.0 ** rng.randint(-6, 6)
            a = [[x * s for x in r] for r in a]
        return a
    return g


FAMILIES = [("dense", fam_dense, 3), ("symmetric", fam_symmetric, 3), ("triangular", fam_triangular, 1),
            ("companion", fam_companion, 2), ("rotation", fam_rotation, 2), ("repeated", fam_repeated, 2),
            ("graded", fam_graded, 2), ("trivial", fam_trivial, 1), ("nearsym", fam_nearsym, 1),
            ("cyclic", fam_cyclic, 1), ("hessenberg", fam_hessenberg, 1),
            ("skewblock", fam_skewblock, 2), ("weakcoupled", fam_weakcoupled, 1),
            ("scaleddense", rescaled(fam_dense), 1), ("scaledrepeated", rescaled(fam_repeated), 1),
            ("scaledtriangular", rescaled(fam_triangular), 1), ("scaledsymmetric", rescaled(fam_symmetric), 1),
            ("scaledweakcoupled", rescaled(fam_weakcoupled), 1)]


# matrices on which pow / exp are in the property's scope: diagonalisable with real spectrum
def glue_matrix(rng, n):
    k = rng.random()
    if k < 0.45:
        # symmetric positive definite with small dyadic entries: B B^T / 8 + I/2
        b = [[float(rng.randint(-2, 2)) for _ in range(n)] for _ in range(n)]
        bt = transpose(b)
        m = matmul(b, bt)
        return "spd", [[m[i][j] / 8.0 + (0.5 if i == j else 0.0) for j in range(n)] for i in range(n)]
    if k < 0.65:
        return "symdy", [[x / 4.0 for x in row] for row in _sym_small(rng, n)]
    # L diag(distinct positive dyadics) L^-1
    vals = rng.sample([x / 4.0 for x in range(1, 17)], n) if n <= 16 else None
    L, Li = unit_lower(rng, n, 1, 1)
    d = [[vals[i] if i == j else 0.0 for j in range(n)] for i in range(n)]
    return "simdiag", matmul(matmul(L, d), Li)


def _sym_small(rng, n):
    a = [[0.0] * n for _ in range(n)]
    for i in range(n):
        for j in range(i, n):
            a[i][j] = a[j][i] = float(rng.randint(-3, 3))
    return a


def mat_line(a):
    nr = len(a); nc = len(a[0]) if nr else 0
    return "mat %d %d " % (nr, nc) + " ".join(hx(x) for r in a for x in r)


def pick_n(rng):
    # all of 1..12, small sizes a little more often
    return rng.choice([1, 2, 2, 3, 3, 4, 4, 5, 5, 6, 6, 7, 8, 8, 9, 10, 11, 12, 12])


def rand_double(rng, wide):
    m = rng.uniform(1, 2) * rng.choice([-1, 1])
    e = rng.randint(-60, 60) if wide else rng.randint(-3, 3)
    return m * 2.0 ** e


def gen_cdiv(rng, count):
    ops = []
    specials = [0.0, -0.0, 1.0, -1.0, 0.5, 2.0, 3.0]
    for i in range(count):
        r = rng.random()
        if r < 0.15:
            v = [rng.choice(specials) for _ in range(4)]
        elif r < 0.3:
            # |yr| == |yi| exactly: the boundary between the two branches
            y = rand_double(rng, False)
            v = [rand_double(rng, False), rand_double(rng, False), y, y * rng.choice([-1, 1])]
        elif r < 0.4:
            # y == 0: outside cdiv_spec's hypothesis, still tied bit-for-bit (NaN / inf answers)
            v = [rand_double(rng, False), rand_double(rng, False), rng.choice([0.0, -0.0]), rng.choice([0.0, -0.0])]
        elif r < 0.5:
            v = [float(rng.randint(-9, 9)) for _ in range(4)]
        else:
            w = rng.random() < 0.3
            v = [rand_double(rng, w) for _ in range(4)]
        ops.append("cdiv " + " ".join(hx(x) for x in v))
    return ops


def wf_spectrum(rng, n):
    d, e = [], []
    while len(d) < n:
        if len(d) + 1 < n and rng.random() < 0.45:
            a, b = dy(rng), abs(dy(rng)) + 1.0 / 64
            d += [a, a]; e += [b, -b]
        else:
            d.append(dy(rng)); e.append(rng.choice([0.0, 0.0, -0.0]))
    return d, e


def generate(seed, tier):
    rng = random.Random(seed)
    big = tier == "thorough"
    cases = []
    # 1. cdiv
    ncd = 30000 if big else 3000
    ops = gen_cdiv(rng, ncd)
    for i in range(0, len(ops), 300):
        cases.append(["case cdiv-%d row" % i] + ops[i:i + 300])
    # 2. decompositions over the families of the quantifier
    per_weight = 400 if big else 36
    k = 0
    for name, fn, w in FAMILIES:
        for i in range(per_weight * w):
            n = pick_n(rng)
            st = STORAGE[k % 3]; k += 1
            a = fn(rng, n)
            ops = [mat_line(a), "eig", "getD"]
            if rng.random() < 0.12:
                ops.append("getD")      # getD is idempotent (D_ is a mutable cache)
            cases.append(["case %s-%d-%d %s" % (name, n, i, st)] + ops)
    # every size for the two main routes, every storage class
    for n in range(1, 13):
        for st in STORAGE:
            cases.append(["case dense-%d-all %s" % (n, st), mat_line(fam_dense(rng, n)), "eig", "getD"])
            cases.append(["case symmetric-%d-all %s" % (n, st), mat_line(fam_symmetric(rng, n)), "eig", "getD"])
    # 3. pow / exp on diagonalisable matrices with real spectrum; dimension check on non-square input
    ng = 2000 if big else 200
    for i in range(ng):
        n = rng.choice([1, 2, 2, 3, 3, 4, 4, 5, 6, 6, 7, 8]) if not big or i % 4 else rng.randint(9, 12)
        st = STORAGE[i % 3]
        kind, a = glue_matrix(rng, n)
        ops = [mat_line(a), "eig"]
        for _ in range(2):
            r = rng.random()
            if r < 0.3:
                ops.append("exp")
            else:
                if kind == "symdy":
                    p = float(rng.choice([0, 1, 2, 3, 4, 5]))
                else:
                    p = rng.choice([0.0, 1.0, 2.0, 3.0, 5.0, 8.0, -1.0, -2.0, 0.5, 0.5, 1.5, -0.5])
                ops.append("pow " + hx(p))
        cases.append(["case glue%s-%d-%d %s" % (kind, n, i, st)] + ops)
    for i in range(12 if big else 6):
        nr, nc = rng.randint(1, 4), rng.randint(1, 4)
        if nr == nc:
            nc += 1
        a = [[dy(rng) for _ in range(nc)] for _ in range(nr)]
        cases.append(["case nonsquare-%dx%d-%d %s" % (nr, nc, i, STORAGE[i % 3]), mat_line(a), "pow " + hx(2.0), "exp"])
    # complex spectra are outside pow/exp's scope (the code drops the imaginary parts): still tied
    for i in range(10 if big else 4):
        n = rng.randint(2, 6)
        cases.append(["case gluecomplex-%d-%d %s" % (n, i, STORAGE[i % 3]), mat_line(fam_rotation(rng, n)), "pow " + hx(2.0), "exp"])
    # 4. getD on prescribed (d, e) through the hook: well-formed lists
    for i in range(1000 if big else 120):
        n = pick_n(rng)
        d, e = wf_spectrum(rng, n)
        cases.append(["case setde-%d-%d %s" % (n, i, STORAGE[i % 3]), mat_line(eye(n)), "eig",
                      "setde " + " ".join(hx(x) for x in d) + " ; " + " ".join(hx(x) for x in e)])
    # ... and malformed ones (a positive imaginary part in the last position, a negative one in the
    # first): the model answers `ub`, the sanitised implementation aborts (a few only: each costs a re-run)
    for i in range(6 if big else 3):
        n = rng.randint(1, 6)
        d, e = wf_spectrum(rng, n)
        if i % 2 == 0:
            e[n - 1] = 0.5
        else:
            e[0] = -0.5
        cases.append(["case setdebad-%d-%d row" % (n, i), mat_line(eye(n)), "eig",
                      "setde " + " ".join(hx(x) for x in d) + " ; " + " ".join(hx(x) for x in e)])
    return cases


# ---------------------------------------------------------------- comparison
STATS = {}          # clause -> [count, max, family-of-max]
_RTOK = re.compile(r"^r\.([a-z_]+)=(.*)$")


def _strip(model):
    """split the model's answer into its value tokens and its r.* report tokens"""
    vals, reps = [], []
    for t in model.split():
        m = _RTOK.match(t)
        if m:
            reps.append((m.group(1), m.group(2)))
        else:
            vals.append(t)
    return vals, reps


def compare(op_line, impl, model):
    op = op_line.split()[0]
    vals, reps = _strip(model)
    for name, v in reps:
        try:
            x = float(v)
        except ValueError:
            continue
        s = STATS.setdefault(name, [0, 0.0])
        s[0] += 1
        if x == x and x > s[1]:
            s[1] = x
    it = impl.split()
    if op == "eig":
        # only the symmetry flag is modelled; the lists and V are explored by the driver's predicates
        return bool(it) and bool(vals) and it[0] == vals[0]
    if op in ("pow", "exp"):
        if impl.startswith("exc:zerodiv"):
            return vals == ["hole"]          # the LU inverse is not part of this model
        if impl.startswith("exc:") or (vals and vals[0].startswith("exc:")):
            return it == vals
        # implementation: d ; V ; W ; O  — the model computes O from the implementation's d, V, W
        segs = impl.split(";")
        return len(segs) == 4 and segs[3].split() == vals
    if op in ("setde", "getD"):
        if vals == ["ub"]:
            return impl.startswith("crash")  # sanitizer / libstdc++ assertion abort
        return it == vals
    return it == vals


def _constants():
    """the constants of the explored bounds, read from the driver's source"""
    import os
    p = os.path.join(os.path.dirname(os.path.dirname(os.path.abspath(__file__))), "lean", "BppModel", "Drive", "C06.lean")
    out = {}
    try:
        for m in re.finditer(r"^def (c[A-Z]\w*|condGate) : Rat := (\d+)\s*--\s*(.*)$", open(p).read(), re.M):
            out[m.group(1)] = {"value": int(m.group(2)), "bound": m.group(3).strip()}
    except OSError:
        pass
    out["unit"] = "bounds are in units of machine epsilon 2^-52; norms are exact rationals of the returned doubles"
    return out


def coverage_extra(cases, answers):
    fam, sizes, storage = {}, {}, {}
    routes = {"symmetric(tred2+tql2)": 0, "nonsymmetric(orthes+hqr2)": 0}
    pairs = 0; realonly = 0
    for c, a in zip(cases, answers):
        head = c[0].split()
        tag = head[1].split("-")[0]
        fam[tag] = fam.get(tag, 0) + 1
        if len(head) > 2:
            storage[head[2]] = storage.get(head[2], 0) + 1
        ops = [l for l in c if not l.startswith("case")]
        for l, r in zip(ops, a or []):
            if l.startswith("mat "):
                n = l.split()[1]
                sizes[n] = sizes.get(n, 0) + 1
            if l == "eig" and r and r[0] in "01":
                routes["symmetric(tred2+tql2)" if r[0] == "1" else "nonsymmetric(orthes+hqr2)"] += 1
                segs = r.split(";")
                if len(segs) == 4:
                    if any(t not in ("0000000000000000", "8000000000000000") for t in segs[2].split()):
                        pairs += 1
                    else:
                        realonly += 1
    return {
        "families": fam, "matrix_sizes": dict(sorted(sizes.items(), key=lambda kv: int(kv[0]))), "storage_classes": storage,
        "routes": routes, "decompositions_with_complex_pairs": pairs, "decompositions_real_spectrum": realonly,
        "explored_bounds_observed_max": {k: {"evaluations": v[0], "max_in_units_of_bound_without_constant": v[1]} for k, v in sorted(STATS.items())},
        "explored_bounds_constants": _constants(),
    }
