#!/bin/bash
# Multi-seed sweep of the quick checks on the unchanged tree (run e.g. through `vp run --with-repo -- bash tools/sweep.sh 2 3 4`).
# Prints one line per (property, seed); any non-zero exit or VIOLATION line is a false alarm to investigate.
cd "$(dirname "$0")/.."
[ -n "$VP_RUN_REPO" ] && export VERIF_REPO=$VP_RUN_REPO
(cd lean && lake build BppModel BppProofs driver > /dev/null 2>&1) || { echo "lake build failed"; exit 2; }
ids=$(python3 -c "import json;print(' '.join(c['property_id'] for c in json.load(open('MANIFEST.json'))['checks']))")
mkdir -p sweep_logs
for seed in "$@"; do
  printf '%s\n' $ids | xargs -P 3 -I{} bash -c "VERIF_SEED=$seed python3 tools/check.py {} --tier ${SWEEP_TIER:-quick} > sweep_logs/{}-$seed.log 2>&1; echo {} seed=$seed exit=\$? \$(grep -c '^VIOLATION' sweep_logs/{}-$seed.log) violations"
done
