#!/usr/bin/env python3
"""Translator for C18: regenerates lean/BppModel/Generated/RandWrappers.lean from the library's
current sources.

  * the one-line sampler wrappers of RandomTools.h (`std::<family>_distribution<double> dis(<args>);
    return dis(DEFAULT_GENERATOR);`) and `randBeta` of RandomTools.cpp (inverse cdf through qBeta)
    -> `wrappers : List Wrapper` (family + the argument expressions passed to it)
  * `randC()` of the distribution headers -> `randCs : List RandC` (callee + argument expressions)

Anything named rand*/give*/flipCoin that the small grammar does not recognise is an error
("translator no longer understands the source").  Guarded verification hooks
(#ifdef BIOPP_BPP_CORE_VERIF ... #endif) are removed first: they only add recording."""
import os, re, sys

VERIF = os.path.dirname(os.path.dirname(os.path.abspath(__file__)))
REPO = os.environ.get("VERIF_REPO", "/repo")
OUT = os.path.join(VERIF, "lean", "BppModel", "Generated", "RandWrappers.lean")


class Bad(Exception):
    pass


def strip(src):
    src = re.sub(r"#ifdef BIOPP_BPP_CORE_VERIF.*?#endif", "", src, flags=re.S)
    src = re.sub(r"/\*.*?\*/", "", src, flags=re.S)
    src = re.sub(r"//[^\n]*", "", src)
    return src


# ---------------------------------------------------------------- expressions
TOK = re.compile(r'\s*(?:(\d+\.\d*|\.\d+|\d+)|([A-Za-z_][A-Za-z_0-9:]*)|("(?:[^"\\]|\\.)*")|(.))')


def tokenize(s):
    out = []
    pos = 0
    s = s.strip()
    while pos < len(s):
        m = TOK.match(s, pos)
        if not m:
            raise Bad("cannot tokenize %r" % s[pos:])
        pos = m.end()
        if m.group(1):
            out.append(("num", m.group(1)))
        elif m.group(2):
            out.append(("id", m.group(2)))
        elif m.group(3):
            out.append(("str", m.group(3)[1:-1]))
        else:
            out.append(("op", m.group(4)))
    return out


class P:
    def __init__(self, toks, names):
        self.t, self.i, self.names = toks, 0, names

    def peek(self):
        return self.t[self.i] if self.i < len(self.t) else ("end", "")

    def take(self):
        x = self.peek(); self.i += 1; return x

    def expr(self):
        a = self.term()
        while self.peek() in (("op", "+"), ("op", "-")):
            op = self.take()[1]
            b = self.term()
            a = "(.add %s %s)" % (a, b) if op == "+" else "(.sub %s %s)" % (a, b)
        return a

    def term(self):
        a = self.atom()
        while self.peek() in (("op", "*"), ("op", "/")):
            op = self.take()[1]
            b = self.atom()
            a = "(.mul %s %s)" % (a, b) if op == "*" else "(.div %s %s)" % (a, b)
        return a

    def atom(self):
        k, v = self.take()
        if k == "num":
            if "." in v:
                ip, fp = v.split(".")
                den = 10 ** len(fp)
                num = int(ip or "0") * den + int(fp or "0")
                from math import gcd
                g = gcd(num, den)
                return "(.lit %d %d)" % (num // g, den // g)
            return "(.lit %d 1)" % int(v)
        if k == "op" and v == "(":
            e = self.expr()
            if self.take() != ("op", ")"):
                raise Bad("expected )")
            return e
        if k == "id":
            if v in ("sqrt", "std::sqrt"):
                if self.take() != ("op", "("):
                    raise Bad("expected ( after sqrt")
                e = self.expr()
                if self.take() != ("op", ")"):
                    raise Bad("expected )")
                return "(.sqrt %s)" % e
            if v == "getParameterValue":
                if self.take() != ("op", "("):
                    raise Bad("expected (")
                k2, name = self.take()
                if k2 != "str" or self.take() != ("op", ")"):
                    raise Bad("getParameterValue needs a string literal")
                return '(.var "%s")' % name
            name = v[:-1] if v.endswith("_") else v     # member mu_ holds parameter "mu"
            if self.names is not None and v not in self.names and not v.endswith("_"):
                raise Bad("unknown identifier %s" % v)
            return '(.var "%s")' % name
        raise Bad("unexpected token %r" % (v,))


def parse_expr(s, names):
    p = P(tokenize(s), names)
    e = p.expr()
    if p.peek()[0] != "end":
        raise Bad("trailing tokens in %r" % s)
    return e


def split_args(s):
    out, depth, cur = [], 0, ""
    for ch in s:
        if ch == "(":
            depth += 1
        if ch == ")":
            depth -= 1
        if ch == "," and depth == 0:
            out.append(cur); cur = ""
        else:
            cur += ch
    if cur.strip():
        out.append(cur)
    return [a.strip() for a in out]


FAMILY = {"normal": ".normal", "gamma": ".gamma", "exponential": ".exponential", "uniform_real": ".uniformReal", "bernoulli": ".bernoulli"}
# functions of RandomTools.h that draw but are modelled by hand in BppModel/Rand.lean (not one-line wrappers)
HAND = {"giveIntRandomNumberBetweenZeroAndEntry", "randMultinomial"}


def param_names(plist):
    names = []
    for p in split_args(plist):
        p = p.split("=")[0].strip()
        m = re.search(r"([A-Za-z_][A-Za-z_0-9]*)$", p)
        if not m:
            raise Bad("cannot read parameter %r" % p)
        names.append(m.group(1))
    return names


def wrappers():
    h = strip(open(os.path.join(REPO, "src/Bpp/Numeric/Random/RandomTools.h")).read())
    cpp = strip(open(os.path.join(REPO, "src/Bpp/Numeric/Random/RandomTools.cpp")).read())
    out = []
    seen = set()
    # definitions with a body in the header
    for m in re.finditer(r"static\s+(?:double|bool)\s+(\w+)\s*\(([^)]*)\)\s*\{(.*?)\n  \}", h, flags=re.S):
        name, plist, body = m.group(1), m.group(2), m.group(3)
        if not (name.startswith("rand") or name.startswith("give") or name == "flipCoin"):
            continue
        names = param_names(plist) if plist.strip() else []
        b = re.fullmatch(r"\s*std::(\w+)_distribution(?:<[^>]*>)?\s+(\w+)\s*\((.*)\)\s*;\s*return\s+(\w+)\s*\(\s*DEFAULT_GENERATOR\s*\)\s*;\s*", body, flags=re.S)
        if not b or b.group(2) != b.group(4) or b.group(1) not in FAMILY:
            raise Bad("body of %s is not a one-line std:: distribution wrapper: %r" % (name, body.strip()[:200]))
        args = [parse_expr(a, names) for a in split_args(b.group(3))]
        out.append((name, names, FAMILY[b.group(1)], args))
        seen.add(name)
    # randBeta: inverse cdf through the library's quantile function
    m = re.search(r"double\s+RandomTools::randBeta\s*\(([^)]*)\)\s*\{(.*?)\n\}", cpp, flags=re.S)
    if not m:
        raise Bad("randBeta not found in RandomTools.cpp")
    names = param_names(m.group(1))
    b = re.fullmatch(r"\s*return\s+(?:RandomTools::)?(\w+)\s*\(\s*giveRandomNumberBetweenZeroAndEntry\s*\(\s*1\.0*\s*\)\s*,(.*)\)\s*;\s*", m.group(2), flags=re.S)
    if not b:
        raise Bad("randBeta is not quantile(uniform(0,1), ...): %r" % m.group(2).strip()[:200])
    out.append(("randBeta", names, '(.quantileOfUniform "%s")' % b.group(1), [parse_expr(a, names) for a in split_args(b.group(2))]))
    seen.add("randBeta")
    # every drawing function declared in the header must be accounted for
    for m in re.finditer(r"static\s+[\w:<>\s]+?\s+(rand\w*|give\w*|flipCoin)\s*\(", h):
        if m.group(1) not in seen and m.group(1) not in HAND:
            raise Bad("drawing function %s is neither a recognised wrapper nor hand-modelled" % m.group(1))
    return out


def randcs():
    """`randC()` of every distribution header: `x = RandomTools::<sampler>(args) [+ shift]`, possibly
    re-drawn while outside the bounds, returned as `x` or `x + shift`."""
    out = []
    d = os.path.join(REPO, "src/Bpp/Numeric/Prob")
    for fn in sorted(os.listdir(d)):
        if not fn.endswith("DiscreteDistribution.h"):
            continue
        src = strip(open(os.path.join(d, fn)).read())
        m = re.search(r"double\s+randC\s*\(\s*\)\s*const(?:\s+override)?\s*\{(.*?)\n  \}", src, flags=re.S)
        if not m:
            continue
        body = m.group(1)
        calls = re.findall(r"RandomTools::(rand\w+|giveRandomNumberBetweenZeroAndEntry)\s*\(((?:[^()]|\([^()]*\))*)\)(?:\s*\+\s*(\w+))?", body)
        if not calls:
            continue        # not a direct sampler (mixtures etc. delegate to other distributions)
        if len(set((c[0], re.sub(r"\s+", "", c[1]), c[2]) for c in calls)) != 1:
            raise Bad("randC of %s calls different samplers: %r" % (fn, calls))
        callee, args, shift_call = calls[0]
        # the shape of the body: one draw, re-drawn while outside the bounds, returned (possibly shifted)
        call = r"RandomTools::\w+\s*\((?:[^()]|\([^()]*\))*\)(?:\s*\+\s*\w+)?"
        shape = re.fullmatch(r"\s*(?:double\s+x\s*=\s*" + call + r"\s*;\s*while\s*\(\s*!\s*intMinMax_->isCorrect\(x\)\s*\)\s*x\s*=\s*" + call +
                             r"\s*;\s*return\s+x(?:\s*\+\s*(\w+))?\s*;|return\s+" + call + r"\s*;)\s*", body, flags=re.S)
        if not shape:
            raise Bad("randC of %s is not `draw; re-draw while outside the bounds; return`: %r" % (fn, body.strip()[:300]))
        shift_ret = shape.group(1) or ""
        if shift_call and shift_ret:
            raise Bad("randC of %s shifts twice" % fn)
        shift = shift_call or shift_ret
        a = [parse_expr(x, None) for x in split_args(args)]
        sh = parse_expr(shift, None) if shift else "(.lit 0 1)"
        out.append((fn[:-len("DiscreteDistribution.h")], "%s/%d" % (callee, len(a)), a, sh))
    return out


# comparison operators of the search loops: they decide which end of each interval is closed — an event of
# probability ~2^-53 per draw that no execution will ever hit, so they are tied by regeneration instead
CMP_SITES = [
    ("pickOne(v,w,replace)", "src/Bpp/Numeric/Random/RandomTools.h", r"static T pickOne\(std::vector<T>& v, std::vector<double>& w, bool replace = false\)\s*\{.*?if \(prob (<=?|>=?) sumw\[i\]\)"),
    ("pickOne(const v,const w)", "src/Bpp/Numeric/Random/RandomTools.h", r"static T pickOne\(const std::vector<T>& v, const std::vector<double>& w\)\s*\{.*?if \(prob (<=?|>=?) sumw\[i\]\)"),
    ("pickFromCumSum", "src/Bpp/Numeric/Random/RandomTools.h", r"static size_t pickFromCumSum\(const std::vector<double>& w\)\s*\{.*?if \(prob (<=?|>=?) w\[pos\]\)"),
    ("pickFromCumSum.loop", "src/Bpp/Numeric/Random/RandomTools.h", r"static size_t pickFromCumSum\(const std::vector<double>& w\)\s*\{.*?while \(pos (<=?|>=?) w\.size\(\) - 1\)"),
    ("getSample.tooLong", "src/Bpp/Numeric/Random/RandomTools.h", r"bool replace = false\)\s*\{\s*if \(vout\.size\(\) (<=?|>=?) vin\.size\(\) && !replace\)\s*throw IndexOutOfBoundsException\(\"RandomTools::getSample: size"),
    ("getSampleW.tooLong", "src/Bpp/Numeric/Random/RandomTools.h", r"bool replace = false\)\s*\{\s*if \(vout\.size\(\) (<=?|>=?) vin\.size\(\) && !replace\)\s*throw IndexOutOfBoundsException\(\"RandomTools::getSample \(with weights\)"),
    ("randMultinomial", "src/Bpp/Numeric/Random/RandomTools.cpp", r"RandomTools::randMultinomial\(.*?if \(r (<=?|>=?) cumprob\)"),
    ("AbstractDiscreteDistribution::rand", "src/Bpp/Numeric/Prob/AbstractDiscreteDistribution.cpp", r"AbstractDiscreteDistribution::rand\(\) const\s*\{.*?if \(r (<=?|>=?) cumprob\)"),
    ("hmm.first", "src/Bpp/Numeric/Hmm/AbstractHmmTransitionMatrix.cpp", r"prob -= eqFreq_\[i\];\s*if \(prob (<=?|>=?) 0\)"),
    ("hmm.next", "src/Bpp/Numeric/Hmm/AbstractHmmTransitionMatrix.cpp", r"prob -= row\[i\];\s*if \(prob (<=?|>=?) 0\)"),
    ("ContingencyTableTest.count", "src/Bpp/Numeric/Stat/ContingencyTableTest.cpp", r"if \(stat_rep (<=?|>=?) statistic_\)\s*count\+\+;"),
    # the Monte-Carlo loop: initial count, start index, bound (how many tables are drawn) ...
    ("ContingencyTableTest.loop", "src/Bpp/Numeric/Stat/ContingencyTableTest.cpp",
     r"size_t count = 0;\s*ContingencyTableGenerator ctgen\(margin1_, margin2_\);\s*for \(unsigned int k = 0; k (<=?|>=?) nbPermutations; \+\+k\)\s*\{"),
    # ... and the formula of the p-value (the site is only found if the text is exactly this one)
    ("ContingencyTableTest.pvalue=(count+1)/(nbPermutations+1)", "src/Bpp/Numeric/Stat/ContingencyTableTest.cpp",
     r"\}\s*pvalue_ = static_cast<double>\(count \+ 1\) (/) static_cast<double>\(nbPermutations \+ 1\);"),
]


def comparisons():
    out = []
    cache = {}
    for site, f, pat in CMP_SITES:
        if f not in cache:
            cache[f] = strip(open(os.path.join(REPO, f)).read())
        m = re.search(pat, cache[f], flags=re.S)
        if not m:
            raise Bad("comparison site %s not found in %s" % (site, f))
        out.append((site, m.group(1)))
    return out


def main():
    try:
        ws = wrappers()
        rcs = randcs()
        cmps = comparisons()
    except Bad as e:
        print("translator no longer understands the source: %s" % e)
        sys.exit(1)
    lines = ["import BppModel.Rand",
             "/-! GENERATED by tools/gen_randwrappers.py from RandomTools.h, RandomTools.cpp and Prob/*DiscreteDistribution.h — do not edit. -/",
             "namespace Bpp.Generated", "open Bpp.Rand", "",
             "def wrappers : List Wrapper := ["]
    lines.append(",\n".join('  ⟨"%s/%d", [%s], %s, [%s]⟩' % (n, len(ps), ", ".join('"%s"' % p for p in ps), fam, ", ".join(args))
                            for (n, ps, fam, args) in ws))
    lines.append("]")
    lines.append("")
    lines.append("def randCs : List RandC := [")
    lines.append(",\n".join('  ⟨"%s", "%s", [%s], %s⟩' % (d, c, ", ".join(a), sh) for (d, c, a, sh) in rcs))
    lines.append("]")
    lines.append("")
    lines.append("/-- the comparison operator at each search loop / guard of the modelled code -/")
    lines.append("def comparisons : List (String × String) := [")
    lines.append(",\n".join('  ("%s", "%s")' % (a, b) for (a, b) in cmps))
    lines.append("]")
    lines.append("")
    lines.append("end Bpp.Generated")
    txt = "\n".join(lines) + "\n"
    os.makedirs(os.path.dirname(OUT), exist_ok=True)
    old = open(OUT).read() if os.path.exists(OUT) else None
    if old != txt:
        open(OUT, "w").write(txt)
    print("wrappers: " + "; ".join("%s(%s) -> %s[%s]" % (n, ",".join(ps), fam, ", ".join(args)) for (n, ps, fam, args) in ws)
          + " | randC: " + "; ".join("%s -> %s[%s] + %s" % (d, c, ", ".join(a), sh) for (d, c, a, sh) in rcs)
          + " | comparisons: " + "; ".join("%s %s" % (a, b) for (a, b) in cmps))


if __name__ == "__main__":
    main()
