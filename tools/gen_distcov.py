#!/usr/bin/env python3
"""Branch coverage of the anchored routines of C08 (RandomTools cdf / quantile functions) under the
generated scripts: RandomTools.cpp and harness/C08.cpp (which instantiates the inline wrappers of
RandomTools.h) are compiled once with `--coverage -O0`, linked with the cached objects of the rest
of the library, fed the scripts, and `gcov -b` is read back.

    python3 tools/gen_distcov.py [seed] [tier]        # prints the per-routine table

Used by gens/C08.py (`coverage_extra` -> evidence, `python3 gens/C08.py coverage` -> props/C08.coverage.md).
A branch outcome = one `branch N` line of `gcov -b` (so each operand of `&&` / `||` counts with both
outcomes); outcomes gcov marks `(throw)` (exception edges of calls) are not counted.
"""
import os, sys, re, subprocess, glob, tempfile, shutil, hashlib

HERE = os.path.dirname(os.path.abspath(__file__))
VERIF = os.path.dirname(HERE)
sys.path.insert(0, HERE)
import buildlib

CPP = "src/Bpp/Numeric/Random/RandomTools.cpp"
HDR = "src/Bpp/Numeric/Random/RandomTools.h"
# routines of the anchors: name in the report -> (file, regex of the line that starts the definition)
ROUTINES = [
    ("qNorm(p)", CPP, r"^double RandomTools::qNorm\(double prob\)"),
    ("qNorm(p,mu,sigma)", CPP, r"^double RandomTools::qNorm\(double prob, double mu"),
    ("incompleteGamma", CPP, r"^double RandomTools::incompleteGamma"),
    ("qChisq", CPP, r"^double RandomTools::qChisq"),
    ("pNorm(x,mu,sigma)", CPP, r"^double RandomTools::pNorm\(double x, double mu"),
    ("pNorm(x)", CPP, r"^double RandomTools::pNorm\(double x\)"),
    ("lnBeta", CPP, r"^double RandomTools::lnBeta"),
    ("qBeta", CPP, r"^double RandomTools::qBeta"),
    ("incompleteBeta", CPP, r"^double RandomTools::incompleteBeta"),
    ("incompletebetafe", CPP, r"^double RandomTools::incompletebetafe\("),
    ("incompletebetafe2", CPP, r"^double RandomTools::incompletebetafe2\("),
    ("incompletebetaps", CPP, r"^double RandomTools::incompletebetaps"),
    ("pChisq", HDR, r"^\s*static double pChisq\("),
    ("qGamma", HDR, r"^\s*static double qGamma\("),
    ("pGamma", HDR, r"^\s*static double pGamma\("),
    ("pBeta", HDR, r"^\s*static double pBeta\("),
]
COVFLAGS = ["-std=c++14", "-O0", "-g0", "-ffp-contract=off", "-D" + buildlib.GUARD, "-w", "--coverage"]


def _extent(lines, start):
    """index of the closing brace of the function whose header is at `start` (brace counting)"""
    depth, seen = 0, False
    for k in range(start, len(lines)):
        for ch in lines[k]:
            if ch == "{":
                depth += 1; seen = True
            elif ch == "}":
                depth -= 1
        if seen and depth == 0:
            return k
    return len(lines) - 1


def routine_ranges():
    out = {}
    for f in (CPP, HDR):
        lines = open(os.path.join(buildlib.REPO, f)).read().split("\n")
        for name, ff, rx in ROUTINES:
            if ff != f:
                continue
            for k, l in enumerate(lines):
                if re.search(rx, l):
                    out[name] = (f, k + 1, _extent(lines, k) + 1)
                    break
    return out


def build(d):
    """instrumented harness in directory d; returns exe path or raises"""
    repo = buildlib.REPO
    hdir = os.path.join(VERIF, "harness")
    hh = buildlib.headers_hash([hdir])
    srcs = sorted(glob.glob(os.path.join(repo, "src", "**", "*.cpp"), recursive=True))
    objs = []
    for s in srcs:
        if s.endswith("/Random/RandomTools.cpp"):
            continue
        obj, _, err = buildlib.compile_one(s, "plain", hh, [hdir])
        if obj is None:
            raise RuntimeError(err)
        objs.append(obj)
    for s, o in ((os.path.join(repo, CPP), "RandomTools.o"), (os.path.join(hdir, "C08.cpp"), "C08.o")):
        r = subprocess.run(["g++"] + COVFLAGS + ["-I" + os.path.join(repo, "src"), "-I" + hdir, "-c", s, "-o", os.path.join(d, o)],
                           capture_output=True, text=True, cwd=d)
        if r.returncode != 0:
            raise RuntimeError(r.stderr[-2000:])
        objs.append(os.path.join(d, o))
    exe = os.path.join(d, "harness_cov")
    r = subprocess.run(["g++", "--coverage"] + objs + ["-o", exe, "-lpthread"], capture_output=True, text=True)
    if r.returncode != 0:
        raise RuntimeError(r.stderr[-2000:])
    return exe


def run(exe, cases, d):
    script = "\n".join("\n".join(c) for c in cases) + "\n"
    r = subprocess.run([exe], input=script, capture_output=True, text=True, cwd=d, timeout=1800)
    return r.returncode


def read_gcov(d):
    """{file: {line: [(branch_no, taken_count)]}} and source text per line"""
    res, text = {}, {}
    for o, src in (("RandomTools.o", CPP), ("C08.o", HDR)):
        r = subprocess.run(["gcov", "-b", "-c", "-o", d, os.path.join(d, o)], capture_output=True, text=True, cwd=d)
        base = os.path.basename(src) + ".gcov"
        p = os.path.join(d, base)
        if not os.path.exists(p):
            continue
        cur, per = None, {}
        for l in open(p, errors="replace"):
            m = re.match(r"\s*[^:]+:\s*(\d+):(.*)$", l)
            if m and not l.startswith(("branch", "call", "function")):
                cur = int(m.group(1)); text[(src, cur)] = m.group(2).strip()
                continue
            m = re.match(r"branch\s+(\d+)\s+(never executed|taken\s+(\d+))(.*)$", l)
            if m and cur is not None:
                if "(throw)" in m.group(4):
                    continue
                n = int(m.group(3)) if m.group(3) else 0
                per.setdefault(cur, []).append((int(m.group(1)), n))
        res[src] = per
    return res, text


def summarize(res, text):
    rr = routine_ranges()
    table, missing = {}, []
    for name, (f, lo, hi) in rr.items():
        tot = hit = 0
        for line, brs in sorted(res.get(f, {}).items()):
            if lo <= line <= hi:
                for b, n in brs:
                    tot += 1
                    if n > 0:
                        hit += 1
                    else:
                        missing.append("%s %s:%d branch %d: %s" % (name, os.path.basename(f), line, b, text.get((f, line), "")))
        table[name] = {"lines": "%s:%d-%d" % (os.path.basename(f), lo, hi), "branch_outcomes": tot, "executed": hit}
    return table, missing


def line_hits(res, text):
    """every counted branch outcome with its count (for the coverage document)"""
    rr = routine_ranges()
    rows = []
    for name, (f, lo, hi) in rr.items():
        for line, brs in sorted(res.get(f, {}).items()):
            if lo <= line <= hi:
                rows.append((name, os.path.basename(f), line, text.get((f, line), ""), list(brs)))
    return rows


def measure(cases, keep=None):
    d = keep or tempfile.mkdtemp(prefix="c08cov-", dir=os.environ.get("TMPDIR", "/var/tmp"))
    try:
        exe = build(d)
        run(exe, cases, d)
        res, text = read_gcov(d)
        table, missing = summarize(res, text)
        return table, missing, line_hits(res, text)
    finally:
        if not keep:
            shutil.rmtree(d, ignore_errors=True)


if __name__ == "__main__":
    sys.path.insert(0, os.path.join(VERIF, "gens"))
    import importlib.util
    spec = importlib.util.spec_from_file_location("gC08", os.path.join(VERIF, "gens", "C08.py"))
    g = importlib.util.module_from_spec(spec); spec.loader.exec_module(g)
    seed = int(sys.argv[1]) if len(sys.argv) > 1 else 1
    tier = sys.argv[2] if len(sys.argv) > 2 else "quick"
    os.environ["VERIF_C08_BRANCHCOV"] = "0"
    cases = g.generate(seed, tier)
    table, missing, _ = measure(cases)
    for k, v in table.items():
        print("%-20s %-24s %3d / %3d" % (k, v["lines"], v["executed"], v["branch_outcomes"]))
    print("\n".join(missing))
