#!/bin/bash
# usage: seedbatch.sh Cxx   -- takes /var/tmp/seeded-pending/Cxx-a/<i>, validates, runs the check, records under seeded/
id=$1
cd /verif
for d in /var/tmp/seeded-pending/$id-a/*/; do
  i=$(basename $d)
  [ -f $d/patch.diff ] || continue
  t=seeded/$id-$i
  mkdir -p $t; cp $d/patch.diff $d/demo.cpp $d/meta.json $t/ 2>/dev/null
  if python3 tools/seedtest.py validate $t > /dev/null 2>&1; then
    python3 tools/seedtest.py detect $t $id | tail -1
  else
    echo "$t INVALID: $(python3 -c "import json;print(json.load(open('$t/validation.json')).get('error','')[:300])")"
  fi
done
