#!/bin/bash
# usage: seedbatch.sh Cxx [round]  -- takes /var/tmp/seeded-pending/Cxx-<round>/<i> (round defaults to a), validates each
# change in a scratch worktree, runs the property's quick check against it, records under seeded/Cxx-<i> (round a) or
# seeded/Cxx-<round><i> (later rounds)
id=$1; rnd=${2:-a}
cd /verif
for d in /var/tmp/seeded-pending/$id-$rnd/*/; do
  i=$(basename $d)
  [ -f $d/patch.diff ] || continue
  if [ "$rnd" = a ]; then t=seeded/$id-$i; else t=seeded/$id-$rnd$i; fi
  while [ -f /var/tmp/repo.busy ]; do sleep 20; done
  mkdir -p $t; cp $d/patch.diff $d/demo.cpp $d/meta.json $t/ 2>/dev/null
  if python3 tools/seedtest.py validate $t > /dev/null 2>&1; then
    python3 tools/seedtest.py detect $t $id | tail -1
  else
    echo "$t INVALID: $(python3 -c "import json;print(json.load(open('$t/validation.json')).get('error','')[:300])")"
  fi
done
