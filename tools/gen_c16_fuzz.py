#!/usr/bin/env python3
"""Coverage-guided stage of C16 (thorough tier): builds harness/C16.cpp as a libFuzzer target
(clang++-14 -fsanitize=fuzzer,address,undefined -D_GLIBCXX_ASSERTIONS) against $VERIF_REPO's
working tree, runs it for a fixed time from seeds derived from gens/C16.py, and returns what it
found (crash / timeout / oom artifacts first, then a sample of the coverage-increasing corpus)
as ordinary operation lines, which check.py then runs through the harness and the Lean model like
any generated case.  Objects are cached by content under .cache/obj/fuzz.
Everything here only *searches*; nothing is claimed from it beyond the inputs it returns."""
import os, sys, glob, hashlib, subprocess, tempfile, shutil, time, random
from concurrent.futures import ThreadPoolExecutor

VERIF = os.path.dirname(os.path.dirname(os.path.abspath(__file__)))
REPO = os.environ.get("VERIF_REPO", "/repo")
CXX = os.environ.get("VERIF_CLANGXX", "clang++-14")
CACHE = os.path.join(VERIF, ".cache", "obj", "fuzz")
FLAGS = ["-std=c++14", "-O1", "-g", "-fsanitize=fuzzer-no-link,address,undefined", "-fno-sanitize-recover=all",
         "-fno-omit-frame-pointer", "-D_GLIBCXX_ASSERTIONS", "-DBIOPP_BPP_CORE_VERIF", "-DVERIF_FUZZ", "-w"]


def _headers_hash():
    h = hashlib.sha256()
    for f in sorted(glob.glob(os.path.join(REPO, "src", "**", "*.h"), recursive=True)) + sorted(glob.glob(os.path.join(VERIF, "harness", "*.h"))):
        h.update(f.encode()); h.update(open(f, "rb").read())
    return h.hexdigest()


def _compile(src, hh):
    key = hashlib.sha256((hh + " ".join(FLAGS) + CXX).encode() + open(src, "rb").read()).hexdigest()
    obj = os.path.join(CACHE, key + ".o")
    if os.path.exists(obj):
        os.utime(obj, None)
        return obj, ""
    tmp = obj + ".%d.tmp" % os.getpid()
    r = subprocess.run([CXX] + FLAGS + ["-I" + os.path.join(REPO, "src"), "-I" + os.path.join(VERIF, "harness"), "-c", src, "-o", tmp],
                       capture_output=True, text=True)
    if r.returncode != 0:
        return None, r.stderr[-2000:]
    os.replace(tmp, obj)
    return obj, ""


def build(out_exe, jobs=6):
    if shutil.which(CXX) is None:
        return False, "no " + CXX
    os.makedirs(CACHE, exist_ok=True)
    hh = _headers_hash()
    srcs = sorted(glob.glob(os.path.join(REPO, "src", "**", "*.cpp"), recursive=True)) + [os.path.join(VERIF, "harness", "C16.cpp")]
    objs = []
    with ThreadPoolExecutor(max_workers=jobs) as ex:
        for obj, err in ex.map(lambda s: _compile(s, hh), srcs):
            if obj is None:
                return False, err
            objs.append(obj)
    r = subprocess.run([CXX, "-fsanitize=fuzzer,address,undefined", "-g"] + objs + ["-o", out_exe, "-lpthread"], capture_output=True, text=True)
    if r.returncode != 0:
        return False, r.stderr[-2000:]
    # keep the cache bounded
    fs = sorted(glob.glob(os.path.join(CACHE, "*.o")), key=os.path.getmtime)
    for f in fs[:-400]:
        try: os.unlink(f)
        except OSError: pass
    return True, ""


def _seed_inputs(gen, rng):
    """byte inputs of the fuzz target's format for a sample of generator strings"""
    seeds = []
    pools = [gen.TEXT, gen.NUMS, gen.TEXT, gen.TEXT, gen.NESTED, gen.NESTED, gen.TEXT, gen.TEXT, gen.TOKS, gen.NESTED, gen.KV, gen.KV, gen.KV, gen.KV,
             gen.GLOBP, gen.COMMENTS, gen.LINES, [k for k, _ in gen.VARS], gen.PATHS, gen.INTERVALS, gen.TABLES, gen.DISTS, gen.VECS, gen.SEQS, gen.FORMULAS]
    extra = {5: ["x(", "a)"], 6: ["o w", "", "hello"], 7: ["world\x1fX", "\x1f"], 8: gen.DELIMS, 9: ["(\x1f)\x1f,", "{\x1f}\x1f, "], 10: ["=", ""], 11: [",", ", "],
             13: [",\x1fa\x1fZ"], 14: gen.GLOBN, 16: None, 17: None, 20: [",", "\t"], 23: [",\x1f-"]}
    for k, pool in enumerate(pools):
        for s in pool:
            for o in (0, 1, 2, 3, 5, 8, 13):
                body = s
                if k == 16:
                    body = "=\x1f" + "\x1f".join(rng.sample(gen.LINES, 3))
                elif k == 17:
                    body = "\x1f".join(x for kv in rng.sample(gen.VARS, 3) for x in kv)
                elif extra.get(k):
                    body = s + "\x1f" + rng.choice(extra[k])
                seeds.append(bytes([k, o]) + body.encode("latin-1"))
    rng.shuffle(seeds)
    return seeds[:3000]


def run(gen, seed, seconds):
    """returns (list of (kind, op line), info dict)"""
    info = {"fuzz_seconds": seconds}
    if seconds <= 0:
        info["fuzz_status"] = "disabled"
        return [], info
    scratch = tempfile.mkdtemp(prefix="verif-c16fuzz-", dir=os.environ.get("VERIF_SCRATCH", "/var/tmp"))
    try:
        exe = os.path.join(scratch, "fuzz_c16")
        t0 = time.time()
        ok, log = build(exe)
        info["fuzz_build_s"] = round(time.time() - t0, 1)
        if not ok:
            info["fuzz_status"] = "not built: " + log[-300:]
            return [], info
        corpus = os.path.join(scratch, "corpus"); art = os.path.join(scratch, "artifacts")
        os.makedirs(corpus); os.makedirs(art)
        rng = random.Random(seed)
        for i, b in enumerate(_seed_inputs(gen, rng)):
            open(os.path.join(corpus, "seed%04d" % i), "wb").write(b)
        n_seed = len(os.listdir(corpus))
        dict_file = os.path.join(scratch, "dict")
        with open(dict_file, "w") as f:
            for tok in gen.DICT + ["\x1f", "seq(", "from=", "to=", "step=", "size=", "values=", "probas=", "dist=", "n=", "ranges="] + list(getattr(gen, "READER_DICT", [])):
                f.write('"%s"\n' % "".join("\\x%02x" % ord(c) for c in tok))
        env = dict(os.environ)
        env["ASAN_OPTIONS"] = "detect_leaks=0:abort_on_error=0:allocator_may_return_null=0"
        env["UBSAN_OPTIONS"] = "print_stacktrace=0:halt_on_error=1"
        cmd = [exe, corpus, "-max_total_time=%d" % seconds, "-fork=3", "-ignore_crashes=1", "-ignore_timeouts=1", "-ignore_ooms=1",
               "-timeout=3", "-rss_limit_mb=2048", "-max_len=4096", "-len_control=20", "-seed=%d" % (seed % 2 ** 31), "-dict=" + dict_file,
               "-artifact_prefix=" + art + "/", "-print_final_stats=1"]
        r = subprocess.run(cmd, capture_output=True, text=True, errors="replace", env=env, cwd=scratch, timeout=seconds + 300)
        tail = (r.stderr or "")[-3000:]
        for key in ("stat::number_of_executed_units", "stat::new_units_added"):
            for l in tail.split("\n"):
                if key in l:
                    info["fuzz_" + key.split("::")[1]] = l.split(":")[-1].strip()
        # libFuzzer's fork mode prints coverage in its status lines
        import re
        cov = re.findall(r"cov: (\d+)", r.stderr or "")
        if cov:
            info["fuzz_edges_covered"] = int(cov[-1])
        arts = sorted(glob.glob(os.path.join(art, "*")))
        new = sorted(f for f in glob.glob(os.path.join(corpus, "*")) if not os.path.basename(f).startswith("seed"))
        info["fuzz_artifacts"] = len(arts); info["fuzz_corpus_new"] = len(new); info["fuzz_seed_inputs"] = n_seed
        rng.shuffle(new)
        picked = [("artifact", f) for f in arts[:200]] + [("corpus", f) for f in new[:1500]]
        ops = []
        env["VERIF_C16_DECODE"] = "1"
        for lo in range(0, len(picked), 200):
            part = picked[lo:lo + 200]
            d = subprocess.run([exe] + [f for _, f in part], capture_output=True, text=True, errors="replace", env=env, cwd=scratch, timeout=300)
            lines = [l[3:] for l in d.stdout.split("\n") if l.startswith("OP ")]
            if len(lines) == len(part):
                ops += [(k, l) for (k, _), l in zip(part, lines)]
            else:       # an undecodable file (too short): decode one by one
                for k, f in part:
                    d1 = subprocess.run([exe, f], capture_output=True, text=True, errors="replace", env=env, cwd=scratch, timeout=60)
                    ops += [(k, l[3:]) for l in d1.stdout.split("\n") if l.startswith("OP ")]
        info["fuzz_status"] = "ok"
        info["fuzz_ops_replayed"] = len(ops)
        return ops, info
    except subprocess.TimeoutExpired:
        info["fuzz_status"] = "timed out"
        return [], info
    finally:
        shutil.rmtree(scratch, ignore_errors=True)


if __name__ == "__main__":
    import importlib.util
    spec = importlib.util.spec_from_file_location("gen_C16", os.path.join(VERIF, "gens", "C16.py"))
    g = importlib.util.module_from_spec(spec); spec.loader.exec_module(g)
    ops, info = run(g, 1, int(sys.argv[1]) if len(sys.argv) > 1 else 30)
    print(info)
    for k, l in ops[:20]:
        print(k, l[:150])
