#!/bin/bash
# creates an isolated workspace for one builder: a worktree of /verif (branch b-<name>) and a worktree of /repo (branch fix-<name>)
set -e
n=$1
git -C /verif worktree add -q /var/tmp/w-$n -b b-$n
git -C /repo worktree add -q /var/tmp/r-$n -b fix-$n
cd /var/tmp/w-$n
git update-index --assume-unchanged MANIFEST.json lean/BppModel.lean lean/BppProofs.lean lean/Driver.lean known_findings.json
cp -r /verif/lean/.lake /var/tmp/w-$n/lean/.lake 2>/dev/null || true
echo "workspace /var/tmp/w-$n (verif) /var/tmp/r-$n (repo)"
