#!/bin/bash
# merge one builder's branches: cherry-pick its library commits into /repo main, merge its framework branch
n=$1
cd /repo || exit 1
for c in $(git rev-list --reverse main..fix-$n); do
  if ! git cherry-pick -x $c >/tmp/cp.log 2>&1; then
    if git diff --cached --quiet && git diff --quiet; then git cherry-pick --skip; echo "skipped empty $c"; else echo "CONFLICT cherry-picking $c"; cat /tmp/cp.log; exit 1; fi
  fi
done
git log --oneline -8 | cat
cd /verif || exit 1
git merge --no-edit b-$n 2>&1 | tail -3
python3 tools/gen_manifest.py
