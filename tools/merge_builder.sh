#!/bin/bash
# merge one builder's branches: cherry-pick its library commits into /repo main, merge its framework branch
n=$1
cd /repo || exit 1
for c in $(git rev-list --reverse main..fix-$n); do
  if ! git cherry-pick -x $c >/tmp/cp.log 2>&1; then
    if git diff --cached --quiet && git diff --quiet; then git cherry-pick --skip; echo "skipped empty $c"; else echo "CONFLICT cherry-picking $c"; cat /tmp/cp.log; exit 1; fi
  fi
done
git log --oneline -8 | cat
cd /verif || exit 1
# a dirty tree (evidence rewritten by checks, regenerated files) would make the merge refuse: commit it first
git add -A; git commit -qm "wip before merging b-$n" -q 2>/dev/null
if ! git merge --no-edit b-$n >/tmp/merge.log 2>&1; then
  # evidence files are rewritten by every run: on conflict take the builder's, the next check run refreshes them
  for f in $(git diff --name-only --diff-filter=U); do
    case $f in evidence/*|findings/REPORT.md|seeded/REPORT.md|MANIFEST.json|known_findings.json|lean/BppModel.lean|lean/BppProofs.lean|lean/Driver.lean) git checkout --theirs -- $f; git add $f;; *) echo "CONFLICT in $f"; cat /tmp/merge.log; exit 1;; esac
  done
  git commit --no-edit -q
fi
tail -3 /tmp/merge.log
python3 tools/gen_manifest.py
