#!/usr/bin/env python3
"""Guard coverage of C16's routines on the real C++ (clang source-based coverage).

What is measured: the anchored source files of C16 are compiled with
`clang++-14 -O0 -fprofile-instr-generate -fcoverage-mapping` (no sanitizer), linked with
harness/C16.cpp and the rest of the library, and the *same operation scripts* the check has just
run (corpus + generated cases of the tier) are executed once more.  `llvm-cov export` then gives,
for every condition written in the source (every operand of `&&` / `||`, every `if` / `while` /
`for` / `?:` condition, every `case`), how often it was true and how often false.  A *guard* is a
source line of a routine on which at least one condition starts; it is *two-sided* when every
condition starting on that line has been both true and false.

The routines are listed in ROUTINES below (regex on the demangled name, status modelled /
search-only).  Outcomes that cannot be taken on any input are listed in
props/unreachable_C16.json with the reason (checked by hand; a guard of that list that *is*
two-sided is reported, so that the list cannot silently rot).

Called from gens/C16.py::coverage_extra on every run (evidence key `guard_coverage`), and from
the command line to regenerate props/C16.coverage.md:
    VERIF_REPO=... python3 tools/c16_coverage.py [--tier quick] [--seed 1] [--write-md]
Nothing here decides the verdict of the check; it is evidence about the generator."""
import os, sys, re, json, glob, hashlib, subprocess, shutil, time, tempfile
from concurrent.futures import ThreadPoolExecutor

VERIF = os.path.dirname(os.path.dirname(os.path.abspath(__file__)))
REPO = os.environ.get("VERIF_REPO", "/repo")
CACHE = os.path.join(VERIF, ".cache", "c16cov")

# anchored translation units (relative to $VERIF_REPO)
UNITS = ["src/Bpp/Text/TextTools.cpp", "src/Bpp/Text/StringTokenizer.cpp", "src/Bpp/Text/NestedStringTokenizer.cpp",
         "src/Bpp/Text/KeyvalTools.cpp", "src/Bpp/Utils/AttributesTools.cpp", "src/Bpp/App/ApplicationTools.cpp",
         "src/Bpp/Io/FileTools.cpp", "src/Bpp/Numeric/DataTable.cpp", "src/Bpp/Io/BppODiscreteDistributionFormat.cpp",
         "src/Bpp/Numeric/Function/Operators/ComputationTree.cpp", "src/Bpp/Numeric/ParameterList.cpp",
         "src/Bpp/App/NumCalcApplicationTools.cpp"]

# (file suffix, regex on the demangled function name, label, status)
ROUTINES = [
    ("TextTools.cpp", r"TextTools::isEmpty\(", "TextTools::isEmpty", "modelled"),
    ("TextTools.cpp", r"TextTools::toUpper\(", "TextTools::toUpper", "modelled"),
    ("TextTools.cpp", r"TextTools::toLower\(", "TextTools::toLower", "modelled"),
    ("TextTools.cpp", r"TextTools::isWhiteSpaceCharacter\(", "TextTools::isWhiteSpaceCharacter", "modelled"),
    ("TextTools.cpp", r"TextTools::removeWhiteSpaces\(", "TextTools::removeWhiteSpaces", "modelled"),
    ("TextTools.cpp", r"TextTools::removeFirstWhiteSpaces\(", "TextTools::removeFirstWhiteSpaces", "modelled"),
    ("TextTools.cpp", r"TextTools::removeLastWhiteSpaces\(", "TextTools::removeLastWhiteSpaces", "modelled"),
    ("TextTools.cpp", r"TextTools::removeSurroundingWhiteSpaces\(", "TextTools::removeSurroundingWhiteSpaces", "modelled"),
    ("TextTools.cpp", r"TextTools::isNewLineCharacter\(", "TextTools::isNewLineCharacter", "modelled"),
    ("TextTools.cpp", r"TextTools::removeNewLines\(", "TextTools::removeNewLines", "modelled"),
    ("TextTools.cpp", r"TextTools::removeLastNewLines\(", "TextTools::removeLastNewLines", "modelled"),
    ("TextTools.cpp", r"TextTools::isDecimalNumber\(char", "TextTools::isDecimalNumber(char)", "modelled"),
    ("TextTools.cpp", r"TextTools::isDecimalNumber\(std", "TextTools::isDecimalNumber(string)", "modelled"),
    ("TextTools.cpp", r"TextTools::isDecimalInteger\(", "TextTools::isDecimalInteger", "modelled"),
    ("TextTools.cpp", r"TextTools::toInt\(", "TextTools::toInt", "modelled"),
    ("TextTools.cpp", r"TextTools::toDouble\(", "TextTools::toDouble", "modelled"),
    ("TextTools.cpp", r"TextTools::resizeRight\(", "TextTools::resizeRight", "modelled"),
    ("TextTools.cpp", r"TextTools::resizeLeft\(", "TextTools::resizeLeft", "modelled"),
    ("TextTools.cpp", r"TextTools::split\(", "TextTools::split", "modelled"),
    ("TextTools.cpp", r"TextTools::removeSubstrings\(std::.*?, char, char\)$", "TextTools::removeSubstrings/3", "modelled"),
    ("TextTools.cpp", r"TextTools::removeSubstrings\(std::.*?, char, char, std::vector", "TextTools::removeSubstrings/5", "modelled"),
    ("TextTools.cpp", r"TextTools::removeChar\(", "TextTools::removeChar", "modelled"),
    ("TextTools.cpp", r"TextTools::count\(", "TextTools::count", "modelled"),
    ("TextTools.cpp", r"TextTools::startsWith\(", "TextTools::startsWith", "modelled"),
    ("TextTools.cpp", r"TextTools::endsWith\(", "TextTools::endsWith", "modelled"),
    ("TextTools.cpp", r"TextTools::hasSubstring\(", "TextTools::hasSubstring", "modelled"),
    ("TextTools.cpp", r"TextTools::replaceAll\(", "TextTools::replaceAll", "modelled"),
    ("StringTokenizer.cpp", r"StringTokenizer::StringTokenizer\(", "StringTokenizer::StringTokenizer", "modelled"),
    ("StringTokenizer.cpp", r"StringTokenizer::nextToken\(", "StringTokenizer::nextToken", "modelled"),
    ("StringTokenizer.cpp", r"StringTokenizer::getToken\(", "StringTokenizer::getToken", "modelled"),
    ("StringTokenizer.cpp", r"StringTokenizer::removeEmptyTokens\(", "StringTokenizer::removeEmptyTokens", "modelled"),
    ("StringTokenizer.cpp", r"StringTokenizer::unparseRemainingTokens\(", "StringTokenizer::unparseRemainingTokens", "modelled"),
    ("NestedStringTokenizer.cpp", r"NestedStringTokenizer::NestedStringTokenizer\(", "NestedStringTokenizer::NestedStringTokenizer", "modelled"),
    ("NestedStringTokenizer.cpp", r"NestedStringTokenizer::nextToken\(", "NestedStringTokenizer::nextToken", "modelled"),
    ("KeyvalTools.cpp", r"KeyvalTools::singleKeyval\(", "KeyvalTools::singleKeyval", "modelled"),
    ("KeyvalTools.cpp", r"KeyvalTools::multipleKeyvals\(", "KeyvalTools::multipleKeyvals", "modelled"),
    ("KeyvalTools.cpp", r"KeyvalTools::changeKeyvals\(", "KeyvalTools::changeKeyvals", "modelled"),
    ("KeyvalTools.cpp", r"KeyvalTools::parseProcedure\(", "KeyvalTools::parseProcedure", "modelled"),
    ("AttributesTools.cpp", r"AttributesTools::removeComments\(", "AttributesTools::removeComments", "modelled"),
    ("AttributesTools.cpp", r"AttributesTools::getAttributesMap\(std::vector<.*?, std::map", "AttributesTools::getAttributesMap", "modelled"),
    ("AttributesTools.cpp", r"AttributesTools::resolveVariables\(", "AttributesTools::resolveVariables", "modelled"),
    ("ApplicationTools.cpp", r"ApplicationTools::matchingParameters\(std::.*?std::vector", "ApplicationTools::matchingParameters(vector)", "modelled"),
    ("ParameterList.cpp", r"ParameterList::getMatchingParameterNames\(", "ParameterList::getMatchingParameterNames", "modelled"),
    ("FileTools.cpp", r"FileTools::getFileName\(", "FileTools::getFileName", "modelled"),
    ("FileTools.cpp", r"FileTools::getParent\(", "FileTools::getParent", "modelled"),
    ("FileTools.cpp", r"FileTools::getExtension\(", "FileTools::getExtension", "modelled"),
    ("FileTools.cpp", r"FileTools::getNextLine\(", "FileTools::getNextLine", "modelled"),
    ("Constraints.h", r"IntervalConstraint::readDescription\(", "IntervalConstraint::readDescription", "modelled"),
    ("DataTable.cpp", r"DataTable::read\(", "DataTable::read", "modelled"),
    ("DataTable.cpp", r"DataTable::addRow\(std::vector", "DataTable::addRow(vector)", "modelled"),
    ("DataTable.cpp", r"DataTable::addRow\(std::.*?basic_string.*?, std::vector", "DataTable::addRow(name, vector)", "modelled"),
    ("DataTable.cpp", r"DataTable::setRowNames\(", "DataTable::setRowNames", "modelled"),
    ("DataTable.cpp", r"DataTable::setColumnNames\(", "DataTable::setColumnNames", "modelled"),
    ("DataTable.cpp", r"DataTable::setRowName\(", "DataTable::setRowName (all overloads)", "search-only (dt.edit)"),
    ("DataTable.cpp", r"DataTable::getRowName\(", "DataTable::getRowName (all overloads)", "search-only (dt.edit)"),
    ("DataTable.cpp", r"DataTable::getRowNames\(", "DataTable::getRowNames (all overloads)", "search-only (dt.edit)"),
    ("DataTable.cpp", r"DataTable::getColumnName\(", "DataTable::getColumnName (all overloads)", "search-only (dt.edit)"),
    ("DataTable.cpp", r"DataTable::getColumnNames\(", "DataTable::getColumnNames (all overloads)", "search-only (dt.edit)"),
    ("DataTable.cpp", r"DataTable::getColumn\(", "DataTable::getColumn (all overloads)", "search-only (dt.edit)"),
    ("DataTable.cpp", r"DataTable::hasColumn\(", "DataTable::hasColumn (all overloads)", "search-only (dt.edit)"),
    ("DataTable.cpp", r"DataTable::hasRow\(", "DataTable::hasRow (all overloads)", "search-only (dt.edit)"),
    ("DataTable.cpp", r"DataTable::deleteColumn\(", "DataTable::deleteColumn (all overloads)", "search-only (dt.edit)"),
    ("DataTable.cpp", r"DataTable::addColumn\(", "DataTable::addColumn (all overloads)", "search-only (dt.edit)"),
    ("DataTable.cpp", r"DataTable::getRow\(", "DataTable::getRow (all overloads)", "search-only (dt.edit)"),
    ("DataTable.cpp", r"DataTable::deleteRow\(", "DataTable::deleteRow (all overloads)", "search-only (dt.edit)"),
    ("DataTable.cpp", r"DataTable::setRow\(", "DataTable::setRow (all overloads)", "search-only (dt.edit)"),
    ("DataTable.cpp", r"DataTable::operator\(\)\(", "DataTable::operator() (all overloads)", "search-only (dt.edit)"),
    ("DataTable.cpp", r"DataTable::write\(", "DataTable::write (all overloads)", "search-only (dt.edit)"),
    ("AttributesTools.cpp", r"AttributesTools::parseOptions\(", "AttributesTools::parseOptions", "search-only (at.opts)"),
    ("AttributesTools.cpp", r"AttributesTools::getVector\(", "AttributesTools::getVector", "search-only (at.opts)"),
    ("AttributesTools.cpp", r"AttributesTools::actualizeAttributesMap\(", "AttributesTools::actualizeAttributesMap", "search-only (at.opts)"),
    ("AttributesTools.cpp", r"AttributesTools::getAttributesMapFromFile\(", "AttributesTools::getAttributesMapFromFile", "search-only (at.opts)"),
    ("BppODiscreteDistributionFormat.cpp", r"listContent_", "listContent_ (distribution reader)", "modelled (Simple lists)"),
    ("BppODiscreteDistributionFormat.cpp", r"BppODiscreteDistributionFormat::readDiscreteDistribution\(", "BppODiscreteDistributionFormat::readDiscreteDistribution", "search-only (Simple lists modelled)"),
    ("BppODiscreteDistributionFormat.cpp", r"BppODiscreteDistributionFormat::initialize_\(", "BppODiscreteDistributionFormat::initialize_", "search-only"),
    ("NumCalcApplicationTools.cpp", r"NumCalcApplicationTools::getVector\(", "NumCalcApplicationTools::getVector", "search-only"),
    ("NumCalcApplicationTools.cpp", r"NumCalcApplicationTools::seqFromString\(", "NumCalcApplicationTools::seqFromString", "search-only"),
    ("ComputationTree.cpp", r"ComputationTree::ComputationTree\(", "ComputationTree::ComputationTree", "search-only"),
    ("ComputationTree.cpp", r"ComputationTree::readFormula_\(", "ComputationTree::readFormula_", "search-only"),
    ("ComputationTree.cpp", r"ComputationTree::output\(", "ComputationTree::output", "search-only"),
]



def _load_unreachable():
    p = os.path.join(VERIF, "props", "unreachable_C16.json")
    if os.path.exists(p):
        with open(p) as f:
            return [(e["routine"], e["line_regex"], e["reason"]) for e in json.load(f)]
    return []


def _hash_inputs():
    h = hashlib.sha256()
    fs = sorted(glob.glob(os.path.join(REPO, "src", "**", "*.h"), recursive=True)) + sorted(glob.glob(os.path.join(VERIF, "harness", "*.h")))
    fs += [os.path.join(REPO, u) for u in UNITS] + [os.path.join(VERIF, "harness", "C16.cpp"), os.path.abspath(__file__)]
    for f in fs:
        h.update(os.path.relpath(f, REPO if f.startswith(REPO) else VERIF).encode())
        with open(f, "rb") as fh:
            h.update(fh.read())
    return h.hexdigest()[:24]


CXX = os.environ.get("VERIF_CLANGXX", "clang++-14")
LLVM_SUFFIX = CXX.split("clang++")[-1]          # "-14"
COVFLAGS = ["-std=c++14", "-O0", "-g0", "-fprofile-instr-generate", "-fcoverage-mapping", "-DBIOPP_BPP_CORE_VERIF", "-DVERIF_COVERAGE", "-w"]


def build(jobs=8):
    """returns (exe, objdir) of the coverage build of the current tree (cached by content)"""
    sys.path.insert(0, os.path.join(VERIF, "tools"))
    import buildlib
    key = _hash_inputs()
    d = os.path.join(CACHE, key)
    exe = os.path.join(d, "harness_cov")
    if os.path.exists(exe):
        os.utime(d, None)
        return exe, d
    os.makedirs(CACHE, exist_ok=True)
    tmp = tempfile.mkdtemp(prefix="build-", dir=CACHE)
    inc = ["-I" + os.path.join(REPO, "src"), "-I" + os.path.join(VERIF, "harness")]
    units = [os.path.join(REPO, u) for u in UNITS] + [os.path.join(VERIF, "harness", "C16.cpp")]

    def cc(src):
        obj = os.path.join(tmp, os.path.basename(src)[:-4] + ".o")
        r = subprocess.run([CXX] + COVFLAGS + inc + ["-c", src, "-o", obj], capture_output=True, text=True, cwd=tmp)
        return obj if r.returncode == 0 else None, r.stderr[-2000:]
    objs = []
    with ThreadPoolExecutor(max_workers=jobs) as ex:
        for obj, err in ex.map(cc, units):
            if obj is None:
                shutil.rmtree(tmp, ignore_errors=True)
                raise RuntimeError("coverage build failed: " + err)
            objs.append(obj)
    # the rest of the library: buildlib's cached plain objects
    anchored = set(os.path.join(REPO, u) for u in UNITS)
    rest = [s for s in sorted(glob.glob(os.path.join(REPO, "src", "**", "*.cpp"), recursive=True)) if s not in anchored]
    hh = buildlib.headers_hash([os.path.join(VERIF, "harness")])
    with ThreadPoolExecutor(max_workers=jobs) as ex:
        for obj, hit, err in ex.map(lambda s: buildlib.compile_one(s, "plain", hh, [os.path.join(VERIF, "harness")]), rest):
            if obj is None:
                shutil.rmtree(tmp, ignore_errors=True)
                raise RuntimeError("library build failed: " + err)
            objs.append(obj)
    r = subprocess.run([CXX, "-fprofile-instr-generate"] + objs + ["-o", os.path.join(tmp, "harness_cov"), "-lpthread"], capture_output=True, text=True)
    if r.returncode != 0:
        shutil.rmtree(tmp, ignore_errors=True)
        raise RuntimeError("coverage link failed: " + r.stderr[-2000:])
    try:
        os.rename(tmp, d)
    except OSError:
        shutil.rmtree(tmp, ignore_errors=True)
    # keep the cache bounded (3 builds)
    ds = sorted([x for x in glob.glob(os.path.join(CACHE, "*")) if os.path.isdir(x) and not os.path.basename(x).startswith("build-")], key=os.path.getmtime)
    for x in ds[:-3]:
        shutil.rmtree(x, ignore_errors=True)
    return os.path.join(d, "harness_cov"), d


def run(cases, jobs=4):
    """execute the cases on the coverage build; returns the `llvm-cov export` document"""
    if shutil.which(CXX) is None:
        raise RuntimeError("no " + CXX)
    exe, d = build()
    out = tempfile.mkdtemp(prefix="prof-", dir=CACHE)
    try:
        env = dict(os.environ)
        env["LLVM_PROFILE_FILE"] = os.path.join(out, "c16_%m.profraw")      # %m: the worker processes merge into one file
        env["VERIF_C16_CPU_MS"] = "400"       # answers are not used here; the known non-terminating cases only cost time
        script = "\n".join("\n".join(c) for c in cases) + "\n"
        subprocess.run([exe], input=script, capture_output=True, text=True, env=env, errors="replace", timeout=1800)
        raws = glob.glob(os.path.join(out, "*.profraw"))
        if not raws:
            raise RuntimeError("no profile written")
        prof = os.path.join(out, "c16.profdata")
        r = subprocess.run(["llvm-profdata" + LLVM_SUFFIX, "merge", "-o", prof] + raws, capture_output=True, text=True)
        if r.returncode != 0:
            raise RuntimeError("llvm-profdata: " + r.stderr[-500:])
        r = subprocess.run(["llvm-cov" + LLVM_SUFFIX, "export", "-format=text", "-instr-profile=" + prof, exe], capture_output=True, text=True)
        if r.returncode != 0:
            raise RuntimeError("llvm-cov: " + r.stderr[-500:])
        return json.loads(r.stdout)
    finally:
        shutil.rmtree(out, ignore_errors=True)


def _demangle(names):
    r = subprocess.run(["c++filt"], input="\n".join(names) + "\n", capture_output=True, text=True)
    out = r.stdout.split("\n")
    return dict(zip(names, out)) if r.returncode == 0 and len(out) >= len(names) else {n: n for n in names}


def analyse(doc):
    """per routine: guards (lines on which a condition starts), two-sided ones, the missing outcomes"""
    unreachable = _load_unreachable()
    src_cache = {}

    def src_line(path, n):
        if path not in src_cache:
            try:
                src_cache[path] = open(path, errors="replace").read().split("\n")
            except OSError:
                src_cache[path] = []
        ls = src_cache[path]
        return ls[n - 1].strip() if 0 < n <= len(ls) else ""
    fns = doc["data"][0]["functions"]
    dem = _demangle([f["name"].split(":")[-1] for f in fns])
    # (file, demangled function, line) -> list of [col, true, false]; instantiations / copies of the same function are added up
    merged = {}
    for f in fns:
        dn = dem.get(f["name"].split(":")[-1], f["name"])
        files = f.get("filenames", [])
        for b in f.get("branches", []):
            l1, c1, l2, c2, t, fl, fid = b[0], b[1], b[2], b[3], b[4], b[5], b[6]
            path = files[fid] if fid < len(files) else (files[0] if files else "")
            cur = merged.setdefault((path, dn, l1), {})
            k = (c1, l2, c2)
            a = cur.setdefault(k, [0, 0])
            a[0] += t; a[1] += fl
    calls = {}
    for f in fns:
        dn = dem.get(f["name"].split(":")[-1], f["name"])
        for path in f.get("filenames", [])[:1]:
            calls[(path, dn)] = calls.get((path, dn), 0) + f.get("count", 0)
    res = {}
    for suffix, rx, label, status in ROUTINES:
        rxc = re.compile(rx.replace("\\(", "(?:\\[abi:cxx11\\])?\\(", 1))
        stem = suffix.rsplit(".", 1)[0]
        def in_file(path):          # the .cpp or the header of the same name (inline members)
            return os.path.basename(path).rsplit(".", 1)[0] == stem
        guards, full, missing, dead_hit = 0, 0, [], []
        matched = [(k, c) for k, c in calls.items() if in_file(k[0]) and rxc.search(k[1])]
        ncalls = max([c for _, c in matched], default=None)
        outcomes, taken = 0, 0
        for (path, dn, line), conds in sorted(merged.items()):
            if not in_file(path) or not rxc.search(dn):
                continue
            text = src_line(path, line)
            counts = [x for k in sorted(conds) for x in conds[k]]
            guards += 1
            outcomes += len(counts)
            taken += sum(1 for c in counts if c > 0)
            listed = [reason for (r2, lrx, reason) in unreachable if r2 == label and re.search(lrx, text)]
            if all(c > 0 for c in counts):
                full += 1
                if listed:
                    dead_hit.append("%s:%d" % (os.path.basename(path), line))
            else:
                detail = "; ".join("col %d: true %d, false %d" % (k[0], conds[k][0], conds[k][1]) for k in sorted(conds) if 0 in conds[k])
                ent = {"at": "%s:%d" % (os.path.basename(path), line), "source": text[:140],
                       "outcomes_taken": "%d/%d" % (sum(1 for c in counts if c > 0), len(counts)), "missing": detail}
                if listed:
                    ent["unreachable"] = listed[0]
                missing.append(ent)
        res[label] = {"status": status, "calls": ncalls if ncalls is not None else "function not found", "guards": guards, "two_sided": full, "branch_outcomes": outcomes, "outcomes_taken": taken,
                      "one_sided": [m for m in missing if "unreachable" not in m],
                      "one_sided_unreachable": [m for m in missing if "unreachable" in m]}
        if dead_hit:
            res[label]["listed_unreachable_but_two_sided"] = dead_hit
    return res


def summary(res):
    g = sum(v["guards"] for v in res.values()); f = sum(v["two_sided"] for v in res.values())
    u = sum(len(v["one_sided_unreachable"]) for v in res.values())
    return {"routines": len(res), "guards": g, "two_sided": f, "one_sided_unreachable_by_argument": u, "one_sided_open": g - f - u}


def markdown(res, tier, seed, nops):
    s = summary(res)
    out = ["# C16 — guard coverage of the routines on the real C++ (clang source-based coverage, `-O0`)", "",
           "Generated by `tools/c16_coverage.py --write-md` from the %s tier at `VERIF_SEED=%s` (%d operations: corpus + generated" % (tier, seed, nops),
           "cases, the same scripts `tools/check.py C16` runs).  A *guard* is a source line of the routine on which a condition starts",
           "(operand of `&&` / `||`, condition of `if` / `while` / `for` / `?:`, `case`); it is *two-sided* when every condition starting",
           "on the line has been both true and false.  The same table is recomputed on every run of the check (evidence key",
           "`guard_coverage`).  Outcomes that no input can take are listed in `props/unreachable_C16.json` with the reason.", "",
           "Totals: %d routines, %d guards, %d two-sided, %d one-sided because the other outcome is unreachable, **%d open**." % (
               s["routines"], s["guards"], s["two_sided"], s["one_sided_unreachable_by_argument"], s["one_sided_open"]), "",
           "| routine | status | calls | guards | two-sided | condition outcomes taken | one-sided (open) | one-sided (unreachable) |", "|---|---|---|---|---|---|---|---|"]
    for label, v in res.items():
        out.append("| `%s` | %s | %s | %d | %d | %d/%d | %s | %s |" % (label, v["status"], v["calls"], v["guards"], v["two_sided"], v["outcomes_taken"], v["branch_outcomes"],
                   ", ".join(m["at"] for m in v["one_sided"]) or "–", ", ".join(m["at"] for m in v["one_sided_unreachable"]) or "–"))
    out += ["", "## One-sided guards", ""]
    for label, v in res.items():
        for m in v["one_sided"]:
            out.append("* **open** `%s` %s (%s outcomes; %s): `%s`" % (label, m["at"], m["outcomes_taken"], m["missing"], m["source"]))
        for m in v["one_sided_unreachable"]:
            out.append("* unreachable `%s` %s (%s outcomes; %s): `%s` — %s" % (label, m["at"], m["outcomes_taken"], m["missing"], m["source"], m["unreachable"]))
    return "\n".join(out) + "\n"


def main():
    import argparse, importlib.util
    ap = argparse.ArgumentParser()
    ap.add_argument("--tier", default="quick"); ap.add_argument("--seed", type=int, default=1)
    ap.add_argument("--write-md", action="store_true"); ap.add_argument("--only", default="")
    a = ap.parse_args()
    spec = importlib.util.spec_from_file_location("gen_C16", os.path.join(VERIF, "gens", "C16.py"))
    gen = importlib.util.module_from_spec(spec); spec.loader.exec_module(gen)
    os.environ.setdefault("VERIF_C16_FUZZ_S", "5")
    cases = []
    cdir = os.path.join(VERIF, "corpus", "C16")
    for fn in sorted(os.listdir(cdir)):
        cur = None
        for l in open(os.path.join(cdir, fn)):
            l = l.rstrip("\n")
            if not l.strip() or l.startswith("#"):
                continue
            if l.startswith("case") or cur is None:
                cur = [l] if l.startswith("case") else ["case corpus", l]
                cases.append(cur)
            else:
                cur.append(l)
    cases += gen.generate(a.seed, a.tier)
    t0 = time.time()
    res = analyse(run(cases))
    nops = sum(1 for c in cases for l in c if not l.startswith("case"))
    print(json.dumps(summary(res)), "ops", nops, "in %.0fs" % (time.time() - t0))
    for label, v in res.items():
        if a.only and a.only not in label:
            continue
        for m in v["one_sided"]:
            print("OPEN  %-46s %-30s %s  %s   [%s]" % (label, m["at"], m["outcomes_taken"], m["source"][:90], m["missing"]))
    if a.write_md:
        with open(os.path.join(VERIF, "props", "C16.coverage.md"), "w") as f:
            f.write(markdown(res, a.tier, a.seed, nops))


if __name__ == "__main__":
    main()
