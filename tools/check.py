#!/usr/bin/env python3
"""Orchestrator: python3 tools/check.py <Cxx> [--tier quick|thorough] [--replay FILE]

For one property:
  1. (translator) regenerate lean/BppModel/Generated/*.lean from /repo's current sources
  2. lake build of the property's theorem module + the driver   (proof obligations)
  3. axiom audit (#print axioms on every property theorem) + textual scan for sorry/axiom/native_decide ...
  4. build the C++ harness against /repo's current working tree (guard -DBIOPP_BPP_CORE_VERIF)
  5. correspondence: generated scripts are run by the implementation (harness) and by the
     Lean model (driver); answers are diffed; the driver also evaluates the property's
     executable predicate on the implementation's answers
  6. on any break: search for a concrete failing input, shrink it, write a replay, print VIOLATION
  7. write evidence/<id>.json
"""
import sys, os, json, subprocess, tempfile, shutil, time, hashlib, re, importlib.util, fcntl, argparse, random

VERIF = os.path.dirname(os.path.dirname(os.path.abspath(__file__)))
sys.path.insert(0, os.path.join(VERIF, "tools"))
import buildlib  # noqa

LEAN = os.path.join(VERIF, "lean")
REPO = buildlib.REPO
ALLOWED_AXIOMS = {"propext", "Classical.choice", "Quot.sound"}
FORBIDDEN = re.compile(r"\b(sorry|admit|native_decide|bv_decide|implemented_by|unsafe)\b|^\s*axiom\s|maxHeartbeats\s+0\b")
SCRATCH_ROOT = os.environ.get("VERIF_SCRATCH", "/var/tmp")


def log(*a):
    print("[check]", *a, flush=True)


def load_cfg(pid):
    with open(os.path.join(VERIF, "props", pid + ".json")) as f:
        return json.load(f)


def load_gen(pid):
    p = os.path.join(VERIF, "gens", pid + ".py")
    spec = importlib.util.spec_from_file_location("gen_" + pid, p)
    m = importlib.util.module_from_spec(spec)
    spec.loader.exec_module(m)
    return m


# ---------------------------------------------------------------- Lean side
def strip_comments(src):
    # remove /- ... -/ (nested) and -- ... comments
    out, i, depth, n = [], 0, 0, len(src)
    while i < n:
        if src.startswith("/-", i):
            depth += 1; i += 2; continue
        if depth and src.startswith("-/", i):
            depth -= 1; i += 2; continue
        if depth:
            if src[i] == "\n":
                out.append("\n")
            i += 1; continue
        if src.startswith("--", i):
            while i < n and src[i] != "\n":
                i += 1
            continue
        out.append(src[i]); i += 1
    return "".join(out)


def scan_forbidden():
    hits = []
    for root in ("BppModel", "BppProofs"):
        for d, _, fs in os.walk(os.path.join(LEAN, root)):
            for f in fs:
                if not f.endswith(".lean"):
                    continue
                p = os.path.join(d, f)
                txt = strip_comments(open(p).read())
                # string literals may legitimately contain words; drop them
                txt = re.sub(r'"(\\.|[^"\\])*"', '""', txt)
                for ln, line in enumerate(txt.split("\n"), 1):
                    if FORBIDDEN.search(line):
                        hits.append("%s:%d: %s" % (os.path.relpath(p, VERIF), ln, line.strip()[:120]))
    return hits


def theorems_of(pid):
    """(fully qualified) names of the property theorems = every `theorem` in Props/<id>.lean"""
    import glob as _g
    names = []
    for p in sorted(_g.glob(os.path.join(LEAN, "BppProofs", "Props", pid + "*.lean"))):
        names += theorems_in(p)
    return names


def prop_modules(pid):
    import glob as _g
    return ["BppProofs.Props." + os.path.basename(p)[:-5] for p in sorted(_g.glob(os.path.join(LEAN, "BppProofs", "Props", pid + "*.lean")))]


def theorems_in(p):
    txt = strip_comments(open(p).read())
    ns, names = [], []
    for line in txt.split("\n"):
        m = re.match(r"\s*namespace\s+(\S+)", line)
        if m:
            ns.append(m.group(1)); continue
        m = re.match(r"\s*end\s+(\S+)", line)
        if m and ns and ns[-1] == m.group(1):
            ns.pop(); continue
        m = re.match(r"\s*(?:@\[[^\]]*\]\s*)?(?:private\s+|protected\s+)?theorem\s+([^\s:({\[]+)", line)
        if m:
            names.append(".".join(ns + [m.group(1)]))
    return names


def lake(args, timeout=3000):
    os.makedirs(os.path.join(VERIF, ".cache"), exist_ok=True)
    lock = open(os.path.join(VERIF, ".cache", "lake.lock"), "w")
    fcntl.flock(lock, fcntl.LOCK_EX)
    try:
        r = subprocess.run(["lake"] + args, cwd=LEAN, capture_output=True, text=True, timeout=timeout)
        return r.returncode, r.stdout + r.stderr
    finally:
        fcntl.flock(lock, fcntl.LOCK_UN); lock.close()


def lean_side(pid, cfg, tier, scratch):
    """returns dict(ok, build_ok, driver_ok, failed_theorems, obligations, discharged, audit, log)"""
    res = {"build_ok": False, "driver_ok": False, "obligations": 0, "discharged": 0, "problems": [], "axioms": {}}
    # 1. translator
    tr = cfg.get("translator")
    if tr:
        r = subprocess.run([sys.executable, os.path.join(VERIF, tr)], capture_output=True, text=True)
        res["generated_items"] = r.stdout.strip().split("\n")[-1][:2000] if r.stdout.strip() else ""
        if r.returncode != 0:
            res["problems"].append("translator no longer understands the source: " + (r.stdout + r.stderr)[-1500:])
    # 2. driver first (model only), then the theorems
    rc, out = lake(["build", "driver"])
    res["driver_ok"] = rc == 0
    if rc != 0:
        res["problems"].append("model/driver no longer builds:\n" + out[-3000:])
    targets = cfg.get("lean_targets", prop_modules(pid))
    rc, out = lake(["build"] + targets)
    res["build_ok"] = rc == 0
    thms = theorems_of(pid)
    res["obligations"] = len(thms)
    if rc != 0:
        res["problems"].append("proof obligations no longer check (lake build %s):\n%s" % (" ".join(targets), out[-3000:]))
        bad = sorted(set(re.findall(r"error: ([^\n]*)", out)))
        res["build_errors"] = bad[:20]
        return res
    # 3. audit
    audit = os.path.join(scratch, "Audit_%s.lean" % pid)
    with open(audit, "w") as f:
        for t in targets:
            f.write("import %s\n" % t)
        for t in thms:
            f.write("#print axioms %s\n" % t)
    r = subprocess.run(["lake", "env", "lean", audit], cwd=LEAN, capture_output=True, text=True, timeout=1800)
    txt = r.stdout + r.stderr
    cur = None
    ax = {}
    for m in re.finditer(r"'([^']+)' (depends on axioms: \[([^\]]*)\]|does not depend on any axioms)", txt.replace("\n", " ")):
        name = m.group(1)
        ax[name] = [a.strip() for a in m.group(3).split(",")] if m.group(3) else []
    res["axioms"] = ax
    disc = 0
    for t in thms:
        if t not in ax:
            res["problems"].append("audit: no axiom report for theorem %s (%s)" % (t, txt[-400:]))
        elif set(ax[t]) - ALLOWED_AXIOMS:
            res["problems"].append("audit: theorem %s depends on non-accepted axioms %s" % (t, sorted(set(ax[t]) - ALLOWED_AXIOMS)))
        else:
            disc += 1
    res["discharged"] = disc
    hits = scan_forbidden()
    if hits:
        res["problems"].append("forbidden tokens in Lean sources: " + "; ".join(hits[:10]))
    if tier == "thorough":
        for mod in cfg.get("leanchecker_modules", targets):
            r = subprocess.run(["lake", "env", "leanchecker", mod], cwd=LEAN, capture_output=True, text=True, timeout=3000)
            res.setdefault("leanchecker", {})[mod] = r.returncode
            if r.returncode != 0:
                res["problems"].append("leanchecker rejected %s: %s" % (mod, (r.stdout + r.stderr)[-800:]))
    return res


# ---------------------------------------------------------------- implementation side
def run_harness_once(exe, cases, timeout, env):
    script = "\n".join("\n".join(c) for c in cases) + "\n"
    try:
        r = subprocess.run([exe], input=script, capture_output=True, text=True, timeout=timeout, env=env, errors="replace")
    except subprocess.TimeoutExpired as e:
        return None, "timeout", (e.stdout or b"").decode(errors="replace") if isinstance(e.stdout, bytes) else (e.stdout or "")
    return r, ("ok" if r.returncode == 0 else "crash:%d" % r.returncode), r.stdout


def nops(case):
    return sum(1 for l in case if l.strip() and not l.startswith(("case", "#", "=")))


def run_harness(exe, cases, per_case_timeout=10.0, chunk=200):
    """run all cases; returns list of answer-lists (one answer per op line). A crash or a
    hang inside a case gives the answers produced so far followed by `crash:<rc>`/`hang` for
    the op that did not answer and `skipped` for the rest."""
    env = dict(os.environ)
    env["ASAN_OPTIONS"] = "detect_leaks=0:abort_on_error=0:hard_rss_limit_mb=4096:allocator_may_return_null=0"
    env["UBSAN_OPTIONS"] = "print_stacktrace=0:halt_on_error=1"
    answers = [None] * len(cases)
    diag = {}

    def solo(i):
        r, st, out = run_harness_once(exe, [cases[i]], per_case_timeout, env)
        lines = out.split("\n")
        if lines and lines[-1] == "":
            lines.pop()
        n = nops(cases[i])
        if st == "ok" and len(lines) == n:
            return lines
        tag = "hang" if st == "timeout" else st if st != "ok" else "short"
        lines = lines[:n]
        if r is not None and r.stderr:
            diag[i] = r.stderr[-1500:]
        if len(lines) < n:
            lines = lines + [tag] + ["skipped"] * (n - len(lines) - 1)
        return lines

    def block(lo, hi):
        sub = cases[lo:hi]
        r, st, out = run_harness_once(exe, sub, per_case_timeout * max(1, (hi - lo)) / 4 + 20, env)
        lines = out.split("\n")
        if lines and lines[-1] == "":
            lines.pop()
        total = sum(nops(c) for c in sub)
        if st == "ok" and len(lines) == total:
            k = 0
            for i in range(lo, hi):
                n = nops(cases[i]); answers[i] = lines[k:k + n]; k += n
            return
        if hi - lo == 1:
            answers[lo] = solo(lo); return
        mid = (lo + hi) // 2
        block(lo, mid); block(mid, hi)

    for lo in range(0, len(cases), chunk):
        block(lo, min(len(cases), lo + chunk))
    return answers, diag


def run_driver(pid, cases, answers, scratch):
    exe = os.path.join(LEAN, ".lake", "build", "bin", "driver")
    buf = []
    for c, a in zip(cases, answers):
        k = 0
        for l in c:
            buf.append(l)
            if l.strip() and not l.startswith(("case", "#", "=")):
                if a is not None:
                    buf.append("= " + a[k])
                k += 1
    script = "\n".join(buf) + "\n"
    r = subprocess.run([exe, pid], input=script, capture_output=True, text=True, timeout=3000)
    lines = r.stdout.split("\n")
    if lines and lines[-1] == "":
        lines.pop()
    out, k = [], 0
    for c in cases:
        n = nops(c)
        seg = lines[k:k + n]; k += n
        pairs = []
        for s in seg:
            if " | " in s:
                m, v = s.rsplit(" | ", 1)
            else:
                m, v = s, "-"
            pairs.append((m.strip(), v.strip()))
        while len(pairs) < n:
            pairs.append(("driver-missing", "-"))
        out.append(pairs)
    return out, (r.returncode, r.stderr[-1000:])


def norm(s):
    return " ".join(s.split())


def evaluate(pid, cfg, gen, exe, cases, scratch, known=None):
    """returns list of issues: dict(case, op_index, kind in {mismatch, predicate}, clause, impl, model).
    A predicate failure that matches a listed known finding does not end its case (the operations
    after it are still diffed and judged) unless props/<id>.json sets "stop_after_known": true;
    any other issue ends the case.  A driver that aborted (non-zero exit, or answers missing) is a
    broken correspondence, never a silent pass."""
    answers, diag = run_harness(exe, cases, per_case_timeout=cfg.get("case_timeout", 10.0))
    model, dstat = run_driver(pid, cases, answers, scratch)
    issues = []
    cmp_fn = getattr(gen, "compare", None)
    go_on = known is not None and not cfg.get("stop_after_known", False)
    for ci, (c, a, m) in enumerate(zip(cases, answers, model)):
        ops = [l for l in c if l.strip() and not l.startswith(("case", "#", "="))]
        for oi, (impl, (mod, verdict)) in enumerate(zip(a, m)):
            if impl == "skipped":
                continue
            if mod == "driver-missing":
                issues.append({"case": ci, "op": oi, "kind": "mismatch", "clause": "correspondence", "impl": impl, "model": "driver-missing (the Lean driver aborted: rc=%s %s)" % (dstat[0], dstat[1][-200:].replace("\n", " ")),
                               "line": ops[oi], "diag": "driver aborted"})
                break
            same = cmp_fn(ops[oi], impl, mod) if cmp_fn else norm(impl) == norm(mod)
            if verdict.startswith("FAIL"):
                iss = {"case": ci, "op": oi, "kind": "predicate", "clause": verdict[5:], "impl": impl, "model": mod, "line": ops[oi]}
                issues.append(iss)
                if go_on and match_known(pid, iss, c, known):
                    continue
                break
            if not same:
                issues.append({"case": ci, "op": oi, "kind": "mismatch", "clause": "correspondence", "impl": impl, "model": mod, "line": ops[oi],
                               "diag": diag.get(ci, "")})
                break
    return issues, answers, model


def shrink(pid, cfg, gen, exe, case, issue, scratch, budget=150):
    """delta-debug the op list of a failing case, keeping an issue of the same kind+clause"""
    head = [l for l in case if l.startswith("case")]
    ops = [l for l in case if not l.startswith("case")]
    ops = ops[: issue["op"] + 1]

    def fails(sub):
        iss, _, _ = evaluate(pid, cfg, gen, exe, [head + sub], scratch)
        for i in iss:
            if i["kind"] == issue["kind"] and i["clause"] == issue["clause"]:
                return i
        return None

    n, runs = 2, 0
    cur, cur_issue = ops, issue
    while len(cur) >= 2 and runs < budget:
        size = max(1, len(cur) // n)
        reduced = False
        for start in range(0, len(cur), size):
            cand = cur[:start] + cur[start + size:]
            if not cand:
                continue
            runs += 1
            i = fails(cand)
            if i:
                cur, cur_issue, reduced = cand[: i["op"] + 1], i, True
                n = max(n - 1, 2)
                break
            if runs >= budget:
                break
        if not reduced:
            if size == 1:
                break
            n = min(len(cur), n * 2)
    return head + cur, cur_issue


# ---------------------------------------------------------------- known findings
def load_known():
    p = os.path.join(VERIF, "known_findings.json")
    if not os.path.exists(p):
        return []
    with open(p) as f:
        return json.load(f).get("findings", [])


def match_known(pid, issue, case, known):
    for k in known:
        if k.get("property") != pid or k.get("status") != "known":
            continue
        if k.get("clause") != issue["clause"] or k.get("kind", "predicate") != issue["kind"]:
            continue
        pat = k.get("op_regex")
        if pat and not re.search(pat, issue["line"]):
            continue
        hp = k.get("history_regex")
        if hp and not re.search(hp, "\n".join(case)):
            continue
        return k
    return None


# ---------------------------------------------------------------- main
def write_replay(pid, seed, n, case, issue, note):
    d = os.path.join(VERIF, "replays")
    os.makedirs(d, exist_ok=True)
    p = os.path.join(d, "%s-%s-%d.txt" % (pid, seed, n))
    with open(p, "w") as f:
        f.write("# property=%s seed=%s\n" % (pid, seed))
        f.write("# %s\n" % note.replace("\n", "\n# "))
        if issue:
            f.write("# failing op   : %s\n# clause       : %s (%s)\n# implementation: %s\n# model/expected: %s\n" % (
                issue["line"], issue["clause"], issue["kind"], issue["impl"], issue["model"]))
        f.write("# replay: python3 tools/check.py %s --replay %s\n" % (pid, os.path.relpath(p, VERIF)))
        for l in case:
            f.write(l + "\n")
    return p


def case_key(c):
    return hashlib.sha1("\n".join(c).encode()).hexdigest()


def main():
    ap = argparse.ArgumentParser()
    ap.add_argument("pid")
    ap.add_argument("--tier", default=os.environ.get("VERIF_TIER", "quick"))
    ap.add_argument("--replay")
    ap.add_argument("--no-lean", action="store_true", help="developer option: skip the proof build/audit")
    args = ap.parse_args()
    pid, tier = args.pid, args.tier
    if tier not in ("quick", "thorough"):
        tier = "quick"
    seed = int(os.environ.get("VERIF_SEED", "1"))
    t0 = time.time()
    cfg = load_cfg(pid)
    gen = load_gen(pid)
    scratch = tempfile.mkdtemp(prefix="verif-%s-" % pid, dir=SCRATCH_ROOT)
    violations = []   # (replay path, suffix)
    known_lines = []
    ev = {"property_id": pid, "tier": tier, "seed": seed, "level": cfg["level"], "coverage": {}, "assumptions": cfg.get("assumptions", []), "wall_s": 0.0, "violations": 0}
    try:
        # ---- Lean
        if args.no_lean:
            lres = {"build_ok": True, "driver_ok": True, "obligations": 0, "discharged": 0, "problems": [], "axioms": {}}
            lake(["build", "driver"])
        else:
            lres = lean_side(pid, cfg, tier, scratch)
        log("lean: obligations=%d discharged=%d problems=%d (%.0fs)" % (lres["obligations"], lres["discharged"], len(lres["problems"]), time.time() - t0))
        # ---- harness
        exe = os.path.join(scratch, "harness_" + pid)
        h = cfg["harness"]
        ok, blog, bstat = buildlib.build_harness(os.path.join(VERIF, h["src"]), exe, h.get("flavor", "plain"),
                                                 None if h.get("lib") else h.get("repo_sources", []))
        if not ok and h.get("fallback_lib") and not h.get("lib"):
            # optional: the listed repo_sources no longer link (a new dependency); retry against the whole library
            ok, blog, bstat = buildlib.build_harness(os.path.join(VERIF, h["src"]), exe, h.get("flavor", "plain"), None)
        if not ok:
            # the tree does not compile with our harness: that is not a property violation we can decide;
            # report it as a broken correspondence
            p = write_replay(pid, seed, 0, [], None, "harness no longer compiles against /repo:\n" + blog[-3000:])
            violations.append((p, " no-failing-input-found"))
            raise StopIteration
        log("harness built", bstat)
        known = load_known()
        # ---- cases
        if args.replay:
            lines = [l.rstrip("\n") for l in open(args.replay) if l.strip() and not l.startswith("#")]
            cases = []
            for l in lines:
                if l.startswith("case") or not cases:
                    cases.append([] if l.startswith("case") else ["case replay"])
                cases[-1].append(l)
            corpus_n = 0
        else:
            cases = []
            cdir = os.path.join(VERIF, "corpus", pid)
            if os.path.isdir(cdir):
                for fn in sorted(os.listdir(cdir)):
                    if fn.endswith(".thorough.txt") and tier != "thorough":
                        continue   # expensive witnesses (minutes of run time) are replayed in the thorough tier only
                    cur = None
                    for l in open(os.path.join(cdir, fn)):
                        l = l.rstrip("\n")
                        if not l.strip() or l.startswith("#"):
                            continue
                        if l.startswith("case") or cur is None:
                            cur = [l] if l.startswith("case") else ["case corpus", l]
                            cases.append(cur)
                        else:
                            cur.append(l)
            corpus_n = len(cases)
            cases += gen.generate(seed, tier)
        log("cases: %d (corpus %d)" % (len(cases), corpus_n))
        issues, answers, model = ([], [], [])
        if lres["driver_ok"]:
            issues, answers, model = evaluate(pid, cfg, gen, exe, cases, scratch, known)
        # ---- classify
        new_issues = []
        seen_known = {}
        for i in issues:
            k = match_known(pid, i, cases[i["case"]], known)
            if k:
                seen_known.setdefault(k["id"], (k, i))
            else:
                new_issues.append(i)
        for kid, (k, i) in sorted(seen_known.items()):
            known_lines.append("KNOWN-FINDING: property=%s %s [%s]" % (pid, k["what"], kid))
        # ---- report new issues (predicate failures first: they are concrete failing inputs)
        preds = [i for i in new_issues if i["kind"] == "predicate"]
        mism = [i for i in new_issues if i["kind"] == "mismatch"]
        reported = 0
        seen_sig = set()
        for i in preds:
            sig = (i["clause"], i["line"].split()[0])
            if sig in seen_sig or reported >= 5:
                continue
            seen_sig.add(sig)
            small, si = shrink(pid, cfg, gen, exe, cases[i["case"]], i, scratch)
            if match_known(pid, si, small, known):
                small, si = cases[i["case"]], i
            p = write_replay(pid, seed, len(violations), small, si,
                             "the property's predicate is false on the implementation's answer")
            violations.append((p, ""))
            reported += 1
        if mism and not preds:
            # model and implementation disagree but no predicate failed: search harder
            log("correspondence broken on %d cases; searching for a failing input" % len(mism))
            found = None
            extra_budget = 0
            for s2 in range(1, 11):
                extra = gen.generate(seed * 1000 + s2, tier)
                extra_budget += len(extra)
                iss2, _, _ = evaluate(pid, cfg, gen, exe, extra, scratch)
                p2 = [x for x in iss2 if x["kind"] == "predicate" and not match_known(pid, x, extra[x["case"]], known)]
                if p2:
                    found = (extra[p2[0]["case"]], p2[0]); break
            if found:
                small, si = shrink(pid, cfg, gen, exe, found[0], found[1], scratch)
                p = write_replay(pid, seed, len(violations), small, si,
                                 "correspondence broke; directed search found an input on which the property's predicate fails")
                violations.append((p, ""))
            else:
                i = mism[0]
                small, si = shrink(pid, cfg, gen, exe, cases[i["case"]], i, scratch)
                note = ("correspondence (model vs implementation) no longer checks for property %s: the theorems in "
                        "lean/BppProofs/Props/%s.lean are about a model the code no longer matches; searched %d further cases, "
                        "no input found on which the property's predicate fails.%s" % (pid, pid, extra_budget,
                        ("\nharness diagnostics:\n" + i.get("diag", "")) if i.get("diag") else ""))
                p = write_replay(pid, seed, len(violations), small, si, note)
                violations.append((p, " no-failing-input-found"))
        if lres["problems"] and not violations:
            note = "proof side no longer checks:\n" + "\n".join(lres["problems"])
            p = write_replay(pid, seed, len(violations), [], None, note)
            violations.append((p, " no-failing-input-found"))
        # ---- evidence
        nontrivial = set()
        hist = {}
        raised = 0
        total_ops = 0
        for c, a in zip(cases, answers):
            ops = [l for l in c if l.strip() and not l.startswith(("case", "#", "="))]
            for l, r in zip(ops, a):
                hist[l.split()[0]] = hist.get(l.split()[0], 0) + 1
                total_ops += 1
                if r.startswith("exc:"):
                    raised += 1
            if len(set(a)) >= 2 or any(r.startswith("exc:") for r in a):
                nontrivial.add(case_key(c))
        samples = []
        for c, a in list(zip(cases, answers))[corpus_n: corpus_n + 400: 150]:
            ops = [l for l in c if not l.startswith("case")]
            samples.append({"script": c[:1] + ops[:12], "implementation_answers": a[:12]})
        thms = theorems_of(pid)
        cov = {
            "obligations": lres["obligations"], "discharged": lres["discharged"],
            "checker_cmd": "cd lean && lake build %s && lake env lean <generated #print axioms file>%s" % (
                " ".join(cfg.get("lean_targets", prop_modules(pid))), " && lake env leanchecker <module>" if tier == "thorough" else ""),
            "trusted_base": cfg.get("trusted_base", []) + ["Lean 4.33 kernel", "axioms: " + ", ".join(sorted({a for v in lres["axioms"].values() for a in v}) or ["none"])],
            "theorems": thms,
            "evaluations": len(cases), "distinct_nontrivial": len(nontrivial),
            "rule": cfg.get("rule", "") + " | non-trivial = the implementation's answers within the script are not all identical, or an operation raised; distinct = by full script text",
            "samples": samples or [{"note": "no case executed"}],
            "traces_validated_against_impl": len([1 for a in answers if a]),
            "operations_executed": total_ops, "op_histogram": hist,
            "raised_fraction": round(raised / total_ops, 4) if total_ops else 0.0,
            "corpus_cases": corpus_n,
            "correspondence_mismatches": len([i for i in issues if i["kind"] == "mismatch"]),
            "predicate_failures": len([i for i in issues if i["kind"] == "predicate"]),
            "known_findings_seen": sorted(seen_known.keys()),
            "lean_problems": lres["problems"][:5],
            "harness_build": bstat,
        }
        if "generated_items" in lres:
            cov["generated_items"] = lres["generated_items"]
        if "leanchecker" in lres:
            cov["leanchecker"] = lres["leanchecker"]
        if cfg["level"] == "other" or cfg.get("explanation"):
            cov["explanation"] = cfg.get("explanation", "")
        extra = getattr(gen, "coverage_extra", None)
        if extra:
            # a generator may take the driver's (model answer, verdict) pairs as a third argument
            try:
                import inspect
                three = len(inspect.signature(extra).parameters) >= 3
            except (TypeError, ValueError):
                three = False
            cov.update(extra(cases, answers, model) if three else extra(cases, answers))
        ev["coverage"] = cov
    except StopIteration:
        ev["coverage"] = {"obligations": 0, "discharged": 0, "checker_cmd": "n/a", "trusted_base": [], "explanation": "harness build failed",
                          "evaluations": 1, "distinct_nontrivial": 0}
    finally:
        shutil.rmtree(scratch, ignore_errors=True)
    ev["wall_s"] = round(time.time() - t0, 1)
    ev["violations"] = len(violations)
    if not args.replay:
        os.makedirs(os.path.join(VERIF, "evidence"), exist_ok=True)
        with open(os.path.join(VERIF, "evidence", pid + ".json"), "w") as f:
            json.dump(ev, f, indent=1)
    for l in known_lines:
        print(l)
    for p, suffix in violations:
        print("VIOLATION property=%s replay=%s%s" % (pid, os.path.relpath(p, VERIF), suffix))
    log("done in %.0fs: %d violations" % (time.time() - t0, len(violations)))
    sys.exit(1 if violations else 0)


if __name__ == "__main__":
    main()
