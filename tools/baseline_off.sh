#!/bin/bash
# Builds /repo WITHOUT the verification guard in a scratch directory and runs the 20-test suite.
set -e
REPO=${VERIF_REPO:-/repo}
D=$(mktemp -d /var/tmp/verif-baseline-XXXXXX)
trap 'rm -rf "$D"' EXIT
GEN=""
command -v ninja >/dev/null 2>&1 && GEN="-G Ninja"
cmake $GEN -S "$REPO" -B "$D" -DCMAKE_BUILD_TYPE=RelWithDebInfo -DCMAKE_CXX_FLAGS=-Wno-error >"$D/cmake.log" 2>&1 || { cat "$D/cmake.log"; exit 2; }
cmake --build "$D" -j16 >"$D/build.log" 2>&1 || { tail -50 "$D/build.log"; exit 2; }
ctest --test-dir "$D" -j8 --timeout 900
