#!/usr/bin/env python3
"""Regenerates MANIFEST.json (from props/*.json), lean/BppModel.lean, lean/BppProofs.lean and
lean/Driver.lean (from the files present).  Run after adding a property."""
import json, os, glob, re
V = os.path.dirname(os.path.dirname(os.path.abspath(__file__)))
ALL = ["C%02d" % i for i in range(1, 21)]
cfgs = {}
for p in sorted(glob.glob(os.path.join(V, "props", "C*.json"))):
    c = json.load(open(p)); cfgs[c["id"]] = c
na_file = os.path.join(V, "props", "not_applicable.json")
na = json.load(open(na_file)) if os.path.exists(na_file) else {}
checks = []
for pid, c in cfgs.items():
    checks.append({
        "property_id": pid,
        "quick_cmd": "python3 tools/check.py %s --tier quick" % pid,
        "thorough_cmd": "python3 tools/check.py %s --tier thorough" % pid,
        "evidence_file": "evidence/%s.json" % pid,
        "replay_cmd_template": "python3 tools/check.py %s --replay {path}" % pid,
        "engine": "lean-proof+correspondence",
        "level_claimed": {"category": c["level"], "text": c["level_text"], "design_ref": c.get("design_ref", "DESIGN.md §7")},
        "level_note": c["level_note"],
        "technique": c["technique"],
    })
man = {
    "version": 1,
    "setup_cmd": "cd lean && lake build BppModel BppProofs driver",
    "hooks": {
        "guard": "BIOPP_BPP_CORE_VERIF",
        "enable": "harnesses and /repo sources are compiled by tools/buildlib.py with -DBIOPP_BPP_CORE_VERIF",
        "baseline_off_cmd": "bash tools/baseline_off.sh",
        "source_commits": json.load(open(os.path.join(V, "props", "hooks.json")))["source_commits"] if os.path.exists(os.path.join(V, "props", "hooks.json")) else [],
        "add_only": True,
    },
    "engines": [{"name": "lean-proof+correspondence", "path": "tools/check.py", "serves_properties": sorted(cfgs),
                 "kind_free_text": "Lean 4 theorems about a hand-written executable model (lean/BppModel, lean/BppProofs) + differential correspondence check of the model against the C++ built from /repo's working tree (harness/*.cpp, gens/*.py), same predicates evaluated on implementation traces"}],
    "checks": checks,
    "not_applicable": [{"property_id": p, "reason": na.get(p, "no check built yet in this round (plan: DESIGN.md §7); not claimed")} for p in ALL if p not in cfgs],
    "notes": "See DESIGN.md. Known defects of the unchanged tree are listed in known_findings.json.",
}
json.dump(man, open(os.path.join(V, "MANIFEST.json"), "w"), indent=1)

L = os.path.join(V, "lean")
def mods(sub):
    out = []
    for d, _, fs in os.walk(os.path.join(L, sub)):
        for f in sorted(fs):
            if f.endswith(".lean"):
                out.append(os.path.relpath(os.path.join(d, f), L)[:-5].replace("/", "."))
    return sorted(out)
open(os.path.join(L, "BppModel.lean"), "w").write("".join("import %s\n" % m for m in mods("BppModel")))
open(os.path.join(L, "BppProofs.lean"), "w").write("".join("import %s\n" % m for m in mods("BppProofs")))
drv = sorted(m.split(".")[-1] for m in mods("BppModel/Drive"))
s = "import BppModel.Proto\n" + "".join("import BppModel.Drive.%s\n" % d for d in drv)
s += "open Bpp\n\ndef main (args : List String) : IO UInt32 := do\n  match args with\n"
for d in drv:
    s += '  | ["%s"] => Proto.run Drive.%s.machine; return 0\n' % (d, d)
s += '  | _ => IO.eprintln "usage: driver <property-id> < script"; return 2\n'
open(os.path.join(L, "Driver.lean"), "w").write(s)
print("manifest: %d checks, %d not claimed" % (len(checks), len(ALL) - len(cfgs)))
