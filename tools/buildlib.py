#!/usr/bin/env python3
"""Build /repo's sources (current working tree) and a harness against them.

Objects are cached under /verif/.cache/obj keyed by the *content* of the
translation unit and of every header in /repo/src (plus flags), so a cache hit is
exactly a rebuild of the current tree; nothing is keyed by time or commit.
"""
import hashlib, os, subprocess, sys, glob, fcntl, time, shutil
from concurrent.futures import ThreadPoolExecutor

VERIF = os.path.dirname(os.path.dirname(os.path.abspath(__file__)))
REPO = os.environ.get("VERIF_REPO", "/repo")
CACHE = os.path.join(VERIF, ".cache", "obj")
GUARD = "BIOPP_BPP_CORE_VERIF"

FLAVORS = {
    # bit-exact numeric ties: plain optimised build, no fast-math, no FMA (baseline x86-64)
    "plain": ["-std=c++14", "-O1", "-g0", "-ffp-contract=off", "-D" + GUARD, "-w"],
    # UB-observing build
    "asan": ["-std=c++14", "-O1", "-g", "-fsanitize=address,undefined", "-fno-sanitize-recover=all",
             "-fno-omit-frame-pointer", "-D_GLIBCXX_ASSERTIONS", "-ffp-contract=off", "-D" + GUARD, "-w"],
}


def sha(b):
    return hashlib.sha256(b).hexdigest()


def headers_hash(extra_dirs=()):
    h = hashlib.sha256()
    files = sorted(glob.glob(os.path.join(REPO, "src", "**", "*.h"), recursive=True))
    for d in extra_dirs:
        files += sorted(glob.glob(os.path.join(d, "*.h")))
    for f in files:
        h.update(f.encode())
        with open(f, "rb") as fh:
            h.update(fh.read())
    return h.hexdigest()


def compile_one(src, flavor, hh, incs):
    flags = FLAVORS[flavor]
    with open(src, "rb") as fh:
        key = sha((hh + flavor + " ".join(flags) + " ".join(incs)).encode() + fh.read())
    d = os.path.join(CACHE, flavor)
    os.makedirs(d, exist_ok=True)
    obj = os.path.join(d, key + ".o")
    if os.path.exists(obj):
        os.utime(obj, None)
        return obj, True, ""
    tmp = obj + ".%d.tmp" % os.getpid()
    cmd = ["g++"] + flags + ["-I" + os.path.join(REPO, "src")] + ["-I" + i for i in incs] + ["-c", src, "-o", tmp]
    r = subprocess.run(cmd, capture_output=True, text=True)
    if r.returncode != 0:
        if os.path.exists(tmp):
            os.unlink(tmp)
        return None, False, r.stderr[-4000:]
    os.replace(tmp, obj)
    return obj, False, ""


def prune(limit=1500):
    for flavor in FLAVORS:
        d = os.path.join(CACHE, flavor)
        if not os.path.isdir(d):
            continue
        fs = [os.path.join(d, f) for f in os.listdir(d)]
        if len(fs) <= limit:
            continue
        fs.sort(key=lambda f: os.path.getmtime(f))
        for f in fs[: len(fs) - limit]:
            try:
                os.unlink(f)
            except OSError:
                pass


def build_harness(harness_src, out_exe, flavor="plain", repo_sources=None, jobs=16, extra_srcs=()):
    """Compile harness_src (+ the given /repo sources, or all of them when
    repo_sources is None) and link to out_exe.  Returns (ok, log, stats)."""
    t0 = time.time()
    os.makedirs(CACHE, exist_ok=True)
    lock = open(os.path.join(VERIF, ".cache", "build.lock"), "w")
    fcntl.flock(lock, fcntl.LOCK_EX)
    try:
        hdir = os.path.join(VERIF, "harness")
        hh = headers_hash([hdir])
        if repo_sources is None:
            srcs = sorted(glob.glob(os.path.join(REPO, "src", "**", "*.cpp"), recursive=True))
        else:
            srcs = [os.path.join(REPO, s) for s in repo_sources]
        srcs = srcs + [harness_src] + list(extra_srcs)
        objs, hits, errs = [], 0, []
        with ThreadPoolExecutor(max_workers=jobs) as ex:
            for obj, hit, err in ex.map(lambda s: compile_one(s, flavor, hh, [hdir]), srcs):
                if obj is None:
                    errs.append(err)
                else:
                    objs.append(obj)
                    hits += hit
        if errs:
            return False, "\n".join(errs), {}
        cmd = ["g++"] + [f for f in FLAVORS[flavor] if f.startswith("-fsan") or f == "-g"] + objs + ["-o", out_exe, "-lpthread"]
        r = subprocess.run(cmd, capture_output=True, text=True)
        if r.returncode != 0:
            return False, r.stderr[-4000:], {}
        prune()
        return True, "", {"translation_units": len(srcs), "cache_hits": hits, "build_s": round(time.time() - t0, 1)}
    finally:
        fcntl.flock(lock, fcntl.LOCK_UN)
        lock.close()


if __name__ == "__main__":
    ok, log, st = build_harness(sys.argv[1], sys.argv[2], sys.argv[3] if len(sys.argv) > 3 else "plain")
    print(ok, st)
    print(log)
