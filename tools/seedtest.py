#!/usr/bin/env python3
"""Validate a seeded change and run the checks against it.

  seedtest.py validate <dir>          # <dir> has patch.diff, demo.cpp, meta.json
      in a scratch worktree of /repo: clean tree -> demo exits 0; with the patch the library
      builds, the 20 tests pass, the demo exits non-zero.  Writes <dir>/validation.json
  seedtest.py detect <dir> [Cxx ...]  # apply patch to /repo, run the quick checks, undo
      writes <dir>/detection.json: per property exit code and VIOLATION lines
"""
import sys, os, json, subprocess, tempfile, shutil, time

VERIF = os.path.dirname(os.path.dirname(os.path.abspath(__file__)))
REPO = os.environ.get("VERIF_REPO", "/repo")


def sh(cmd, **kw):
    return subprocess.run(cmd, shell=True, capture_output=True, text=True, **kw)


def validate(d):
    d = os.path.abspath(d)
    wt = tempfile.mkdtemp(prefix="sv-", dir="/tmp")
    os.rmdir(wt)
    b = wt + "-build"
    res = {"at": time.strftime("%F %T")}
    try:
        r = sh("git -C %s worktree add --detach %s HEAD" % (REPO, wt))
        assert r.returncode == 0, r.stderr
        res["repo_head"] = sh("git -C %s rev-parse --short HEAD" % REPO).stdout.strip()
        gen = "-G Ninja" if shutil.which("ninja") else ""
        r = sh("cmake %s -S %s -B %s -DCMAKE_BUILD_TYPE=RelWithDebInfo -DCMAKE_CXX_FLAGS=-Wno-error && cmake --build %s -j16" % (gen, wt, b, b))
        assert r.returncode == 0, (r.stdout + r.stderr)[-2000:]
        demo = "g++ -std=c++14 -w -I%s/src %s/demo.cpp -L%s/src -lbpp-core3 -Wl,-rpath,%s/src -o %s/demo" % (wt, d, b, b, b)
        r = sh(demo)
        assert r.returncode == 0, "demo does not compile on the clean tree: " + r.stderr[-1500:]
        r = sh("%s/demo" % b, timeout=300)
        res["demo_clean_exit"] = r.returncode
        r = sh("git -C %s apply %s/patch.diff" % (wt, d))
        res["patch_applies"] = r.returncode == 0
        assert r.returncode == 0, "patch does not apply: " + r.stderr
        r = sh("cmake --build %s -j16" % b)
        res["builds_with_patch"] = r.returncode == 0
        assert r.returncode == 0, (r.stdout + r.stderr)[-2000:]
        r = sh("ctest --test-dir %s -j8 --timeout 900" % b)
        res["tests_pass_with_patch"] = r.returncode == 0
        res["ctest_tail"] = r.stdout.strip().split("\n")[-3:]
        r = sh(demo)
        assert r.returncode == 0, "demo does not compile with the patch: " + r.stderr[-1500:]
        try:
            r = sh("%s/demo" % b, timeout=120)
            res["demo_patched_exit"] = r.returncode
            res["demo_patched_output"] = (r.stdout + r.stderr)[-600:]
        except subprocess.TimeoutExpired:
            res["demo_patched_exit"] = "timeout"
        res["valid"] = (res["demo_clean_exit"] == 0 and res["demo_patched_exit"] != 0 and res["tests_pass_with_patch"])
    except AssertionError as e:
        res["valid"] = False
        res["error"] = str(e)
    finally:
        sh("git -C %s worktree remove --force %s" % (REPO, wt))
        shutil.rmtree(b, ignore_errors=True)
        shutil.rmtree(wt, ignore_errors=True)
    json.dump(res, open(os.path.join(d, "validation.json"), "w"), indent=1)
    print(json.dumps(res, indent=1))
    return res["valid"]


def detect(d, pids):
    d = os.path.abspath(d)
    st = sh("git -C %s status --porcelain --untracked-files=no" % REPO).stdout.strip()
    assert not st, "/repo has local modifications: " + st
    r = sh("git -C %s apply %s/patch.diff" % (REPO, d))
    assert r.returncode == 0, "patch does not apply to /repo: " + r.stderr
    out = {"at": time.strftime("%F %T"), "repo_head": sh("git -C %s rev-parse --short HEAD" % REPO).stdout.strip(), "checks": {}}
    try:
        for pid in pids:
            t0 = time.time()
            r = sh("python3 tools/check.py %s --tier quick" % pid, cwd=VERIF)
            viol = [l for l in r.stdout.split("\n") if l.startswith("VIOLATION")]
            replay = ""
            if viol:
                p = viol[0].split("replay=")[1].split()[0]
                try:
                    replay = open(os.path.join(VERIF, p)).read()[:1500]
                except OSError:
                    pass
            out["checks"][pid] = {"exit": r.returncode, "violations": viol, "first_replay": replay, "wall_s": round(time.time() - t0, 1)}
            print(pid, "exit", r.returncode, viol[:2])
    finally:
        sh("git -C %s checkout -- ." % REPO)
        # evidence files were rewritten by a run against a mutated tree: restore them
        sh("git -C %s checkout -- evidence" % VERIF)
    json.dump(out, open(os.path.join(d, "detection.json"), "w"), indent=1)
    return out


if __name__ == "__main__":
    if sys.argv[1] == "validate":
        sys.exit(0 if validate(sys.argv[2]) else 1)
    elif sys.argv[1] == "detect":
        detect(sys.argv[2], sys.argv[3:])
