#!/usr/bin/env python3
"""Dictionary translator for C16's search-only readers (run on every check, and by gens/C16.py on
every generation): collects from the *current* sources of $VERIF_REPO every literal the readers
compare their input with, so that a new argument / distribution / scale / function name enters the
generator's grammar without anybody editing it.

  BppODiscreteDistributionFormat.cpp   distName == "X"            -> distribution names
                                       args.find("k") / args["k"]  -> argument names, grouped under the
                                                                      distribution names seen last
                                       "k" + TextTools::toString(  -> numbered families (dist1, dist2, ...)
                                       desc.find("c")              -> characters of the item grammars
  NumCalcApplicationTools.cpp          keyvals.find("k") / keyvals["k"], sc == "v", substr(..) == "p"
  ComputationTree.cpp                  c == 'x', formula[..] == 'x', fonc == "f"

Prints the dictionary as one JSON line; exits 1 when a group that used to exist is empty (the
reader was restructured: the translator no longer understands the source)."""
import os, re, sys, json

REPO = os.environ.get("VERIF_REPO", "/repo")

FILES = {
    "dist": "src/Bpp/Io/BppODiscreteDistributionFormat.cpp",
    "vec": "src/Bpp/App/NumCalcApplicationTools.cpp",
    "formula": "src/Bpp/Numeric/Function/Operators/ComputationTree.cpp",
}


def _strip_comments(src):
    src = re.sub(r"/\*.*?\*/", lambda m: "\n" * m.group(0).count("\n"), src, flags=re.S)
    return re.sub(r"//[^\n]*", "", src)


def _function_body(src, header_rx):
    """text of the function whose header matches header_rx (from the header to the matching brace)"""
    m = re.search(header_rx, src)
    if not m:
        return ""
    i = src.find("{", m.end())
    if i < 0:
        return ""
    depth, j = 0, i
    while j < len(src):
        if src[j] == "{":
            depth += 1
        elif src[j] == "}":
            depth -= 1
            if depth == 0:
                return src[m.start():j + 1]
        j += 1
    return src[m.start():]


def scan(repo=None):
    repo = repo or REPO
    out = {}
    # ---------------------------------------------------------------- distribution reader
    src = _strip_comments(open(os.path.join(repo, FILES["dist"])).read())
    body = _function_body(src, r"BppODiscreteDistributionFormat::readDiscreteDistribution\s*\(")
    names, groups, order = [], {}, []
    current = ["*"]
    numbered = set()
    item_chars = set()
    for line in body.split("\n"):
        dn = re.findall(r'distName\s*==\s*"([^"]*)"', line)
        if dn:
            current = dn
            for d in dn:
                if d not in names:
                    names.append(d)
        for k in re.findall(r'args\.find\(\s*"([^"]+)"\s*\+\s*TextTools::toString', line) + re.findall(r'args\[\s*"([^"]+)"\s*\+\s*TextTools::toString', line):
            numbered.add(k)
        keys = re.findall(r'args\.find\(\s*"([^"]+)"\s*\)', line) + re.findall(r'args\[\s*"([^"]+)"\s*\]', line)
        for k in keys:
            for d in current:
                g = groups.setdefault(d, [])
                if k not in g:
                    g.append(k)
            if k not in order:
                order.append(k)
        for c in re.findall(r'(?<!args)\.find\(\s*"([^"]{1,2})"\s*\)', line):
            item_chars.add(c)
    out["dist_names"] = names
    out["dist_args"] = groups
    out["dist_all_args"] = order
    out["dist_numbered"] = sorted(numbered)
    out["dist_item_chars"] = sorted(item_chars)
    # ---------------------------------------------------------------- getVector / seqFromString
    src = _strip_comments(open(os.path.join(repo, FILES["vec"])).read())
    body = _function_body(src, r"NumCalcApplicationTools::getVector\s*\(")
    keys = []
    for k in re.findall(r'keyvals\.find\(\s*"([^"]+)"\s*\)', body) + re.findall(r'keyvals\[\s*"([^"]+)"\s*\]', body):
        if k not in keys:
            keys.append(k)
    out["vec_keys"] = keys
    out["vec_scales"] = sorted(set(re.findall(r'sc\s*==\s*"([^"]+)"', body)))
    out["vec_prefixes"] = sorted(set(re.findall(r'substr\([^)]*\)\s*==\s*"([^"]+)"', body)))
    # ---------------------------------------------------------------- formulas
    src = _strip_comments(open(os.path.join(repo, FILES["formula"])).read())
    body = _function_body(src, r"ComputationTree::readFormula_\s*\(")
    out["formula_chars"] = sorted(set(re.findall(r"==\s*'(\\?.)'", body)))
    out["formula_funcs"] = sorted(set(re.findall(r'fonc\s*==\s*"([^"]+)"', body)))
    return out


REQUIRED = ["dist_names", "dist_all_args", "dist_numbered", "dist_item_chars", "vec_keys", "vec_scales", "vec_prefixes", "formula_chars", "formula_funcs"]


def check(d):
    return [k for k in REQUIRED if not d.get(k)]


if __name__ == "__main__":
    d = scan()
    print(json.dumps(d, sort_keys=True))
    missing = check(d)
    if missing:
        print("gen_c16_dict: nothing found for %s in %s — the readers were restructured" % (missing, REPO), file=sys.stderr)
        sys.exit(1)
