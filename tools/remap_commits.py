#!/usr/bin/env python3
"""Re-points the commit ids recorded in findings/*.json (status fixed) and props/hooks.d/*.json
at the commits of /repo's current history (they go stale when fix branches are rebased or
cherry-picked).  Hooks are matched by subject; fixes by word overlap between the finding's text
and the commit's subject, body and file list.  Prints every change; run gen_manifest.py after."""
import json, subprocess, re, glob, os, sys
V = os.path.dirname(os.path.dirname(os.path.abspath(__file__)))
REPO = os.environ.get("VERIF_REPO", "/repo")
raw = subprocess.run(["git", "-C", REPO, "log", "--format=%h\x01%s\x01%b\x02"], capture_output=True, text=True).stdout.split("\x02")
commits = []
for l in raw:
    l = l.strip()
    if not l:
        continue
    h, s, b = l.split("\x01")
    files = subprocess.run(["git", "-C", REPO, "show", "--name-only", "--format=", h], capture_output=True, text=True).stdout
    commits.append((h, s, b, files))
shas = {c[0] for c in commits}
# exact mapping: `git cherry-pick -x` records the original id in the body
picked = {}
for h, s_, b, fs in commits:
    for m in re.findall(r"cherry picked from commit ([0-9a-f]{7,40})", b):
        picked[m[:7]] = (h, s_)
def toks(t):
    return set(w.lower() for w in re.findall(r"[A-Za-z_][A-Za-z_0-9]{3,}", t))
changed = 0
for p in sorted(glob.glob(os.path.join(V, "findings", "*.json"))):
    fl = json.load(open(p)); dirty = False
    for f in fl:
        if f.get("status") != "fixed":
            continue
        cur = re.findall(r"[0-9a-f]{7,}", f.get("commit", ""))
        if cur and all(c[:7] in shas for c in cur):
            continue
        exact = [picked[c[:7]] for c in cur if c[:7] in picked]
        if exact and len(exact) == len(cur):
            new = " (+".join(e[0] for e in exact) + (")" if len(exact) > 1 else "")
            print("%s: %s -> %s  (exact, %s)" % (os.path.basename(p), f.get("commit"), new, exact[0][1][:60]))
            f["commit"] = new; f["commit_subject"] = exact[0][1]; dirty = True; changed += 1
            continue
        ft = toks(f["what"])
        sc = sorted(((len(ft & toks(s + " " + b + " " + fs)) / (len(toks(s + " " + b + " " + fs)) ** 0.5 + 1), h, s)
                     for h, s, b, fs in commits if s.startswith("fix:")), reverse=True)
        if not sc or sc[0][0] < 0.5:
            print("UNRESOLVED", p, f.get("commit"), f["what"][:80]); continue
        print("%s: %s -> %s  (%s)" % (os.path.basename(p), f.get("commit"), sc[0][1], sc[0][2][:70]))
        f["commit"] = sc[0][1]; f["commit_subject"] = sc[0][2]; dirty = True; changed += 1
    if dirty:
        json.dump(fl, open(p, "w"), indent=1)
for p in sorted(glob.glob(os.path.join(V, "props", "hooks.d", "*.json"))):
    d = json.load(open(p)); new = []
    for sc in d["source_commits"]:
        h, subj = sc.split(" ", 1)
        m = [c for c in commits if c[1] == subj]
        if h[:7] in shas or not m:
            if not m and h[:7] not in shas:
                print("UNRESOLVED hook", sc)
            new.append(sc)
        else:
            new.append(m[0][0] + " " + subj); changed += 1
            print("hook: %s -> %s" % (h, m[0][0]))
    d["source_commits"] = new
    json.dump(d, open(p, "w"), indent=1)
print("changed", changed)
