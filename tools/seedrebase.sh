#!/bin/bash
# re-create seeded/<name>/patch.diff against the current /repo HEAD when the original no longer applies (context moved by a fix)
t=/verif/seeded/$1
cd /repo && git diff --quiet || { echo "/repo dirty"; exit 1; }
cp $t/patch.diff $t/patch.orig.diff
if patch -p1 --fuzz=3 -s < $t/patch.orig.diff; then git diff > $t/patch.diff; git checkout -- .; find src -name '*.orig' -delete; echo rebased; else git checkout -- .; echo FAILED; fi
