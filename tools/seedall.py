#!/usr/bin/env python3
"""Re-validate and re-detect every seeded change against the *current* HEADs of /verif and /repo, in parallel.

  python3 tools/seedall.py [-j K] [seed names ...]

Each of K workers gets its own detached worktree of /verif (with a copy of lean/.lake) and of /repo under
/var/tmp/seedall-<k>/, so patches are applied to a scratch copy of the library, never to /repo. Results are
written to seeded/<name>/{validation,detection}.json; a patch that no longer applies is reported (rebase it
with tools/seedrebase.sh or mark the seed obsolete).  Worktrees are removed at the end."""
import sys, os, json, subprocess, glob, queue, threading, shutil, argparse
V = os.path.dirname(os.path.dirname(os.path.abspath(__file__)))
REPO = "/repo"
ap = argparse.ArgumentParser(); ap.add_argument("-j", type=int, default=4); ap.add_argument("names", nargs="*")
a = ap.parse_args()
seeds = []
for d in sorted(glob.glob(os.path.join(V, "seeded", "*", ""))):
    n = os.path.basename(d.rstrip("/"))
    if os.path.exists(d + "OBSOLETE.md") or not os.path.exists(d + "patch.diff"):
        continue
    if a.names and n not in a.names:
        continue
    pid = json.load(open(d + "meta.json")).get("property") or n.split("-")[0]
    seeds.append((n, pid[:3]))
def sh(c, **kw):
    return subprocess.run(c, shell=True, capture_output=True, text=True, **kw)
slots = queue.Queue()
for k in range(a.j):
    root = "/var/tmp/seedall-%d-%d" % (os.getpid(), k)
    sh("git -C %s worktree remove --force %s/verif; git -C %s worktree remove --force %s/repo; rm -rf %s" % (V, root, REPO, root, root))
    os.makedirs(root)
    r = sh("git -C %s worktree add --detach %s/verif HEAD && git -C %s worktree add --detach %s/repo HEAD" % (V, root, REPO, root))
    assert r.returncode == 0, r.stderr
    sh("cp -r %s/lean/.lake %s/verif/lean/.lake" % (V, root))
    slots.put(root)
out = {}
lock = threading.Lock()
def work(n, pid):
    root = slots.get()
    try:
        env = dict(os.environ, VERIF_REPO=root + "/repo")
        d = os.path.join(V, "seeded", n)
        r = subprocess.run([sys.executable, root + "/verif/tools/seedtest.py", "validate", d], capture_output=True, text=True, env=env)
        val = json.load(open(d + "/validation.json"))
        if not val.get("valid"):
            res = "INVALID: " + (val.get("error") or "demo/test condition failed")[:160].replace("\n", " ")
        else:
            r = subprocess.run([sys.executable, root + "/verif/tools/seedtest.py", "detect", d, pid], capture_output=True, text=True, env=env, cwd=root + "/verif")
            res = (r.stdout.strip().split("\n") or ["?"])[-1][:200] if r.returncode == 0 else "detect failed: " + (r.stderr or r.stdout)[-300:]
        with lock:
            out[n] = res
            print(n, res, flush=True)
    finally:
        sh("git -C %s/repo checkout -- . ; git -C %s/verif checkout -- evidence" % (root, root))
        slots.put(root)
ths = [threading.Thread(target=work, args=s) for s in seeds]
sem = threading.Semaphore(a.j)
def run(t):
    with sem:
        t.run()
ts = [threading.Thread(target=run, args=(t,)) for t in ths]
for t in ts: t.start()
for t in ts: t.join()
for k in range(a.j):
    root = "/var/tmp/seedall-%d-%d" % (os.getpid(), k)
    sh("git -C %s worktree remove --force %s/verif; git -C %s worktree remove --force %s/repo; rm -rf %s" % (V, root, REPO, root, root))
sh("%s %s/tools/seed_report.py" % (sys.executable, V))
print("done:", len(out), "seeds")
