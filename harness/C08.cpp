// Harness for C08: interprets scripts against RandomTools' cumulative / quantile functions.
//
// Answer grammar: <outcome> { ; <tag> <arg>... <outcome> }
//   outcome = 16 hex digits | nan | exc:bpp | hang (no answer within 2 s of CPU)
// The groups after the first are values of *public* RandomTools functions at the points the
// wrapper under test is supposed to query them (computed here with the same expression as in
// the header); the driver uses them as the kernels' values (lean/BppModel/DistGuards.lean).
// Ops starting with `x.` serve the exploration (dense grids, inverse relations, monotonicity).
#include "common.h"
#include <Bpp/Numeric/Random/RandomTools.h>
#include <Bpp/Exceptions.h>
#include <cmath>
#include <functional>
#include <csetjmp>
#include <csignal>
#include <sys/time.h>
using namespace bpp; using namespace verif;

static std::string H(double d) { return std::isnan(d) ? "nan" : doubleToHex(d); }
static double D(const std::string& s) { return s == "nan" ? std::nan("") : hexToDouble(s); }
// Watchdog: a call that uses more than OP_LIMIT seconds of CPU is abandoned and answered `hang`
// (the functions under test are pure arithmetic, so jumping out of them is harmless here).
static const double OP_LIMIT = 2.0;
static sigjmp_buf g_jmp;
static void onAlarm(int) { siglongjmp(g_jmp, 1); }
static void arm(double sec) {
  struct itimerval it; std::memset(&it, 0, sizeof it);
  it.it_value.tv_sec = static_cast<long>(sec); it.it_value.tv_usec = static_cast<long>((sec - static_cast<long>(sec)) * 1e6);
  setitimer(ITIMER_VIRTUAL, &it, nullptr);
}
static std::string O(std::function<double()> f) {
  if (sigsetjmp(g_jmp, 1)) return "hang";
  arm(OP_LIMIT);
  std::string r;
  try { r = H(f()); } catch (Exception&) { r = "exc:bpp"; }
  arm(0);
  return r;
}
typedef RandomTools R;

// exploration: one evaluator for every public function (unused arguments are ignored);
// a suffix `@tag` of the function name only labels the scenario
static double eval(const std::string& f0, double a, double b, double c) {
  const std::string f = f0.substr(0, f0.find('@'));
  if (f == "pnorm") return R::pNorm(a);
  if (f == "qnorm") return R::qNorm(a);
  if (f == "pnorm3") return R::pNorm(a, b, c);
  if (f == "qnorm3") return R::qNorm(a, b, c);
  if (f == "pgamma") return R::pGamma(a, b, c);
  if (f == "qgamma") return R::qGamma(a, b, c);
  if (f == "pchisq") return R::pChisq(a, b);
  if (f == "qchisq") return R::qChisq(a, b);
  if (f == "pbeta") return R::pBeta(a, b, c);
  if (f == "qbeta") return R::qBeta(a, b, c);
  if (f == "ig") return R::incompleteGamma(a, b, c);
  if (f == "lnbeta") return R::lnBeta(a, b);
  if (f == "lngamma") return R::lnGamma(a);
  throw std::runtime_error("unknown function");
}
static std::string E(const std::string& f, double a, double b, double c) { return O([&] { return eval(f, a, b, c); }); }

static std::string op(const Toks& t) {
  const std::string& o = t[0];
  // ---- exploration
  if (o == "x.acc") return E(t[2], D(t[5]), D(t[6]), D(t[7]));
  if (o == "x.lin2") return E(t[5], D(t[6]), D(t[7]), D(t[8])) + " " + E(t[10], D(t[11]), D(t[12]), D(t[13]));
  if (o == "x.mono") return E(t[1], D(t[3]), D(t[4]), D(t[5])) + " " + E(t[1], D(t[6]), D(t[7]), D(t[8]));
  if (o == "x.inv") {
    // q = qX(p), then pX at q and at the two floating-point neighbours of q (within the support):
    // q is as good as a double can be when the neighbours' cdf values bracket p
    const std::string& fam = t[1]; double p = D(t[3]), a = D(t[4]), b = D(t[5]);
    std::string q = E("q" + fam, p, a, b);
    if (q == "exc:bpp" || q == "nan" || q == "hang") return q + " " + q + " " + q + " " + q;
    double qv = D(q), lo = std::nextafter(qv, -INFINITY), hi = std::nextafter(qv, INFINITY);
    if (fam == "beta") { if (lo < 0) lo = 0; if (hi > 1) hi = 1; }
    if (fam == "gamma" || fam == "chisq") { if (lo < 0) lo = 0; }
    return q + " " + E("p" + fam, qv, a, b) + " " + E("p" + fam, lo, a, b) + " " + E("p" + fam, hi, a, b);
  }
  // ---- transcribed kernels (round 2): outcome + the lnGamma values the routine queries
  if (o == "k.ig") { double x = D(t[1]), a = D(t[2]), g = D(t[3]); return O([&] { return R::incompleteGamma(x, a, g); }); }
  if (o == "k.qchisq") {
    double p = D(t[1]), v = D(t[2]); double h = v / 2;
    return O([&] { return R::qChisq(p, v); }) + " ; lg " + H(h) + " " + H(R::lnGamma(h));
  }
  if (o == "k.ibeta" || o == "k.qbeta") {
    double x = D(t[1]), a = D(t[2]), b = D(t[3]); double s = a + b;
    std::string r = (o == "k.ibeta") ? O([&] { return R::incompleteBeta(x, a, b); }) : O([&] { return R::qBeta(x, a, b); });
    return r + " ; lg " + H(a) + " " + H(R::lnGamma(a)) + " ; lg " + H(b) + " " + H(R::lnGamma(b)) + " ; lg " + H(s) + " " + H(R::lnGamma(s));
  }
  // exact reflections by construction of the tail swaps: f(x, a, b) and f(1 - x, b, a)
  if (o == "refl.ibeta") { double x = D(t[1]), a = D(t[2]), b = D(t[3]); double w = 1.0 - x;
    return O([&] { return R::incompleteBeta(x, a, b); }) + " " + O([&] { return R::incompleteBeta(w, b, a); }); }
  if (o == "refl.qbeta") { double x = D(t[1]), a = D(t[2]), b = D(t[3]); double w = 1.0 - x;
    return O([&] { return R::qBeta(x, a, b); }) + " " + O([&] { return R::qBeta(w, b, a); }); }
  // ---- normal
  if (o == "pnorm") { double z = D(t[1]); return O([&] { return R::pNorm(z); }); }
  if (o == "qnorm") { double p = D(t[1]); return O([&] { return R::qNorm(p); }); }
  if (o == "pnorm3") {
    double x = D(t[1]), mu = D(t[2]), s = D(t[3]); double z = (x - mu) / s;
    return O([&] { return R::pNorm(x, mu, s); }) + " ; pn " + H(z) + " " + O([&] { return R::pNorm(z); });
  }
  if (o == "qnorm3") {
    double p = D(t[1]), mu = D(t[2]), s = D(t[3]);
    return O([&] { return R::qNorm(p, mu, s); }) + " ; qn " + H(p) + " " + O([&] { return R::qNorm(p); });
  }
  // ---- gamma family
  if (o == "ig") { double x = D(t[1]), a = D(t[2]), g = D(t[3]); return O([&] { return R::incompleteGamma(x, a, g); }); }
  if (o == "pgamma") {
    double x = D(t[1]), a = D(t[2]), b = D(t[3]);
    double lg = R::lnGamma(a); double q = b * x;
    return O([&] { return R::pGamma(x, a, b); }) + " ; lg " + H(a) + " " + H(lg)
      + " ; ig " + H(q) + " " + H(a) + " " + H(lg) + " " + O([&] { return R::incompleteGamma(q, a, lg); });
  }
  if (o == "pchisq") {
    double x = D(t[1]), v = D(t[2]);
    double a = v / 2, b = 0.5; double lg = R::lnGamma(a); double q = b * x;
    return O([&] { return R::pChisq(x, v); }) + " ; lg " + H(a) + " " + H(lg)
      + " ; ig " + H(q) + " " + H(a) + " " + H(lg) + " " + O([&] { return R::incompleteGamma(q, a, lg); })
      + " ; pg " + H(x) + " " + H(a) + " " + H(b) + " " + O([&] { return R::pGamma(x, a, b); });
  }
  if (o == "qchisq") { double p = D(t[1]), v = D(t[2]); return O([&] { return R::qChisq(p, v); }); }
  if (o == "qgamma") {
    double p = D(t[1]), a = D(t[2]), b = D(t[3]); double v = 2.0 * a;
    return O([&] { return R::qGamma(p, a, b); }) + " ; qc " + H(p) + " " + H(v) + " " + O([&] { return R::qChisq(p, v); });
  }
  // ---- beta family
  if (o == "ibeta") { double x = D(t[1]), a = D(t[2]), b = D(t[3]); return O([&] { return R::incompleteBeta(x, a, b); }); }
  if (o == "pbeta") {
    double x = D(t[1]), a = D(t[2]), b = D(t[3]);
    return O([&] { return R::pBeta(x, a, b); }) + " ; ib " + H(x) + " " + H(a) + " " + H(b) + " " + O([&] { return R::incompleteBeta(x, a, b); });
  }
  if (o == "qbeta") { double p = D(t[1]), a = D(t[2]), b = D(t[3]); return O([&] { return R::qBeta(p, a, b); }); }
  if (o == "lnbeta") {
    double a = D(t[1]), b = D(t[2]); double s = a + b;
    return O([&] { return R::lnBeta(a, b); }) + " ; lg " + H(a) + " " + H(R::lnGamma(a)) + " ; lg " + H(b) + " " + H(R::lnGamma(b))
      + " ; lg " + H(s) + " " + H(R::lnGamma(s));
  }
  return "bad-op";
}

int main() { std::signal(SIGVTALRM, onAlarm); return runLoop([](const Toks&) {}, op); }
