// Harness for C08: interprets scripts against RandomTools' cumulative / quantile functions.
#include "common.h"
#include <Bpp/Numeric/Random/RandomTools.h>
#include <Bpp/Exceptions.h>
#include <cmath>
using namespace bpp; using namespace verif;

static std::string H(double d) { return std::isnan(d) ? "nan" : doubleToHex(d); }
static double D(const std::string& s) { return hexToDouble(s); }

static std::string op(const Toks& t) {
  const std::string& o = t[0];
  try {
    if (o == "pnorm") return H(RandomTools::pNorm(D(t[1])));
    if (o == "qnorm") return H(RandomTools::qNorm(D(t[1])));
  } catch (Exception& e) { return "exc:bpp"; }
  return "bad-op";
}

int main() { return runLoop([](const Toks&) {}, op); }
