// Shared runtime of the C++ harnesses: each harness is an *interpreter* of the
// line protocol (see lean/BppModel/Proto.lean).  It reads a script on stdin,
// runs every operation against the real library, and prints exactly one answer
// line per operation line.  Exceptions are mapped to a small enum.
#ifndef VERIF_COMMON_H
#define VERIF_COMMON_H
#include <cstdint>
#include <cstring>
#include <cstdio>
#include <iostream>
#include <sstream>
#include <string>
#include <vector>
#include <stdexcept>
#include <functional>

namespace verif {
typedef std::vector<std::string> Toks;

inline Toks toks(const std::string& line) {
  Toks t; std::istringstream is(line); std::string w;
  while (is >> w) t.push_back(w);
  return t;
}
inline long long toI(const std::string& s) { return std::stoll(s); }
inline size_t toU(const std::string& s) { return static_cast<size_t>(std::stoull(s)); }

// doubles travel as 16 hex digits of their bit pattern
inline double hexToDouble(const std::string& s) {
  uint64_t u = std::stoull(s, nullptr, 16); double d; std::memcpy(&d, &u, 8); return d;
}
inline std::string doubleToHex(double d) {
  uint64_t u; std::memcpy(&u, &d, 8); char buf[32]; std::snprintf(buf, sizeof buf, "%016llx", (unsigned long long)u); return buf;
}
// strings travel hex-escaped ("-" is the empty string)
inline std::string hexToStr(const std::string& s) {
  if (s == "-") return "";
  std::string r; for (size_t i = 0; i + 1 < s.size(); i += 2) r.push_back(static_cast<char>(std::stoi(s.substr(i, 2), nullptr, 16)));
  return r;
}
inline std::string strToHex(const std::string& s) {
  if (s.empty()) return "-";
  static const char* d = "0123456789abcdef"; std::string r;
  for (unsigned char c : s) { r.push_back(d[c >> 4]); r.push_back(d[c & 15]); }
  return r;
}

// The interpreter loop. `onCase` resets the state; `onOp` returns the answer line.
inline int runLoop(std::function<void(const Toks&)> onCase,
                   std::function<std::string(const Toks&)> onOp) {
  std::string line;
  while (std::getline(std::cin, line)) {
    Toks t = toks(line);
    if (t.empty() || t[0] == "#" || t[0] == "=") continue;
    if (t[0] == "case") { onCase(t); continue; }
    std::string out;
    try { out = onOp(t); }
    catch (std::exception& e) { out = std::string("exc:std"); }
    std::cout << out << "\n";
  }
  std::cout.flush();
  return 0;
}
}
#endif
