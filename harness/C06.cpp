// Harness for C06: interprets eigen-decomposition scripts against
// Bpp/Numeric/Matrix/EigenValue.h and MatrixTools::pow(A,double)/exp(A), with the input
// matrix held in one of the three storage classes (chosen by the `case` line).
// See lean/BppModel/Drive/C06.lean for the protocol.
#include "common.h"
#include <Bpp/Numeric/Matrix/Matrix.h>
#include <Bpp/Numeric/Matrix/EigenValue.h>
#include <Bpp/Numeric/Matrix/MatrixTools.h>
#include <memory>
#include <cmath>
using namespace bpp; using namespace verif;

static std::string hx(double x) { return std::isnan(x) ? std::string("nan") : doubleToHex(x); }
static double unhx(const std::string& s) { return s == "nan" ? std::nan("") : hexToDouble(s); }

static std::string showVec(const std::vector<double>& v) {
  std::string s; for (double x : v) { s += hx(x); s += ' '; } return s;
}
static std::string showMat(const Matrix<double>& m) {
  std::string s;
  for (size_t i = 0; i < m.getNumberOfRows(); ++i)
    for (size_t j = 0; j < m.getNumberOfColumns(); ++j) { s += hx(m(i, j)); s += ' '; }
  return s;
}

struct State {
  std::string storage = "row";
  std::unique_ptr<Matrix<double>> A;
  std::unique_ptr<EigenValue<double>> eig;
  Matrix<double>* fresh(size_t nr, size_t nc) const {
    if (storage == "col") return new ColMatrix<double>(nr, nc);
    if (storage == "lin") return new LinearMatrix<double>(nr, nc);
    return new RowMatrix<double>(nr, nc);
  }
};

static std::string glue(State& st, bool isExp, double p) {
  if (!st.A) return "bad-op";
  std::unique_ptr<Matrix<double>> O(st.fresh(0, 0));
  try {
    if (isExp) MatrixTools::exp(*st.A, *O); else MatrixTools::pow(*st.A, p, *O);
  } catch (DimensionException&) { return "exc:dimension"; }
  catch (ZeroDivisionException&) { return "exc:zerodiv"; }
  catch (Exception&) { return "exc:bpp"; }
  // the values of the untranscribed parts (the same deterministic computations pow/exp made)
  EigenValue<double> eg(*st.A);
  RowMatrix<double> V, W;
  V = eg.getV();
  MatrixTools::inv(V, W);
  return showVec(eg.getRealEigenValues()) + "; " + showMat(V) + "; " + showMat(W) + "; " + showMat(*O);
}

int main() {
  State st;
  return runLoop(
    [&](const Toks& t) {
      st = State();
      if (t.size() > 2) st.storage = t[2];
    },
    [&](const Toks& t) -> std::string {
      const std::string& o = t[0];
      if (o == "cdiv" && t.size() == 5) {
        RowMatrix<double> one(1, 1); one(0, 0) = 1.0;
        EigenValue<double> eg(one);
        double r, i;
        eg.verifCdiv(unhx(t[1]), unhx(t[2]), unhx(t[3]), unhx(t[4]), r, i);
        return hx(r) + " " + hx(i);
      }
      if (o == "mat" && t.size() >= 3) {
        size_t nr = toU(t[1]), nc = toU(t[2]);
        if (t.size() != 3 + nr * nc) return "bad-op";
        st.A.reset(st.fresh(nr, nc)); st.eig.reset();
        for (size_t i = 0; i < nr; ++i) for (size_t j = 0; j < nc; ++j) (*st.A)(i, j) = unhx(t[3 + i * nc + j]);
        return "ok";
      }
      if (o == "eig") {
        if (!st.A || st.A->getNumberOfRows() != st.A->getNumberOfColumns() || st.A->getNumberOfRows() == 0) return "bad-op";
        st.eig.reset(new EigenValue<double>(*st.A));
        return std::string(st.eig->isSymmetric() ? "1" : "0") + " ; " + showVec(st.eig->getRealEigenValues()) + "; "
          + showVec(st.eig->getImagEigenValues()) + "; " + showMat(st.eig->getV());
      }
      if (o == "getD") {
        if (!st.eig) return "bad-op";
        return showMat(st.eig->getD());
      }
      if (o == "setde") {
        if (!st.eig) return "bad-op";
        std::vector<double> d, e; bool second = false;
        for (size_t k = 1; k < t.size(); ++k) {
          if (t[k] == ";") { second = true; continue; }
          (second ? e : d).push_back(unhx(t[k]));
        }
        size_t n = st.A->getNumberOfRows();
        if (d.size() != n || e.size() != n) return "bad-op";
        st.eig->verifSetSpectrum(d, e);
        return showMat(st.eig->getD());
      }
      if (o == "pow" && t.size() == 2) return glue(st, false, unhx(t[1]));
      if (o == "exp" && t.size() == 1) return glue(st, true, 0.0);
      return "bad-op";
    });
}
