// Harness for C06: interprets eigen-decomposition scripts against
// Bpp/Numeric/Matrix/EigenValue.h and MatrixTools::pow(A,double)/exp(A), with the input
// matrix held in one of the three storage classes (chosen by the `case` line).
// See lean/BppModel/Drive/C06.lean for the protocol.
#include "common.h"
#include <Bpp/Numeric/Matrix/Matrix.h>
#include <Bpp/Numeric/Matrix/EigenValue.h>
#include <Bpp/Numeric/Matrix/MatrixTools.h>
#include <memory>
#include <cmath>
#include <chrono>
#include <cstdlib>
#include <cerrno>
#include <csignal>
#include <unistd.h>
#include <poll.h>
#include <sys/wait.h>
using namespace bpp; using namespace verif;

static std::string hx(double x) { return std::isnan(x) ? std::string("nan") : doubleToHex(x); }
static double unhx(const std::string& s) { return s == "nan" ? std::nan("") : hexToDouble(s); }

static std::string showVec(const std::vector<double>& v) {
  std::string s; for (double x : v) { s += hx(x); s += ' '; } return s;
}
static std::string showMat(const Matrix<double>& m) {
  std::string s;
  for (size_t i = 0; i < m.getNumberOfRows(); ++i)
    for (size_t j = 0; j < m.getNumberOfColumns(); ++j) { s += hx(m(i, j)); s += ' '; }
  return s;
}

struct State {
  std::string storage = "row";
  std::unique_ptr<Matrix<double>> A;
  std::unique_ptr<EigenValue<double>> eig;
  Matrix<double>* fresh(size_t nr, size_t nc) const {
    if (storage == "col") return new ColMatrix<double>(nr, nc);
    if (storage == "lin") return new LinearMatrix<double>(nr, nc);
    return new RowMatrix<double>(nr, nc);
  }
};

static std::string glue(State& st, bool isExp, double p) {
  if (!st.A) return "bad-op";
  std::unique_ptr<Matrix<double>> O(st.fresh(0, 0));
  try {
    if (isExp) MatrixTools::exp(*st.A, *O); else MatrixTools::pow(*st.A, p, *O);
  } catch (DimensionException&) { return "exc:dimension"; }
  catch (ZeroDivisionException&) { return "exc:zerodiv"; }
  catch (Exception&) { return "exc:bpp"; }
  // the values of the untranscribed parts (the same deterministic computations pow/exp made)
  EigenValue<double> eg(*st.A);
  RowMatrix<double> V, W;
  V = eg.getV();
  MatrixTools::inv(V, W);
  return showVec(eg.getRealEigenValues()) + "; " + showMat(V) + "; " + showMat(W) + "; " + showMat(*O);
}

static std::string runOp(State& st, const Toks& t) {
  const std::string& o = t[0];
  if (o == "cdiv" && t.size() == 5) {
    RowMatrix<double> one(1, 1); one(0, 0) = 1.0;
    EigenValue<double> eg(one);
    double r, i;
    eg.verifCdiv(unhx(t[1]), unhx(t[2]), unhx(t[3]), unhx(t[4]), r, i);
    return hx(r) + " " + hx(i);
  }
  if (o == "mat" && t.size() >= 3) {
    size_t nr = toU(t[1]), nc = toU(t[2]);
    if (t.size() != 3 + nr * nc) return "bad-op";
    st.A.reset(st.fresh(nr, nc)); st.eig.reset();
    for (size_t i = 0; i < nr; ++i) for (size_t j = 0; j < nc; ++j) (*st.A)(i, j) = unhx(t[3 + i * nc + j]);
    return "ok";
  }
  if (o == "eig") {
    if (!st.A || st.A->getNumberOfRows() != st.A->getNumberOfColumns() || st.A->getNumberOfRows() == 0) return "bad-op";
    st.eig.reset(new EigenValue<double>(*st.A));
    return std::string(st.eig->isSymmetric() ? "1" : "0") + " ; " + showVec(st.eig->getRealEigenValues()) + "; "
      + showVec(st.eig->getImagEigenValues()) + "; " + showMat(st.eig->getV());
  }
  if (o == "getD") {
    if (!st.eig) return "bad-op";
    return showMat(st.eig->getD());
  }
  if (o == "setde") {
    if (!st.eig) return "bad-op";
    std::vector<double> d, e; bool second = false;
    for (size_t k = 1; k < t.size(); ++k) {
      if (t[k] == ";") { second = true; continue; }
      (second ? e : d).push_back(unhx(t[k]));
    }
    size_t n = st.A->getNumberOfRows();
    if (d.size() != n || e.size() != n) return "bad-op";
    st.eig->verifSetSpectrum(d, e);
    return showMat(st.eig->getD());
  }
  if (o == "trace") {
    // guarded instrumentation of the last decomposition: branch counters (index 2k = outcome false,
    // 2k+1 = outcome true of branch k; non-zero ones only), the event log of the bookkeeping steps
    // of tql2 / hqr2 (records: code, length, payload), and the final d, e, V once more
    if (!st.eig) return "bad-op";
    std::string s = "hits";
    const std::vector<unsigned long>& h = st.eig->verifHits();
    for (size_t i = 0; i < h.size(); ++i) if (h[i]) s += " " + std::to_string(i) + ":" + std::to_string(h[i]);
    return s + " ; " + showVec(st.eig->verifLog()) + "; " + showVec(st.eig->getRealEigenValues()) + "; "
      + showVec(st.eig->getImagEigenValues()) + "; " + showMat(st.eig->getV());
  }
  if (o == "pow" && t.size() == 2) return glue(st, false, unhx(t[1]));
  if (o == "exp" && t.size() == 1) return glue(st, true, 0.0);
  return "bad-op";
}

// Every case runs in a forked child under a watchdog: the iteration kernels have no iteration
// bound (a mutated or ill-behaved kernel may not terminate) and getD on malformed (d,e) is an
// out-of-range write that the sanitised build turns into an abort.  The parent prints, for the
// operation that did not answer, `hang` or `crash:<status>`, and `skipped` for the rest of the case
// (the conventions of tools/check.py).
static void runCase(const std::vector<std::string>& lines, double timeoutSec) {
  std::vector<Toks> ops; std::string storage = "row";
  for (const std::string& l : lines) {
    Toks t = toks(l);
    if (t.empty() || t[0] == "#" || t[0] == "=") continue;
    if (t[0] == "case") { if (t.size() > 2) storage = t[2]; continue; }
    ops.push_back(t);
  }
  if (ops.empty()) return;
  std::cout.flush();
  int fd[2];
  if (pipe(fd) != 0) { for (size_t i = 0; i < ops.size(); ++i) std::cout << "exc:std\n"; return; }
  pid_t pid = fork();
  if (pid == 0) {
    close(fd[0]);
    State st; st.storage = storage;
    for (const Toks& t : ops) {
      std::string out;
      try { out = runOp(st, t); }
      catch (std::exception&) { out = "exc:std"; }
      out += "\n";
      size_t off = 0;
      while (off < out.size()) { ssize_t w = write(fd[1], out.data() + off, out.size() - off); if (w <= 0) _exit(3); off += size_t(w); }
    }
    _exit(0);
  }
  close(fd[1]);
  std::string buf; char tmp[65536];
  auto t0 = std::chrono::steady_clock::now();
  bool timedOut = false;
  for (;;) {
    double left = timeoutSec - std::chrono::duration<double>(std::chrono::steady_clock::now() - t0).count();
    if (left <= 0) { timedOut = true; break; }
    struct pollfd pf; pf.fd = fd[0]; pf.events = POLLIN; pf.revents = 0;
    int pr = poll(&pf, 1, int(left * 1000) + 1);
    if (pr == 0) { timedOut = true; break; }
    if (pr < 0) { if (errno == EINTR) continue; break; }
    ssize_t r = read(fd[0], tmp, sizeof tmp);
    if (r <= 0) break;           // EOF: the child is done (or dead)
    buf.append(tmp, size_t(r));
  }
  close(fd[0]);
  if (timedOut) kill(pid, SIGKILL);
  int status = 0; waitpid(pid, &status, 0);
  // complete answer lines
  std::vector<std::string> ans; size_t pos = 0;
  for (;;) { size_t nl = buf.find('\n', pos); if (nl == std::string::npos) break; ans.push_back(buf.substr(pos, nl - pos)); pos = nl + 1; }
  if (ans.size() > ops.size()) ans.resize(ops.size());
  for (const std::string& a : ans) std::cout << a << "\n";
  if (ans.size() < ops.size()) {
    std::string tag;
    if (timedOut) tag = "hang";
    else if (WIFSIGNALED(status)) tag = "crash:-" + std::to_string(WTERMSIG(status));
    else tag = "crash:" + std::to_string(WEXITSTATUS(status));
    std::cout << tag << "\n";
    for (size_t i = ans.size() + 1; i < ops.size(); ++i) std::cout << "skipped\n";
  }
  std::cout.flush();
}

int main() {
  double timeoutSec = 4.0;
  if (const char* e = std::getenv("VERIF_C06_CASE_TIMEOUT")) timeoutSec = std::atof(e);
  std::vector<std::string> cur; std::string line;
  while (std::getline(std::cin, line)) {
    Toks t = toks(line);
    if (!t.empty() && t[0] == "case") { runCase(cur, timeoutSec); cur.clear(); }
    cur.push_back(line);
  }
  runCase(cur, timeoutSec);
  return 0;
}
