// Harness for C09: interprets scripts against the discretised distributions of bpp-core.
//
// Every distribution is created as `Rec<Family>`: a subclass that (i) records every value the
// family's own pProb / qProb / Expectation returns (the discretisation algorithm calls them through
// the vtable, so these are exactly the points the algorithm queried) and (ii) can dump the
// protected state of AbstractDiscreteDistribution (class count, the tolerance-ordered map in
// iteration order, bounds_, intMinMax_, median flag).  During construction the base constructor's
// call of discretize() is not dispatched to Rec (C++ rule), so after a constructor the harness
// re-runs discretize() on a throw-away copy of the new object only to obtain the oracle values;
// the state that is dumped is always the one of the real object.
//
// Answer of a state-changing op:
//   st <n> <median> <scheme> <prec> ; dom <lo> <hi> <inclLo> <inclHi> ; c <keys> ; p <probs> ;
//   b <bounds_> ; o (<slot> <P|Q|E> <x> <r>)*  [ / <state of component 1> / ... ]
//   every object dump ends with the group  q (<hexname> <value> <tag> <lo> <hi> <inclLo> <inclHi>)*  : its
//   parameters in ParameterList order with their constraint *now*; tag n = none, o = the pointer is this
//   object's own intMinMax_, c = (compound's copy) the pointer is the intMinMax_ of the component the copy
//   mirrors, i = any other interval constraint, x = not an interval.
//   When a second object exists (register `alt`: ops fork / forkassign / swap) every answer ends with
//   // <dump of alt and of its components>.
// or exc:<kind> followed by the same dump (the state after the rejected op).
#include "common.h"
#include <Bpp/Numeric/Prob/GammaDiscreteDistribution.h>
#include <Bpp/Numeric/Prob/BetaDiscreteDistribution.h>
#include <Bpp/Numeric/Prob/GaussianDiscreteDistribution.h>
#include <Bpp/Numeric/Prob/ExponentialDiscreteDistribution.h>
#include <Bpp/Numeric/Prob/TruncatedExponentialDiscreteDistribution.h>
#include <Bpp/Numeric/Prob/UniformDiscreteDistribution.h>
#include <Bpp/Numeric/Prob/SimpleDiscreteDistribution.h>
#include <Bpp/Numeric/Prob/ConstantDistribution.h>
#include <Bpp/Numeric/Prob/InvariantMixedDiscreteDistribution.h>
#include <Bpp/Numeric/Prob/MixtureOfDiscreteDistributions.h>
#include <Bpp/Numeric/Constraints.h>
#include <Bpp/Exceptions.h>
#include <cmath>
#include <memory>
#include <csetjmp>
#include <csignal>
#include <sys/time.h>
using namespace bpp; using namespace verif;

// Watchdog: an operation that uses more than OP_LIMIT seconds of CPU is abandoned and answered
// `hang`; the current object is then dropped (its state is unknown) and leaked.
static const double OP_LIMIT = 3.0;
static sigjmp_buf g_jmp;
static void onAlarm(int) { siglongjmp(g_jmp, 1); }
static void arm(double sec) {
  struct itimerval it; std::memset(&it, 0, sizeof it);
  it.it_value.tv_sec = static_cast<long>(sec); it.it_value.tv_usec = static_cast<long>((sec - static_cast<long>(sec)) * 1e6);
  setitimer(ITIMER_VIRTUAL, &it, nullptr);
}

static std::string H(double d) { return std::isnan(d) ? "nan" : doubleToHex(d); }
static double D(const std::string& s) { return s == "nan" ? std::nan("") : hexToDouble(s); }

struct LogEntry { int slot; char fn; double x, r; };
static std::vector<LogEntry> g_log;
static bool g_rec = true;
static int g_nextSlot = 0;

struct Peekable {
  virtual ~Peekable() {}
  virtual std::string dumpState() const = 0;
  virtual void redo() const = 0;   // re-run discretize() on a copy, recording the oracle
  virtual const IntervalConstraint* domPtr() const = 0;   // address of intMinMax_
};

// the components of a compound, in order
static std::vector<const DiscreteDistributionInterface*> componentsOf(const DiscreteDistributionInterface& d) {
  std::vector<const DiscreteDistributionInterface*> v;
  if (auto* im = dynamic_cast<const InvariantMixedDiscreteDistribution*>(&d)) v.push_back(&im->variableSubDistribution());
  if (auto* mx = dynamic_cast<const MixtureOfDiscreteDistributions*>(&d))
    for (size_t i = 0; i < mx->getNumberOfDistributions(); ++i) v.push_back(&mx->nDistribution(i));
  return v;
}

// group q: the parameters of an object with their constraints as they are now
static std::string paramStr(const DiscreteDistributionInterface& d, const IntervalConstraint* own) {
  std::string s = " ; q";
  std::vector<const IntervalConstraint*> compDoms;
  for (auto* c : componentsOf(d)) { auto* pk = dynamic_cast<const Peekable*>(c); compDoms.push_back(pk ? pk->domPtr() : nullptr); }
  const ParameterList& pl = d.getParameters();
  for (size_t i = 0; i < pl.size(); ++i) {
    const Parameter& p = pl[i];
    s += " " + strToHex(d.getParameterNameWithoutNamespace(p.getName())) + " " + H(p.getValue());
    std::shared_ptr<const ConstraintInterface> c = p.getConstraint();
    const IntervalConstraint* ic = dynamic_cast<const IntervalConstraint*>(c.get());
    if (!c) s += " n - - - -";
    else if (!ic) s += " x - - - -";
    else {
      std::string tag = "i";
      if (ic == own) tag = "o";
      for (auto* cd : compDoms) if (cd && ic == cd) tag = "c";
      s += " " + tag + " " + H(ic->getLowerBound()) + " " + H(ic->getUpperBound()) + " " + (ic->strictLowerBound() ? "0" : "1") + " " + (ic->strictUpperBound() ? "0" : "1");
    }
  }
  return s;
}

template<class B> struct Rec : public B, public Peekable {
  int slot_;
  template<class... A> Rec(int slot, A&&... a) : B(std::forward<A>(a)...), slot_(slot) {}
  Rec(const Rec& r) : B(r), slot_(r.slot_) {}
  Rec& operator=(const Rec& r) { B::operator=(r); slot_ = r.slot_; return *this; }
  Rec* clone() const override { return new Rec(*this); }
  double pProb(double x) const override { double r = B::pProb(x); if (g_rec) g_log.push_back({slot_, 'P', x, r}); return r; }
  double qProb(double x) const override { double r = B::qProb(x); if (g_rec) g_log.push_back({slot_, 'Q', x, r}); return r; }
  double Expectation(double x) const override { double r = B::Expectation(x); if (g_rec) g_log.push_back({slot_, 'E', x, r}); return r; }
  std::string dumpState() const override {
    std::string s = "st " + std::to_string(this->numberOfCategories_) + " " + (this->median_ ? "1" : "0") + " "
      + std::to_string(this->discretizationScheme_) + " " + H(this->distribution_.key_comp().precision());
    s += " ; dom " + H(this->intMinMax_->getLowerBound()) + " " + H(this->intMinMax_->getUpperBound()) + " "
      + (this->intMinMax_->strictLowerBound() ? "0" : "1") + " " + (this->intMinMax_->strictUpperBound() ? "0" : "1");
    s += " ; c"; for (auto& kv : this->distribution_) s += " " + H(kv.first);
    s += " ; p"; for (auto& kv : this->distribution_) s += " " + H(kv.second);
    s += " ; b"; for (double b : this->bounds_) s += " " + H(b);
    s += paramStr(*this, this->intMinMax_.get());
    return s;
  }
  void redo() const override { Rec c(*this); c.discretize(); }
  const IntervalConstraint* domPtr() const override { return this->intMinMax_.get(); }
};

static std::unique_ptr<DiscreteDistributionInterface> g_cur, g_alt;
static std::vector<std::unique_ptr<DiscreteDistributionInterface>> g_stack;

static std::string logStr() {
  std::string s = " ; o";
  for (auto& e : g_log) s += " " + std::to_string(e.slot) + " " + std::string(1, e.fn) + " " + H(e.x) + " " + H(e.r);
  return s;
}

static std::string dumpOf(const DiscreteDistributionInterface& d) {
  const Peekable* p = dynamic_cast<const Peekable*>(&d);
  return p ? p->dumpState() : std::string("st ?");
}

// exploration data (not recorded as oracle): pProb and Expectation of a continuous family at
// lower :: bounds_ ++ [upper]
static bool g_continuous = false;
static bool isContinuous(const DiscreteDistributionInterface* d) {
  return d && (dynamic_cast<const GammaDiscreteDistribution*>(d) || dynamic_cast<const BetaDiscreteDistribution*>(d) || dynamic_cast<const GaussianDiscreteDistribution*>(d)
    || dynamic_cast<const ExponentialDiscreteDistribution*>(d) || dynamic_cast<const TruncatedExponentialDiscreteDistribution*>(d) || dynamic_cast<const UniformDiscreteDistribution*>(d));
}
// group xq: for every quantile the discretisation asked for (recorded `Q x -> q`), pProb(q): exploration of
// "pProb and qProb are mutually inverse"
static std::string inverseStr() {
  std::string s = " ; xq";
  if (g_continuous && g_cur) {
    bool r = g_rec; g_rec = false;
    std::vector<LogEntry> log = g_log;
    // only at quantiles strictly inside the domain (pGamma(+inf) does not return: RandomTools, property C08)
    double lo = g_cur->getLowerBound(), hi = g_cur->getUpperBound();
    try { for (auto& e : log) if (e.fn == 'Q') s += " " + H(e.x) + " " + H(e.r) + " " + ((e.r > lo && e.r < hi) ? H(g_cur->pProb(e.r)) : std::string("nan")); }
    catch (...) { s = " ; xq"; }
    g_rec = r;
  }
  return s;
}
static std::string exploreStr() {
  std::string sp = " ; xp", se = " ; xe";
  if (g_continuous && g_cur) {
    bool r = g_rec; g_rec = false;
    try {
      size_t n = g_cur->getNumberOfCategories();
      std::vector<double> ab; ab.push_back(g_cur->getLowerBound());
      for (size_t i = 0; i + 1 < n; ++i) ab.push_back(g_cur->getBound(i));
      ab.push_back(g_cur->getUpperBound());
      for (double x : ab) { sp += " " + H(g_cur->pProb(x)); se += " " + H(g_cur->Expectation(x)); }
    } catch (...) { sp = " ; xp"; se = " ; xe"; }
    g_rec = r;
  }
  return sp + se;
}

static std::string altStr() {
  if (!g_alt) return "";
  std::string s = " // " + dumpOf(*g_alt);
  for (auto* c : componentsOf(*g_alt)) s += " / " + dumpOf(*c);
  return s;
}
static std::string dump() {
  if (!g_cur) return "none" + altStr();
  std::string s = dumpOf(*g_cur) + logStr() + exploreStr() + inverseStr();
  for (auto* c : componentsOf(*g_cur)) s += " / " + dumpOf(*c);
  return s + altStr();
}

// a fresh object of the dynamic class of `src`, built from other arguments, then assigned from it
template<class T, class... A> static bool assignAs(const DiscreteDistributionInterface& src, std::unique_ptr<DiscreteDistributionInterface>& out, A&&... a) {
  auto* p = dynamic_cast<const Rec<T>*>(&src);
  if (!p) return false;
  Rec<T>* q = new Rec<T>(-1, std::forward<A>(a)...);
  out.reset(q);
  *q = *p;
  return true;
}
// `*cur = *cur` through the assignment operator of its dynamic class
template<class T> static bool selfAssignAs(DiscreteDistributionInterface& d) {
  auto* p = dynamic_cast<Rec<T>*>(&d);
  if (!p) return false;
  Rec<T>& r = *p;
  *p = r;
  return true;
}
static void selfAssign() {
  if (!g_cur) throw Exception("no current");
  DiscreteDistributionInterface& c = *g_cur;
  bool ok = selfAssignAs<GammaDiscreteDistribution>(c) || selfAssignAs<BetaDiscreteDistribution>(c) || selfAssignAs<GaussianDiscreteDistribution>(c)
    || selfAssignAs<ExponentialDiscreteDistribution>(c) || selfAssignAs<TruncatedExponentialDiscreteDistribution>(c) || selfAssignAs<UniformDiscreteDistribution>(c)
    || selfAssignAs<ConstantDistribution>(c) || selfAssignAs<SimpleDiscreteDistribution>(c) || selfAssignAs<InvariantMixedDiscreteDistribution>(c)
    || selfAssignAs<MixtureOfDiscreteDistributions>(c);
  if (!ok) throw Exception("class");
}
static void forkAssign() {
  if (!g_cur) throw Exception("no current");
  const DiscreteDistributionInterface& c = *g_cur;
  std::unique_ptr<DiscreteDistributionInterface> out;
  std::vector<double> v{0., 1.}, pr{0.5, 0.5};
  bool ok = assignAs<GammaDiscreteDistribution>(c, out, 2, 1., 1., 0.05, 0.05, false, 0.)
    || assignAs<BetaDiscreteDistribution>(c, out, 2, 2., 2., static_cast<short>(1))
    || assignAs<GaussianDiscreteDistribution>(c, out, 2, 0., 1.)
    || assignAs<ExponentialDiscreteDistribution>(c, out, 2, 1.)
    || assignAs<TruncatedExponentialDiscreteDistribution>(c, out, 2, 1., 10.)
    || assignAs<UniformDiscreteDistribution>(c, out, 2u, 0., 1.)
    || assignAs<ConstantDistribution>(c, out, 0.)
    || assignAs<SimpleDiscreteDistribution>(c, out, v, pr, 1e-12, false);
  if (!ok && dynamic_cast<const Rec<InvariantMixedDiscreteDistribution>*>(&c)) {
    std::unique_ptr<DiscreteDistributionInterface> k(new Rec<ConstantDistribution>(-1, 1.));
    ok = assignAs<InvariantMixedDiscreteDistribution>(c, out, std::move(k), 0.5, 0.);
  }
  if (!ok && dynamic_cast<const Rec<MixtureOfDiscreteDistributions>*>(&c)) {
    std::vector<std::unique_ptr<DiscreteDistributionInterface>> comps;
    comps.push_back(std::unique_ptr<DiscreteDistributionInterface>(new Rec<ConstantDistribution>(-1, 1.)));
    std::vector<double> w{1.};
    ok = assignAs<MixtureOfDiscreteDistributions>(c, out, comps, w);
  }
  if (!ok) throw Exception("class");
  g_alt = std::move(out);
}

// after a constructor: oracle values of the discretisation just performed by the base constructor
static void oracleAfterCtor(const DiscreteDistributionInterface& d) {
  const Peekable* p = dynamic_cast<const Peekable*>(&d);
  if (p) p->redo();
}

template<class F> static std::string guarded(F f) {
  // runs a state-changing action; the answer is the state afterwards, prefixed by the exception kind if one was raised
  std::string pre;
  try { f(); }
  catch (ConstraintException&) { pre = "exc:constraint "; }
  catch (ParameterNotFoundException&) { pre = "exc:notfound "; }
  catch (IndexOutOfBoundsException&) { pre = "exc:index "; }
  catch (Exception&) { pre = "exc:bpp "; }
  catch (std::exception&) { pre = "exc:std "; }
  catch (...) { pre = "exc:other "; }
  return pre + dump();
}

template<class F> static std::string query(F f) {
  bool r = g_rec; g_rec = false;
  std::string out;
  try { out = f(); }
  catch (ConstraintException&) { out = "exc:constraint"; }
  catch (IndexOutOfBoundsException&) { out = "exc:index"; }
  catch (Exception&) { out = "exc:bpp"; }
  catch (std::exception&) { out = "exc:std"; }
  catch (...) { out = "exc:other"; }
  g_rec = r;
  return out;
}

static std::string vec(const std::vector<double>& v) { std::string s; for (size_t i = 0; i < v.size(); ++i) s += (i ? " " : "") + H(v[i]); return v.empty() ? "-" : s; }

static std::string opInner(const Toks& t);
static std::string op(const Toks& t) {
  if (sigsetjmp(g_jmp, 1)) { g_cur.release(); g_alt.release(); g_rec = true; return "hang"; }
  arm(OP_LIMIT);
  std::string r = opInner(t);
  arm(0);
  return r;
}
static std::string opInner(const Toks& t) {
  const std::string& o = t[0];
  g_log.clear();
  if (o == "new") {
    const std::string& fam = t[1];
    return guarded([&] {
      std::unique_ptr<DiscreteDistributionInterface> d;
      int slot = g_nextSlot++;
      if (fam == "gamma") d.reset(new Rec<GammaDiscreteDistribution>(slot, toU(t[2]), D(t[3]), D(t[4]), 0.05, 0.05, t[5] == "1", D(t[6])));
      else if (fam == "beta") d.reset(new Rec<BetaDiscreteDistribution>(slot, toU(t[2]), D(t[3]), D(t[4]), static_cast<short>(toI(t[5]))));
      else if (fam == "gauss") d.reset(new Rec<GaussianDiscreteDistribution>(slot, toU(t[2]), D(t[3]), D(t[4])));
      else if (fam == "exp") d.reset(new Rec<ExponentialDiscreteDistribution>(slot, toU(t[2]), D(t[3])));
      else if (fam == "texp") d.reset(new Rec<TruncatedExponentialDiscreteDistribution>(slot, toU(t[2]), D(t[3]), D(t[4])));
      else if (fam == "unif") d.reset(new Rec<UniformDiscreteDistribution>(slot, static_cast<unsigned int>(toU(t[2])), D(t[3]), D(t[4])));
      else if (fam == "const") d.reset(new Rec<ConstantDistribution>(slot, D(t[2])));
      else if (fam == "simple") {   // new simple <prec> <fixed> <k> v1 p1 ... vk pk
        size_t k = toU(t[4]); std::vector<double> v, p;
        for (size_t i = 0; i < k; ++i) { v.push_back(D(t[5 + 2 * i])); p.push_back(D(t[6 + 2 * i])); }
        d.reset(new Rec<SimpleDiscreteDistribution>(slot, v, p, D(t[2]), t[3] == "1"));
      }
      else if (fam == "invar") {    // new invar <p> <invariant>   (wraps the current distribution)
        if (!g_cur) throw Exception("no current");
        d.reset(new Rec<InvariantMixedDiscreteDistribution>(slot, std::move(g_cur), D(t[2]), D(t[3])));
      }
      else if (fam == "mix") {      // new mix <k> w1 .. wk     (takes the k distributions on the stack)
        size_t k = toU(t[2]); std::vector<double> w;
        for (size_t i = 0; i < k; ++i) w.push_back(D(t[3 + i]));
        if (g_stack.size() < k) throw Exception("stack");
        std::vector<std::unique_ptr<DiscreteDistributionInterface>> comps;
        for (size_t i = g_stack.size() - k; i < g_stack.size(); ++i) comps.push_back(std::move(g_stack[i]));
        g_stack.resize(g_stack.size() - k);
        d.reset(new Rec<MixtureOfDiscreteDistributions>(slot, comps, w));
      }
      else throw Exception("family");
      g_log.clear();
      g_cur = std::move(d);
      g_continuous = isContinuous(g_cur.get());
      if (fam != "invar" && fam != "mix") oracleAfterCtor(*g_cur);
    });
  }
  if (o == "push") { if (g_cur) g_stack.push_back(std::move(g_cur)); g_continuous = false; return "ok " + std::to_string(g_stack.size()); }
  if (o == "swap") return guarded([&] { std::swap(g_cur, g_alt); g_continuous = isContinuous(g_cur.get()); });
  if (!g_cur) return "none" + altStr();
  // a second object: the copy constructor / the assignment operator; the source stays current
  if (o == "fork") return guarded([&] { bool r = g_rec; g_rec = false; std::unique_ptr<DiscreteDistributionInterface> c(g_cur->clone()); g_rec = r; g_alt = std::move(c); });
  if (o == "selfassign") return guarded([&] { bool r = g_rec; g_rec = false; try { selfAssign(); } catch (...) { g_rec = r; throw; } g_rec = r; });
  if (o == "forkassign") return guarded([&] { bool r = g_rec; g_rec = false; try { forkAssign(); } catch (...) { g_rec = r; throw; } g_rec = r; });
  if (o == "setp") return guarded([&] { g_cur->setParameterValue(hexToStr(t[1]), D(t[2])); });
  if (o == "setn") return guarded([&] { g_cur->setNumberOfCategories(toU(t[1])); });
  if (o == "median") return guarded([&] { g_cur->setMedian(t[1] == "1"); });
  if (o == "discretize") return guarded([&] { g_cur->discretize(); });
  if (o == "restrict") return guarded([&] { IntervalConstraint c(D(t[1]), D(t[2]), t[3] == "1", t[4] == "1"); g_cur->restrictToConstraint(c); });
  if (o == "copy") return guarded([&] { std::unique_ptr<DiscreteDistributionInterface> c(g_cur->clone()); g_cur = std::move(c); });
  if (o == "dump") return guarded([] {});
  // ---- queries (not recorded)
  if (o == "n") return query([&] { return std::to_string(g_cur->getNumberOfCategories()); });
  if (o == "cats") return query([&] { return vec(g_cur->getCategories()); });
  if (o == "probs") return query([&] { return vec(g_cur->getProbabilities()); });
  if (o == "bounds") return query([&] { return vec(g_cur->getBounds()); });
  if (o == "bound") return query([&] { return H(g_cur->getBound(toU(t[1]))); });
  // getCategory(i) / getProbability(i) walk i steps from begin(): past the end is undefined behaviour, not called
  if ((o == "cat" || o == "prob") && toU(t[1]) >= g_cur->getCategories().size()) return "exc:index";
  if (o == "cat") return query([&] { return H(g_cur->getCategory(toU(t[1]))); });
  if (o == "prob") return query([&] { return H(g_cur->getProbability(toU(t[1]))); });
  if (o == "lu") return query([&] { return H(g_cur->getLowerBound()) + " " + H(g_cur->getUpperBound()) + " " + (g_cur->strictLowerBound() ? "1" : "0") + " " + (g_cur->strictUpperBound() ? "1" : "0"); });
  if (o == "valcat") return query([&] { return H(g_cur->getValueCategory(D(t[1]))); });
  if (o == "catidx") return query([&] { return std::to_string(g_cur->getCategoryIndex(D(t[1]))); });
  if (o == "cinf") return query([&] { return H(g_cur->getInfCumulativeProbability(D(t[1]))); });
  if (o == "ciinf") return query([&] { return H(g_cur->getIInfCumulativeProbability(D(t[1]))); });
  if (o == "csup") return query([&] { return H(g_cur->getSupCumulativeProbability(D(t[1]))); });
  if (o == "cssup") return query([&] { return H(g_cur->getSSupCumulativeProbability(D(t[1]))); });
  if (o == "probv") return query([&] { return H(g_cur->getProbability(D(t[1]))); });
  // ---- look-ups at a given value / at a bound / at a class value; cumulative queries at a class value
  if (o == "look" || o == "lookb" || o == "lookc") {
    double x;
    try {
      bool r = g_rec; g_rec = false;
      if (o == "look") x = D(t[1]);
      else if (o == "lookb") { std::vector<double> b = g_cur->getBounds(); g_rec = r; if (toU(t[1]) >= b.size()) return "exc:index"; x = b[toU(t[1])]; }
      else { if (toU(t[1]) >= g_cur->getNumberOfCategories()) { g_rec = r; return "exc:index"; } x = g_cur->getCategory(toU(t[1])); }
      g_rec = r;
    } catch (...) { g_rec = true; return "exc:other"; }
    return H(x) + " " + query([&] { return H(g_cur->getValueCategory(x)); }) + " " + query([&] { return std::to_string(g_cur->getCategoryIndex(x)); });
  }
  if (o == "cumi") {
    if (toU(t[1]) >= g_cur->getCategories().size()) return "exc:index";
    double k = g_cur->getCategories()[toU(t[1])];
    return H(k) + " " + query([&] { return H(g_cur->getInfCumulativeProbability(k)); }) + " " + query([&] { return H(g_cur->getIInfCumulativeProbability(k)); })
      + " " + query([&] { return H(g_cur->getSupCumulativeProbability(k)); }) + " " + query([&] { return H(g_cur->getSSupCumulativeProbability(k)); })
      + " " + query([&] { return H(g_cur->getProbability(k)); });
  }
  // ---- the parent's functions (exploration of H)
  if (o == "P") return query([&] { return H(g_cur->pProb(D(t[1]))); });
  if (o == "Q") return query([&] { return H(g_cur->qProb(D(t[1]))); });
  if (o == "E") return query([&] { return H(g_cur->Expectation(D(t[1]))); });
  if (o == "x.H") {   // x.H a b : P a, P b, E a, E b, Q(P a), Q(P b), P(Q(P a)), P(Q(P b))
    return query([&] {
      double a = D(t[1]), b = D(t[2]);
      double pa = g_cur->pProb(a), pb = g_cur->pProb(b);
      double qa = g_cur->qProb(pa), qb = g_cur->qProb(pb);
      return H(pa) + " " + H(pb) + " " + H(g_cur->Expectation(a)) + " " + H(g_cur->Expectation(b)) + " " + H(qa) + " " + H(qb)
        + " " + H(g_cur->pProb(qa)) + " " + H(g_cur->pProb(qb));
    });
  }
  return "bad-op";
}

int main() {
  std::signal(SIGVTALRM, onAlarm);
  return runLoop([](const Toks&) { g_cur.reset(); g_alt.reset(); g_stack.clear(); g_log.clear(); g_nextSlot = 0; g_rec = true; g_continuous = false; }, op);
}
