// Harness for C05: interprets LU scripts against Bpp/Numeric/Matrix/LUDecomposition.h and
// MatrixTools::inv / MatrixTools::det.  The `case` line chooses the storage class
// (row | col | lin) of the factored matrix, of the right-hand side and of the output matrix.
// The in/out parameters -- the output matrix X of solve / MatrixTools::inv and the output vector x
// of the std::vector overload -- are objects that live as long as the case: every call receives
// them in the state the previous operations left them (initially default-constructed / empty).
//
//   xset r c <r*c hex>        X becomes a fresh r x c matrix (class of the case line) with these entries
//   xvset k <k hex>           x becomes a vector with these k elements
//   lu m n <m*n hex>          construct LUDecomposition<double>; answer
//                             piv <m ints> ; L <m*n hex> ; U <n*n hex> ; det <hex>
//   solve mb nx <mb*nx hex>   solve with the current object; answer  minD <hex> ; X <rows cols> <hex...>
//   solveip mb nx <mb*nx hex> X becomes B (class of X), then solve(X, X); answer as solve
//   solvevip mb <mb hex>      x becomes b, then the vector overload solve(x, x); answer as solvev
//   solvev mb <mb hex>        the std::vector overload of solve; answer  minD <hex> ; X <len> 1 <hex...>
//   inv m n <m*n hex>         MatrixTools::inv(A, X); answer as solve
//   invip m n <m*n hex>       X becomes A (class of X), then MatrixTools::inv(X, X); answer as solve
//   det m n <m*n hex>         MatrixTools::det; answer <hex>
//   dett n <n*n hex>          MatrixTools::det of A and of its transpose; answer <hex> <hex>
//   detmul n <A> <B>          MatrixTools::det of A, B and A*B (product formed here, exact for the
//                             small integer matrices this op is used with); answer <hex> <hex> <hex>
// Exceptions: exc:bpp (BadIntegerException), exc:zerodiv, exc:dimension.
#include "common.h"
#include <Bpp/Numeric/Matrix/Matrix.h>
#include <Bpp/Numeric/Matrix/MatrixTools.h>
#include <Bpp/Numeric/Matrix/LUDecomposition.h>
#include <memory>
#include <cmath>
using namespace bpp; using namespace verif;

static std::string hx(double d) { return std::isnan(d) ? std::string("nan") : doubleToHex(d); }

static std::unique_ptr<Matrix<double>> mk(const std::string& st, size_t r, size_t c) {
  if (st == "col") return std::unique_ptr<Matrix<double>>(new ColMatrix<double>(r, c));
  if (st == "lin") return std::unique_ptr<Matrix<double>>(new LinearMatrix<double>(r, c));
  return std::unique_ptr<Matrix<double>>(new RowMatrix<double>(r, c));
}
static std::unique_ptr<Matrix<double>> parse(const std::string& st, const Toks& t, size_t& pos) {
  size_t r = toU(t.at(pos)), c = toU(t.at(pos + 1)); pos += 2;
  std::unique_ptr<Matrix<double>> M = mk(st, r, c);
  for (size_t i = 0; i < r; ++i) for (size_t j = 0; j < c; ++j) (*M)(i, j) = hexToDouble(t.at(pos++));
  return M;
}
static std::string show(const Matrix<double>& M) {
  std::string s = std::to_string(M.getNumberOfRows()) + " " + std::to_string(M.getNumberOfColumns());
  for (size_t i = 0; i < M.getNumberOfRows(); ++i) for (size_t j = 0; j < M.getNumberOfColumns(); ++j) s += " " + hx(M(i, j));
  return s;
}

struct St {
  std::string sA = "row", sB = "row", sX = "row";
  std::unique_ptr<LUDecomposition<double>> lu;
  std::unique_ptr<Matrix<double>> X;   // in/out parameter of solve / inv
  std::vector<double> xv;              // in/out parameter of the vector overload
};

static std::string doOp(St& s, const Toks& t) {
  const std::string& o = t[0];
  if (!s.X) s.X = mk(s.sX, 0, 0);
  if (o == "xset") {
    size_t pos = 1; s.X = parse(s.sX, t, pos);
    return "ok";
  }
  if (o == "xvset") {
    size_t k = toU(t.at(1));
    s.xv.assign(k, 0.0);
    for (size_t i = 0; i < k; ++i) s.xv[i] = hexToDouble(t.at(2 + i));
    return "ok";
  }
  if (o == "lu") {
    size_t pos = 1; auto A = parse(s.sA, t, pos);
    s.lu.reset(new LUDecomposition<double>(*A));
    std::string r = "piv";
    for (size_t p : s.lu->getPivot()) r += " " + std::to_string(p);
    r += " ; L " + show(s.lu->getL()) + " ; U " + show(s.lu->getU()) + " ; det " + hx(s.lu->det());
    return r;
  }
  if (o == "solve") {
    if (!s.lu) return "no-lu";
    size_t pos = 1; auto B = parse(s.sB, t, pos);
    double d = s.lu->solve(*B, *s.X);
    return "minD " + hx(d) + " ; X " + show(*s.X);
  }
  if (o == "solveip") {
    // solve(B, B): the right-hand side is also the output (class of X)
    if (!s.lu) return "no-lu";
    size_t pos = 1; s.X = parse(s.sX, t, pos);
    double d = s.lu->solve(*s.X, *s.X);
    return "minD " + hx(d) + " ; X " + show(*s.X);
  }
  if (o == "solvevip") {
    if (!s.lu) return "no-lu";
    size_t mb = toU(t.at(1));
    s.xv.assign(mb, 0.0);
    for (size_t i = 0; i < mb; ++i) s.xv[i] = hexToDouble(t.at(2 + i));
    double d = s.lu->solve(s.xv, s.xv);
    std::string r = "minD " + hx(d) + " ; X " + std::to_string(s.xv.size()) + " 1";
    for (double v : s.xv) r += " " + hx(v);
    return r;
  }
  if (o == "solvev") {
    if (!s.lu) return "no-lu";
    size_t mb = toU(t.at(1));
    std::vector<double> b(mb);
    for (size_t i = 0; i < mb; ++i) b[i] = hexToDouble(t.at(2 + i));
    double d = s.lu->solve(b, s.xv);
    std::string r = "minD " + hx(d) + " ; X " + std::to_string(s.xv.size()) + " 1";
    for (double v : s.xv) r += " " + hx(v);
    return r;
  }
  if (o == "inv") {
    size_t pos = 1; auto A = parse(s.sA, t, pos);
    double d = MatrixTools::inv(*A, *s.X);
    return "minD " + hx(d) + " ; X " + show(*s.X);
  }
  if (o == "invip") {
    // in-place inverse MatrixTools::inv(A, A): the constructor copies A before O (= A) is resized
    size_t pos = 1; s.X = parse(s.sX, t, pos);
    double d = MatrixTools::inv(*s.X, *s.X);
    return "minD " + hx(d) + " ; X " + show(*s.X);
  }
  if (o == "det") {
    size_t pos = 1; auto A = parse(s.sA, t, pos);
    return hx(MatrixTools::det(*A));
  }
  if (o == "dett") {
    Toks u; u.push_back("x"); u.push_back(t.at(1)); u.push_back(t.at(1)); u.insert(u.end(), t.begin() + 2, t.end());
    size_t pos = 1; auto A = parse(s.sA, u, pos);
    size_t n = A->getNumberOfRows();
    auto T = mk(s.sB, n, n);
    for (size_t i = 0; i < n; ++i) for (size_t j = 0; j < n; ++j) (*T)(i, j) = (*A)(j, i);
    return hx(MatrixTools::det(*A)) + " " + hx(MatrixTools::det(*T));
  }
  if (o == "detmul") {
    size_t n = toU(t.at(1));
    auto A = mk(s.sA, n, n), B = mk(s.sB, n, n), C = mk(s.sX, n, n);
    size_t pos = 2;
    for (size_t i = 0; i < n; ++i) for (size_t j = 0; j < n; ++j) (*A)(i, j) = hexToDouble(t.at(pos++));
    for (size_t i = 0; i < n; ++i) for (size_t j = 0; j < n; ++j) (*B)(i, j) = hexToDouble(t.at(pos++));
    for (size_t i = 0; i < n; ++i) for (size_t j = 0; j < n; ++j) {
      double acc = 0; for (size_t k = 0; k < n; ++k) acc += (*A)(i, k) * (*B)(k, j);
      (*C)(i, j) = acc;
    }
    return hx(MatrixTools::det(*A)) + " " + hx(MatrixTools::det(*B)) + " " + hx(MatrixTools::det(*C));
  }
  return "bad-op";
}

int main() {
  St s;
  return runLoop(
    [&](const Toks& t) {
      s = St();
      if (t.size() > 2) s.sA = t[2];
      if (t.size() > 3) s.sB = t[3];
      if (t.size() > 4) s.sX = t[4];
    },
    [&](const Toks& t) -> std::string {
      try { return doOp(s, t); }
      catch (BadIntegerException&) { return "exc:bpp"; }
      catch (ZeroDivisionException&) { return "exc:zerodiv"; }
      catch (DimensionException&) { return "exc:dimension"; }
      catch (Exception&) { return "exc:bpp-other"; }
    });
}
