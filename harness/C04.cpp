// Harness for C04: interprets matrix scripts against Bpp/Numeric/Matrix/Matrix.h and MatrixTools.h.
//
//   case <tag> <kA> <kB> <kO> <or> <oc>
// kA, kB, kO in {row, col, lin}: the storage classes given to the input matrices of an operation in
// order of appearance (cyclically kA, kB, kO), to the outputs (O: kO, iO: kB) and the size of the
// stale content (100 + 10 i + j) every output matrix starts with.  In-place routines and pow work
// on a matrix of class kA.  Routines that are templates on the matrix class are instantiated with
// the concrete classes (not through the abstract base).
//
// A matrix argument is `r c <r*c hex doubles>`, a vector `n <n hex doubles>`.  A matrix answer is
// `rows cols <entries M(i,j) row by row>` using the reported dimensions.
//   mnew k r c | mset i j x | mresize r c | massign k M     storage-level operations on one object
//   copy M | copyup M | copydown M | getid n | diagv V | diags x n | diagm M | fill M x |
//   filldiag M x | scale M a b | mult A B | multc A iA B iB | multd A D B | multcd A iA D iD B iB |
//   multt A D U L B | add A B | adds A x B | pow M p | taylor M p | whichmax M | whichmin M |
//   max M | min M | transpose M | transpose2 M | issym M | covar M | kron A B chk | krond A dim v chk |
//   kron2 A B dA dB chk | had A B | hadc A iA B iB | hadv A V row | dsum A B | dsumn k M1..Mk |
//   tovv M | sum M | lap M | lapv lr lc lu lv M
// Exceptions: exc:dimension (DimensionException), exc:bpp (any other bpp::Exception).
#include "common.h"
#include <Bpp/Numeric/Matrix/Matrix.h>
#include <Bpp/Numeric/Matrix/MatrixTools.h>
#include <memory>
#include <cmath>
using namespace bpp; using namespace verif;

typedef Matrix<double> M;
typedef std::unique_ptr<M> MP;
typedef RowMatrix<double> RM;
typedef ColMatrix<double> CM;
typedef LinearMatrix<double> LM;

static std::string hx(double d) { return std::isnan(d) ? std::string("nan") : doubleToHex(d); }

static MP mk0(const std::string& k) {
  if (k == "col") return MP(new CM());
  if (k == "lin") return MP(new LM());
  return MP(new RM());
}
static MP mk(const std::string& k, size_t r, size_t c) {
  if (k == "col") return MP(new CM(r, c));
  if (k == "lin") return MP(new LM(r, c));
  return MP(new RM(r, c));
}
static std::string show(const M& A) {
  std::string s = std::to_string(A.getNumberOfRows()) + " " + std::to_string(A.getNumberOfColumns());
  for (size_t i = 0; i < A.getNumberOfRows(); ++i) for (size_t j = 0; j < A.getNumberOfColumns(); ++j) s += " " + hx(A(i, j));
  return s;
}
static std::string showV(const std::vector<double>& v) {
  std::string s = std::to_string(v.size());
  for (double x : v) s += " " + hx(x);
  return s;
}

// call f with the matrix cast to its concrete class
template<class F> static void with1(const std::string& k, M& A, F f) {
  if (k == "col") f(dynamic_cast<CM&>(A));
  else if (k == "lin") f(dynamic_cast<LM&>(A));
  else f(dynamic_cast<RM&>(A));
}
template<class F> static void with2(const std::string& k1, M& A, const std::string& k2, M& B, F f) {
  with1(k1, A, [&](auto& a) { with1(k2, B, [&](auto& b) { f(a, b); }); });
}

struct St {
  std::string k[3] = {"row", "row", "row"};
  size_t orr = 0, occ = 0;
  MP obj; std::string kobj;
  const std::string& kin(size_t n) const { return k[n % 3]; }
};

struct Args {
  const Toks& t; size_t pos; const St& s; size_t nmat = 0;
  Args(const Toks& t_, const St& s_) : t(t_), pos(1), s(s_) {}
  std::string lastKind;
  MP mat() {
    size_t r = toU(t.at(pos)), c = toU(t.at(pos + 1)); pos += 2;
    lastKind = s.kin(nmat++);
    MP A = mk(lastKind, r, c);
    // a class that cannot hold an r x 0 / 0 x c shape reports fewer rows/columns: fill what exists
    for (size_t i = 0; i < r; ++i) for (size_t j = 0; j < c; ++j) {
      double x = hexToDouble(t.at(pos++));
      if (i < A->getNumberOfRows() && j < A->getNumberOfColumns()) (*A)(i, j) = x;
    }
    return A;
  }
  std::vector<double> vec() {
    size_t n = toU(t.at(pos++)); std::vector<double> v(n);
    for (size_t i = 0; i < n; ++i) v[i] = hexToDouble(t.at(pos++));
    return v;
  }
  double num() { return hexToDouble(t.at(pos++)); }
  size_t nat() { return toU(t.at(pos++)); }
  bool flag() { return t.at(pos++) == "1"; }
};

static MP stale(const std::string& k, const St& s) {
  MP O = mk(k, s.orr, s.occ);
  for (size_t i = 0; i < O->getNumberOfRows(); ++i) for (size_t j = 0; j < O->getNumberOfColumns(); ++j)
    (*O)(i, j) = static_cast<double>(100 + 10 * i + j);
  return O;
}

static std::string doOp(St& s, const Toks& t) {
  const std::string& o = t[0];
  Args a(t, s);
  const std::string &kA = s.k[0], &kB = s.k[1], &kO = s.k[2];
  // ---- storage level
  if (o == "mnew") { s.kobj = t.at(1); s.obj = mk0(s.kobj); s.obj->resize(toU(t.at(2)), toU(t.at(3))); return show(*s.obj); }
  if (o == "mset") { (*s.obj)(toU(t.at(1)), toU(t.at(2))) = hexToDouble(t.at(3)); return show(*s.obj); }
  if (o == "mresize") { s.obj->resize(toU(t.at(1)), toU(t.at(2))); return show(*s.obj); }
  if (o == "massign") {
    s.kobj = t.at(1); a.pos = 2; MP src = a.mat();
    s.obj = mk0(s.kobj);
    with1(s.kobj, *s.obj, [&](auto& x) { x = static_cast<const M&>(*src); });
    return show(*s.obj);
  }
  // ---- one operand
  if (o == "copy" || o == "copyup" || o == "copydown" || o == "transpose") {
    MP A = a.mat(); MP O = stale(kO, s);
    with2(kA, *A, kO, *O, [&](auto& x, auto& y) {
      if (o == "copy") MatrixTools::copy(x, y);
      else if (o == "copyup") MatrixTools::copyUp(x, y);
      else if (o == "copydown") MatrixTools::copyDown(x, y);
      else MatrixTools::transpose(x, y);
    });
    return show(*O);
  }
  if (o == "transpose2") {
    MP A = a.mat(); MP T = mk0(kB); MP O = stale(kO, s);
    with2(kA, *A, kB, *T, [&](auto& x, auto& y) { MatrixTools::transpose(x, y); });
    with2(kB, *T, kO, *O, [&](auto& x, auto& y) { MatrixTools::transpose(x, y); });
    return show(*O);
  }
  if (o == "getid") { size_t n = a.nat(); MP O = stale(kO, s); with1(kO, *O, [&](auto& y) { MatrixTools::getId(n, y); }); return show(*O); }
  if (o == "diagv") { std::vector<double> D = a.vec(); MP O = stale(kO, s); MatrixTools::diag(D, *O); return show(*O); }
  if (o == "diags") { double x = a.num(); size_t n = a.nat(); MP O = stale(kO, s); MatrixTools::diag(x, n, *O); return show(*O); }
  if (o == "diagm") { MP A = a.mat(); std::vector<double> v(3, 7.0); MatrixTools::diag(static_cast<const M&>(*A), v); return showV(v); }
  if (o == "fill") { MP A = a.mat(); double x = a.num(); with1(kA, *A, [&](auto& y) { MatrixTools::fill(y, x); }); return show(*A); }
  if (o == "filldiag") { MP A = a.mat(); double x = a.num(); with1(kA, *A, [&](auto& y) { MatrixTools::fillDiag(y, x); }); return show(*A); }
  if (o == "scale") { MP A = a.mat(); double x = a.num(), b = a.num(); with1(kA, *A, [&](auto& y) { MatrixTools::scale(y, x, b); }); return show(*A); }
  if (o == "pow") {
    MP A = a.mat(); size_t p = a.nat(); MP O = stale(kA, s);
    with1(kA, *A, [&](auto& x) { typedef typename std::remove_reference<decltype(x)>::type T; MatrixTools::pow(x, p, dynamic_cast<T&>(*O)); });
    return show(*O);
  }
  if (o == "taylor") {
    MP A = a.mat(); size_t p = a.nat(); std::vector<RM> vO;
    MatrixTools::Taylor<M, double>(*A, p, vO);
    std::string r = std::to_string(vO.size());
    for (auto& x : vO) r += " ; " + show(x);
    return r;
  }
  if (o == "whichmax" || o == "whichmin") {
    MP A = a.mat(); std::vector<size_t> pos;
    with1(kA, *A, [&](auto& x) { pos = (o == "whichmax") ? MatrixTools::whichMax(x) : MatrixTools::whichMin(x); });
    return std::to_string(pos.at(0)) + " " + std::to_string(pos.at(1));
  }
  if (o == "max") { MP A = a.mat(); return hx(MatrixTools::max(static_cast<const M&>(*A))); }
  if (o == "min") { MP A = a.mat(); return hx(MatrixTools::min(static_cast<const M&>(*A))); }
  if (o == "issym") { MP A = a.mat(); bool b = false; with1(kA, *A, [&](auto& x) { b = MatrixTools::isSymmetric(x); }); return b ? "1" : "0"; }
  if (o == "covar") { MP A = a.mat(); MP O = stale(kO, s); MatrixTools::covar(static_cast<const M&>(*A), *O); return show(*O); }
  if (o == "tovv") {
    MP A = a.mat(); std::vector<std::vector<double>> vv(2, std::vector<double>(1, 7.0));
    MatrixTools::toVVdouble(static_cast<const M&>(*A), vv);
    std::string r = std::to_string(vv.size()) + " " + std::to_string(vv.empty() ? 0 : vv[0].size());
    for (auto& row : vv) for (double x : row) r += " " + hx(x);
    return r;
  }
  if (o == "sum") { MP A = a.mat(); return hx(MatrixTools::sumElements(static_cast<const M&>(*A))); }
  if (o == "lap" || o == "lapv") {
    // lapv <|rowSol|> <|colSol|> <|u|> <|v|> M: the caller's output vectors have these lengths
    size_t lr = 0, lc = 0, lu = 0, lv = 0;
    if (o == "lapv") { lr = a.nat(); lc = a.nat(); lu = a.nat(); lv = a.nat(); }
    MP A = a.mat(); size_t n = A->getNumberOfRows();
    if (o == "lap") { lr = lc = lu = lv = n; }
    std::vector<int> rs(lr, -7), cs(lc, -7); std::vector<double> u(lu, 99.0), v(lv, 99.0);
    double c = MatrixTools::lap(*A, rs, cs, u, v);
    std::string r = "cost " + hx(c) + " ; rowsol";
    for (int x : rs) r += " " + std::to_string(x);
    r += " ; colsol";
    for (int x : cs) r += " " + std::to_string(x);
    r += " ; u"; for (double x : u) r += " " + hx(x);
    r += " ; v"; for (double x : v) r += " " + hx(x);
    return r;
  }
  // ---- products
  if (o == "mult") { MP A = a.mat(), B = a.mat(); MP O = stale(kO, s); MatrixTools::mult(static_cast<const M&>(*A), static_cast<const M&>(*B), *O); return show(*O); }
  if (o == "multc") {
    MP A = a.mat(), iA = a.mat(), B = a.mat(), iB = a.mat(); MP O = stale(kO, s), iO = stale(kB, s);
    MatrixTools::mult(static_cast<const M&>(*A), static_cast<const M&>(*iA), static_cast<const M&>(*B), static_cast<const M&>(*iB), *O, *iO);
    return show(*O) + " ; " + show(*iO);
  }
  if (o == "multd") {
    MP A = a.mat(); std::vector<double> D = a.vec(); MP B = a.mat(); MP O = stale(kO, s);
    MatrixTools::mult(static_cast<const M&>(*A), D, static_cast<const M&>(*B), *O); return show(*O);
  }
  if (o == "multt") {
    MP A = a.mat(); std::vector<double> D = a.vec(), U = a.vec(), L = a.vec(); MP B = a.mat(); MP O = stale(kO, s);
    MatrixTools::mult(static_cast<const M&>(*A), D, U, L, static_cast<const M&>(*B), *O); return show(*O);
  }
  if (o == "multcd") {
    MP A = a.mat(), iA = a.mat(); std::vector<double> D = a.vec(), iD = a.vec(); MP B = a.mat(), iB = a.mat();
    MP O = stale(kO, s), iO = stale(kB, s);
    MatrixTools::mult(static_cast<const M&>(*A), static_cast<const M&>(*iA), D, iD, static_cast<const M&>(*B), static_cast<const M&>(*iB), *O, *iO);
    return show(*O) + " ; " + show(*iO);
  }
  if (o == "add") {
    MP A = a.mat(), B = a.mat();
    with2(kA, *A, kB, *B, [&](auto& x, auto& y) { MatrixTools::add(x, y); });
    return show(*A);
  }
  if (o == "adds") {
    MP A = a.mat(); double x = a.num(); MP B = a.mat();
    with2(kA, *A, kB, *B, [&](auto& p, auto& q) { MatrixTools::add(p, x, q); });
    return show(*A);
  }
  if (o == "kron") {
    MP A = a.mat(), B = a.mat(); bool chk = a.flag(); MP O = stale(kO, s);
    MatrixTools::kroneckerMult(static_cast<const M&>(*A), static_cast<const M&>(*B), *O, chk); return show(*O);
  }
  if (o == "krond") {
    MP A = a.mat(); size_t dim = a.nat(); double v = a.num(); bool chk = a.flag(); MP O = stale(kO, s);
    MatrixTools::kroneckerMult(static_cast<const M&>(*A), dim, v, *O, chk); return show(*O);
  }
  if (o == "kron2") {
    MP A = a.mat(), B = a.mat(); double dA = a.num(), dB = a.num(); bool chk = a.flag(); MP O = stale(kO, s);
    MatrixTools::kroneckerMult(static_cast<const M&>(*A), static_cast<const M&>(*B), dA, dB, *O, chk); return show(*O);
  }
  if (o == "had") { MP A = a.mat(), B = a.mat(); MP O = stale(kO, s); MatrixTools::hadamardMult(static_cast<const M&>(*A), static_cast<const M&>(*B), *O); return show(*O); }
  if (o == "hadc") {
    MP A = a.mat(), iA = a.mat(), B = a.mat(), iB = a.mat(); MP O = stale(kO, s), iO = stale(kB, s);
    MatrixTools::hadamardMult(static_cast<const M&>(*A), static_cast<const M&>(*iA), static_cast<const M&>(*B), static_cast<const M&>(*iB), *O, *iO);
    return show(*O) + " ; " + show(*iO);
  }
  if (o == "hadv") {
    MP A = a.mat(); std::vector<double> V = a.vec(); bool row = a.flag(); MP O = stale(kO, s);
    MatrixTools::hadamardMult(static_cast<const M&>(*A), V, *O, row); return show(*O);
  }
  if (o == "dsum") { MP A = a.mat(), B = a.mat(); MP O = stale(kO, s); MatrixTools::directSum(static_cast<const M&>(*A), static_cast<const M&>(*B), *O); return show(*O); }
  if (o == "dsumn") {
    size_t k = a.nat(); std::vector<MP> ms; std::vector<M*> ptrs;
    for (size_t i = 0; i < k; ++i) { ms.push_back(a.mat()); ptrs.push_back(ms.back().get()); }
    MP O = stale(kO, s); MatrixTools::directSum(ptrs, *O); return show(*O);
  }
  return "bad-op";
}

int main() {
  St s;
  return runLoop(
    [&](const Toks& t) {
      s = St();
      for (size_t i = 0; i < 3; ++i) if (t.size() > 2 + i) s.k[i] = t[2 + i];
      if (t.size() > 5) s.orr = toU(t[5]);
      if (t.size() > 6) s.occ = toU(t[6]);
    },
    [&](const Toks& t) -> std::string {
      try { return doOp(s, t); }
      catch (DimensionException&) { return "exc:dimension"; }
      catch (Exception&) { return "exc:bpp"; }
    });
}
