// Harness for C10: interprets optimiser scripts against the real optimisers of
// src/Bpp/Numeric/Function.  The objective is taken from a small family defined exactly as in
// lean/BppModel/Drive/C10.lean (same operations in the same order); it records every call of
// setParameters() (the point at which it is then evaluated).
//
//   obj quad  <n> <c> <b_i>*n <q_ij>*(n*n) at <x_i>*n      c + sum b_i x_i + sum_ij (q_ij x_i) x_j
//   obj cosh  <n> {<a> <w> <m>}*n            at <x_i>*n      sum a_i cosh(w_i (x_i - m_i))
//   obj quart <n> {<a> <e> <d> <m>}*n        at <x_i>*n      sum a_i t^4 + e_i t^2 + d_i t,  t = x_i - m_i
//   opt <kind> <k|i|a> <tol|-> <maxeval> <extra>
//        kind : gss <lo> <hi> | brent <lo> <hi> <out|in> | nback <slope> <test> | newton1 | simple
//               | snewton | powell | simplex | cg | bfgs | meta <full|step> [<n> [<cfg>]]   (n: number of progressive steps,
//               default 2; cfg: which optimisers the description holds, see below, default sb)
//   init <k> {<index> <value> <con> [P <precision>]}*k       con : N | I <lo|*> <hi|*> <inclLo> <inclHi>   (precision: default 0)
//   step | optimize
//   setmax <n>                                setMaximumNumberOfEvaluations(n) on the optimiser that exists
//   setpol <k|i|a>                            setConstraintPolicy(...) on the optimiser that exists (takes effect at the next init:
//                                             the same object is used again with another policy / other constraints)
//   clone                                     the optimiser is replaced by its clone() (the step listener is attached again:
//                                             copies do not keep listeners)
//   hint <cond> <inside> <convex> <full> <minimiser_i>*   what the generator knows about the objective (ignored here)
//   bracket <out|in> <a> <b> <nint> <index> <value> <con> <auto>
//
// Answer of init / step / optimize:
//   ok v=<returned|-> cur=<getFunctionValue> n=<nbEval> t=<tolReached> P <optimiser's parameter values>
//      F <the function's own point> L <npoints> <coordinates> # s=<steps made by this call>
//      pn=<nbEval at the end of the last step but one, -1 if none> pe=<calls of the objective made by this call up to there>
//   exc:<kind> L <npoints> <coordinates>          (afterwards init/step/optimize answer exc:dead)
//   (what follows `#` comes from a listener of the harness and is not compared with the model)
// Answer of bracket:  <ok|exc:kind> A <x> <f> B <x> <f> C <x> <f> L <npoints> <coordinates>
#include "common.h"
#include <Bpp/App/ApplicationTools.h>
#include <Bpp/Numeric/AbstractParametrizable.h>
#include <Bpp/Numeric/AutoParameter.h>
#include <Bpp/Numeric/Function/Functions.h>
#include <Bpp/Numeric/Function/GoldenSectionSearch.h>
#include <Bpp/Numeric/Function/BrentOneDimension.h>
#include <Bpp/Numeric/Function/NewtonOneDimension.h>
#include <Bpp/Numeric/Function/NewtonBacktrackOneDimension.h>
#include <Bpp/Numeric/Function/SimpleMultiDimensions.h>
#include <Bpp/Numeric/Function/SimpleNewtonMultiDimensions.h>
#include <Bpp/Numeric/Function/PowellMultiDimensions.h>
#include <Bpp/Numeric/Function/DownhillSimplexMethod.h>
#include <Bpp/Numeric/Function/ConjugateGradientMultiDimensions.h>
#include <Bpp/Numeric/Function/BfgsMultiDimensions.h>
#include <Bpp/Numeric/Function/MetaOptimizer.h>
#include <Bpp/Numeric/Function/OneDimensionOptimizationTools.h>
#include <cmath>
#include <limits>
#include <memory>
#include <unistd.h>
using namespace bpp; using namespace verif;

static std::string num(double d) {
  if (std::isnan(d)) return "nan";
  if (d == 0) d = 0.0;            // -0 and +0 are printed alike
  return doubleToHex(d);
}
static std::string pname(size_t i) { return "p" + std::to_string(i); }
typedef std::vector<std::vector<double>> Log;

// ---------------------------------------------------------------- the objective
struct EvalCap : std::runtime_error { EvalCap() : std::runtime_error("evaluation cap") {} };

class ObjFn : public virtual SecondOrderDerivable, public AbstractParametrizable {
public:
  int family_;                       // 0 quad, 1 cosh, 2 quart
  size_t n_;
  std::vector<double> k_;            // the family's coefficients, in script order
  Log* log_;
  bool en1_, en2_;
  size_t cap_;
  ObjFn(int family, size_t n, const std::vector<double>& k, const std::vector<double>& x0, Log* log) :
    AbstractParametrizable(""), family_(family), n_(n), k_(k), log_(log), en1_(true), en2_(true), cap_(100000)
  {
    for (size_t i = 0; i < n; ++i) addParameter_(new Parameter(pname(i), x0[i]));
  }
  ObjFn* clone() const override { return new ObjFn(*this); }
  std::vector<double> point() const {
    std::vector<double> x; for (size_t i = 0; i < n_; ++i) x.push_back(getParameterValue(pname(i))); return x;
  }
  double eval(const std::vector<double>& x) const {
    if (family_ == 0) {
      double s = k_[0];
      for (size_t i = 0; i < n_; ++i) s = s + k_[1 + i] * x[i];
      for (size_t i = 0; i < n_; ++i) for (size_t j = 0; j < n_; ++j) s = s + (k_[1 + n_ + i * n_ + j] * x[i]) * x[j];
      return s;
    }
    if (family_ == 1) {
      double s = 0.0;
      for (size_t i = 0; i < n_; ++i) { double a = k_[3 * i], w = k_[3 * i + 1], m = k_[3 * i + 2]; s = s + a * std::cosh(w * (x[i] - m)); }
      return s;
    }
    double s = 0.0;
    for (size_t i = 0; i < n_; ++i) {
      double a = k_[4 * i], e = k_[4 * i + 1], d = k_[4 * i + 2], m = k_[4 * i + 3];
      double t = x[i] - m; double t2 = t * t;
      s = s + ((a * t2) * t2 + e * t2 + d * t);
    }
    return s;
  }
  double d1(const std::vector<double>& x, size_t k) const {
    if (family_ == 0) {
      double s = k_[1 + k];
      for (size_t j = 0; j < n_; ++j) s = s + (k_[1 + n_ + k * n_ + j] + k_[1 + n_ + j * n_ + k]) * x[j];
      return s;
    }
    if (family_ == 1) { double a = k_[3 * k], w = k_[3 * k + 1], m = k_[3 * k + 2]; return (a * w) * std::sinh(w * (x[k] - m)); }
    double a = k_[4 * k], e = k_[4 * k + 1], d = k_[4 * k + 2], m = k_[4 * k + 3];
    double t = x[k] - m;
    return ((4.0 * a) * (t * t)) * t + (2.0 * e) * t + d;
  }
  double d2(const std::vector<double>& x, size_t k, size_t l) const {
    if (family_ == 0) return k_[1 + n_ + k * n_ + l] + k_[1 + n_ + l * n_ + k];
    if (k != l) return 0.0;
    if (family_ == 1) { double a = k_[3 * k], w = k_[3 * k + 1], m = k_[3 * k + 2]; return ((a * w) * w) * std::cosh(w * (x[k] - m)); }
    double a = k_[4 * k], e = k_[4 * k + 1], m = k_[4 * k + 3];
    double t = x[k] - m;
    return (12.0 * a) * (t * t) + 2.0 * e;
  }
  static size_t idx(const std::string& v) { return static_cast<size_t>(std::stoul(v.substr(1))); }
  void setParameters(const ParameterList& pl) override {
    matchParametersValues(pl);
    log_->push_back(point());
    if (log_->size() > cap_) throw EvalCap();
  }
  double getValue() const override { return eval(point()); }
  void fireParameterChanged(const ParameterList&) override {}
  void enableFirstOrderDerivatives(bool yn) override { en1_ = yn; }
  bool enableFirstOrderDerivatives() const override { return en1_; }
  void enableSecondOrderDerivatives(bool yn) override { en2_ = yn; }
  bool enableSecondOrderDerivatives() const override { return en2_; }
  double getFirstOrderDerivative(const std::string& v) const override { return d1(point(), idx(v)); }
  double getSecondOrderDerivative(const std::string& v) const override { return d2(point(), idx(v), idx(v)); }
  double getSecondOrderDerivative(const std::string& v1, const std::string& v2) const override { return d2(point(), idx(v1), idx(v2)); }
};

// records, at the end of every step of the top-level optimiser, its evaluation counter and the number
// of calls of the objective so far
struct StepRecorder : OptimizationListener {
  Log* log_; size_t steps = 0; long prevN = -1, lastN = -1; long prevE = -1, lastE = -1;
  StepRecorder(Log* log) : log_(log) {}
  void optimizationInitializationPerformed(const OptimizationEvent&) override {}
  void optimizationStepPerformed(const OptimizationEvent& ev) override {
    steps++; prevN = lastN; prevE = lastE;
    lastN = (long)ev.getOptimizer()->getNumberOfEvaluations(); lastE = (long)log_->size();
  }
  bool listenerModifiesParameters() const override { return false; }
  void reset() { steps = 0; prevN = lastN = prevE = lastE = -1; }
};

// ---------------------------------------------------------------- the machine
struct Machine {
  Log log;
  std::shared_ptr<StepRecorder> rec;
  std::shared_ptr<ObjFn> fn;
  std::shared_ptr<OptimizerInterface> opt;
  std::string kind;
  bool dead = false;

  static std::shared_ptr<ConstraintInterface> con(const Toks& t, size_t& i) {
    std::string k = t.at(i++);
    if (k == "N") return nullptr;
    std::string lo = t.at(i++), hi = t.at(i++); bool il = t.at(i++) == "1", ih = t.at(i++) == "1";
    double l = lo == "*" ? -std::numeric_limits<double>::infinity() : hexToDouble(lo);
    double u = hi == "*" ? std::numeric_limits<double>::infinity() : hexToDouble(hi);
    return std::make_shared<IntervalConstraint>(l, u, il, ih);
  }
  std::string logStr() {
    std::string s = "L " + std::to_string(log.size());
    for (auto& pt : log) for (double d : pt) s += " " + num(d);
    log.clear();
    return s;
  }
  std::string state() {
    std::string s = std::string(" cur=") + num(opt->getFunctionValue()) + " n=" + std::to_string(opt->getNumberOfEvaluations())
      + " t=" + (opt->isToleranceReached() ? "1" : "0") + " P";
    const ParameterList& pl = opt->getParameters();
    for (size_t i = 0; i < pl.size(); ++i) s += " " + num(pl[i].getValue());
    s += " F";
    for (double d : fn->point()) s += " " + num(d);
    s += " " + logStr();
    s += " # s=" + std::to_string(rec->steps) + " pn=" + std::to_string(rec->prevN) + " pe=" + std::to_string(rec->prevE);
    rec->reset();
    return s;
  }
  // after an exception only the log is printed, and the optimiser is not touched any more
  std::string finish(const std::string& a) {
    if (a.compare(0, 2, "ok") == 0) return a + state();
    dead = true; rec->reset();
    return a.substr(0, a.find(' ')) + " " + logStr();
  }
  template<class F> std::string guarded(F body) {
    std::string st = "ok", r = "-";
    try { r = body(); }
    catch (ConstraintException&) { st = "exc:constraint"; }
    catch (ParameterNotFoundException&) { st = "exc:notfound"; }
    catch (Exception&) { st = "exc:bpp"; }
    catch (EvalCap&) { st = "exc:cap"; }
    return st + " v=" + r;
  }
  std::string op(const Toks& t) {
    const std::string& o = t[0];
    size_t i = 1;
    if (o == "obj") {
      std::string fam = t.at(i++); size_t n = toU(t.at(i++));
      int family = fam == "quad" ? 0 : fam == "cosh" ? 1 : 2;
      size_t nk = family == 0 ? 1 + n + n * n : family == 1 ? 3 * n : 4 * n;
      std::vector<double> k, x0;
      for (size_t j = 0; j < nk; ++j) k.push_back(hexToDouble(t.at(i++)));
      if (t.at(i++) != "at") return "bad-op";
      for (size_t j = 0; j < n; ++j) x0.push_back(hexToDouble(t.at(i++)));
      log.clear(); opt.reset();
      fn.reset(new ObjFn(family, n, k, x0, &log));
      return "ok v=" + num(fn->getValue());
    }
    if (!fn) return "bad-op";
    if (o == "hint") return "ok";
    if (o == "opt") {
      kind = t.at(i++); std::string pol = t.at(i++), tol = t.at(i++); unsigned int mx = (unsigned int)toU(t.at(i++));
      std::shared_ptr<FunctionInterface> f0 = fn; std::shared_ptr<FirstOrderDerivable> f1 = fn; std::shared_ptr<SecondOrderDerivable> f2 = fn;
      if (kind == "gss") { auto p = std::make_shared<GoldenSectionSearch>(f0); p->setInitialInterval(hexToDouble(t.at(i)), hexToDouble(t.at(i + 1))); opt = p; }
      else if (kind == "brent") { auto p = std::make_shared<BrentOneDimension>(f0); p->setInitialInterval(hexToDouble(t.at(i)), hexToDouble(t.at(i + 1)));
        p->setBracketing(t.at(i + 2) == "in" ? BrentOneDimension::BRACKET_INWARD : BrentOneDimension::BRACKET_OUTWARD); opt = p; }
      else if (kind == "nback") opt = std::make_shared<NewtonBacktrackOneDimension>(f0, hexToDouble(t.at(i)), hexToDouble(t.at(i + 1)));
      else if (kind == "newton1") opt = std::make_shared<NewtonOneDimension>(f2);
      else if (kind == "simple") opt = std::make_shared<SimpleMultiDimensions>(f0);
      else if (kind == "snewton") opt = std::make_shared<SimpleNewtonMultiDimensions>(f2);
      else if (kind == "powell") opt = std::make_shared<PowellMultiDimensions>(f0);
      else if (kind == "simplex") opt = std::make_shared<DownhillSimplexMethod>(f0);
      else if (kind == "cg") opt = std::make_shared<ConjugateGradientMultiDimensions>(f1);
      else if (kind == "bfgs") opt = std::make_shared<BfgsMultiDimensions>(f1);
      else if (kind == "meta") {
        // configuration (third word after the kind, default `sb`):
        //   sb  first half of the parameters: coordinate-wise Brent; second half: BFGS (everything Brent when n = 1)   [modelled]
        //   sp  first half: coordinate-wise Brent; second half: Powell (the last member is Powell)
        //   bp  first half: BFGS; second half: Powell
        //   p / b / s / c   ONE member for all the parameters: Powell / BFGS / coordinate-wise Brent / conjugate gradient
        std::string type = t.at(i) == "full" ? MetaOptimizerInfos::IT_TYPE_FULL : MetaOptimizerInfos::IT_TYPE_STEP;
        std::string cfg = t.size() > i + 2 ? t.at(i + 2) : "sb";
        std::unique_ptr<MetaOptimizerInfos> desc(new MetaOptimizerInfos());
        size_t n = fn->n_, h = (n + 1) / 2;
        std::vector<std::string> g1, g2, all;
        for (size_t j = 0; j < n; ++j) { (j < h ? g1 : g2).push_back(pname(j)); all.push_back(pname(j)); }
        auto member = [&](char c, const std::vector<std::string>& g) {
          if (g.empty()) return;
          if (c == 's') desc->addOptimizer("simple", std::make_shared<SimpleMultiDimensions>(f0), g, 0, type);
          else if (c == 'b') desc->addOptimizer("bfgs", std::make_shared<BfgsMultiDimensions>(f1), g, 1, type);
          else if (c == 'p') desc->addOptimizer("powell", std::make_shared<PowellMultiDimensions>(f0), g, 0, type);
          else if (c == 'c') desc->addOptimizer("cg", std::make_shared<ConjugateGradientMultiDimensions>(f1), g, 1, type);
        };
        if (cfg.size() == 2) { member(cfg[0], g1); member(cfg[1], g2); }
        else if (cfg.size() == 1) member(cfg[0], all);
        else return "bad-op";
        unsigned int nsteps = t.size() > i + 1 ? (unsigned int)toU(t.at(i + 1)) : 2;
        opt = std::make_shared<MetaOptimizer>(f0, std::move(desc), nsteps);
      }
      else return "bad-op";
      opt->setVerbose(0); opt->setProfiler(nullptr); opt->setMessageHandler(nullptr);
      opt->setConstraintPolicy(pol == "a" ? AutoParameter::CONSTRAINTS_AUTO : pol == "i" ? AutoParameter::CONSTRAINTS_IGNORE : AutoParameter::CONSTRAINTS_KEEP);
      opt->setMaximumNumberOfEvaluations(mx);
      if (tol != "-") opt->getStopCondition()->setTolerance(hexToDouble(tol));
      rec = std::make_shared<StepRecorder>(&log);
      opt->addOptimizationListener(rec);
      dead = false;
      return "ok";
    }
    if (o == "bracket") {
      std::string mode = t.at(i++); double a = hexToDouble(t.at(i++)), b = hexToDouble(t.at(i++)); unsigned int nint = (unsigned int)toU(t.at(i++));
      size_t k = toU(t.at(i++)); double v = hexToDouble(t.at(i++)); auto c = con(t, i); bool aut = t.at(i++) == "1";
      Bracket br; br.a.x = br.a.f = br.b.x = br.b.f = br.c.x = br.c.f = 0;
      std::string st = guarded([&]() -> std::string {
        ParameterList pl;
        if (aut) { AutoParameter ap(pname(k), v, c); ap.setMessageHandler(nullptr); pl.addParameter(ap); }
        else pl.addParameter(Parameter(pname(k), v, c));
        br = mode == "in" ? OneDimensionOptimizationTools::inwardBracketMinimum(a, b, *fn, pl, nint)
                          : OneDimensionOptimizationTools::bracketMinimum(a, b, *fn, pl);
        return "-";
      });
      std::string s = st.substr(0, st.find(' '));
      if (s == "ok") s += " A " + num(br.a.x) + " " + num(br.a.f) + " B " + num(br.b.x) + " " + num(br.b.f) + " C " + num(br.c.x) + " " + num(br.c.f);
      return s + " F " + [&]() { std::string r; for (double d : fn->point()) r += num(d) + " "; return r; }() + logStr();
    }
    if (!opt) return "bad-op";
    // after an exception the optimiser may be half built (step() does not check isInitialized_): it is left alone
    if (dead && (o == "init" || o == "step" || o == "optimize")) return "exc:dead";
    if (o == "clone") {
      std::shared_ptr<OptimizerInterface> c(opt->clone());
      c->addOptimizationListener(rec);
      opt = c;
      return "ok";
    }
    if (o == "setmax") { opt->setMaximumNumberOfEvaluations((unsigned int)toU(t.at(i++))); return "ok"; }
    if (o == "setpol") {
      std::string pol = t.at(i++);
      opt->setConstraintPolicy(pol == "a" ? AutoParameter::CONSTRAINTS_AUTO : pol == "i" ? AutoParameter::CONSTRAINTS_IGNORE : AutoParameter::CONSTRAINTS_KEEP);
      return "ok";
    }
    if (o == "init") {
      size_t k = toU(t.at(i++));
      std::string a = guarded([&]() -> std::string {
        ParameterList pl;
        for (size_t j = 0; j < k; ++j) {
          size_t ix = toU(t.at(i++)); double v = hexToDouble(t.at(i++)); auto c = con(t, i);
          double prec = 0;
          if (i < t.size() && t[i] == "P") { prec = hexToDouble(t.at(i + 1)); i += 2; }
          pl.addParameter(Parameter(pname(ix), v, c, prec));
        }
        opt->init(pl);
        return "-";
      });
      return finish(a);
    }
    if (o == "step") { std::string a = guarded([&]() { return num(opt->step()); }); return finish(a); }
    if (o == "optimize") { std::string a = guarded([&]() { return num(opt->optimize()); }); return finish(a); }
    return "bad-op";
  }
};

int main() {
  // the library writes progress and "Constraint match" messages to stdout: keep the protocol on a
  // private descriptor and silence everything else
  int fd = dup(1);
  FILE* out = fdopen(fd, "w");
  if (!freopen("/dev/null", "w", stdout)) return 3;
  ApplicationTools::message = nullptr; ApplicationTools::warning = nullptr; ApplicationTools::error = nullptr;
  std::unique_ptr<Machine> m(new Machine());
  std::string line;
  while (std::getline(std::cin, line)) {
    Toks t = toks(line);
    if (t.empty() || t[0] == "#" || t[0] == "=") continue;
    if (t[0] == "case") { m.reset(new Machine()); continue; }
    std::string r;
    try { r = m->op(t); }
    catch (std::exception&) { r = "exc:std"; }
    std::fputs(r.c_str(), out); std::fputc('\n', out);
  }
  std::fflush(out);
  return 0;
}
