// Harness for C15: interprets tree scripts against Bpp/Graph/TreeGraphImpl.h instantiated at
// GlobalGraph.  The raw node/edge tables are read through the befriended-template trick of
// harness/C14.cpp; the cached validity flag through the guarded hook verifCachedValid().
// After every operation the harness prints  <result> ; <raw graph state> V <cached flag>.
// Calls whose C++ behaviour would be undefined or non-terminating are not made: the harness
// evaluates the precondition (different climbing ends) and answers `ub` / `diverges`.
#include "common.h"
#include <Bpp/Graph/GlobalGraph.h>
#include <Bpp/Graph/AssociationGraphImplObserver.h>
#include <Bpp/Graph/TreeGraphImpl.h>
#include <Bpp/Exceptions.h>
#include <memory>
#include <map>
#include <set>

namespace verif { struct PeekTag {}; }
namespace bpp {
template<> class AssociationGraphImplObserver<verif::PeekTag, verif::PeekTag, verif::PeekTag>
{
public:
  typedef GlobalGraph GG;
  static GG::nodeStructureType& nodes(GG& g) { return g.nodeStructure_; }
  static GG::edgeStructureType& edges(GG& g) { return g.edgeStructure_; }
  static bool directed(GG& g) { return g.directed_; }
  static unsigned hN(GG& g) { return g.highestNodeID_; }
  static unsigned hE(GG& g) { return g.highestEdgeID_; }
  static unsigned root(GG& g) { return g.root_; }
  static unsigned link(GG& g, unsigned a, unsigned b) { return g.link(a, b); }
  static std::vector<unsigned> unlink(GG& g, unsigned a, unsigned b) { return g.unlink(a, b); }
  static void setRoot(GG& g, unsigned a) { g.setRoot(a); }
};
}
using namespace bpp; using namespace verif;
typedef AssociationGraphImplObserver<PeekTag, PeekTag, PeekTag> Peek;
typedef TreeGraphImpl<GlobalGraph> Tree;

static std::string U(unsigned long v) { return std::to_string(v); }
template<class V> static std::string list(const V& v) { std::string s; for (auto x : v) { s += U(x); s += " "; } return s; }
static std::string B(bool b) { return b ? "1" : "0"; }
static std::string q(std::function<std::string()> f) {
  try { return f(); } catch (Exception&) { return "exc:bpp "; } catch (std::exception&) { return "exc:std "; }
}

struct M {
  std::unique_ptr<Tree> t;
  explicit M(bool rooted) : t(new Tree(rooted)) {}

  static std::string row(const std::map<unsigned, unsigned>& m) {
    std::string s; for (auto& kv : m) s += U(kv.first) + ":" + U(kv.second) + " "; return s;
  }
  std::string state() {
    GlobalGraph& G = *t;
    std::string s = std::string("G ") + (Peek::directed(G) ? "D " : "U ") + U(Peek::hN(G)) + " " + U(Peek::hE(G)) + " " + U(Peek::root(G)) + " ";
    for (auto& r : Peek::nodes(G)) s += "N " + U(r.first) + " O " + row(r.second.first) + "I " + row(r.second.second);
    s += "E ";
    for (auto& e : Peek::edges(G)) s += U(e.first) + ":" + U(e.second.first) + ":" + U(e.second.second) + " ";
    s += "V " + B(t->verifCachedValid());
    return s;
  }
  // the node where climbing by single fathers ends; -1 when the climb itself would raise, -2 when it cycles
  long climbEnd(unsigned n) {
    auto& tab = Peek::nodes(*t);
    std::set<unsigned> seen;
    for (;;) {
      auto it = tab.find(n);
      if (it == tab.end()) return -1;
      if (it->second.second.size() == 0) return n;
      if (it->second.second.size() > 1) return -1;
      if (!seen.insert(n).second) return -2;
      n = it->second.second.begin()->first;
    }
  }

  std::string treeOp(const Toks& k) {
    Tree& T = *t;
    const Tree& C = T;
    GlobalGraph& G = T;
    const std::string& o = k[0];
    if (o == "t.createNode") return U(T.createNode());
    if (o == "t.link") return U(Peek::link(G, toU(k[1]), toU(k[2])));
    if (o == "t.unlink") return list(Peek::unlink(G, toU(k[1]), toU(k[2])));
    if (o == "t.deleteNode") { T.deleteNode(toU(k[1])); return "ok"; }
    if (o == "t.setRoot") { Peek::setRoot(G, toU(k[1])); return "ok"; }
    if (o == "t.makeDirected") { T.makeDirected(); return "ok"; }
    if (o == "t.makeUndirected") { T.makeUndirected(); return "ok"; }
    if (o == "t.setFather") { T.setFather(toU(k[1]), toU(k[2])); return "ok"; }
    if (o == "t.addSon") { T.addSon(toU(k[1]), toU(k[2])); return "ok"; }
    if (o == "t.removeSon") { T.removeSon(toU(k[1]), toU(k[2])); return "ok"; }
    if (o == "t.rootAt") { T.rootAt(toU(k[1])); return "ok"; }
    if (o == "t.unRoot") { T.unRoot(toU(k[1]) != 0); return "ok"; }
    // ---- queries
    if (o == "t.valid") return B(T.isValid());
    if (o == "t.qn") {
      unsigned n = toU(k[1]);
      std::string s;
      s += "hf " + q([&] { return B(C.hasFather(n)) + " "; }) + "fa " + q([&] { return U(C.getFatherOfNode(n)) + " "; });
      s += "ef " + q([&] { return U(C.getEdgeToFather(n)) + " "; });
      s += "sons " + q([&] { return list(C.getSons(n)); }) + "br " + q([&] { return list(C.getBranches(n)); });
      s += "ns " + q([&] { return U(C.getNumberOfSons(n)) + " "; }) + "lf " + q([&] { return B(C.isLeaf(n)) + " "; });
      return s;
    }
    if (o == "t.leavesUnder" || o == "t.subN" || o == "t.subE") {
      // the recursions do not terminate on a cycle reachable from the node: only on valid trees
      if (!T.isValid()) return "notvalid";
      // on an unrooted (undirected) tree the sons of a son include the node itself: the recursions never return
      if (!Peek::directed(G)) return "unrooted";
      unsigned n = toU(k[1]);
      if (o == "t.leavesUnder") return "l " + list(C.getLeavesUnderNode(n));
      if (o == "t.subN") return "l " + list(C.getSubtreeNodes(n));
      return "l " + list(C.getSubtreeEdges(n));
    }
    if (o == "t.path" || o == "t.epath") {
      unsigned a = toU(k[1]), b = toU(k[2]);
      bool inc = o == "t.epath" || toU(k[3]) != 0;
      if (Peek::nodes(G).count(a) && Peek::nodes(G).count(b)) {
        long ea = climbEnd(a), eb = climbEnd(b);
        if (ea == -2 || eb == -2) return "skip-cycle";
        if (ea >= 0 && eb >= 0 && ea != eb && inc) return "ub";
      }
      if (o == "t.path") return "l " + list(C.getNodePathBetweenTwoNodes(a, b, inc));
      return "l " + list(C.getEdgePathBetweenTwoNodes(a, b));
    }
    if (o == "t.mrca") {
      std::vector<Graph::NodeId> v;
      for (size_t i = 1; i < k.size(); ++i) v.push_back((unsigned)toU(k[i]));
      if (v.empty()) return "bad-op";
      std::set<unsigned> distinct(v.begin(), v.end());
      if (Peek::directed(G) && v.size() > 1 && distinct.size() > 1) {
        std::set<long> ends;
        bool raises = false;
        for (auto n : distinct) { long e = climbEnd(n); if (e == -1) raises = true; else ends.insert(e); }
        // a father cycle: the lock-step climb may or may not stop; not exercised
        if (ends.count(-2)) return "skip-cycle";
        // every climb ends, at different father-less nodes: the loop never stops
        if (!raises && ends.size() > 1) return "diverges";
      }
      return U(C.MRCA(v));
    }
    if (o == "t.rooted") return B(C.isRooted());
    return "bad-op";
  }

  std::string op(const Toks& k) {
    std::string r;
    try { r = treeOp(k); }
    catch (Exception&) { r = "exc:bpp"; }
    catch (std::exception&) { r = "exc:std"; }
    return r + " ; " + state();
  }
};

int main() {
  std::unique_ptr<M> m(new M(true));
  return runLoop(
    [&](const Toks& t) { bool dir = !(t.size() > 2 && t[2] == "undir"); m.reset(new M(dir)); },
    [&](const Toks& t) { return m->op(t); });
}
