// Harness for C15: interprets scripts against
//   case <tag> dir|undir     Bpp/Graph/TreeGraphImpl.h instantiated at GlobalGraph           (ops t.*)
//   case <tag> dag           Bpp/Graph/DAGraphImpl.h instantiated at GlobalGraph            (ops d.*)
//   case <tag> obsdir|obsundir  Bpp/Graph/AssociationTreeGraphImplObserver.h (objects by identity) (ops o.*)
//   case <tag> obsdag        Bpp/Graph/AssociationDAGraphImplObserver.h (objects by identity)       (ops w.*)
// The raw node/edge tables and the observer's maps are read through the befriended-template trick
// of harness/C14.cpp; the cached validity flag of the tree through the guarded hook
// verifCachedValid(), the two protected flags of the DAG through a derived class.
// After every operation the harness prints  <result> ; <raw state> V <cached flag> [R <rooted flag>].
// Calls whose C++ behaviour would be undefined or non-terminating are not made: the harness
// evaluates the precondition on the raw state and answers `ub` / `diverges` / `skip-cycle`.
// Any other call runs under a watchdog (5 s) in a worker process: one that does not return answers `hang`,
// one that kills the worker `crash:<code>`; the supervisor goes on with the next case.
#include "common.h"
#include <Bpp/Graph/GlobalGraph.h>
#include <Bpp/Graph/AssociationGraphImplObserver.h>
#include <Bpp/Graph/TreeGraphImpl.h>
#include <Bpp/Graph/DAGraphImpl.h>
#include <Bpp/Graph/AssociationTreeGraphImplObserver.h>
#include <Bpp/Graph/AssociationDAGraphImplObserver.h>
#include <algorithm>
#include <csignal>
#include <cstdio>
#include <cstdlib>
#include <unistd.h>
#include <sys/types.h>
#include <sys/wait.h>
#include <Bpp/Exceptions.h>
#include <memory>
#include <map>
#include <set>

namespace verif { struct PeekTag {}; }
namespace bpp {
template<> class AssociationGraphImplObserver<verif::PeekTag, verif::PeekTag, verif::PeekTag>
{
public:
  typedef GlobalGraph GG;
  static GG::nodeStructureType& nodes(GG& g) { return g.nodeStructure_; }
  static GG::edgeStructureType& edges(GG& g) { return g.edgeStructure_; }
  static bool directed(GG& g) { return g.directed_; }
  static unsigned hN(GG& g) { return g.highestNodeID_; }
  static unsigned hE(GG& g) { return g.highestEdgeID_; }
  static unsigned root(GG& g) { return g.root_; }
  static unsigned link(GG& g, unsigned a, unsigned b) { return g.link(a, b); }
  static std::vector<unsigned> unlink(GG& g, unsigned a, unsigned b) { return g.unlink(a, b); }
  static void setRoot(GG& g, unsigned a) { g.setRoot(a); }
  static void linkE(GG& g, unsigned a, unsigned b, unsigned e) { g.link(a, b, e); }
  template<class O> static decltype(O::graphidToN_)& gN(O& o) { return o.graphidToN_; }
  template<class O> static decltype(O::graphidToE_)& gE(O& o) { return o.graphidToE_; }
  template<class O> static decltype(O::NToGraphid_)& Ng(O& o) { return o.NToGraphid_; }
  template<class O> static decltype(O::EToGraphid_)& Eg(O& o) { return o.EToGraphid_; }
  template<class O> static decltype(O::indexToN_)& iN(O& o) { return o.indexToN_; }
  template<class O> static decltype(O::indexToE_)& iE(O& o) { return o.indexToE_; }
  template<class O> static decltype(O::NToIndex_)& Ni(O& o) { return o.NToIndex_; }
  template<class O> static decltype(O::EToIndex_)& Ei(O& o) { return o.EToIndex_; }
};
}
using namespace bpp; using namespace verif;
typedef AssociationGraphImplObserver<PeekTag, PeekTag, PeekTag> Peek;
typedef TreeGraphImpl<GlobalGraph> Tree;

static std::string U(unsigned long v) { return std::to_string(v); }
template<class V> static std::string list(const V& v) { std::string s; for (auto x : v) { s += U(x); s += " "; } return s; }
static std::string B(bool b) { return b ? "1" : "0"; }
static std::string q(std::function<std::string()> f) {
  try { return f(); } catch (Exception&) { return "exc:bpp "; } catch (std::exception&) { return "exc:std "; }
}

static std::string row(const std::map<unsigned, unsigned>& m) {
  std::string s; for (auto& kv : m) s += U(kv.first) + ":" + U(kv.second) + " "; return s;
}
static std::string graphState(GlobalGraph& G) {
  std::string s = std::string("G ") + (Peek::directed(G) ? "D " : "U ") + U(Peek::hN(G)) + " " + U(Peek::hE(G)) + " " + U(Peek::root(G)) + " ";
  for (auto& r : Peek::nodes(G)) s += "N " + U(r.first) + " O " + row(r.second.first) + "I " + row(r.second.second);
  s += "E ";
  for (auto& e : Peek::edges(G)) s += U(e.first) + ":" + U(e.second.first) + ":" + U(e.second.second) + " ";
  return s;
}

struct Machine { virtual ~Machine() {} virtual std::string op(const Toks& k) = 0; };

// several containers side by side (slot 0 is the one the case starts with): copy construction, assignment,
// and assignment of the GlobalGraph part through the base class.  `h.sel k` chooses the container the t.* / d.*
// operations act on.  After every operation the state of EVERY live container is printed (`#` between slots,
// `-` for an empty slot below the last live one), so that a change leaking into another container shows.
template<class C> struct Heap {
  static const int NS = 3;
  std::unique_ptr<C> slot[NS];
  int sel;
  Heap() : sel(0) {}
  C* cur() { return slot[sel].get(); }
  static bool okSlot(long k) { return k >= 0 && k < NS; }
  // returns "" when the operation is not a heap operation
  std::string heapOp(const Toks& k) {
    const std::string& o = k[0];
    if (o == "h.sel") { long a = toI(k[1]); if (!okSlot(a) || !slot[a]) return "bad-slot"; sel = (int)a; return "ok"; }
    if (o == "h.copy" || o == "h.assign" || o == "h.gassign") {
      long j = toI(k[1]), d = toI(k[2]);
      if (!okSlot(j) || !okSlot(d) || !slot[j]) return "bad-slot";
      if (o == "h.copy") {
        if (j == d) return "bad-slot";
        slot[d].reset(new C(*slot[j]));            // the (implicit) copy constructor of the container
        return "ok";
      }
      if (!slot[d]) return "bad-slot";
      if (o == "h.assign") { *slot[d] = *slot[j]; return "ok"; }   // the (implicit) operator= of the container
      // GlobalGraph::operator= reached through the base class
      static_cast<GlobalGraph&>(*slot[d]) = static_cast<const GlobalGraph&>(*slot[j]);
      return "ok";
    }
    return "";
  }
  template<class F> std::string state(F one) {
    int last = 0; for (int k = 0; k < NS; ++k) if (slot[k]) last = k;
    std::string s;
    for (int k = 0; k <= last; ++k) { if (k) s += "# "; s += slot[k] ? one(*slot[k]) : std::string("- "); }
    return s;
  }
};

struct M : Machine {
  Heap<Tree> h;
  Tree* t;
  explicit M(bool rooted) { h.slot[0].reset(new Tree(rooted)); t = h.cur(); }

  std::string state() {
    return h.state([](Tree& x) { return graphState(x) + "V " + B(x.verifCachedValid()) + " "; });
  }
  // the node where climbing by single fathers ends; -1 when the climb itself would raise, -2 when it cycles
  long climbEnd(unsigned n) {
    auto& tab = Peek::nodes(*t);
    std::set<unsigned> seen;
    for (;;) {
      auto it = tab.find(n);
      if (it == tab.end()) return -1;
      if (it->second.second.size() == 0) return n;
      if (it->second.second.size() > 1) return -1;
      if (!seen.insert(n).second) return -2;
      n = it->second.second.begin()->first;
    }
  }

  std::string treeOp(const Toks& k) {
    if (k[0].compare(0, 2, "h.") == 0) { std::string r = h.heapOp(k); t = h.cur(); return r.empty() ? "bad-op" : r; }
    Tree& T = *t;
    const Tree& C = T;
    GlobalGraph& G = T;
    const std::string& o = k[0];
    if (o == "t.createNode") return U(T.createNode());
    if (o == "t.link") return U(Peek::link(G, toU(k[1]), toU(k[2])));
    if (o == "t.unlink") return list(Peek::unlink(G, toU(k[1]), toU(k[2])));
    if (o == "t.deleteNode") { T.deleteNode(toU(k[1])); return "ok"; }
    if (o == "t.setRoot") { Peek::setRoot(G, toU(k[1])); return "ok"; }
    if (o == "t.makeDirected") { T.makeDirected(); return "ok"; }
    if (o == "t.makeUndirected") { T.makeUndirected(); return "ok"; }
    if (o == "t.setFather") { T.setFather(toU(k[1]), toU(k[2])); return "ok"; }
    if (o == "t.addSon") { T.addSon(toU(k[1]), toU(k[2])); return "ok"; }
    if (o == "t.removeSon") { T.removeSon(toU(k[1]), toU(k[2])); return "ok"; }
    if (o == "t.removeSons") return "l " + list(T.removeSons(toU(k[1])));
    if (o == "t.setFatherE") { T.setFather(toU(k[1]), toU(k[2]), toU(k[3])); return "ok"; }
    if (o == "t.addSonE") { T.addSon(toU(k[1]), toU(k[2]), toU(k[3])); return "ok"; }
    if (o == "t.linkE") { Peek::linkE(G, toU(k[1]), toU(k[2]), toU(k[3])); return "ok"; }
    if (o == "t.rootAt") { T.rootAt(toU(k[1])); return "ok"; }
    if (o == "t.unRoot") { T.unRoot(toU(k[1]) != 0); return "ok"; }
    if (o == "t.createNodeFromNode") return U(T.createNodeFromNode(toU(k[1])));
    if (o == "t.createNodeOnEdge") return U(T.createNodeOnEdge(toU(k[1])));
    if (o == "t.createNodeFromEdge") return U(T.createNodeFromEdge(toU(k[1])));
    if (o == "t.orientate") { T.orientate(); return "ok"; }
    if (o == "t.setOutGroup") { T.setOutGroup(toU(k[1])); return "ok"; }
    // ---- queries
    if (o == "t.valid") return B(T.isValid());
    if (o == "t.qn") {
      unsigned n = toU(k[1]);
      std::string s;
      s += "hf " + q([&] { return B(C.hasFather(n)) + " "; }) + "fa " + q([&] { return U(C.getFatherOfNode(n)) + " "; });
      s += "ef " + q([&] { return U(C.getEdgeToFather(n)) + " "; });
      s += "sons " + q([&] { return list(C.getSons(n)); }) + "br " + q([&] { return list(C.getBranches(n)); });
      s += "ns " + q([&] { return U(C.getNumberOfSons(n)) + " "; }) + "lf " + q([&] { return B(C.isLeaf(n)) + " "; });
      return s;
    }
    if (o == "t.subN") return "l " + list(C.getSubtreeNodes(toU(k[1])));
    if (o == "t.subE") return "l " + list(C.getSubtreeEdges(toU(k[1])));
    if (o == "t.leavesUnder") {
      // the recursion does not terminate on a cycle reachable from the node: only on valid trees
      if (!T.isValid()) return "notvalid";
      // an unrooted (undirected) tree is refused (as repaired)
      return "l " + list(C.getLeavesUnderNode(toU(k[1])));
    }
    if (o == "t.path" || o == "t.epath") {
      unsigned a = toU(k[1]), b = toU(k[2]);
      bool inc = o == "t.epath" || toU(k[3]) != 0;
      // an unrooted tree is refused before anything is climbed (as repaired)
      if (Peek::directed(G) && Peek::nodes(G).count(a) && Peek::nodes(G).count(b)) {
        long ea = climbEnd(a), eb = climbEnd(b);
        if (ea == -2 || eb == -2) return "skip-cycle";
      }
      if (o == "t.path") return "l " + list(C.getNodePathBetweenTwoNodes(a, b, inc));
      return "l " + list(C.getEdgePathBetweenTwoNodes(a, b));
    }
    if (o == "t.mrca") {
      std::vector<Graph::NodeId> v;
      for (size_t i = 1; i < k.size(); ++i) v.push_back((unsigned)toU(k[i]));
      if (v.empty()) return "bad-op";
      if (Peek::directed(G) && v.size() > 1) {
        // a father cycle met by one of the climbs: the loops never stop; not exercised
        for (auto n : v) if (climbEnd(n) == -2) return "skip-cycle";
      }
      return U(C.MRCA(v));
    }
    if (o == "t.rooted") return B(C.isRooted());
    return "bad-op";
  }

  std::string op(const Toks& k) {
    std::string r;
    try { r = treeOp(k); }
    catch (Exception&) { r = "exc:bpp"; }
    catch (std::exception&) { r = "exc:std"; }
    return r + " ; " + state();
  }
};

// ---------------------------------------------------------------------------------------- DAG
struct Dag : DAGraphImpl<GlobalGraph> {
  Dag() : DAGraphImpl<GlobalGraph>(true) {}
  explicit Dag(bool) : DAGraphImpl<GlobalGraph>(true) {}
  bool cachedValid() const { return isValid_; }
  bool cachedRooted() const { return isRooted_; }
};

struct MD : Machine {
  Heap<Dag> h;
  Dag* d;
  MD() { h.slot[0].reset(new Dag()); d = h.cur(); }
  std::string state() {
    return h.state([](Dag& x) { return graphState(x) + "V " + B(x.cachedValid()) + " R " + B(x.cachedRooted()) + " "; });
  }
  std::string dagOp(const Toks& k) {
    if (k[0].compare(0, 2, "h.") == 0) { std::string r = h.heapOp(k); d = h.cur(); return r.empty() ? "bad-op" : r; }
    Dag& D = *d; const Dag& C = D; GlobalGraph& G = D;
    const std::string& o = k[0];
    if (o == "d.createNode") return U(D.createNode());
    if (o == "d.link") return U(Peek::link(G, toU(k[1]), toU(k[2])));
    if (o == "d.linkE") { Peek::linkE(G, toU(k[1]), toU(k[2]), toU(k[3])); return "ok"; }
    if (o == "d.unlink") return list(Peek::unlink(G, toU(k[1]), toU(k[2])));
    if (o == "d.deleteNode") { D.deleteNode(toU(k[1])); return "ok"; }
    if (o == "d.setRoot") { Peek::setRoot(G, toU(k[1])); return "ok"; }
    if (o == "d.addSon") { D.addSon(toU(k[1]), toU(k[2])); return "ok"; }
    if (o == "d.addSonE") { D.addSon(toU(k[1]), toU(k[2]), toU(k[3])); return "ok"; }
    if (o == "d.addFather") { D.addFather(toU(k[1]), toU(k[2])); return "ok"; }
    if (o == "d.addFatherE") { D.addFather(toU(k[1]), toU(k[2]), toU(k[3])); return "ok"; }
    if (o == "d.removeSon") { D.removeSon(toU(k[1]), toU(k[2])); return "ok"; }
    if (o == "d.removeFather") { D.removeFather(toU(k[1]), toU(k[2])); return "ok"; }
    if (o == "d.removeSons") return "l " + list(D.removeSons(toU(k[1])));
    if (o == "d.removeFathers") return "l " + list(D.removeFathers(toU(k[1])));
    if (o == "d.rootAt") { D.rootAt(toU(k[1])); return "ok"; }
    if (o == "d.valid") return B(D.isValid());
    if (o == "d.rooted") return B(C.isRooted());
    if (o == "d.belowN") return "l " + list(C.getBelowNodes(toU(k[1])));
    if (o == "d.belowE") return "l " + list(C.getBelowEdges(toU(k[1])));
    if (o == "d.leavesUnder") {
      // the recursion does not terminate on a cycle reachable from the node: only on valid DAGs
      if (!D.isValid()) return "notvalid";
      return "l " + list(C.getLeavesUnderNode(toU(k[1])));
    }
    if (o == "d.qn") {
      unsigned n = toU(k[1]);
      std::string s;
      s += "hf " + q([&] { return B(C.hasFather(n)) + " "; }) + "fa " + q([&] { return list(C.getFathers(n)); });
      s += "nf " + q([&] { return U(C.getNumberOfFathers(n)) + " "; });
      s += "sons " + q([&] { return list(C.getSons(n)); }) + "ns " + q([&] { return U(C.getNumberOfSons(n)) + " "; });
      s += "lf " + q([&] { return B(C.isLeaf(n)) + " "; });
      return s;
    }
    return "bad-op";
  }
  std::string op(const Toks& k) {
    std::string r;
    try { r = dagOp(k); }
    catch (Exception&) { r = "exc:bpp"; }
    catch (std::exception&) { r = "exc:std"; }
    return r + " ; " + state();
  }
};

// ------------------------------------------------------------------------- tree observer
struct NObj { int label; explicit NObj(int l) : label(l) {} };
struct EObj { int label; explicit EObj(int l) : label(l) {} };
typedef AssociationTreeGlobalGraphObserver<NObj, EObj> TObs;
typedef std::shared_ptr<NObj> NP;
typedef std::shared_ptr<EObj> EP;

struct MO : Machine {
  static const int POOL = 12;
  static const int NOBS = 3;
  // observer slots on ONE shared tree graph (copies of an observer observe the graph of the original); every slot
  // has its own pool of objects; `o.sel k` chooses the observer the o.* operations go through
  std::unique_ptr<TObs> obs[NOBS];
  NP np[NOBS][POOL]; EP ep[NOBS][POOL];
  int sel;
  explicit MO(bool rooted) : sel(0) {
    obs[0].reset(new TObs(rooted));
    for (int k = 0; k < NOBS; ++k) freshPool(k);
  }
  void freshPool(int k) { for (int i = 0; i < POOL; ++i) { np[k][i].reset(new NObj(i)); ep[k][i].reset(new EObj(i)); } }
  // which pool owns the object (by pointer); -1 = none
  int ownerOf(const NP& p) const { int l = p->label; if (l < 0 || l >= POOL) return -1; for (int j = 0; j < NOBS; ++j) if (np[j][l] == p) return j; return -1; }
  int ownerOf(const EP& p) const { int l = p->label; if (l < 0 || l >= POOL) return -1; for (int j = 0; j < NOBS; ++j) if (ep[j][l] == p) return j; return -1; }
  // the object actually held, seen from observer k: `l` (an object of k's own pool), `l@j` (of the pool of observer j),
  // `l@?` (of no pool), `-` (null)
  template<class P> std::string lab(int k, const P& p) const {
    if (!p) return "-";
    int j = ownerOf(p);
    std::string s = U((unsigned long)p->label);
    if (j == k) return s;
    return s + "@" + (j < 0 ? std::string("?") : U((unsigned long)j));
  }
  template<class Vec> std::string vec(int k, const Vec& v) const { std::string s; for (auto& p : v) s += lab(k, p) + " "; return s; }
  template<class Map> std::string mp(int k, const Map& m) const {
    std::vector<std::pair<std::pair<long, std::string>, unsigned>> v;
    for (auto& kv : m) v.push_back(std::make_pair(std::make_pair(kv.first ? (long)kv.first->label : -1L, lab(k, kv.first)), kv.second));
    std::sort(v.begin(), v.end());
    std::string s; for (auto& x : v) s += x.first.second + ":" + U(x.second) + " ";
    return s;
  }
  std::string state() {
    std::string s = graphState(*obs[0]->getGraph());
    for (int k = 0; k < NOBS; ++k) if (obs[k]) {
      TObs& o = *obs[k];
      s += "X " + U(k) + " gN " + vec(k, Peek::gN(o)) + "gE " + vec(k, Peek::gE(o)) + "Ng " + mp(k, Peek::Ng(o)) + "Eg " + mp(k, Peek::Eg(o))
        + "iN " + vec(k, Peek::iN(o)) + "iE " + vec(k, Peek::iE(o)) + "Ni " + mp(k, Peek::Ni(o)) + "Ei " + mp(k, Peek::Ei(o));
    }
    s += "V " + B(obs[0]->getGraph()->verifCachedValid());
    return s;
  }
  static int lbl(const std::string& s) { return s == "-" ? -1 : (int)toI(s); }
  NP N(int l) { return l < 0 ? NP() : np[sel][l % POOL]; }
  EP E(int l) { return l < 0 ? EP() : ep[sel][l % POOL]; }
  template<class V> std::string labs(const V& v) { std::string s; for (auto& p : v) s += lab(sel, p) + " "; return s; }
  template<class P> std::string lab1(const P& p) { return lab(sel, p); }
  // vector operator[] with an id beyond the size would be undefined behaviour in the copy loops
  bool copyUndefined(TObs& src) {
    for (auto& kv : Peek::Ng(src)) if (kv.second >= Peek::gN(src).size()) return true;
    for (auto& kv : Peek::Eg(src)) if (kv.second >= Peek::gE(src).size()) return true;
    return false;
  }
  // observer k has just been (re)built as a copy of observer j: it owns new objects.  The pool of slot k is rebuilt from
  // the keys of its object->id maps - but an object that already belongs to a pool (the source's, say) is not adopted:
  // it is reported as `l@j`.
  std::string adopt(int j, int k) {
    bool same = obs[k]->getGraph().get() == obs[j]->getGraph().get();
    freshPool(k);
    for (auto& kv : Peek::Ng(*obs[k])) { if (!kv.first) continue; int l = kv.first->label; if (ownerOf(kv.first) < 0 && l >= 0 && l < POOL) np[k][l] = kv.first; }
    for (auto& kv : Peek::Eg(*obs[k])) { if (!kv.first) continue; int l = kv.first->label; if (ownerOf(kv.first) < 0 && l >= 0 && l < POOL) ep[k][l] = kv.first; }
    return std::string("ok shared ") + B(same);
  }

  std::string obsOp(const Toks& t) {
    const std::string& op = t[0];
    if (op == "o.sel") { long k = toI(t[1]); if (k < 0 || k >= NOBS || !obs[k]) return "bad-slot"; sel = (int)k; return "ok"; }
    if (op == "o.copy" || op == "o.clone" || op == "o.assign") {
      long j = toI(t[1]), k = toI(t[2]);
      if (j < 0 || j >= NOBS || k < 0 || k >= NOBS || !obs[j]) return "bad-slot";
      if (op == "o.assign") {
        if (!obs[k]) return "bad-slot";
        if (j != k && copyUndefined(*obs[j])) return "ub";
        *obs[k] = *obs[j];                                  // AssociationTreeGraphImplObserver::operator=
        if (j == k) return "ok self";
        return adopt((int)j, (int)k);
      }
      if (j == k || k == 0) return "bad-slot";              // slot 0 holds the graph of the case
      if (copyUndefined(*obs[j])) return "ub";
      obs[k].reset();
      if (op == "o.copy") obs[k].reset(new TObs(*obs[j]));  // the copy constructor of the tree observer
      else obs[k].reset(obs[j]->clone());                   // clone()
      if (!obs[sel]) sel = 0;
      return adopt((int)j, (int)k);
    }
    TObs& o = *obs[sel]; const TObs& c = o;
    if (op == "o.createNode") { o.createNode(N(lbl(t[1]))); return "ok"; }
    if (op == "o.link") { o.link(N(lbl(t[1])), N(lbl(t[2])), E(lbl(t[3]))); return "ok"; }
    if (op == "o.unlink") { o.unlink(N(lbl(t[1])), N(lbl(t[2]))); return "ok"; }
    if (op == "o.deleteNode") { o.deleteNode(N(lbl(t[1]))); return "ok"; }
    if (op == "o.addSon") { o.addSon(N(lbl(t[1])), N(lbl(t[2])), E(lbl(t[3]))); return "ok"; }
    if (op == "o.setFather") { o.setFather(N(lbl(t[1])), N(lbl(t[2])), E(lbl(t[3]))); return "ok"; }
    if (op == "o.setFatherCur") {
      // with the object of the branch to the current father (none: without object)
      EP cur;
      try { cur = c.getEdgeToFather(N(lbl(t[1]))); } catch (Exception&) {}
      o.setFather(N(lbl(t[1])), N(lbl(t[2])), cur);
      return "ok";
    }
    if (op == "o.removeSon") { o.removeSon(N(lbl(t[1])), N(lbl(t[2]))); return "ok"; }
    if (op == "o.removeSons") return "l " + labs(o.removeSons(N(lbl(t[1]))));
    if (op == "o.rootAt") { o.rootAt(N(lbl(t[1]))); return "ok"; }
    if (op == "o.valid") return B(c.isValid());
    if (op == "o.qn") {
      NP a = N(lbl(t[1]));
      std::string s;
      s += "fa " + q([&] { return lab1(c.getFatherOfNode(a)) + " "; }) + "ef " + q([&] { return lab1(c.getEdgeToFather(a)) + " "; });
      s += "sons " + q([&] { return labs(c.getSons(a)); }) + "br " + q([&] { return labs(c.getBranches(a)); });
      return s;
    }
    if (op == "o.qp") {
      NP a = N(lbl(t[1])), b = N(lbl(t[2]));
      return "linking " + q([&] { return lab1(c.getEdgeLinking(a, b)) + " "; });
    }
    if (op == "o.setRoot") { o.setRoot(N(lbl(t[1]))); return "ok"; }
    if (op == "o.qi") {
      // every NodeIndex / EdgeIndex overload of the tree observer, called on a temporary copy of the observer in which every
      // object has been given an index (the copy observes the same tree; nothing of the case's state changes); answers are
      // translated back to labels: they must be what the object overloads answer
      if (!c.isValid() || !c.isRooted()) return "notrooted";
      TObs tmp(o);
      std::vector<NP> ns; for (auto& kv : Peek::Ng(tmp)) ns.push_back(kv.first);
      std::vector<EP> es; for (auto& kv : Peek::Eg(tmp)) es.push_back(kv.first);
      for (auto& n : ns) tmp.addNodeIndex(n);
      for (auto& e : es) tmp.addEdgeIndex(e);
      const TObs& ct = tmp;
      int la = lbl(t[1]), lb = lbl(t[2]);
      NP ta, tb; for (auto& n : ns) { if (n->label == la) ta = n; if (n->label == lb) tb = n; }
      if (!ta || !tb) return "exc:bpp";
      unsigned ia = ct.getNodeIndex(ta), ib = ct.getNodeIndex(tb);
      auto nl = [&](const std::vector<unsigned>& v) { std::string r; for (auto i : v) r += U((unsigned long)ct.getNode(i)->label) + " "; return r; };
      auto el = [&](const std::vector<unsigned>& v) { std::string r; for (auto i : v) r += U((unsigned long)ct.getEdge(i)->label) + " "; return r; };
      std::string s;
      s += "ef " + q([&] { EP e = ct.getEdgeToFather(ia); return (e ? U((unsigned long)e->label) : std::string("-")) + " "; });
      s += "hf " + q([&] { return B(ct.hasFather(ia)) + " "; });
      s += "sons " + q([&] { return nl(ct.getSons(ia)); }) + "br " + q([&] { return el(ct.getBranches(ia)); });
      s += "lu " + q([&] { return nl(ct.getLeavesUnderNode(ia)); });
      s += "np " + q([&] { return nl(ct.getNodePathBetweenTwoNodes(ia, ib)); }) + "ep " + q([&] { return el(ct.getEdgePathBetweenTwoNodes(ia, ib)); });
      s += "sn " + q([&] { return nl(ct.getSubtreeNodes(ia)); }) + "se " + q([&] { return el(ct.getSubtreeEdges(ia)); });
      s += "so " + q([&] { unsigned ei = ct.getEdgeIndex(ct.getEdgeToFather(ia)); return U((unsigned long)ct.getNode(ct.getSon(ei))->label) + " "; });
      s += "fe " + q([&] { unsigned ei = ct.getEdgeIndex(ct.getEdgeToFather(ia)); return U((unsigned long)ct.getNode(ct.getFatherOfEdge(ei))->label) + " "; });
      return s;
    }
    if (op == "o.qt") {
      // the object-level queries of a valid rooted tree (the harness does not call them otherwise: cycles do not return)
      if (!c.isValid() || !c.isRooted()) return "notrooted";
      NP a = N(lbl(t[1])), b = N(lbl(t[2]));
      std::string s;
      s += "hf " + q([&] { return B(c.hasFather(a)) + " "; }) + "ns " + q([&] { return U(c.getNumberOfSons(a)) + " "; });
      s += "lu " + q([&] { return labs(c.getLeavesUnderNode(a)); }) + "sn " + q([&] { return labs(c.getSubtreeNodes(a)); });
      s += "se " + q([&] { return labs(c.getSubtreeEdges(a)); });
      s += "np " + q([&] { return labs(c.getNodePathBetweenTwoNodes(a, b)); }) + "ep " + q([&] { return labs(c.getEdgePathBetweenTwoNodes(a, b)); });
      s += "mr " + q([&] { std::vector<NP> v; v.push_back(a); v.push_back(b); return lab1(c.MRCA(v)) + " "; });
      return s;
    }
    return "bad-op";
  }
  std::string op(const Toks& t) {
    std::string r;
    try { r = obsOp(t); }
    catch (Exception&) { r = "exc:bpp"; }
    catch (std::exception&) { r = "exc:std"; }
    return r + " ; " + state();
  }
};

// ------------------------------------------------------------------------- DAG observer
typedef AssociationDAGraphImplObserver<NObj, EObj, Dag> DObs;

struct MOD : Machine {
  static const int POOL = 12;
  static const int NOBS = 3;
  std::unique_ptr<DObs> obs[NOBS];
  NP np[NOBS][POOL]; EP ep[NOBS][POOL];
  int sel;
  MOD() : sel(0) {
    obs[0].reset(new DObs());
    for (int k = 0; k < NOBS; ++k) freshPool(k);
  }
  void freshPool(int k) { for (int i = 0; i < POOL; ++i) { np[k][i].reset(new NObj(i)); ep[k][i].reset(new EObj(i)); } }
  int ownerOf(const NP& p) const { int l = p->label; if (l < 0 || l >= POOL) return -1; for (int j = 0; j < NOBS; ++j) if (np[j][l] == p) return j; return -1; }
  int ownerOf(const EP& p) const { int l = p->label; if (l < 0 || l >= POOL) return -1; for (int j = 0; j < NOBS; ++j) if (ep[j][l] == p) return j; return -1; }
  template<class P> std::string lab(int k, const P& p) const {
    if (!p) return "-";
    int j = ownerOf(p);
    std::string s = U((unsigned long)p->label);
    if (j == k) return s;
    return s + "@" + (j < 0 ? std::string("?") : U((unsigned long)j));
  }
  template<class Vec> std::string vec(int k, const Vec& v) const { std::string s; for (auto& p : v) s += lab(k, p) + " "; return s; }
  template<class Map> std::string mp(int k, const Map& m) const {
    std::vector<std::pair<std::pair<long, std::string>, unsigned>> v;
    for (auto& kv : m) v.push_back(std::make_pair(std::make_pair(kv.first ? (long)kv.first->label : -1L, lab(k, kv.first)), kv.second));
    std::sort(v.begin(), v.end());
    std::string s; for (auto& x : v) s += x.first.second + ":" + U(x.second) + " ";
    return s;
  }
  std::string state() {
    Dag& G = *obs[0]->getGraph();
    std::string s = graphState(G);
    for (int k = 0; k < NOBS; ++k) if (obs[k]) {
      DObs& o = *obs[k];
      s += "X " + U(k) + " gN " + vec(k, Peek::gN(o)) + "gE " + vec(k, Peek::gE(o)) + "Ng " + mp(k, Peek::Ng(o)) + "Eg " + mp(k, Peek::Eg(o))
        + "iN " + vec(k, Peek::iN(o)) + "iE " + vec(k, Peek::iE(o)) + "Ni " + mp(k, Peek::Ni(o)) + "Ei " + mp(k, Peek::Ei(o));
    }
    s += "V " + B(G.cachedValid()) + " R " + B(G.cachedRooted());
    return s;
  }
  static int lbl(const std::string& s) { return s == "-" ? -1 : (int)toI(s); }
  NP N(int l) { return l < 0 ? NP() : np[sel][l % POOL]; }
  EP E(int l) { return l < 0 ? EP() : ep[sel][l % POOL]; }
  template<class V> std::string labs(const V& v) { std::string s; for (auto& p : v) s += lab(sel, p) + " "; return s; }
  template<class P> std::string lab1(const P& p) { return lab(sel, p); }
  bool copyUndefined(DObs& src) {
    for (auto& kv : Peek::Ng(src)) if (kv.second >= Peek::gN(src).size()) return true;
    for (auto& kv : Peek::Eg(src)) if (kv.second >= Peek::gE(src).size()) return true;
    return false;
  }
  std::string adopt(int j, int k) {
    bool same = obs[k]->getGraph().get() == obs[j]->getGraph().get();
    freshPool(k);
    for (auto& kv : Peek::Ng(*obs[k])) { if (!kv.first) continue; int l = kv.first->label; if (ownerOf(kv.first) < 0 && l >= 0 && l < POOL) np[k][l] = kv.first; }
    for (auto& kv : Peek::Eg(*obs[k])) { if (!kv.first) continue; int l = kv.first->label; if (ownerOf(kv.first) < 0 && l >= 0 && l < POOL) ep[k][l] = kv.first; }
    return std::string("ok shared ") + B(same);
  }
  std::string obsOp(const Toks& t) {
    const std::string& op = t[0];
    if (op == "w.sel") { long k = toI(t[1]); if (k < 0 || k >= NOBS || !obs[k]) return "bad-slot"; sel = (int)k; return "ok"; }
    if (op == "w.copy" || op == "w.clone" || op == "w.assign") {
      long j = toI(t[1]), k = toI(t[2]);
      if (j < 0 || j >= NOBS || k < 0 || k >= NOBS || !obs[j]) return "bad-slot";
      if (op == "w.assign") {
        if (!obs[k]) return "bad-slot";
        if (j != k && copyUndefined(*obs[j])) return "ub";
        *obs[k] = *obs[j];                                  // AssociationDAGraphImplObserver::operator=
        if (j == k) return "ok self";
        return adopt((int)j, (int)k);
      }
      if (j == k || k == 0) return "bad-slot";
      if (copyUndefined(*obs[j])) return "ub";
      obs[k].reset();
      if (op == "w.copy") obs[k].reset(new DObs(*obs[j]));  // the copy constructor of the DAG observer
      else obs[k].reset(obs[j]->clone());                   // clone()
      if (!obs[sel]) sel = 0;
      return adopt((int)j, (int)k);
    }
    DObs& o = *obs[sel]; const DObs& c = o;
    Dag& G = *o.getGraph();
    if (op == "w.createNode") { o.createNode(N(lbl(t[1]))); return "ok"; }
    if (op == "w.link") { o.link(N(lbl(t[1])), N(lbl(t[2])), E(lbl(t[3]))); return "ok"; }
    if (op == "w.unlink") { o.unlink(N(lbl(t[1])), N(lbl(t[2]))); return "ok"; }
    if (op == "w.deleteNode") { o.deleteNode(N(lbl(t[1]))); return "ok"; }
    if (op == "w.addFather") { o.addFather(N(lbl(t[1])), N(lbl(t[2])), E(lbl(t[3]))); return "ok"; }
    if (op == "w.addSon") { o.addSon(N(lbl(t[1])), N(lbl(t[2])), E(lbl(t[3]))); return "ok"; }
    if (op == "w.removeFather") { o.removeFather(N(lbl(t[1])), N(lbl(t[2]))); return "ok"; }
    if (op == "w.removeSon") { o.removeSon(N(lbl(t[1])), N(lbl(t[2]))); return "ok"; }
    if (op == "w.removeFathers") return "l " + labs(o.removeFathers(N(lbl(t[1]))));
    if (op == "w.removeSons") return "l " + labs(o.removeSons(N(lbl(t[1]))));
    if (op == "w.rootAt") { o.rootAt(N(lbl(t[1]))); return "ok"; }
    if (op == "w.valid") return B(c.isValid());
    if (op == "w.rooted") return B(c.isRooted());
    if (op == "w.qn") {
      NP a = N(lbl(t[1]));
      std::string s;
      s += "hf " + q([&] { return B(c.hasFather(a)) + " "; }) + "fa " + q([&] { return labs(c.getFathers(a)); });
      s += "nf " + q([&] { return U(c.getNumberOfFathers(a)) + " "; });
      s += "sons " + q([&] { return labs(c.getSons(a)); }) + "ns " + q([&] { return U(c.getNumberOfSons(a)) + " "; });
      return s;
    }
    if (op == "w.qe") {
      EP x = E(lbl(t[1]));
      return "son " + q([&] { return lab1(c.getSon(x)) + " "; }) + "fa " + q([&] { return lab1(c.getFatherOfEdge(x)) + " "; });
    }
    if (op == "w.setRoot") { o.setRoot(N(lbl(t[1]))); return "ok"; }
    if (op == "w.qi") {
      // every NodeIndex / EdgeIndex overload of the DAG observer, on a temporary indexed copy (see o.qi)
      DObs tmp(o);
      std::vector<NP> ns; for (auto& kv : Peek::Ng(tmp)) ns.push_back(kv.first);
      std::vector<EP> es; for (auto& kv : Peek::Eg(tmp)) es.push_back(kv.first);
      for (auto& n : ns) tmp.addNodeIndex(n);
      for (auto& e : es) tmp.addEdgeIndex(e);
      const DObs& ct = tmp;
      int la = lbl(t[1]), lx = lbl(t[2]);
      NP ta; for (auto& n : ns) if (n->label == la) ta = n;
      EP tx; for (auto& e : es) if (e->label == lx) tx = e;
      auto nl = [&](const std::vector<unsigned>& v) { std::string r; for (auto i : v) r += U((unsigned long)ct.getNode(i)->label) + " "; return r; };
      std::string s;
      if (!ta) s += "hf exc:bpp fa exc:bpp sons exc:bpp ";
      else {
        unsigned ia = ct.getNodeIndex(ta);
        s += "hf " + q([&] { return B(ct.hasFather(ia)) + " "; }) + "fa " + q([&] { return nl(ct.getFathers(ia)); }) + "sons " + q([&] { return nl(ct.getSons(ia)); });
      }
      if (!tx) s += "son exc:bpp fe exc:bpp";
      else {
        unsigned ix = ct.getEdgeIndex(tx);
        s += "son " + q([&] { return U((unsigned long)ct.getNode(ct.getSon(ix))->label) + " "; }) + "fe " + q([&] { return U((unsigned long)ct.getNode(ct.getFatherOfEdge(ix))->label) + " "; });
      }
      return s;
    }
    if (op == "w.below") {
      // getBelowNodes / getBelowEdges check the validity themselves; getLeavesUnderNode does not (a cycle would not return)
      NP a = N(lbl(t[1]));
      std::string s = "bn " + q([&] { return labs(o.getBelowNodes(a)); }) + "be " + q([&] { return labs(o.getBelowEdges(a)); });
      if (!G.isValid()) return s + "lu notvalid";
      return s + "lu " + q([&] { return labs(c.getLeavesUnderNode(a)); });
    }
    return "bad-op";
  }
  std::string op(const Toks& t) {
    std::string r;
    try { r = obsOp(t); }
    catch (Exception&) { r = "exc:bpp"; }
    catch (std::exception&) { r = "exc:std"; }
    return r + " ; " + state();
  }
};

// The script is run by worker processes: a worker interprets the cases one after the other and
// writes one answer line per operation to a pipe; each operation runs under a watchdog (alarm).
// When a worker dies (the watchdog fired: `hang`; a sanitizer abort or a signal: `crash`), the
// supervisor completes the answers of the case it was in (`hang` / `crash`, then `skipped`) and
// starts a new worker at the next case.  The output therefore always has one line per operation.
static const unsigned WATCHDOG = 5;
static void onAlarm(int) { _exit(97); }

static Machine* makeMachine(const Toks& t) {
  std::string kind = t.size() > 2 ? t[2] : "dir";
  if (kind == "dag") return new MD();
  if (kind == "obsdag") return new MOD();
  if (kind == "obsdir") return new MO(true);
  if (kind == "obsundir") return new MO(false);
  return new M(kind != "undir");
}

struct Case { Toks head; std::vector<Toks> ops; };

static void worker(const std::vector<Case>& cases, size_t from, int fd) {
  signal(SIGALRM, onAlarm);
  FILE* out = fdopen(fd, "w");
  for (size_t i = from; i < cases.size(); ++i) {
    std::unique_ptr<Machine> m(makeMachine(cases[i].head));
    for (const Toks& t : cases[i].ops) {
      std::string a;
      alarm(WATCHDOG);
      try { a = m->op(t); } catch (std::exception&) { a = "exc:std"; }
      alarm(0);
      fputs(a.c_str(), out); fputc('\n', out);
      fflush(out);   // a worker that is killed must not take answers with it
    }
  }
  fflush(out);
  _exit(0);
}

int main() {
  // read the whole script
  std::vector<Case> cases;
  std::string line;
  while (std::getline(std::cin, line)) {
    Toks t = toks(line);
    if (t.empty() || t[0] == "#" || t[0] == "=") continue;
    if (t[0] == "case") { cases.push_back(Case()); cases.back().head = t; continue; }
    if (cases.empty()) { cases.push_back(Case()); cases.back().head = Toks{"case", "implicit", "dir"}; }
    cases.back().ops.push_back(t);
  }
  size_t next = 0;
  while (next < cases.size()) {
    int fds[2];
    if (pipe(fds) != 0) return 2;
    fflush(stdout);
    pid_t pid = fork();
    if (pid < 0) return 2;
    if (pid == 0) { close(fds[0]); worker(cases, next, fds[1]); }
    close(fds[1]);
    // forward the answers, keeping track of the position
    FILE* in = fdopen(fds[0], "r");
    size_t ci = next, oi = 0;
    while (ci < cases.size() && cases[ci].ops.empty()) ++ci;
    char* buf = 0; size_t cap = 0; ssize_t n;
    while ((n = getline(&buf, &cap, in)) > 0) {
      if (ci >= cases.size()) break;
      fwrite(buf, 1, (size_t)n, stdout);
      if (buf[n - 1] != '\n') fputc('\n', stdout);
      if (++oi == cases[ci].ops.size()) { ++ci; oi = 0; while (ci < cases.size() && cases[ci].ops.empty()) ++ci; }
    }
    free(buf); fclose(in);
    int st = 0; waitpid(pid, &st, 0);
    if (ci >= cases.size()) break;
    // the worker stopped inside case ci at operation oi
    bool hang = WIFEXITED(st) && WEXITSTATUS(st) == 97;
    std::string tag = hang ? "hang" : ("crash:" + std::to_string(WIFSIGNALED(st) ? -WTERMSIG(st) : WEXITSTATUS(st)));
    for (size_t k = oi; k < cases[ci].ops.size(); ++k) puts(k == oi ? tag.c_str() : "skipped");
    next = ci + 1;
  }
  fflush(stdout);
  return 0;
}
