// Harness for C17: interprets round-trip / grammar scripts against the real library.
// All strings travel hex-escaped ("-" = empty string); doubles as 16 hex digits.
#include "common.h"
#include <Bpp/Text/TextTools.h>
#include <Bpp/Text/KeyvalTools.h>
#include <Bpp/Text/StringTokenizer.h>
#include <Bpp/Text/NestedStringTokenizer.h>
#include <Bpp/Utils/AttributesTools.h>
#include <Bpp/App/ApplicationTools.h>
#include <Bpp/Numeric/ParameterList.h>
#include <Bpp/Numeric/Parameter.h>
#include <Bpp/Numeric/DataTable.h>
#include <Bpp/Numeric/Prob/BetaDiscreteDistribution.h>
#include <Bpp/Numeric/Prob/ConstantDistribution.h>
#include <Bpp/Numeric/Prob/ExponentialDiscreteDistribution.h>
#include <Bpp/Numeric/Prob/GammaDiscreteDistribution.h>
#include <Bpp/Numeric/Prob/GaussianDiscreteDistribution.h>
#include <Bpp/Numeric/Prob/InvariantMixedDiscreteDistribution.h>
#include <Bpp/Numeric/Prob/MixtureOfDiscreteDistributions.h>
#include <Bpp/Numeric/Prob/SimpleDiscreteDistribution.h>
#include <Bpp/Numeric/Prob/TruncatedExponentialDiscreteDistribution.h>
#include <Bpp/Numeric/Prob/UniformDiscreteDistribution.h>
#include <Bpp/Io/BppODiscreteDistributionFormat.h>
#include <Bpp/Io/OutputStream.h>
#include <sstream>
#include <map>
#include <memory>
#include <algorithm>
#include <unistd.h>
#include <sys/wait.h>
#include <sys/select.h>
#include <signal.h>
#include <sys/resource.h>
#include <cerrno>
using namespace bpp; using namespace verif;

static std::string showMap(const std::map<std::string, std::string>& m) {
  // std::map iterates in key order: deterministic
  std::string s = std::to_string(m.size());
  for (const auto& kv : m) s += " " + strToHex(kv.first) + " " + strToHex(kv.second);
  return s;
}

// resolveVariables has an unbounded loop: run it in a child process under a watchdog.
// Outcome `hang` = the child used up its CPU-time limit (SIGXCPU, independent of the load of the
// machine), or the generous wall-clock bound passed, or the sanitizer's allocator gave up (a value
// that grows for ever).  Anything else that goes wrong (fork failure, child lost) is retried.
static int varsOnce(const std::map<std::string, std::string>& m0, std::string& out) {
  int fd[2]; if (pipe(fd) != 0) return -1;
  std::cout.flush();
  pid_t pid = fork();
  if (pid < 0) { close(fd[0]); close(fd[1]); return -1; }
  if (pid == 0) {
    close(fd[0]);
    struct rlimit rl; rl.rlim_cur = 1; rl.rlim_max = 2; setrlimit(RLIMIT_CPU, &rl);
    signal(SIGXCPU, SIG_DFL);
    std::map<std::string, std::string> m(m0);
    std::string o;
    try { AttributesTools::resolveVariables(m); o = showMap(m); }
    catch (Exception&) { o = "exc:bpp"; }
    catch (std::exception&) { o = "exc:std"; }
    o += "\n";                                       // end marker: the answer is complete
    size_t off = 0; while (off < o.size()) { ssize_t w = write(fd[1], o.data() + off, o.size() - off); if (w <= 0) break; off += (size_t)w; }
    close(fd[1]); _exit(0);
  }
  close(fd[1]);
  out.clear(); bool timedOut = false;
  const char* e = getenv("VERIF_VARS_TIMEOUT_MS"); long budget = e ? atol(e) : 60000;
  for (;;) {
    fd_set rs; FD_ZERO(&rs); FD_SET(fd[0], &rs);
    struct timeval tv; tv.tv_sec = budget / 1000; tv.tv_usec = (budget % 1000) * 1000;
    int r = select(fd[0] + 1, &rs, nullptr, nullptr, &tv);
    if (r < 0 && errno == EINTR) continue;
    if (r <= 0) { timedOut = true; break; }
    char buf[4096]; ssize_t n = read(fd[0], buf, sizeof buf);
    if (n < 0 && errno == EINTR) continue;
    if (n <= 0) break;
    out.append(buf, (size_t)n);
  }
  close(fd[0]);
  if (timedOut) kill(pid, SIGKILL);
  int st = 0; while (waitpid(pid, &st, 0) < 0 && errno == EINTR) {}
  if (timedOut) return 1;
  if (!out.empty() && out[out.size() - 1] == '\n') { out.erase(out.size() - 1); return 0; }   // complete answer
  if (WIFSIGNALED(st) && (WTERMSIG(st) == SIGXCPU || WTERMSIG(st) == SIGKILL)) return 1;       // CPU limit
  if (WIFEXITED(st) && WEXITSTATUS(st) != 0) return 1;     // sanitizer abort: out of memory on a growing value
  if (WIFSIGNALED(st) && WTERMSIG(st) == SIGABRT) return 1;
  return -1;                                               // lost child: retry
}

static std::string varsGuarded(const std::map<std::string, std::string>& m) {
  std::string out;
  for (int attempt = 0; attempt < 6; ++attempt) {
    int r = varsOnce(m, out);
    if (r == 0) return out;
    if (r == 1) return "hang";
    usleep(50000 * (attempt + 1));
  }
  return "harness-fork-failed";
}

// `splits_` is protected: a derived class may read it
struct TokAccess : public StringTokenizer {
  TokAccess(const std::string& s, const std::string& d, bool solid, bool ae) : StringTokenizer(s, d, solid, ae) {}
  const std::deque<std::string>& splits() const { return splits_; }
};

struct NestedAccess : public NestedStringTokenizer {
  NestedAccess(const std::string& s, const std::string& o, const std::string& e, const std::string& d, bool solid)
    : NestedStringTokenizer(s, o, e, d, solid) {}
  const std::deque<std::string>& splits() const { return splits_; }
};

template <class C> static std::string showStrs(const C& v) {
  std::string s = std::to_string(v.size());
  for (const auto& x : v) s += " " + strToHex(x);
  return s;
}

// a distribution in prefix notation: G n alpha beta | Go n alpha beta offset | B n alpha beta | E n lambda |
// N n mu sigma | T n lambda tp | U n begin end | C value | S k v1..vk p1..pk | I p <dist> | M k p1..pk <dist>*k
// (numbers: n, k decimal; the others 16 hex digits)
static std::unique_ptr<DiscreteDistributionInterface> buildDist(const Toks& t, size_t& p) {
  const std::string f = t.at(p++);
  auto D = [&]() { return hexToDouble(t.at(p++)); };
  auto N = [&]() { return toU(t.at(p++)); };
  if (f == "G") { size_t n = N(); double a = D(), b = D(); return std::unique_ptr<DiscreteDistributionInterface>(new GammaDiscreteDistribution(n, a, b)); }
  if (f == "Go") { size_t n = N(); double a = D(), b = D(), o = D(); return std::unique_ptr<DiscreteDistributionInterface>(new GammaDiscreteDistribution(n, a, b, 0.05, 0.05, true, o)); }
  if (f == "Gf") { size_t n = N(); double a = D(), b = D(), o = D(); return std::unique_ptr<DiscreteDistributionInterface>(new GammaDiscreteDistribution(n, a, b, 0.05, 0.05, false, o)); }   // a FIXED offset (not a parameter)
  if (f == "B") { size_t n = N(); double a = D(), b = D(); return std::unique_ptr<DiscreteDistributionInterface>(new BetaDiscreteDistribution(n, a, b)); }
  if (f == "Bi") { size_t n = N(); double a = D(), b = D(); return std::unique_ptr<DiscreteDistributionInterface>(new BetaDiscreteDistribution(n, a, b, AbstractDiscreteDistribution::DISCRETIZATION_EQUAL_INTERVAL)); }
  if (f == "Bp") { size_t n = N(); double a = D(), b = D(); return std::unique_ptr<DiscreteDistributionInterface>(new BetaDiscreteDistribution(n, a, b, AbstractDiscreteDistribution::DISCRETIZATION_EQUAL_PROB)); }
  if (f == "Md") { auto sub = buildDist(t, p); sub->setMedian(true); return sub; }                // class values = medians
  if (f == "E") { size_t n = N(); double l = D(); return std::unique_ptr<DiscreteDistributionInterface>(new ExponentialDiscreteDistribution(n, l)); }
  if (f == "N") { size_t n = N(); double m = D(), sg = D(); return std::unique_ptr<DiscreteDistributionInterface>(new GaussianDiscreteDistribution(n, m, sg)); }
  if (f == "T") { size_t n = N(); double l = D(), tp = D(); return std::unique_ptr<DiscreteDistributionInterface>(new TruncatedExponentialDiscreteDistribution(n, l, tp)); }
  if (f == "U") { size_t n = N(); double b = D(), e = D(); return std::unique_ptr<DiscreteDistributionInterface>(new UniformDiscreteDistribution((unsigned int)n, b, e)); }
  if (f == "C") { double v = D(); return std::unique_ptr<DiscreteDistributionInterface>(new ConstantDistribution(v)); }
  if (f == "S") {
    size_t k = N(); std::vector<double> v, pr;
    for (size_t i = 0; i < k; ++i) v.push_back(D());
    for (size_t i = 0; i < k; ++i) pr.push_back(D());
    return std::unique_ptr<DiscreteDistributionInterface>(new SimpleDiscreteDistribution(v, pr));
  }
  if (f == "I") { double pi = D(); auto sub = buildDist(t, p); return std::unique_ptr<DiscreteDistributionInterface>(new InvariantMixedDiscreteDistribution(std::move(sub), pi, 0.000001)); }   // the invariant class is not part of the description: the reader puts it at 1e-6
  if (f == "M") {
    size_t k = N(); std::vector<double> pr; for (size_t i = 0; i < k; ++i) pr.push_back(D());
    std::vector<std::unique_ptr<DiscreteDistributionInterface>> subs;
    for (size_t i = 0; i < k; ++i) subs.push_back(buildDist(t, p));
    return std::unique_ptr<DiscreteDistributionInterface>(new MixtureOfDiscreteDistributions(subs, pr));
  }
  throw Exception("unknown family");
}

// family, class count, class values, probabilities, independent parameters (name=value)
static std::string showDist(const DiscreteDistributionInterface& d) {
  std::string s = d.getName() + " " + std::to_string(d.getNumberOfCategories());
  for (size_t i = 0; i < d.getNumberOfCategories(); ++i) s += " " + doubleToHex(d.getCategory(i));
  for (size_t i = 0; i < d.getNumberOfCategories(); ++i) s += " " + doubleToHex(d.getProbability(i));
  ParameterList pl = d.getIndependentParameters();
  s += " P " + std::to_string(pl.size());
  for (size_t i = 0; i < pl.size(); ++i) s += " " + strToHex(pl[i].getName()) + " " + doubleToHex(pl[i].getValue());
  return s;
}

static std::string op(const Toks& t) {
  const std::string& o = t[0];
  try {
    if (o == "dist.rt" || o == "dist.rtp") {   // dist.rtp: the same call, on parameters the text cannot carry        // dist.rt <precision> <dist in prefix notation>: write the description, read it back
      int prec = static_cast<int>(toI(t[1])); size_t p = 2;
      std::unique_ptr<DiscreteDistributionInterface> d;
      try { d = buildDist(t, p); } catch (Exception&) { return "build:exc:bpp"; }
      std::ostringstream os; StlOutputStreamWrapper out(&os); out.setPrecision(prec);
      BppODiscreteDistributionFormat fmt(false);
      std::map<std::string, std::string> aliases; std::vector<std::string> written;
      try { fmt.writeDiscreteDistribution(*d, out, aliases, written); } catch (Exception&) { return "write:exc:bpp"; }
      std::string desc = os.str();
      std::string res = strToHex(desc) + " / " + showDist(*d) + " / ";
      BppODiscreteDistributionFormat rd(false);
      try { auto back = rd.readDiscreteDistribution(desc, true); res += showDist(*back); }
      catch (Exception&) { res += "exc:bpp"; }
      return res;
    }
    if (o == "st.rt") {          // st.rt <s> <delims> <solid> <allowEmpty> <k>
      std::string s = hexToStr(t[1]), d = hexToStr(t[2]); size_t k = toU(t[5]);
      TokAccess st(s, d, t[3] == "1", t[4] == "1");
      std::deque<std::string> tokens = st.getTokens();
      std::string out = showStrs(tokens) + " / " + showStrs(st.splits()) + " / " + strToHex(st.unparseRemainingTokens()) + " / ";
      size_t kk = std::min(k, tokens.size());
      std::vector<std::string> got;
      for (size_t i = 0; i < kk; ++i) got.push_back(st.nextToken());
      out += showStrs(got) + " / " + strToHex(st.unparseRemainingTokens()) + " / ";
      if (kk == tokens.size()) {
        try { st.nextToken(); out += "!"; } catch (Exception&) { out += "x"; }
      } else out += "-";
      return out;
    }
    if (o == "nst.rt") {         // nst.rt <s> <open> <end> <delims> <solid> <k>
      std::string s = hexToStr(t[1]); size_t k = toU(t[6]);
      NestedAccess nst(s, hexToStr(t[2]), hexToStr(t[3]), hexToStr(t[4]), t[5] == "1");
      const StringTokenizer& base = nst;           // unparse through the base class, as a client holding a StringTokenizer& does
      std::deque<std::string> tokens = nst.getTokens();
      std::string out = showStrs(tokens) + " / " + showStrs(nst.splits()) + " / " + strToHex(base.unparseRemainingTokens()) + " / ";
      size_t kk = std::min(k, tokens.size());
      std::vector<std::string> got;
      for (size_t i = 0; i < kk; ++i) got.push_back(nst.nextToken());
      out += showStrs(got) + " / " + strToHex(nst.unparseRemainingTokens()) + " / ";
      if (kk == tokens.size()) {
        try { nst.nextToken(); out += "!"; } catch (Exception&) { out += "x"; }
      } else out += "-";
      return out;
    }
    if (o == "tbl.rt") {         // tbl.rt <sep> <align> <nCol> <hasCol> <hasRow> <nRows> items...
      std::string sep = hexToStr(t[1]); bool align = t[2] == "1";
      size_t nCol = toU(t[3]); bool hasCol = t[4] == "1", hasRow = t[5] == "1"; size_t nRows = toU(t[6]);
      size_t p = 7;
      std::unique_ptr<DataTable> dt;
      try {
        dt.reset(new DataTable(nCol));
        if (hasCol) { std::vector<std::string> cn; for (size_t j = 0; j < nCol; ++j) cn.push_back(hexToStr(t[p++])); if (!cn.empty()) dt->setColumnNames(cn); }
        for (size_t i = 0; i < nRows; ++i) {
          std::string name; if (hasRow) name = hexToStr(t[p++]);
          std::vector<std::string> row; for (size_t j = 0; j < nCol; ++j) row.push_back(hexToStr(t[p++]));
          if (hasRow) dt->addRow(name, row); else dt->addRow(row);
        }
      } catch (Exception&) { return "build:exc:bpp"; }
      std::ostringstream os;
      try { DataTable::write(*dt, os, sep, align); } catch (Exception&) { return "write:exc:bpp"; }
      std::string text = os.str();
      std::string out = strToHex(text) + " / ";
      std::istringstream is(text);
      int rn = (dt->hasRowNames() && !dt->hasColumnNames()) ? 0 : -1;
      std::unique_ptr<DataTable> back;
      try { back = DataTable::read(is, sep, dt->hasColumnNames(), rn); } catch (Exception&) { return out + "exc:bpp"; }
      out += std::to_string(back->getNumberOfColumns()) + " " + std::to_string(back->getNumberOfRows()) + " ";
      if (back->hasColumnNames()) out += showStrs(back->getColumnNames()); else out += "0";
      out += " ";
      if (back->hasRowNames()) out += showStrs(back->getRowNames()); else out += "0";
      for (size_t i = 0; i < back->getNumberOfRows(); ++i)
        for (size_t j = 0; j < back->getNumberOfColumns(); ++j) out += " " + strToHex((*back)(i, j));
      return out;
    }
    if (o == "num") {            // num <s> <dec> <sci>
      std::string s = hexToStr(t[1]); char dec = hexToStr(t[2])[0], sci = hexToStr(t[3])[0];
      std::string out = TextTools::isDecimalNumber(s, dec, sci) ? "1" : "0";
      out += TextTools::isDecimalInteger(s, sci) ? " 1" : " 0";
      try { double d = TextTools::toDouble(s, dec, sci); out += " " + doubleToHex(d); }
      catch (Exception&) { out += " exc:bpp"; }
      try { int n = TextTools::toInt(s, sci); out += " " + std::to_string(n); }
      catch (Exception&) { out += " exc:bpp"; }
      return out;
    }
    if (o == "int.rt") {         // int.rt <n>   (n fits an int)
      int n = static_cast<int>(toI(t[1]));
      std::string s = TextTools::toString(n);
      return strToHex(s) + " " + std::to_string(TextTools::toInt(s));
    }
    if (o == "dbl.rt") {         // dbl.rt <hexdouble> <precision>: toString(d, precision) -> toDouble
      double d = hexToDouble(t[1]); int prec = static_cast<int>(toI(t[2]));
      std::string s = TextTools::toString(d, prec);
      return doubleToHex(TextTools::toDouble(s)) + " " + strToHex(s);
    }
    if (o == "glob") {           // glob <pattern> <name>  -> the three copies of the matcher
      std::string p = hexToStr(t[1]), n = hexToStr(t[2]);
      ParameterList pl; pl.addParameter(Parameter(n, 0.));
      std::map<std::string, std::string> m; m[n] = "x";
      std::vector<std::string> v(1, n);
      std::string out;
      out += pl.getMatchingParameterNames(p).size() == 1 ? "1" : "0";
      out += ApplicationTools::matchingParameters(p, m).size() == 1 ? " 1" : " 0";
      out += ApplicationTools::matchingParameters(p, v).size() == 1 ? " 1" : " 0";
      return out;
    }
    if (o == "kv.single") {      // kv.single <desc> <split>
      std::string k, v; KeyvalTools::singleKeyval(hexToStr(t[1]), k, v, hexToStr(t[2]));
      return strToHex(k) + " " + strToHex(v);
    }
    if (o == "kv.multi") {       // kv.multi <desc> <split> <nested>
      std::map<std::string, std::string> m;
      KeyvalTools::multipleKeyvals(hexToStr(t[1]), m, hexToStr(t[2]), t[3] == "1");
      return showMap(m);
    }
    if (o == "kv.parse") {       // kv.parse <desc>
      std::string name; std::map<std::string, std::string> m;
      KeyvalTools::parseProcedure(hexToStr(t[1]), name, m);
      return strToHex(name) + " " + showMap(m);
    }
    if (o == "kv.rt") {          // kv.rt <name> <n> k1 v1 ... : render, then parse
      std::string desc = hexToStr(t[1]);
      size_t n = toU(t[2]);
      desc += "(";
      for (size_t i = 0; i < n; ++i) { if (i) desc += ","; desc += hexToStr(t[3 + 2 * i]) + "=" + hexToStr(t[4 + 2 * i]); }
      desc += ")";
      std::string name; std::map<std::string, std::string> m;
      KeyvalTools::parseProcedure(desc, name, m);
      return strToHex(desc) + " " + strToHex(name) + " " + showMap(m);
    }
    if (o == "kv.crt") {         // kv.crt <name> <n> k1 v1 ... <m> nk1 nv1 ... : render, then substitute
      std::string desc = hexToStr(t[1]);
      size_t n = toU(t[2]);
      desc += "(";
      for (size_t i = 0; i < n; ++i) { if (i) desc += ","; desc += hexToStr(t[3 + 2 * i]) + "=" + hexToStr(t[4 + 2 * i]); }
      desc += ")";
      size_t b = 3 + 2 * n; size_t m = toU(t[b]);
      std::map<std::string, std::string> nk;
      for (size_t i = 0; i < m; ++i) nk[hexToStr(t[b + 1 + 2 * i])] = hexToStr(t[b + 2 + 2 * i]);
      return strToHex(KeyvalTools::changeKeyvals(desc, nk));
    }
    if (o == "kv.change") {      // kv.change <desc> <split> <nested> <n> k1 v1 ...
      std::map<std::string, std::string> m; size_t n = toU(t[4]);
      for (size_t i = 0; i < n; ++i) m[hexToStr(t[5 + 2 * i])] = hexToStr(t[6 + 2 * i]);
      return strToHex(KeyvalTools::changeKeyvals(hexToStr(t[1]), m, hexToStr(t[2]), t[3] == "1"));
    }
    if (o == "vars") {           // vars <n> k1 v1 ...
      std::map<std::string, std::string> m; size_t n = toU(t[1]);
      for (size_t i = 0; i < n; ++i) m[hexToStr(t[2 + 2 * i])] = hexToStr(t[3 + 2 * i]);
      return varsGuarded(m);
    }
  } catch (Exception& e) { return "exc:bpp"; }
  return "bad-op";
}

int main() {
  ApplicationTools::error = nullptr; ApplicationTools::warning = nullptr; ApplicationTools::message = nullptr;
  return runLoop([&](const Toks&) {}, [&](const Toks& t) { return op(t); });
}
