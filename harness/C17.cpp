// Harness for C17: interprets round-trip / grammar scripts against the real library.
// All strings travel hex-escaped ("-" = empty string); doubles as 16 hex digits.
#include "common.h"
#include <Bpp/Text/TextTools.h>
#include <Bpp/Text/KeyvalTools.h>
#include <Bpp/Utils/AttributesTools.h>
#include <Bpp/App/ApplicationTools.h>
#include <Bpp/Numeric/ParameterList.h>
#include <Bpp/Numeric/Parameter.h>
#include <map>
#include <algorithm>
#include <unistd.h>
#include <sys/wait.h>
#include <sys/select.h>
#include <signal.h>
#include <sys/resource.h>
using namespace bpp; using namespace verif;

static std::string showMap(const std::map<std::string, std::string>& m) {
  // std::map iterates in key order: deterministic
  std::string s = std::to_string(m.size());
  for (const auto& kv : m) s += " " + strToHex(kv.first) + " " + strToHex(kv.second);
  return s;
}

// resolveVariables has an unbounded loop: run it in a child process under a watchdog and report
// `hang` when it does not answer in time (or dies, e.g. by exhausting memory)
static std::string varsGuarded(std::map<std::string, std::string> m) {
  int fd[2]; if (pipe(fd) != 0) return "exc:std";
  std::cout.flush();
  pid_t pid = fork();
  if (pid == 0) {
    close(fd[0]);
    // the watchdog is CPU time (independent of the load of the machine): a loop that does not end
    // is killed by SIGXCPU after 1 s of CPU; the parent only keeps a generous wall-clock bound
    struct rlimit rl; rl.rlim_cur = 1; rl.rlim_max = 2; setrlimit(RLIMIT_CPU, &rl);
    signal(SIGXCPU, SIG_DFL);
    std::string out;
    try { AttributesTools::resolveVariables(m); out = showMap(m); }
    catch (Exception&) { out = "exc:bpp"; }
    catch (std::exception&) { out = "exc:std"; }
    size_t off = 0; while (off < out.size()) { ssize_t w = write(fd[1], out.data() + off, out.size() - off); if (w <= 0) break; off += (size_t)w; }
    close(fd[1]); _exit(0);
  }
  close(fd[1]);
  std::string out; bool timedOut = false;
  const char* e = getenv("VERIF_VARS_TIMEOUT_MS"); long budget = e ? atol(e) : 30000;
  for (;;) {
    fd_set rs; FD_ZERO(&rs); FD_SET(fd[0], &rs);
    struct timeval tv; tv.tv_sec = budget / 1000; tv.tv_usec = (budget % 1000) * 1000;
    int r = select(fd[0] + 1, &rs, nullptr, nullptr, &tv);
    if (r <= 0) { timedOut = true; break; }
    char buf[4096]; ssize_t n = read(fd[0], buf, sizeof buf);
    if (n <= 0) break;
    out.append(buf, (size_t)n);
  }
  close(fd[0]);
  if (timedOut) kill(pid, SIGKILL);
  int st = 0; waitpid(pid, &st, 0);
  if (timedOut || out.empty()) return "hang";
  return out;
}

static std::string op(const Toks& t) {
  const std::string& o = t[0];
  try {
    if (o == "num") {            // num <s> <dec> <sci>
      std::string s = hexToStr(t[1]); char dec = hexToStr(t[2])[0], sci = hexToStr(t[3])[0];
      std::string out = TextTools::isDecimalNumber(s, dec, sci) ? "1" : "0";
      out += TextTools::isDecimalInteger(s, sci) ? " 1" : " 0";
      try { double d = TextTools::toDouble(s, dec, sci); out += " " + doubleToHex(d); }
      catch (Exception&) { out += " exc:bpp"; }
      try { int n = TextTools::toInt(s, sci); out += " " + std::to_string(n); }
      catch (Exception&) { out += " exc:bpp"; }
      return out;
    }
    if (o == "int.rt") {         // int.rt <n>   (n fits an int)
      int n = static_cast<int>(toI(t[1]));
      std::string s = TextTools::toString(n);
      return strToHex(s) + " " + std::to_string(TextTools::toInt(s));
    }
    if (o == "dbl.rt") {         // dbl.rt <hexdouble> <precision>: toString(d, precision) -> toDouble
      double d = hexToDouble(t[1]); int prec = static_cast<int>(toI(t[2]));
      std::string s = TextTools::toString(d, prec);
      return doubleToHex(TextTools::toDouble(s)) + " " + strToHex(s);
    }
    if (o == "glob") {           // glob <pattern> <name>  -> the three copies of the matcher
      std::string p = hexToStr(t[1]), n = hexToStr(t[2]);
      ParameterList pl; pl.addParameter(Parameter(n, 0.));
      std::map<std::string, std::string> m; m[n] = "x";
      std::vector<std::string> v(1, n);
      std::string out;
      out += pl.getMatchingParameterNames(p).size() == 1 ? "1" : "0";
      out += ApplicationTools::matchingParameters(p, m).size() == 1 ? " 1" : " 0";
      out += ApplicationTools::matchingParameters(p, v).size() == 1 ? " 1" : " 0";
      return out;
    }
    if (o == "kv.single") {      // kv.single <desc> <split>
      std::string k, v; KeyvalTools::singleKeyval(hexToStr(t[1]), k, v, hexToStr(t[2]));
      return strToHex(k) + " " + strToHex(v);
    }
    if (o == "kv.multi") {       // kv.multi <desc> <split> <nested>
      std::map<std::string, std::string> m;
      KeyvalTools::multipleKeyvals(hexToStr(t[1]), m, hexToStr(t[2]), t[3] == "1");
      return showMap(m);
    }
    if (o == "kv.parse") {       // kv.parse <desc>
      std::string name; std::map<std::string, std::string> m;
      KeyvalTools::parseProcedure(hexToStr(t[1]), name, m);
      return strToHex(name) + " " + showMap(m);
    }
    if (o == "kv.rt") {          // kv.rt <name> <n> k1 v1 ... : render, then parse
      std::string desc = hexToStr(t[1]);
      size_t n = toU(t[2]);
      desc += "(";
      for (size_t i = 0; i < n; ++i) { if (i) desc += ","; desc += hexToStr(t[3 + 2 * i]) + "=" + hexToStr(t[4 + 2 * i]); }
      desc += ")";
      std::string name; std::map<std::string, std::string> m;
      KeyvalTools::parseProcedure(desc, name, m);
      return strToHex(desc) + " " + strToHex(name) + " " + showMap(m);
    }
    if (o == "kv.crt") {         // kv.crt <name> <n> k1 v1 ... <m> nk1 nv1 ... : render, then substitute
      std::string desc = hexToStr(t[1]);
      size_t n = toU(t[2]);
      desc += "(";
      for (size_t i = 0; i < n; ++i) { if (i) desc += ","; desc += hexToStr(t[3 + 2 * i]) + "=" + hexToStr(t[4 + 2 * i]); }
      desc += ")";
      size_t b = 3 + 2 * n; size_t m = toU(t[b]);
      std::map<std::string, std::string> nk;
      for (size_t i = 0; i < m; ++i) nk[hexToStr(t[b + 1 + 2 * i])] = hexToStr(t[b + 2 + 2 * i]);
      return strToHex(KeyvalTools::changeKeyvals(desc, nk));
    }
    if (o == "kv.change") {      // kv.change <desc> <split> <nested> <n> k1 v1 ...
      std::map<std::string, std::string> m; size_t n = toU(t[4]);
      for (size_t i = 0; i < n; ++i) m[hexToStr(t[5 + 2 * i])] = hexToStr(t[6 + 2 * i]);
      return strToHex(KeyvalTools::changeKeyvals(hexToStr(t[1]), m, hexToStr(t[2]), t[3] == "1"));
    }
    if (o == "vars") {           // vars <n> k1 v1 ...
      std::map<std::string, std::string> m; size_t n = toU(t[1]);
      for (size_t i = 0; i < n; ++i) m[hexToStr(t[2 + 2 * i])] = hexToStr(t[3 + 2 * i]);
      return varsGuarded(m);
    }
  } catch (Exception& e) { return "exc:bpp"; }
  return "bad-op";
}

int main() {
  ApplicationTools::error = nullptr; ApplicationTools::warning = nullptr; ApplicationTools::message = nullptr;
  return runLoop([&](const Toks&) {}, [&](const Toks& t) { return op(t); });
}
