// Harness for C13: interprets HMM scripts against the three HmmLikelihood classes of
// Bpp/Numeric/Hmm.  The hidden alphabet, the transition matrix and the emission
// probabilities are small table-backed implementations of the library's interfaces whose
// entries are exposed as Parameters (so that updates travel through setParameterValue /
// setParameters -> fireParameterChanged exactly as for any user of the library).
#include "common.h"
#include <Bpp/Numeric/Hmm/RescaledHmmLikelihood.h>
#include <Bpp/Numeric/Hmm/LowMemoryRescaledHmmLikelihood.h>
#include <Bpp/Numeric/Hmm/LogsumHmmLikelihood.h>
#include <Bpp/Numeric/Hmm/AutoCorrelationTransitionMatrix.h>
#include <Bpp/Numeric/Hmm/FullHmmTransitionMatrix.h>
#include <Bpp/Numeric/AbstractParametrizable.h>
#include <Bpp/App/ApplicationTools.h>
#include <Bpp/Numeric/Matrix/Matrix.h>
#include <memory>
#include <map>
using namespace bpp; using namespace verif;

namespace {
struct HState : public Clonable { HState* clone() const override { return new HState(*this); } };

class TAlphabet : public virtual HmmStateAlphabet, public AbstractParametrizable {
  size_t n_; HState st_;
public:
  TAlphabet(size_t n) : AbstractParametrizable(""), n_(n), st_() {}
  TAlphabet* clone() const override { return new TAlphabet(*this); }
  const Clonable& getState(size_t) const override { return st_; }
  size_t getNumberOfStates() const override { return n_; }
  bool worksWith(const HmmStateAlphabet& a) const override { return a.getNumberOfStates() == n_; }
};

// transition table: parameters p<i>_<j> (row i, column j) and f<k> (equilibrium frequencies)
class TTransitions : public virtual HmmTransitionMatrix, public AbstractParametrizable {
  std::shared_ptr<const HmmStateAlphabet> alph_;
  size_t n_; RowMatrix<double> pij_; std::vector<double> eq_;
public:
  TTransitions(std::shared_ptr<const HmmStateAlphabet> a, const std::vector<double>& p, const std::vector<double>& f)
    : AbstractParametrizable(""), alph_(a), n_(a->getNumberOfStates()), pij_(n_, n_), eq_(f) {
    for (size_t i = 0; i < n_; ++i) for (size_t j = 0; j < n_; ++j) {
      pij_(i, j) = p[i * n_ + j];
      addParameter_(new Parameter("p" + std::to_string(i) + "_" + std::to_string(j), p[i * n_ + j]));
    }
    for (size_t k = 0; k < n_; ++k) addParameter_(new Parameter("f" + std::to_string(k), f[k]));
  }
  TTransitions* clone() const override { return new TTransitions(*this); }
  const HmmStateAlphabet& hmmStateAlphabet() const override { return *alph_; }
  std::shared_ptr<const HmmStateAlphabet> getHmmStateAlphabet() const override { return alph_; }
  void setHmmStateAlphabet(std::shared_ptr<const HmmStateAlphabet> a) override { alph_ = a; }
  size_t getNumberOfStates() const override { return n_; }
  double Pij(size_t i, size_t j) const override { return pij_(i, j); }
  const Matrix<double>& getPij() const override { return pij_; }
  const std::vector<double>& getEquilibriumFrequencies() const override { return eq_; }
  void fireParameterChanged(const ParameterList&) override {
    for (size_t i = 0; i < n_; ++i) for (size_t j = 0; j < n_; ++j)
      pij_(i, j) = getParameterValue("p" + std::to_string(i) + "_" + std::to_string(j));
    for (size_t k = 0; k < n_; ++k) eq_[k] = getParameterValue("f" + std::to_string(k));
  }
};

// emission table: parameters e<pos>_<state> when `withParams`; the derivative with respect to
// the variable e<pos>_<state> is the indicator of that entry, second derivatives are zero
class TEmissions : public virtual HmmEmissionProbabilities, public AbstractParametrizable {
  std::shared_ptr<const HmmStateAlphabet> alph_;
  size_t n_, T_; bool withParams_;
  std::vector<std::vector<double>> e_;
  mutable std::vector<std::vector<double>> de_, d2e_;
  static std::string nm(size_t t, size_t j) { return "e" + std::to_string(t) + "_" + std::to_string(j); }
public:
  TEmissions(std::shared_ptr<const HmmStateAlphabet> a, const std::vector<double>& e, bool withParams)
    : AbstractParametrizable(""), alph_(a), n_(a->getNumberOfStates()), T_(e.size() / n_), withParams_(withParams), e_(T_), de_(T_), d2e_(T_) {
    for (size_t t = 0; t < T_; ++t) {
      e_[t].assign(e.begin() + static_cast<ptrdiff_t>(t * n_), e.begin() + static_cast<ptrdiff_t>((t + 1) * n_));
      de_[t].assign(n_, 0.); d2e_[t].assign(n_, 0.);
      if (withParams_) for (size_t j = 0; j < n_; ++j) addParameter_(new Parameter(nm(t, j), e_[t][j]));
    }
  }
  TEmissions* clone() const override { return new TEmissions(*this); }
  const HmmStateAlphabet& hmmStateAlphabet() const override { return *alph_; }
  std::shared_ptr<const HmmStateAlphabet> getHmmStateAlphabet() const override { return alph_; }
  void setHmmStateAlphabet(std::shared_ptr<const HmmStateAlphabet> a) override { alph_ = a; }
  double operator()(size_t pos, size_t state) const override { return e_[pos][state]; }
  const std::vector<double>& operator()(size_t pos) const override { return e_[pos]; }
  size_t getNumberOfPositions() const override { return T_; }
  void fireParameterChanged(const ParameterList&) override {
    if (withParams_) for (size_t t = 0; t < T_; ++t) for (size_t j = 0; j < n_; ++j) e_[t][j] = getParameterValue(nm(t, j));
  }
  void computeDEmissionProbabilities(std::string& variable) const override {
    // the variable is the full parameter name (with the namespace)
    for (size_t t = 0; t < T_; ++t) for (size_t j = 0; j < n_; ++j) de_[t][j] = (variable == getNamespace() + nm(t, j)) ? 1. : 0.;
  }
  void computeD2EmissionProbabilities(std::string&) const override {
    for (size_t t = 0; t < T_; ++t) for (size_t j = 0; j < n_; ++j) d2e_[t][j] = 0.;
  }
  const std::vector<double>& getDEmissionProbabilities(size_t pos) const override { return de_[pos]; }
  const std::vector<double>& getD2EmissionProbabilities(size_t pos) const override { return d2e_[pos]; }
};

std::string hx(double d) { return d != d ? std::string("nan") : doubleToHex(d); }
std::string hrows(const std::vector<std::vector<double>>& vv) {
  std::string s;
  for (size_t i = 0; i < vv.size(); ++i) { if (i) s += " ; "; bool f = true; for (double d : vv[i]) { if (!f) s += " "; f = false; s += hx(d); } }
  return vv.empty() ? "-" : s;
}
template<class L> bool assignAs(HmmLikelihood& dst, const HmmLikelihood& src) {
  L* d = dynamic_cast<L*>(&dst); const L* s = dynamic_cast<const L*>(&src);
  if (!d || !s) return false;
  *d = *s; return true;
}
std::string hxs(const std::vector<double>& v) { std::string s; for (double d : v) { if (!s.empty()) s += " "; s += hx(d); } return s.empty() ? "-" : s; }

struct State {
  std::map<std::string, std::shared_ptr<AbstractHmmTransitionMatrix>> tm;   // built-in transition models
  size_t n = 0;
  std::vector<double> P, F, E;
  std::map<std::string, std::shared_ptr<HmmLikelihood>> obj;
  std::map<std::string, std::shared_ptr<Parametrizable>> par;   // the same objects, as Parametrizable
  std::map<std::string, std::vector<std::vector<double>>> buf;  // targets of getHiddenStatesPosteriorProbabilities(probs, append)
  // sizes of the arrays read by get(D|D2)LogLikelihoodForASite (private members; the accessors do not check their
  // argument): the number of positions once a derivative of that order has been computed
  struct Shadow { size_t dN = 0, d2N = 0; };
  std::map<std::string, Shadow> sh;
};

template<class L> void reg(State& s, const std::string& k, std::shared_ptr<L> p) { s.obj[k] = p; s.par[k] = p; }

std::string run(State& s, const Toks& t) {
  const std::string& o = t[0];
  if (o == "states") { s.n = toU(t[1]); s.P.clear(); s.F.clear(); s.E.clear(); return "ok"; }
  if (o == "trans") { s.P.clear(); for (size_t i = 1; i < t.size(); ++i) s.P.push_back(hexToDouble(t[i])); return "ok"; }
  if (o == "eq") { s.F.clear(); for (size_t i = 1; i < t.size(); ++i) s.F.push_back(hexToDouble(t[i])); return "ok"; }
  if (o == "emis") { for (size_t i = 1; i < t.size(); ++i) s.E.push_back(hexToDouble(t[i])); return std::to_string(s.E.size() / (s.n ? s.n : 1)); }
  if (o == "build") {
    // build <obj> <resc|low|log> <withParams 0|1> [chunk]
    if (s.n == 0 || s.P.size() != s.n * s.n || s.F.size() != s.n || s.E.empty() || s.E.size() % s.n) return "bad-stage";
    auto a = std::make_shared<TAlphabet>(s.n);
    auto tr = std::make_shared<TTransitions>(a, s.P, s.F);
    auto em = std::make_shared<TEmissions>(a, s.E, t[3] == "1");
    s.obj.erase(t[1]); s.par.erase(t[1]); s.sh.erase(t[1]);
    if (t[2] == "resc") reg(s, t[1], std::make_shared<RescaledHmmLikelihood>(a, tr, em, ""));
    else if (t[2] == "low") reg(s, t[1], std::make_shared<LowMemoryRescaledHmmLikelihood>(a, tr, em, "", toU(t[4])));
    else if (t[2] == "log") reg(s, t[1], std::make_shared<LogsumHmmLikelihood>(a, tr, em, ""));
    else return "bad-op";
    return hx(s.obj[t[1]]->getLogLikelihood());
  }
  if (o == "buildtm") {
    // buildtm <obj> <resc|low|log> <withParams 0|1> <tm> [chunk]: the transition matrix is a copy of the built-in model <tm>
    auto q = s.tm.find(t[4]);
    if (q == s.tm.end()) return "no-object";
    size_t n = q->second->getNumberOfStates();
    if (s.n != n || s.E.empty() || s.E.size() % s.n) return "bad-stage";
    auto a = std::make_shared<TAlphabet>(n);
    std::shared_ptr<HmmTransitionMatrix> tr(dynamic_cast<AbstractHmmTransitionMatrix*>(q->second->clone()));
    auto em = std::make_shared<TEmissions>(a, s.E, t[3] == "1");
    s.obj.erase(t[1]); s.par.erase(t[1]); s.sh.erase(t[1]);
    if (t[2] == "resc") reg(s, t[1], std::make_shared<RescaledHmmLikelihood>(a, tr, em, ""));
    else if (t[2] == "low") reg(s, t[1], std::make_shared<LowMemoryRescaledHmmLikelihood>(a, tr, em, "", toU(t[5])));
    else if (t[2] == "log") reg(s, t[1], std::make_shared<LogsumHmmLikelihood>(a, tr, em, ""));
    else return "bad-op";
    return hx(s.obj[t[1]]->getLogLikelihood());
  }
  // ---- built-in transition matrices
  if (o == "tm") {
    auto a = std::make_shared<TAlphabet>(toU(t[3]));
    if (t[2] == "auto") s.tm[t[1]] = std::make_shared<AutoCorrelationTransitionMatrix>(a, "");
    else if (t[2] == "full") s.tm[t[1]] = std::make_shared<FullHmmTransitionMatrix>(a, "");
    else return "bad-op";
    return "ok";
  }
  if (o.compare(0, 2, "tm") == 0) {
    auto q = t.size() > 1 ? s.tm.find(t[1]) : s.tm.end();
    if (q == s.tm.end()) return "no-object";
    AbstractHmmTransitionMatrix& M = *q->second;
    Parametrizable& MP = dynamic_cast<Parametrizable&>(M);
    size_t n = M.getNumberOfStates();
    if (o == "tmset") { MP.setParameterValue(t[2], hexToDouble(t[3])); return "ok"; }
    if (o == "tmsetP") {
      RowMatrix<double> m(n, n);
      for (size_t i = 0; i < n; ++i) for (size_t j = 0; j < n; ++j) m(i, j) = hexToDouble(t[2 + i * n + j]);
      auto* f = dynamic_cast<FullHmmTransitionMatrix*>(&M); if (!f) return "bad-op";
      f->setTransitionProbabilities(m); return "ok";
    }
    if (o == "tmpij") { const Matrix<double>& m = M.getPij(); std::vector<double> f; for (size_t i = 0; i < n; ++i) for (size_t j = 0; j < n; ++j) f.push_back(m(i, j)); return hxs(f); }
    if (o == "tmPij") { if (toU(t[2]) >= n || toU(t[3]) >= n) return "bad-index"; return hx(M.Pij(toU(t[2]), toU(t[3]))); }
    if (o == "tmall") {
      // getPij(), every Pij(i,j), getEquilibriumFrequencies() ("pe": the matrix first, "ep": the vector first)
      std::vector<double> P, Q, E;
      if (t[2] == "ep") E = M.getEquilibriumFrequencies();
      { const Matrix<double>& m = M.getPij(); for (size_t i = 0; i < n; ++i) for (size_t j = 0; j < n; ++j) P.push_back(m(i, j)); }
      if (t[2] != "ep") E = M.getEquilibriumFrequencies();
      for (size_t i = 0; i < n; ++i) for (size_t j = 0; j < n; ++j) Q.push_back(M.Pij(i, j));
      return hxs(P) + " ; " + hxs(Q) + " ; " + hxs(E);
    }
    if (o == "tmassign") {
      auto q2 = s.tm.find(t[2]);
      if (q2 == s.tm.end()) return "no-object";
      auto* fa = dynamic_cast<FullHmmTransitionMatrix*>(&M); auto* fb = dynamic_cast<FullHmmTransitionMatrix*>(q2->second.get());
      auto* aa = dynamic_cast<AutoCorrelationTransitionMatrix*>(&M); auto* ab = dynamic_cast<AutoCorrelationTransitionMatrix*>(q2->second.get());
      if (fa && fb) *fb = *fa; else if (aa && ab) *ab = *aa; else return "class-mismatch";
      return "ok";
    }
    if (o == "tmeq") return hxs(M.getEquilibriumFrequencies());
    if (o == "tmnames") { std::string r; for (auto& nm : MP.getParameters().getParameterNames()) r += (r.empty() ? "" : " ") + strToHex(nm); return r.empty() ? "-" : r; }
    if (o == "tmclone") { s.tm[t[2]] = std::shared_ptr<AbstractHmmTransitionMatrix>(dynamic_cast<AbstractHmmTransitionMatrix*>(M.clone())); return "ok"; }
    return "bad-op";
  }
  if (o == "clone") {
    // clone <src> <dst>: deep copy through the virtual clone() of the likelihood class
    auto q = s.obj.find(t[1]);
    if (q == s.obj.end()) return "no-object";
    std::shared_ptr<HmmLikelihood> c(q->second->clone());
    std::shared_ptr<Parametrizable> cp = std::dynamic_pointer_cast<Parametrizable>(c);
    s.obj[t[2]] = c; s.par[t[2]] = cp; s.sh[t[2]] = s.sh[t[1]];
    return hx(c->getLogLikelihood());
  }
  if (o == "assign") {
    // assign <src> <dst>: *dst = *src through operator= of the likelihood class
    auto a = s.obj.find(t[1]), b = s.obj.find(t[2]);
    if (a == s.obj.end() || b == s.obj.end()) return "no-object";
    if (!(assignAs<RescaledHmmLikelihood>(*b->second, *a->second) || assignAs<LowMemoryRescaledHmmLikelihood>(*b->second, *a->second)
          || assignAs<LogsumHmmLikelihood>(*b->second, *a->second))) return "class-mismatch";
    s.sh[t[2]] = s.sh[t[1]];
    return hx(b->second->getLogLikelihood());
  }
  if (o == "agree") {
    std::string r;
    for (size_t i = 1; i < t.size(); ++i) { auto q = s.obj.find(t[i]); r += (i > 1 ? " " : "") + (q == s.obj.end() ? std::string("none") : hx(q->second->getLogLikelihood())); }
    return r;
  }
  auto it = t.size() > 1 ? s.obj.find(t[1]) : s.obj.end();
  if (it == s.obj.end()) return "no-object";
  HmmLikelihood& L = *it->second;
  Parametrizable& Pz = *s.par[t[1]];
  if (o == "ll") return hx(L.getLogLikelihood());
  if (o == "val") return hx(L.getValue());
  if (o == "brk") { std::vector<size_t> b; for (size_t i = 2; i < t.size(); ++i) b.push_back(toU(t[i])); L.setBreakPoints(b); return hx(L.getLogLikelihood()); }
  if (o == "setp") { Pz.setParameterValue(t[2], hexToDouble(t[3])); return hx(L.getLogLikelihood()); }
  if (o == "ns") { Pz.setNamespace(t.size() > 2 ? t[2] : std::string()); return hx(L.getLogLikelihood()); }
  if (o == "names") { std::string r; for (auto& nm : Pz.getParameters().getParameterNames()) r += (r.empty() ? "" : " ") + nm; return r.empty() ? "-" : r; }
  if (o == "setps") {
    ParameterList pl;
    for (size_t i = 2; i + 1 < t.size(); i += 2) pl.addParameter(Parameter(t[i], hexToDouble(t[i + 1])));
    L.setParameters(pl); return hx(L.getLogLikelihood());
  }
  if (o == "post") { std::vector<std::vector<double>> vv; L.getHiddenStatesPosteriorProbabilities(vv, false); std::vector<double> f; for (auto& r : vv) for (double d : r) f.push_back(d); return hxs(f); }
  if (o == "postb") { auto& vv = s.buf[t[2]]; L.getHiddenStatesPosteriorProbabilities(vv, t[3] == "1"); return hrows(vv); }
  if ((o == "post1" || o == "sl") && toU(t[2]) >= L.hmmEmissionProbabilities().getNumberOfPositions()) return "bad-site";
  if (o == "post1") return hxs(L.getHiddenStatesPosteriorProbabilitiesForASite(toU(t[2])));
  if (o == "sl") return hx(L.getLikelihoodForASite(toU(t[2])));
  if (o == "sls") return hxs(L.getLikelihoodForEachSite());
  if ((o == "d1" || o == "d2" || o == "dsite" || o == "d2site") && t.size() < 3) return "bad-op";
  if (o == "d1" || o == "d2") {
    double v = o == "d1" ? L.getFirstOrderDerivative(t[2]) : L.getSecondOrderDerivative(t[2]);
    if (!t[2].empty()) {
      size_t T = L.hmmEmissionProbabilities().getNumberOfPositions();
      State::Shadow& h = s.sh[t[1]];
      h.dN = T;
      if (o == "d2") h.d2N = T;
    }
    return hx(v);
  }
  if (o == "dsite" || o == "d2site") {
    size_t site = toU(t[2]);
    const State::Shadow& h = s.sh[t[1]];
    bool isResc = dynamic_cast<RescaledHmmLikelihood*>(&L) != nullptr, isLog = dynamic_cast<LogsumHmmLikelihood*>(&L) != nullptr;
    if ((isResc || isLog) && (site >= h.dN || (o == "d2site" && site >= h.d2N))) return "ub";
    return hx(o == "dsite" ? L.getDLogLikelihoodForASite(site) : L.getD2LogLikelihoodForASite(site));
  }
  return "bad-op";
}
}

int main() {
  // the rescaled class reports clipped negative values on ApplicationTools::warning (stdout by default)
  ApplicationTools::warning = std::make_shared<NullOutputStream>();
  State s;
  return runLoop(
    [&](const Toks&) { s = State(); },
    [&](const Toks& t) -> std::string {
      try { return run(s, t); }
      catch (ParameterNotFoundException&) { return "exc:notfound"; }
      catch (ConstraintException&) { return "exc:constraint"; }
      catch (IndexOutOfBoundsException&) { return "exc:index"; }
      catch (Exception&) { return "exc:bpp"; }
    });
}
